"""C07 -- Krylov iterates are the optimal elements of the Krylov space.

correspondence : the recurrences of cg, cr, cgne, cgnr, steepest_descent, minimal_residual (alpha, beta,
                 direction update, side of the preconditioner, conjugations) as Lean models
                 (Model/C07Krylov.lean, run on Rat / Gaussian rationals, op `c07_iter`) vs the iterates the
                 public functions hand to `callback`, per k, relative 1e-8 (binary64 vs exact arithmetic on
                 well-conditioned systems); GMRES(MGS) single cycle and restarted, GMRES(Householder) and
                 FGMRES (fixed and step-dependent preconditioner) as binary64 models (Model/C07Gmres.lean,
                 Model/ExtC07Restart.lean, Model/ExtC07Hh.lean; ops c07_gmres_mgs, ext_gmres_restart,
                 ext_gmres_hh, ext_fgmres) vs the callback iterates, same tolerance; (extension E43) on complex
                 systems the same four comparisons vs the pair models of Model/ExtCGGmres.lean executed on pairs of
                 binary64 numbers (op ext_cg_cycle mgs | mgsr | hh | fg: conjugated inner products, zlartg rotations
                 [[c, s], [-conj s, c]], complex _mysign), same tolerance.
search         : every public solver vs the SPECIFICATION-level minimiser, computed without any recurrence:
                 exact G-orthogonal projection on the power basis of the (preconditioned) Krylov space over
                 Rat / Gaussian rationals (op `c07_krylov_argmin`, complex: `ext_c07c_argmin`, Model/C07Argmin.lean;
                 the result is re-checked exactly against the Galerkin conditions defining the minimiser by checkers
                 proved sound: certV real, certVH complex, Model/ExtC07CCert.lean), compared with
                 the k-th iterate in the promised norm for every k <= n; monotonicity of that norm; solved in
                 at most n steps; exact line search of every steepest-descent / minimal-residual step;
                 restarted GMRES cycles; prefix runs (maxiter = k); flexible GMRES with a preconditioner
                 that changes from step to step (dense NumPy oracle over the recorded directions).
"""
import hashlib
import warnings

import numpy as np
import scipy.sparse as sp
from scipy.sparse.linalg import LinearOperator

from common import enc_rats, enc_crats, dec_list, dec_rat, dec_crat, float_bits

META = {
    'rule': 'case = (solver, matrix, preconditioner, b, x0, number of steps K <= n, storage of A and M, restart); '
            'matrices n = 1..8 (a few up to 12) with condition number <= 100: Hermitian positive definite (integer '
            'Q Q^H + cI, 1-D Poisson with unit phases, prescribed spectrum rounded to dyadics, clustered spectrum, '
            'rank-one update of the identity) for cg/cr/steepest_descent/minimal_residual, additionally general '
            'nonsingular (integer diagonally dominant, convection-diffusion, prescribed singular values, non-normal '
            'triangular perturbation) for gmres (both orthogonalisations), fgmres, cgnr, cgne; real and complex; '
            'M in {none, diagonal, alpha I + beta A, dense HPD with condition <= 10}; x0 in {none, 0, random, large, '
            'exact}; mixed dtypes for every solver (real A with complex b and/or complex x0, complex A with real b and x0, real A '
            'with complex Hermitian M and real or complex b, float32/complex64 storage of A and M, all-single-precision '
            'systems); non-trivial = K >= 2 and r0 != 0; distinct = distinct (solver, options, input) tuples',
    'search_only': [
        'GMRES with Householder reflections and FGMRES (native kernels apply_householders / householder_hornerscheme / '
        'apply_givens of krylov.h): executable models (Model/ExtC07Hh.lean: Householder vectors, Givens rotations, back '
        'substitution, x0 + Z y / Horner scheme) run in binary64 and compared with the callback iterates (ops ext_fgmres, '
        'ext_gmres_hh; real case); fgmres_optimal (any preconditioner sequence) and gmres_householder_optimal_krylov are '
        'proved for exact square roots, fewer than n inner iterations, non-singular triangular factor; LAPACK lartg / '
        'sp.linalg.solve are modelled by their defining formulas; the iterate after exactly n inner iterations '
        'and the state after an exact breakdown (zero block left in Q) are search only (complex systems: see the E43 entry)',
        'GMRES(MGS): the executable model is run in binary64 and compared with the code, single cycle (c07_gmres_mgs) and '
        'restarted (ext_gmres_restart); gmres_mgs_optimal_krylov / gmres_restart_optimal (+ residual monotonicity across '
        'restarts) are proved for exact square roots (real case), fewer than n inner iterations per cycle, no breakdown; '
        'k = n and the reorth option are search only',
        'complex systems, GMRES variants (extension E43): no longer search only for fewer than n inner iterations per cycle -- '
        'executable pair models (Model/ExtCGGmres.lean: complex numbers as pairs (re, im), conjugated MGS / complex '
        'Householder reflections with _mysign, zlartg rotations with real c, back substitution, x0 + Z y / Horner scheme) run '
        'on binary64 pairs and compared with the callback iterates (op ext_cg_cycle), and for the same definitions over '
        'pairs of an ordered field with an exact square root: complex_gmres_mgs_pairs_optimal_krylov, '
        'complex_gmres_householder_pairs_optimal_krylov (iterate in x0 + K_k(MA, M r0), minimal preconditioned residual), '
        'complex_fgmres_pairs_optimal (any preconditioner maps), hypothesis: the recorded estimate g[k] is non-zero (no '
        'breakdown so far); restarted: complex_gmres_restart_vec_optimal (every logged iterate is optimal within its '
        'cycle). Still search only for complex GMRES: k = n, reorth, mixed dtypes / single precision, LAPACK zlartg / sp.linalg.solve modelled by their defining formulas. '
        'Also proved (E37): the Hermitian least-squares characterisation (complex_gmres_optimal_of_qr / _of_least_squares) '
        'and the soundness of the oracle certificate (complex_argmin_certificate_sound, op ext_c07c_argmin: Hermitian '
        'test of the Gram matrix + conjugating Vector checker). [cg, cr, cgnr, cgne, steepest_descent, minimal_residual '
        'on complex systems: complex_cg_optimal ... complex_mr_exact_line_search are about the Gaussian-rational terms op '
        'c07_iter evaluates]',
        'flexible GMRES with a varying preconditioner: dense NumPy least-squares oracle over the recorded directions '
        '(search) next to the model correspondence (ext_fgmres with the preconditioners used cyclically)',
        'bicgstab: the property promises no minimiser; "solved within n steps" is only counted (feature bicgstab-solved), '
        'never judged',
        'monotonicity and n-step termination in binary64 (theorems: exact arithmetic)',
        'mixed dtypes and single precision: search only (exact complex oracle; single precision judged at 2e-3 on '
        'kappa^(n/2) <= 1e3); real A + real b + complex x0: make_system discards Im(x0), judged from Re(x0)',
    ],
    'partial': [],
    'assumptions': [
        'binary64 rounding is outside the models: iterates are compared with relative tolerance 1e-8 (of the initial '
        'value of the promised norm, plus 1e-12 of the solution norm) on systems with condition number <= 100, '
        'preconditioner condition <= 10',
        'no breakdown: the theorems assume the denominators rz / zr / rAz are non-zero before step k (checked per '
        'instance by the exact model, which stops at the first zero denominator; the real code is never asked for more '
        'steps than the grade of r0, i.e. than the Krylov space has dimensions)',
        'condition number of the (preconditioned) operator <= min(100, 10^(12/n)): conjugate-gradient type recurrences '
        'lose about eps*kappa^(n/2) of the optimality after n steps in binary64 (measured: 9e-9 at kappa = 100, n = 8)',
        'A (and M) Hermitian positive definite where the method requires it: part of the generators',
        'preconditioned CR: the theorems (cr_commuting_preconditioner_optimal, complex_cr_optimal) assume M A = A M; the '
        'generator family M = alpha I + beta A satisfies it exactly (dyadic entries), `commutes(s)` tests it per instance; '
        'a non-commuting M is the known finding cr-noncommuting-preconditioner',
        'positive semidefiniteness of the Gram matrix handed to the complex certificate checker: G = A (kind cg, HPD by '
        'the generator) or G = B^H B (gram_matrix_psd); its Hermitian symmetry is tested exactly by the driver (isHermL)',
        'complex GMRES pair models (extension E43): exact square root of the non-negative reals (theorems) vs Float.sqrt on '
        'binary64 pairs (correspondence, relative 1e-8); complex division a*conj(b)/|b|^2 and the zlartg formula c = |f|/d, '
        's = (f/|f|) conj(g)/d, d = sqrt(|f|^2+|g|^2) (f = 0: c = 0, s = conj(g)/|g|) stand for the scaled LAPACK / NumPy '
        'variants (equal in exact arithmetic)',
    ],
}

TOL = 1e-8          # relative to the initial value of the promised norm
FLOOR = 1e-12       # relative to the norm of the solution / start (rounding floor)

HPD_ONLY = ('cg', 'cr', 'steepest_descent', 'minimal_residual')
# solver -> (argmin kind, needs HPD, recurrence model available)
KRY = {'cg': 'cg', 'cr': 'res', 'cgnr': 'cgnr', 'cgne': 'cgne',
       'gmres_mgs': 'gmres', 'gmres_householder': 'gmres', 'gmres': 'gmres', 'fgmres': 'res'}
LINE = {'steepest_descent': 'cg', 'minimal_residual': 'gmres'}
REC = ('cg', 'cr', 'cgne', 'cgnr', 'steepest_descent', 'minimal_residual')
GM = ('gmres_mgs', 'gmres_householder', 'gmres', 'fgmres')
PROMISE = {'cg': 'energy norm of the error', 'res': '2-norm of the residual', 'cgnr': '2-norm of the residual',
           'cgne': '2-norm of the error', 'gmres': '2-norm of the preconditioned residual'}


def _key(*a):
    return hashlib.sha1(repr(a).encode()).hexdigest()


def _enc(a):
    a = np.asarray(a)
    if np.iscomplexobj(a):
        return {'re': a.real.tolist(), 'im': a.imag.tolist()}
    return a.astype(float).tolist()


def _dec(o, cplx):
    if isinstance(o, dict):
        return np.array(o['re'], dtype=float) + 1j * np.array(o['im'], dtype=float)
    a = np.array(o, dtype=float)
    return a.astype(complex) if cplx else a


# ------------------------------------------------------------------------------------------------
# generators (every precondition of the property is part of the generator: cond(A) <= 100, HPD, SPD M)
# ------------------------------------------------------------------------------------------------

def _rint(rng, shape, lo, hi, cplx):
    a = rng.integers(lo, hi + 1, size=shape).astype(float)
    if cplx:
        a = a + 1j * rng.integers(lo, hi + 1, size=shape)
    return a


def _dy(a, bits=10):
    """round to multiples of 2^-bits (keeps the exact rationals of the Lean side short)"""
    s = float(2 ** bits)
    a = np.asarray(a)
    if np.iscomplexobj(a):
        return np.round(a.real * s) / s + 1j * (np.round(a.imag * s) / s)
    return np.round(a * s) / s


def _unitary(rng, n, cplx):
    Z = rng.standard_normal((n, n)) + (1j * rng.standard_normal((n, n)) if cplx else 0)
    Q, _ = np.linalg.qr(Z)
    return Q


def _spectrum(rng, n, kappa):
    k = int(rng.integers(0, 3))
    if n == 1:
        return np.array([float(rng.choice([1.0, 2.0, 4.0]))])
    if k == 0:
        return np.geomspace(1.0, kappa, n)
    if k == 1:
        return np.linspace(1.0, kappa, n)
    return np.sort(rng.uniform(1.0, kappa, n))


def gen_hpd(rng, n, cplx, kmax=100.0):
    dt = complex if cplx else float
    for _ in range(50):
        fam = str(rng.choice(['int-hpd', 'poisson', 'spectrum', 'cluster', 'rank1']))
        if n == 1:
            A, fam = np.array([[float(rng.integers(1, 6))]]), 'scalar'
        elif fam == 'int-hpd':
            Q = _rint(rng, (n, n), -1, 1, cplx)
            A = Q @ Q.conj().T + (n + int(rng.integers(0, 3))) * np.eye(n)
        elif fam == 'poisson':
            A = (2 * np.eye(n) - np.eye(n, k=1) - np.eye(n, k=-1)).astype(dt)
            if cplx:
                ph = np.array([1, 1j, -1, -1j])[rng.integers(0, 4, size=n)]
                A = (ph[:, None] * A) * ph.conj()[None, :]
        elif fam == 'spectrum':
            Q = _unitary(rng, n, cplx)
            lam = _spectrum(rng, n, min(float(rng.choice([2.0, 10.0, 40.0, 80.0])), 0.9 * kmax))
            A = _dy((Q * lam) @ Q.conj().T)
            A = (A + A.conj().T) / 2
        elif fam == 'cluster':
            Q = _unitary(rng, n, cplx)
            pool = [v for v in (1.0, 2.0, 3.0, 8.0, 20.0) if v <= max(1.0, 0.9 * kmax)]
            vals = rng.choice(pool, size=min(int(rng.integers(1, 4)), len(pool)), replace=False)
            lam = rng.choice(vals, size=n)
            A = _dy((Q * lam) @ Q.conj().T)
            A = (A + A.conj().T) / 2
        else:
            u = _rint(rng, n, -2, 2, cplx)
            A = float(rng.integers(1, 4)) * np.eye(n) + np.outer(u, u.conj())
        A = A.astype(dt)
        ev = np.linalg.eigvalsh(A)
        if ev[0] > 0 and ev[-1] / ev[0] <= kmax:
            return A, fam
    return np.eye(n, dtype=dt) * 2.0, 'identity'


def gen_general(rng, n, cplx, kmax=100.0):
    dt = complex if cplx else float
    for _ in range(50):
        fam = str(rng.choice(['int-dd', 'convdiff', 'svd', 'nonnormal', 'hpd']))
        if n == 1:
            v = float(rng.choice([-3, -1, 2, 4])) + (1j * float(rng.integers(-2, 3)) if cplx else 0)
            A, fam = np.array([[v]]), 'scalar'
        elif fam == 'int-dd':
            A = _rint(rng, (n, n), -1, 1, cplx)
            np.fill_diagonal(A, 0)
            A = A + (n + int(rng.integers(0, 3))) * np.eye(n) * (1j if (cplx and rng.random() < 0.3) else 1)
        elif fam == 'convdiff':
            A = 2.5 * np.eye(n) - 1.5 * np.eye(n, k=1) - 0.5 * np.eye(n, k=-1)
            if cplx:
                A = A + 0.5j * np.eye(n, k=1)
        elif fam == 'svd':
            U, V = _unitary(rng, n, cplx), _unitary(rng, n, cplx)
            sg = _spectrum(rng, n, min(float(rng.choice([2.0, 10.0, 40.0, 80.0])), 0.9 * kmax))
            A = _dy((U * sg) @ V.conj().T)
        elif fam == 'nonnormal':
            A = np.triu(_rint(rng, (n, n), -2, 2, cplx), 1) + np.diag(rng.choice([2.0, 3.0, 4.0, -3.0], size=n))
        else:
            A, _f = gen_hpd(rng, n, cplx, kmax)
        A = np.asarray(A).astype(dt)
        sv = np.linalg.svd(A, compute_uv=False)
        if sv[-1] > 0 and sv[0] / sv[-1] <= kmax:
            return A, fam
    return np.eye(n, dtype=dt) * 2.0, 'identity'


def gen_precond(rng, A, cplx, hpdA):
    """fixed Hermitian positive definite preconditioner with condition number <= 10, or None"""
    n = A.shape[0]
    fam = str(rng.choice(['none', 'none', 'diag', 'jacobi', 'poly', 'dense', 'scalar']))
    if fam == 'none':
        return None, 'none'
    if fam == 'diag' or n == 1:
        return np.diag(rng.choice([0.5, 1.0, 2.0, 0.25], size=n)).astype(A.dtype), 'diag'
    if fam == 'jacobi':
        d = np.abs(np.diag(A))
        d = np.where(d == 0, 1.0, d)
        return np.diag(2.0 ** (-np.round(np.log2(d)))).astype(A.dtype), 'jacobi'
    if fam == 'scalar':
        return (float(rng.choice([0.5, 2.0, 0.125])) * np.eye(n)).astype(A.dtype), 'scalar'
    if fam == 'poly' and hpdA:
        ev = np.linalg.eigvalsh(A)
        al = float(2.0 ** np.ceil(np.log2(ev[-1])))     # M = (2 al I - A)/al : HPD, commutes with A, cond <= ~2
        return ((2 * al * np.eye(n) - A) / al).astype(A.dtype), 'poly'
    for _ in range(20):
        Q = _unitary(rng, n, cplx)
        lam = np.sort(rng.uniform(1.0, float(rng.choice([2.0, 5.0, 9.0])), n))
        M = _dy((Q * lam) @ Q.conj().T / 2.0)
        M = (M + M.conj().T) / 2
        ev = np.linalg.eigvalsh(M)
        if ev[0] > 0 and ev[-1] / ev[0] <= 10:
            return M.astype(A.dtype), 'dense'
    return None, 'none'


def kbound(n):
    """admissible condition number of the (preconditioned) operator: finite-precision conjugate-gradient type recurrences
    lose about eps * kappa^(n/2) of the optimality after n steps, so `well-conditioned` is kappa <= min(100, 10^(12/n))"""
    return min(100.0, 10.0 ** (12.0 / max(n, 1)))


def make_case(rng, solver, nmax=8, long_run=False, nmin=1):
    cplx = bool(rng.random() < 0.4)
    n = int(rng.integers(nmin, nmax + 1))
    if solver in GM and n == 1 and rng.random() < 0.7:
        n = int(rng.integers(2, nmax + 1))
    hpd = solver in HPD_ONLY or solver in LINE
    kb = kbound(n)
    ka = np.sqrt(kb) if solver in ('cgnr', 'cgne') else kb
    for _try in range(40):
        if long_run:
            # slow convergence wanted: 50 line searches must not reach rounding level (condition 40..90, n = 2..4)
            n = int(rng.integers(2, 5))
            Q = _unitary(rng, n, cplx)
            A = _dy((Q * np.geomspace(1.0, float(rng.uniform(40.0, 90.0)), n)) @ Q.conj().T)
            A, fam = ((A + A.conj().T) / 2).astype(complex if cplx else float), 'slow'
            ev = np.linalg.eigvalsh(A)
            if ev[0] <= 0 or ev[-1] / ev[0] > 100:
                continue
            if rng.random() < 0.5:
                M, mfam = None, 'none'
            elif solver == 'minimal_residual':     # <M A z, z> must stay positive for 50 steps: M = c I
                M, mfam = (2.0 * np.eye(n)).astype(A.dtype), 'scalar'
            else:
                M, mfam = np.diag(rng.choice([1.0, 2.0], size=n)).astype(A.dtype), 'diag'
            if 30 <= keff(solver, A, M) <= 100:
                break
            continue
        A, fam = gen_hpd(rng, n, cplx, ka) if hpd else gen_general(rng, n, cplx, ka)
        hpdA = bool(np.allclose(A, A.conj().T) and np.linalg.eigvalsh((A + A.conj().T) / 2)[0] > 0)
        M, mfam = gen_precond(rng, A, cplx, hpdA)
        if M is not None and keff(solver, A, M) > kb:
            M, mfam = None, 'none'
        if keff(solver, A, M) <= kb:
            break
    else:
        A, fam, M, mfam = 2.0 * np.eye(n, dtype=complex if cplx else float), 'identity', None, 'none'
    xk = str(rng.choice(['none', 'zero', 'random', 'random', 'large', 'exact', 'zerob'] if not long_run else ['none', 'random', 'zero']))
    xs = _rint(rng, n, -3, 3, cplx) if rng.random() < 0.6 else _dy(rng.standard_normal(n) + (1j * rng.standard_normal(n) if cplx else 0), 8)
    b = A @ xs
    x0 = None
    if xk == 'zero':
        x0 = np.zeros(n, dtype=A.dtype)
    elif xk == 'random':
        x0 = _rint(rng, n, -3, 3, cplx) if rng.random() < 0.5 else _dy(rng.standard_normal(n) + (1j * rng.standard_normal(n) if cplx else 0), 8)
    elif xk == 'large':
        x0 = _rint(rng, n, -3, 3, cplx) * float(rng.choice([2.0 ** 10, 1000.0]))
    elif xk == 'exact':
        x0 = xs.copy()
    elif xk == 'zerob':
        b = np.zeros(n, dtype=A.dtype)
        x0 = _rint(rng, n, -3, 3, cplx)
    if long_run:
        # start with equal residual components in the extreme eigenvectors of the (symmetrically) preconditioned
        # operator -- the classical slow zig-zag of line-search methods -- so that 50 steps do not reach rounding level
        Mh = np.eye(n) if M is None else np.sqrt(np.real(np.diag(M)))[:, None] * np.eye(n)
        lam, U = np.linalg.eigh(Mh @ A @ Mh)
        r0 = np.linalg.solve(Mh, U[:, 0] + U[:, -1])
        x0 = _dy(xs - np.linalg.solve(A, r0) * 4.0, 10)
        xk = 'zigzag'
    if x0 is not None:
        x0 = x0.astype(A.dtype)
    K = n if (rng.random() < 0.6 or nmin > 1) else int(rng.integers(1, n + 1))
    if solver in LINE:
        K = int(rng.integers(1, 6)) if not long_run else int(rng.integers(51, 54))
    case = {'solver': solver, 'cplx': cplx, 'n': n, 'fam': fam, 'mfam': mfam, 'xkind': xk, 'A': _enc(A), 'b': _enc(b),
            'x0': None if x0 is None else _enc(x0), 'M': None if M is None else _enc(M), 'K': K,
            'akind': str(rng.choice(['dense', 'dense', 'csr', 'linop'] if solver not in ('cgne', 'cgnr') else ['dense', 'csr'])),
            'mkind': str(rng.choice(['dense', 'csr', 'linop'])), 'restart': None, 'orthog': None, 'crit': None}
    if solver == 'gmres':
        case['orthog'] = str(rng.choice(['householder', 'mgs']))
    if solver == 'gmres_mgs' and rng.random() < 0.3:
        case['reorth'] = True
    if solver in GM and n >= 3 and rng.random() < 0.3:
        case['restart'] = int(rng.integers(1, n))
        case['K'] = int(rng.integers(2, 4))          # number of cycles
    if solver in ('cg', 'cgne', 'cgnr', 'steepest_descent'):
        case['crit'] = str(rng.choice(['rr', 'rr', 'rr+', 'MrMr', 'rMr']))
    elif solver == 'cr':
        case['crit'] = str(rng.choice(['rr', 'rr', 'rr+', 'MrMr']))
    if case['crit'] == 'rr+' and case['akind'] == 'linop':
        case['akind'] = 'csr'          # ||A||_F is not available for a LinearOperator (documented)
    return case


# ------------------------------------------------------------------------------------------------
# running the real code
# ------------------------------------------------------------------------------------------------

class _Sys:
    pass


def build(case):
    cplx = case['cplx']
    s = _Sys()
    s.A = np.atleast_2d(_dec(case['A'], cplx))
    s.n = n = s.A.shape[0]
    s.b = _dec(case['b'], cplx).ravel()
    s.x0 = None if case['x0'] is None else _dec(case['x0'], cplx).ravel()
    s.M = None if case['M'] is None else np.atleast_2d(_dec(case['M'], cplx))
    s.Md = np.eye(n, dtype=s.A.dtype) if s.M is None else s.M
    s.x0d = np.zeros(n, dtype=s.A.dtype) if s.x0 is None else s.x0

    def wrap(D, kind):
        D = D.copy()
        if kind == 'dense':
            return D
        if kind == 'csr':
            S = sp.csr_array(D)
            S.indptr, S.indices = S.indptr.astype(np.int32), S.indices.astype(np.int32)
            return S
        DH = D.conj().T.copy()
        return LinearOperator((n, n), matvec=lambda v: D @ v, rmatvec=lambda v: DH @ v, dtype=D.dtype)

    st = case.get('store')
    if st:
        # mixed dtypes: the mathematics above is done in complex128, the OBJECTS handed to the solver are stored as declared
        s.Aop = wrap(_store(s.A, st['A']), case['akind'])
        s.Mop = None if s.M is None else wrap(_store(s.M, st['M']), case['mkind'])
        s.b_in = _store(s.b, st['b'])
        s.x0_in = None if s.x0 is None else _store(s.x0, st['x0'])
        if st['A'] in 'df' and st['b'] in 'df' and s.x0 is not None:
            # make_system takes the work dtype from A and b: a complex x0 is cast to real (ComplexWarning), the iteration
            # starts from Re(x0)
            s.x0d = s.x0.real.astype(s.A.dtype)
        return s
    s.Aop = wrap(s.A, case['akind'])
    s.Mop = None if s.M is None else wrap(s.M, case['mkind'])
    return s


def _store(a, code):
    """'d' float64, 'D' complex128, 'f' float32, 'F' complex64 (real codes drop a zero imaginary part)"""
    a = np.asarray(a)
    if code in 'df':
        a = a.real
    return np.ascontiguousarray(a.astype({'d': np.float64, 'D': np.complex128, 'f': np.float32, 'F': np.complex64}[code]))


def call(case, s, maxiter, M='case', restart=None, x0='case', tol=None):
    """returns (x, info, log) or raises"""
    from pyamg import krylov
    f = getattr(krylov, case['solver'])
    # no early exit before `maxiter` steps (callers never ask for more steps than the Krylov space has dimensions)
    kw = {'tol': 1e-300 if tol is None else tol, 'maxiter': maxiter}
    x0 = getattr(s, 'x0_in', s.x0) if isinstance(x0, str) else x0
    if x0 is not None:
        kw['x0'] = x0.copy()
    Mop = s.Mop if isinstance(M, str) else M
    if Mop is not None:
        kw['M'] = Mop
    if case.get('crit'):
        kw['criteria'] = case['crit']
    if case.get('orthog'):
        kw['orthog'] = case['orthog']
    if case.get('reorth'):
        kw['reorth'] = True
    if restart is not None:
        kw['restart'] = restart
    log = []
    kw['callback'] = lambda xk: log.append(np.array(xk, copy=True).ravel())
    with warnings.catch_warnings():
        warnings.simplefilter('ignore')
        with np.errstate(all='ignore'):
            x, info = f(s.Aop, getattr(s, 'b_in', s.b).copy(), **kw)
    return np.asarray(x).ravel(), info, log


# ------------------------------------------------------------------------------------------------
# the promised norms (dense, binary64) and the Lean requests
# ------------------------------------------------------------------------------------------------

def gram(kind, s):
    A, M = s.A, s.Md
    if kind == 'cg':
        return A
    if kind == 'gmres':
        B = M @ A
        return B.conj().T @ B
    if kind in ('res', 'cgnr'):
        return A.conj().T @ A
    return np.eye(s.n, dtype=A.dtype)


def gnorm(G, v):
    return float(np.sqrt(max(float(np.real(np.vdot(v, G @ v))), 0.0)))


def _mat(D, cplx):
    f = enc_crats if cplx else enc_rats
    return ';'.join(f(row) for row in np.atleast_2d(D))


def _vec(v, cplx):
    return (enc_crats if cplx else enc_rats)(np.asarray(v).ravel())


def argmin_line(kind, s, cplx, x0, k):
    if cplx:
        # complex case: same oracle, certificate re-checked by the checker proved sound in Proofs/ExtC07CCert.lean
        # (conjugating Vector operations; the Gram matrix must be exactly Hermitian)
        return f'ext_c07c_argmin {kind} {_mat(s.A, cplx)} {_mat(s.Md, cplx)} {_vec(s.b, cplx)} {_vec(x0, cplx)} {k}'
    return f'c07_krylov_argmin {kind} {"c" if cplx else "r"} {_mat(s.A, cplx)} {_mat(s.Md, cplx)} {_vec(s.b, cplx)} {_vec(x0, cplx)} {k}'


def iter_line(solver, s, cplx, x0, k):
    return f'c07_iter {solver} {"c" if cplx else "r"} {_mat(s.A, cplx)} {_mat(s.Md, cplx)} {_vec(s.b, cplx)} {_vec(x0, cplx)} {k}'


def _fbits(v):
    return ','.join(str(float_bits(x)) for x in np.asarray(v, dtype=float).ravel())


def gmres_line(s, x0, k):
    """the GMRES(MGS) model of Model/C07Gmres.lean, run in binary64 (bit patterns in, bit patterns out)"""
    return f'c07_gmres_mgs {";".join(_fbits(r) for r in s.A)} {";".join(_fbits(r) for r in s.Md)} {_fbits(s.b)} {_fbits(x0)} {k}'


def ext_restart_line(s, x0, restart, cycles):
    """restarted GMRES(MGS), Model/ExtC07Restart.lean, binary64"""
    return (f'ext_gmres_restart {";".join(_fbits(r) for r in s.A)} {";".join(_fbits(r) for r in s.Md)} {_fbits(s.b)} '
            f'{_fbits(x0)} {restart} {cycles}')


def ext_hh_line(s, x0, k):
    """one cycle of GMRES with Householder orthogonalisation, Model/ExtC07Hh.lean, binary64"""
    return f'ext_gmres_hh {";".join(_fbits(r) for r in s.A)} {";".join(_fbits(r) for r in s.Md)} {_fbits(s.b)} {_fbits(x0)} {k}'


def ext_fgmres_line(A, Ms, b, x0, k):
    """one FGMRES cycle with the preconditioners Ms used cyclically, Model/ExtC07Hh.lean, binary64"""
    mats = '|'.join(';'.join(_fbits(r) for r in M) for M in Ms)
    return f'ext_fgmres {";".join(_fbits(r) for r in A)} {mats} {_fbits(b)} {_fbits(x0)} {k}'


def _cbits(v):
    """complex vector as interleaved re, im bit patterns (ops ext_cg_*)"""
    v = np.asarray(v, dtype=complex).ravel()
    return ','.join(f'{float_bits(z.real)},{float_bits(z.imag)}' for z in v)


def cg_cycle_line(kind, s, x0, k, cycles=0):
    """extension E43: the complex GMRES family, pair models of Model/ExtCGGmres.lean run in binary64
    (kind mgs | hh | fg: one cycle of k inner iterations; mgsr: `cycles` restarted cycles of k inner iterations)"""
    return (f'ext_cg_cycle {kind} {";".join(_cbits(r) for r in s.A)} {";".join(_cbits(r) for r in s.Md)} {_cbits(s.b)} '
            f'{_cbits(x0)} {k} {cycles}')


def parse_bits(reply):
    import struct
    if reply in ('-', 'bad-size') or reply.startswith('bad'):
        return None if reply != '-' else []
    return [np.array([struct.unpack('<d', struct.pack('<Q', int(t)))[0] for t in tok.split(',')]) for tok in reply.split(';')]


def _tovec(tok, cplx):
    if cplx:
        return np.array([complex(float(a), float(b)) for a, b in dec_list(tok, dec_crat)], dtype=complex)
    return np.array([float(q) for q in dec_list(tok, dec_rat)], dtype=float)


def parse_argmin(reply, cplx):
    """-> dict(cert, xs, ys, vals) or None"""
    parts = reply.split(' ')
    if len(parts) != 4:
        return None
    cert, xs, ys, vals = parts
    Y = [] if ys == '-' else [_tovec(t, cplx) for t in ys.split(';')]
    v = _tovec(vals, cplx)
    return {'cert': cert == '1', 'xs': _tovec(xs, cplx), 'ys': Y, 'vals': np.real(v)}


def parse_iter(reply, cplx):
    parts = reply.split(' ')
    if len(parts) != 2:
        return None
    return [] if parts[1] == '-' else [_tovec(t, cplx) for t in parts[1].split(';')]


def commutes(s):
    if s.M is None:
        return True
    C = s.M @ s.A - s.A @ s.M
    return float(np.linalg.norm(C)) <= 1e-12 * float(np.linalg.norm(s.M)) * float(np.linalg.norm(s.A))


def keff(solver, A, M):
    """condition number that governs the method: of the (preconditioned) operator whose Krylov space is searched"""
    Md = np.eye(A.shape[0]) if M is None else M
    if solver in ('cgnr',):
        B = Md @ A.conj().T @ A
    elif solver in ('cgne',):
        B = Md @ A @ A.conj().T
    else:
        B = Md @ A
    if solver in ('cg', 'cr', 'cgnr', 'cgne', 'steepest_descent', 'minimal_residual'):
        ev = np.abs(np.linalg.eigvals(B))
        return float(ev.max() / max(ev.min(), 1e-300))
    sv = np.linalg.svd(B, compute_uv=False)
    return float(sv[0] / max(sv[-1], 1e-300))


def fkey_of(case, s):
    """known-finding key of a failing input: ONLY preconditioned CR with a preconditioner that does not commute with A"""
    if case['solver'] == 'cr' and s.M is not None and not commutes(s):
        return 'cr-noncommuting-preconditioner'
    st = case.get('store')
    if st and s.M is not None and st['A'] in 'df' and st['b'] in 'df' and st['M'] in 'DF':
        return 'complex-preconditioner-real-system'
    return None


# ------------------------------------------------------------------------------------------------
# judging one case
# ------------------------------------------------------------------------------------------------

def _public(case):
    return {k: case[k] for k in ('solver', 'orthog', 'n', 'cplx', 'fam', 'mfam', 'xkind', 'K', 'akind', 'mkind', 'restart', 'crit')}


def grade_of(am, K):
    """number of steps after which the exact minimum vanishes (the Krylov space stops growing), at most K"""
    for j, v in enumerate(am['vals']):
        if v == 0:
            return j
    return K


def judge_segment(ctx, case, s, kind, start, iters, am, what_prefix, npad=0):
    """iters: implementation iterates 1..L from `start` (the last `npad` ones repeat the final iterate of a solver
    that stopped early); am: parsed exact minimisers from `start`.  Returns the number of violations recorded."""
    G = gram(kind, s)
    xs = am['xs']
    N0 = gnorm(G, xs - start)
    base = gnorm(G, xs) + gnorm(G, start) + gnorm(G, s.x0d)
    bad = 0
    prev = N0
    for j, xj in enumerate(iters, 1):
        if j > len(am['ys']):
            break
        floor = (FLOOR if j <= len(iters) - npad else 1e-10) * base + 1e-300
        if not np.all(np.isfinite(xj)):
            ctx.violation(f'{what_prefix}: iterate {j} is not finite', case, fkey=fkey_of(case, s))
            return bad + 1
        y = am['ys'][j - 1]
        dev = gnorm(G, xj - y)
        Nj = gnorm(G, xs - xj)
        Ny = gnorm(G, xs - y)
        if fkey_of(case, s) is None:
            rel = max(dev - floor, 0.0) / N0 if N0 > 0 else 0.0
            ctx.rel_err(rel)
            if hasattr(ctx, 'stats'):
                ctx.stats.append((case['solver'], rel, j, s.n, case['fam'], case['mfam'], case['xkind'], case['cplx'],
                                  round(keff(case['solver'], s.A, s.M))))
        if dev > TOL * N0 + floor:
            solved = am['vals'][j] == 0 if j < len(am['vals']) else False
            ctx.violation(f'{what_prefix}: iterate {j} is not the minimiser of the {PROMISE[kind]} over the {j}-dimensional '
                          f'Krylov space: value {Nj:.12g}, minimum {Ny:.12g}, distance to the minimiser {dev:.3g} '
                          f'(initial value {N0:.6g})' + (f'; the {s.n} x {s.n} system is not solved after {j} <= n steps'
                                                        if solved else ''), case, fkey=fkey_of(case, s),
                          detail={'step': j, 'iterate': _enc(xj), 'minimiser': _enc(y)})
            bad += 1
            break
        if Nj > prev * (1 + 1e-9) + floor:
            ctx.violation(f'{what_prefix}: the {PROMISE[kind]} increased at step {j}: {prev:.12g} -> {Nj:.12g}', case,
                          fkey=fkey_of(case, s))
            bad += 1
            break
        prev = Nj
    return bad


def run_kry_cases(ctx, cases):
    """Krylov-optimal solvers: cg, cr, cgne, cgnr, gmres*, fgmres"""
    # phase 1: the exact minimisers (and the grade of r0: the dimension at which the Krylov space stops growing)
    items, lines = [], []
    for case in cases:
        s = build(case)
        solver, cplx = case['solver'], case['cplx']
        it = {'case': case, 's': s, 'kind': KRY[solver], 'segs': [], 'exc': None, 'am0': len(lines)}
        lines.append(argmin_line(it['kind'], s, cplx, s.x0d, s.n if case['restart'] else case['K']))
        if solver in REC:
            # exact rationals stay short only while the recurrence is the optimal one (finite termination):
            # the non-terminating CR with a non-commuting M is followed for 3 steps only
            it['iter'] = len(lines)
            lines.append(iter_line(solver, s, cplx, s.x0d, case['K'] if (solver != 'cr' or commutes(s)) else min(case['K'], 3)))
        if not cplx and not case['restart'] and (solver == 'gmres_mgs' or case['orthog'] == 'mgs') and s.n >= 2:
            it['gm'] = len(lines)
            lines.append(gmres_line(s, s.x0d, case['K']))
        if not cplx and s.n >= 2 and all(v == 'd' for v in (case.get('store') or {}).values()):
            # extension E11: restarted GMRES(MGS), GMRES(Householder), FGMRES models (binary64; all-double storage only)
            hh = solver == 'gmres_householder' or (solver == 'gmres' and case['orthog'] == 'householder')
            mgs = solver == 'gmres_mgs' or (solver == 'gmres' and case['orthog'] == 'mgs')
            if case['restart'] and mgs:
                it['ext'] = ('restart', 'ext_gmres_restart', len(lines))
                lines.append(ext_restart_line(s, s.x0d, case['restart'], case['K']))
            elif not case['restart'] and hh:
                it['ext'] = ('single', 'ext_gmres_hh', len(lines))
                lines.append(ext_hh_line(s, s.x0d, case['K']))
            elif not case['restart'] and solver == 'fgmres':
                it['ext'] = ('single', 'ext_fgmres', len(lines))
                lines.append(ext_fgmres_line(s.A, [s.Md], s.b, s.x0d, case['K']))
        if cplx and not case.get('store') and s.n >= 2 and np.iscomplexobj(s.A) and np.iscomplexobj(s.b):
            # extension E43: complex systems vs the pair models (zlartg rotations, conjugated inner products, complex _mysign)
            hh = solver == 'gmres_householder' or (solver == 'gmres' and case['orthog'] == 'householder')
            mgs = solver == 'gmres_mgs' or (solver == 'gmres' and case['orthog'] == 'mgs')
            if case['restart'] and mgs:
                it['ext'] = ('restart', 'ext_cg_cycle mgsr', len(lines))
                lines.append(cg_cycle_line('mgsr', s, s.x0d, case['restart'], case['K']))
            elif not case['restart'] and (mgs or hh or solver == 'fgmres'):
                kd = 'mgs' if mgs else 'hh' if hh else 'fg'
                it['ext'] = ('single', 'ext_cg_cycle ' + kd, len(lines))
                lines.append(cg_cycle_line(kd, s, s.x0d, case['K']))
        items.append(it)
    rep1 = ctx.lean(lines, chunks=2 if len(lines) > 2000 else 1) if lines else []
    # phase 2: the real code; `k` never exceeds the grade ("the k-dimensional Krylov space" has to exist)
    lines2 = []
    for it in items:
        case, s, kind = it['case'], it['s'], it['kind']
        solver, cplx = case['solver'], case['cplx']
        am = parse_argmin(rep1[it['am0']], cplx)
        it['am'] = am
        if am is None:
            continue
        if not am['cert']:
            raise RuntimeError('c07_krylov_argmin returned a point that fails its own exact Galerkin check')
        try:
            if case['restart'] and grade_of(am, s.n) >= s.n:
                m, cyc = case['restart'], case['K']
                # a restarted run cannot be told to stop at the grade of a later cycle: stop at 1e-10 instead
                x, info, log = call(case, s, cyc, restart=m, tol=1e-10)
                it['x'], it['log'], it['mode'] = x, log, 'restart'
                start, pos = s.x0d, 0
                for c in range(cyc):
                    seg = log[pos:pos + m]
                    if not seg or not all(np.all(np.isfinite(v)) for v in seg + [start]):
                        break
                    it['segs'].append((start, seg, len(lines2)))
                    lines2.append(argmin_line(kind, s, cplx, start, len(seg)))
                    start = seg[-1]
                    pos += m
            else:
                K = case['K'] if not case['restart'] else s.n
                g = grade_of(am, K)
                it['Keff'] = Keff = max(1, min(K, g))
                it['grade'] = g
                x, info, log = call(case, s, Keff)
                it['x'], it['log'], it['mode'] = x, log, 'single'
                if solver in GM and Keff >= 2:
                    # prefix runs: the iterate returned with maxiter = k (end-of-cycle code path) for every k < K
                    it['prefix'] = [call(case, s, k)[0] for k in range(1, Keff)]
        except Exception as e:       # noqa: BLE001
            it['exc'] = f'{type(e).__name__}: {e}'
    rep2 = ctx.lean(lines2, chunks=1) if lines2 else []
    # phase 3: judgement
    for it in items:
        case, s, kind, am = it['case'], it['s'], it['kind'], it['am']
        solver, cplx = case['solver'], case['cplx']
        r0 = s.b - s.A @ s.x0d
        nontriv = (case['K'] >= 2 or bool(case['restart'])) and float(np.linalg.norm(r0)) > 0 and s.n >= 2
        ctx.case(key=_key(solver, case['orthog'], case['restart'], case['K'], case['crit'], case['akind'], case['mkind'],
                          s.A.tobytes(), s.Md.tobytes(), s.b.tobytes(), s.x0d.tobytes()),
                 nontrivial=nontriv, sample=_public(case))
        for f in (f'solver:{solver}', 'complex' if cplx else 'real', 'fam:' + case['fam'], 'M:' + case['mfam'],
                  'x0:' + case['xkind'], 'A:' + case['akind'], f'n:{s.n}'):
            ctx.feat(f)
        pub = {'kind': 'kry', **case}
        if am is None:
            ctx.feat('argmin-rejected:' + rep1[it['am0']][:20])
            continue
        if it['exc']:
            ctx.violation(f'{solver} raised {it["exc"]} on a well-conditioned system', pub, fkey=fkey_of(case, s))
            continue
        name = solver + (f'(orthog={case["orthog"]})' if case['orthog'] else '')
        bad = 0
        if it['mode'] == 'restart':
            ctx.feat('restart')
            base = None
            for start, seg, li in it['segs']:
                amc = parse_argmin(rep2[li], cplx)
                if amc is None:
                    break
                if not amc['cert']:
                    raise RuntimeError('c07_krylov_argmin returned a point that fails its own exact Galerkin check')
                G = gram(kind, s)
                N0c = gnorm(G, amc['xs'] - start)
                if base is None:
                    base = N0c
                if N0c <= 1e-7 * base:
                    break              # converged: what follows is rounding noise
                bad += judge_segment(ctx, pub, s, kind, start, seg, amc, f'{name} restart={case["restart"]}')
                if bad:
                    break
        else:
            ctx.feat('single-cycle')
            Keff, log = it['Keff'], it['log']
            if it['grade'] < case['K']:
                ctx.feat('krylov-space-exhausted-before-K')
            full = list(log[:Keff])
            last = full[-1] if full else it['x']
            npad = Keff - len(full)
            if npad:
                ctx.feat('stopped-early')
            full += [last] * npad
            if it['grade'] == 0:
                # r0 = 0: the start is the solution and has to be returned unchanged
                if gnorm(gram(kind, s), it['x'] - s.x0d) > FLOOR * (gnorm(gram(kind, s), s.x0d) + 1e-300):
                    ctx.violation(f'{name}: x0 is the exact solution but a different vector is returned', pub, fkey=fkey_of(case, s))
                    bad += 1
            else:
                bad += judge_segment(ctx, pub, s, kind, s.x0d, full, am, name, npad=npad)
            if not bad and 'prefix' in it:
                G = gram(kind, s)
                N0 = gnorm(G, am['xs'] - s.x0d)
                floor = FLOOR * (gnorm(G, am['xs']) + 2 * gnorm(G, s.x0d)) + 1e-300
                for k, xk in enumerate(it['prefix'], 1):
                    if k <= len(am['ys']) and gnorm(G, xk - am['ys'][k - 1]) > TOL * N0 + floor:
                        ctx.violation(f'{name}: the iterate returned with maxiter={k} is not the minimiser of the '
                                      f'{PROMISE[kind]} over the {k}-dimensional Krylov space (distance '
                                      f'{gnorm(G, xk - am["ys"][k - 1]):.3g}, initial value {N0:.6g})',
                                      dict(pub, K=k), fkey=fkey_of(case, s))
                        bad += 1
                        break
        # correspondence: recurrence model vs callback log
        if 'iter' in it:
            mod = parse_iter(rep1[it['iter']], cplx)
            if mod is None:
                ctx.corr('c07_iter ' + solver, pub, rep1[it['iter']][:200], 'n/a', 'driver rejected the request')
            else:
                scale = float(np.linalg.norm(am['xs'] - s.x0d))
                for j, (xm, xi) in enumerate(zip(mod, it['log']), 1):
                    err = float(np.linalg.norm(xm - xi))
                    if err > TOL * scale + FLOOR * (float(np.linalg.norm(xm)) + float(np.linalg.norm(s.x0d))):
                        ctx.corr(f'c07_iter {solver} step {j}', pub, xm.tolist(), xi.tolist(),
                                 f'recurrence model and implementation differ by {err:.3g} at iterate {j}')
                        break
                ctx.feat('model-steps', min(len(mod), len(it['log'])))
        # correspondence: GMRES(MGS) model (binary64) vs callback log, up to the grade of r0
        if 'gm' in it and it.get('mode') == 'single' and it['grade'] > 0:
            mod = parse_bits(rep1[it['gm']])
            if mod is None:
                ctx.corr('c07_gmres_mgs', pub, rep1[it['gm']][:200], 'n/a', 'driver rejected the request')
            else:
                scale = float(np.linalg.norm(am['xs'] - s.x0d))
                for j, (xm, xi) in enumerate(zip(mod[:it['Keff']], it['log']), 1):
                    err = float(np.linalg.norm(xm - xi)) if np.all(np.isfinite(xm)) else np.inf
                    if err > TOL * scale + FLOOR * (float(np.linalg.norm(xi)) + float(np.linalg.norm(s.x0d))):
                        ctx.corr(f'c07_gmres_mgs step {j}', pub, xm.tolist(), xi.tolist(),
                                 f'GMRES(MGS) model and implementation differ by {err:.3g} at iterate {j}')
                        break
                ctx.feat('gmres-model-steps', min(len(mod), len(it['log'])))
        # correspondence (extension E11): restarted GMRES(MGS) / GMRES(Householder) / FGMRES models vs callback log
        if 'ext' in it and it.get('mode') == it['ext'][0] and (it['mode'] == 'restart' or it['grade'] > 0):
            mode, op, li = it['ext']
            mod = parse_bits(rep1[li])
            if mod is not None and op.startswith('ext_cg_cycle'):
                mod = [m[0::2] + 1j * m[1::2] for m in mod]
            if mod is None:
                ctx.corr(op, pub, rep1[li][:200], 'n/a', 'driver rejected the request')
            else:
                scale = float(np.linalg.norm(am['xs'] - s.x0d))
                log = it['log']
                if mode == 'single':
                    nmax = it['Keff']
                else:
                    # compare cycle by cycle until the preconditioned residual at a restart point is at rounding level
                    m = case['restart']
                    rn = lambda x: float(np.linalg.norm(s.Md @ (s.b - s.A @ x)))
                    base, nmax, start = rn(s.x0d), 0, s.x0d
                    while nmax < len(log) and np.all(np.isfinite(start)) and rn(start) > 1e-7 * base:
                        nmax = min(nmax + m, len(log))
                        start = log[nmax - 1]
                ncmp = 0
                for j, (xm, xi) in enumerate(zip(mod[:nmax], log), 1):
                    err = float(np.linalg.norm(xm - xi)) if np.all(np.isfinite(xm)) else np.inf
                    if err > TOL * scale + FLOOR * (float(np.linalg.norm(xi)) + float(np.linalg.norm(s.x0d))):
                        ctx.corr(f'{op} step {j}', pub, xm.tolist(), xi.tolist(),
                                 f'{op} model and implementation differ by {err:.3g} at iterate {j}')
                        break
                    ncmp += 1
                ctx.feat(op + '-model-steps', ncmp)


def run_line_cases(ctx, cases):
    """steepest descent / minimal residual: every step is the exact line search from the previous iterate"""
    items, lines = [], []
    for case in cases:
        s = build(case)
        solver, cplx = case['solver'], case['cplx']
        kind = LINE[solver]
        it = {'case': case, 's': s, 'kind': kind, 'exc': None}
        try:
            x, info, log = call(case, s, case['K'])
            it['x'], it['log'] = x, log
            if info == -1 and len(log) < case['K']:
                # e.g. minimal_residual: <M A z, z> < 0 is possible for Hermitian positive definite A and M that do not
                # commute; the solver then stops ("indefinite matrix"): no step is taken, nothing to judge for C07
                ctx.feat(f'{solver}-stopped-with-status--1')
            it['first'] = len(lines)
            prev = s.x0d
            for xj in log:
                if not np.all(np.isfinite(xj)) or not np.all(np.isfinite(prev)):
                    break
                lines.append(argmin_line(kind, s, cplx, prev, 1))
                prev = xj
            it['nl'] = len(lines) - it['first']
            # line searches never terminate: the exact rationals grow ~5x per step, 4 steps are followed
            it['iter'] = len(lines)
            lines.append(iter_line(solver, s, cplx, s.x0d, min(case['K'], 4)))
        except Exception as e:       # noqa: BLE001
            it['exc'] = f'{type(e).__name__}: {e}'
        items.append(it)
    replies = ctx.lean(lines) if lines else []
    for it in items:
        case, s, kind = it['case'], it['s'], it['kind']
        solver, cplx = case['solver'], case['cplx']
        r0 = s.b - s.A @ s.x0d
        ctx.case(key=_key(solver, case['K'], case['crit'], case['akind'], case['mkind'], s.A.tobytes(), s.Md.tobytes(),
                          s.b.tobytes(), s.x0d.tobytes()),
                 nontrivial=case['K'] >= 2 and float(np.linalg.norm(r0)) > 0 and s.n >= 2, sample=_public(case))
        for f in (f'solver:{solver}', 'complex' if cplx else 'real', 'fam:' + case['fam'], 'M:' + case['mfam'],
                  'x0:' + case['xkind'], f'n:{s.n}', 'long-run' if case['K'] > 50 else 'short-run'):
            ctx.feat(f)
        pub = {'kind': 'line', **case}
        if it['exc']:
            ctx.violation(f'{solver} raised {it["exc"]} on a well-conditioned system', pub)
            continue
        G = gram(kind, s)
        prev = s.x0d
        bad = False
        for j in range(it['nl']):
            am = parse_argmin(replies[it['first'] + j], cplx)
            xj = it['log'][j]
            if am is None or not am['ys']:
                break
            if not am['cert']:
                raise RuntimeError('c07_krylov_argmin returned a point that fails its own exact Galerkin check')
            if not np.all(np.isfinite(xj)):
                ctx.violation(f'{solver}: iterate {j + 1} is not finite', pub)
                bad = True
                break
            y, xs = am['ys'][0], am['xs']
            N0 = gnorm(G, xs - prev)
            floor = FLOOR * (gnorm(G, xs) + gnorm(G, s.x0d)) + 1e-300
            dev = gnorm(G, xj - y)
            ctx.rel_err(max(dev - floor, 0.0) / N0 if N0 > 0 else 0.0)
            if dev > TOL * N0 + floor:
                ctx.violation(f'{solver}: step {j + 1} is not the exact line search (minimiser of the {PROMISE[kind]} along the '
                              f'preconditioned residual): value {gnorm(G, xs - xj):.12g}, minimum {gnorm(G, xs - y):.12g}, '
                              f'distance {dev:.3g} (value before the step {N0:.6g})', pub,
                              detail={'step': j + 1, 'from': _enc(prev), 'iterate': _enc(xj), 'minimiser': _enc(y)})
                bad = True
                break
            if gnorm(G, xs - xj) > N0 * (1 + 1e-9) + floor:
                ctx.violation(f'{solver}: the {PROMISE[kind]} increased at step {j + 1}', pub)
                bad = True
                break
            prev = xj
        if 'iter' in it and not bad:
            mod = parse_iter(replies[it['iter']], cplx)
            if mod is None:
                ctx.corr('c07_iter ' + solver, pub, replies[it['iter']][:200], 'n/a', 'driver rejected the request')
            else:
                xs = np.linalg.solve(s.A, s.b)
                scale = float(np.linalg.norm(xs - s.x0d))
                for j, (xm, xi) in enumerate(zip(mod, it['log']), 1):
                    err = float(np.linalg.norm(xm - xi))
                    if err > TOL * scale + FLOOR * (float(np.linalg.norm(xm)) + float(np.linalg.norm(s.x0d))):
                        ctx.corr(f'c07_iter {solver} step {j}', pub, xm.tolist(), xi.tolist(),
                                 f'recurrence model and implementation differ by {err:.3g} at iterate {j}')
                        break
                ctx.feat('model-steps', len(mod))


class _Varying:
    """a preconditioner that changes from one application to the next (flexible GMRES); records its outputs"""

    def __init__(self, mats):
        self.mats, self.k, self.out = mats, 0, []

    def matvec(self, v):
        z = self.mats[self.k % len(self.mats)] @ np.ravel(v)
        self.k += 1
        self.out.append(z.copy())
        return z


def run_flexible(ctx, N):
    """fgmres with a varying preconditioner: x_k minimises ||b - A x|| over x0 + span{z_1..z_k} (dense oracle);
    real case: the callback iterates are also compared with the FGMRES model of Model/ExtC07Hh.lean (op ext_fgmres)"""
    rng = ctx.np_rng
    done = []
    for _ in range(N):
        cplx = bool(rng.random() < 0.4)
        n = int(rng.integers(2, 9))
        A, fam = gen_general(rng, n, cplx)
        mats = []
        for _j in range(int(rng.integers(2, 4))):
            Mj, _f = gen_precond(rng, A, cplx, False)
            mats.append(np.eye(n, dtype=A.dtype) if Mj is None else Mj)
        xs = _rint(rng, n, -3, 3, cplx).astype(A.dtype)
        b = A @ xs
        x0 = _rint(rng, n, -2, 2, cplx).astype(A.dtype)
        K = int(rng.integers(2, n + 1))
        case = {'kind': 'flex', 'solver': 'fgmres', 'cplx': cplx, 'n': n, 'fam': fam, 'A': _enc(A), 'b': _enc(b), 'x0': _enc(x0),
                'Ms': [_enc(m) for m in mats], 'K': K}
        ctx.case(key=_key('flex', A.tobytes(), b.tobytes(), x0.tobytes(), K, [m.tobytes() for m in mats]), nontrivial=True)
        ctx.feat('solver:fgmres-flexible')
        log = judge_flexible(ctx, case)
        if log is not None and not cplx:
            done.append((case, log))
    flexible_model(ctx, done)


def flexible_model(ctx, done):
    """correspondence: FGMRES model (binary64, preconditioners used cyclically) vs the callback log of fgmres"""
    if not done:
        return
    lines = []
    for case, _log in done:
        A, b, x0 = np.atleast_2d(_dec(case['A'], False)), _dec(case['b'], False), _dec(case['x0'], False)
        lines.append(ext_fgmres_line(A, [np.atleast_2d(_dec(m, False)) for m in case['Ms']], b, x0, case['K']))
    rep = ctx.lean(lines)
    for (case, log), r in zip(done, rep):
        A, b, x0 = np.atleast_2d(_dec(case['A'], False)), _dec(case['b'], False), _dec(case['x0'], False)
        mod = parse_bits(r)
        if mod is None:
            ctx.corr('ext_fgmres', case, r[:200], 'n/a', 'driver rejected the request')
            continue
        N0 = float(np.linalg.norm(b - A @ x0))
        scale = float(np.linalg.norm(np.linalg.solve(A, b) - x0))
        prev, ncmp = x0, 0
        for j, (xm, xi) in enumerate(zip(mod, log), 1):
            if float(np.linalg.norm(b - A @ prev)) <= 1e-9 * N0:
                break          # converged: the Krylov space is exhausted, what follows is rounding noise
            err = float(np.linalg.norm(xm - xi)) if np.all(np.isfinite(xm)) else np.inf
            if err > TOL * scale + FLOOR * (float(np.linalg.norm(xi)) + float(np.linalg.norm(x0))):
                ctx.corr(f'ext_fgmres (varying preconditioner) step {j}', case, xm.tolist(), xi.tolist(),
                         f'FGMRES model and implementation differ by {err:.3g} at iterate {j}')
                break
            prev = xi
            ncmp += 1
        ctx.feat('ext_fgmres-flexible-model-steps', ncmp)


def judge_flexible(ctx, case):
    from pyamg.krylov import fgmres
    cplx = case['cplx']
    A, b, x0 = np.atleast_2d(_dec(case['A'], cplx)), _dec(case['b'], cplx), _dec(case['x0'], cplx)
    n, K = A.shape[0], case['K']
    V = _Varying([np.atleast_2d(_dec(m, cplx)) for m in case['Ms']])
    Mop = LinearOperator((n, n), matvec=V.matvec, dtype=A.dtype)
    log = []
    try:
        with warnings.catch_warnings():
            warnings.simplefilter('ignore')
            x, info = fgmres(A, b, x0=x0.copy(), tol=1e-13, maxiter=K, M=Mop,
                             callback=lambda v: log.append(np.array(v, copy=True).ravel()))
    except Exception as e:       # noqa: BLE001
        ctx.violation(f'fgmres with a varying preconditioner raised {type(e).__name__}: {e}', case)
        return None
    r0 = b - A @ x0
    N0 = float(np.linalg.norm(r0))
    for k in range(1, min(len(log), len(V.out)) + 1):
        Z = np.column_stack(V.out[:k])
        c = np.linalg.lstsq(A @ Z, r0, rcond=None)[0]
        y = x0 + Z @ c
        dev = float(np.linalg.norm(A @ (log[k - 1] - y)))
        if dev > 1e-7 * N0 + 1e-11 * float(np.linalg.norm(b)):
            ctx.violation(f'fgmres with a varying preconditioner: iterate {k} does not minimise the residual over x0 + span of '
                          f'the {k} preconditioned directions: {np.linalg.norm(b - A @ log[k - 1]):.12g} vs minimum '
                          f'{np.linalg.norm(b - A @ y):.12g}', case)
            return log
    return log


def run_bicgstab(ctx, N):
    """bicgstab: no minimiser is promised; the last clause (solved within n steps) is searched with a loose bound"""
    from pyamg.krylov import bicgstab
    rng = ctx.np_rng
    for _ in range(N):
        cplx = bool(rng.random() < 0.4)
        n = int(rng.integers(1, 7))
        A, fam = gen_general(rng, n, cplx, kmax=30.0)
        xs = _rint(rng, n, -3, 3, cplx).astype(A.dtype)
        b = A @ xs
        ctx.case(key=_key('bicgstab', A.tobytes(), b.tobytes()), nontrivial=n >= 2)
        ctx.feat('solver:bicgstab')
        if not np.any(b):
            continue
        log = []
        with warnings.catch_warnings():
            warnings.simplefilter('ignore')
            with np.errstate(all='ignore'):
                x, info = bicgstab(A, b, tol=1e-300, maxiter=n, callback=lambda v: log.append(np.array(v, copy=True)))
        res = [float(np.linalg.norm(b - A @ v)) for v in log if np.all(np.isfinite(v))] + [float(np.linalg.norm(b - A @ x)) if np.all(np.isfinite(x)) else np.inf]
        ctx.feat('bicgstab-solved' if min(res) <= 1e-6 * np.linalg.norm(b) else 'bicgstab-not-solved-in-n')


# ------------------------------------------------------------------------------------------------
# entry points
# ------------------------------------------------------------------------------------------------

KSOLVERS = ['cg', 'cr', 'cgnr', 'cgne', 'gmres_mgs', 'gmres_householder', 'gmres', 'fgmres']

# ------------------------------------------------------------------------------------------------
# mixed dtypes: every solver with real A / complex b, real A / complex x0, complex A / real b and x0, real A with a complex
# Hermitian M, single-precision storage of A and M -- judged by the same exact oracle (the mathematics is complex)
# ------------------------------------------------------------------------------------------------

MIXED = ['rA-cb', 'rA-cx0', 'rA-cb-cx0', 'cA-rb-rx0', 'rA-cM-cb', 'rA-cM-rb', 'f32A-db', 'c64A-rb']


def make_mixed_case(rng, solver, kind, **kw):
    want_c = kind.startswith(('cA', 'c64A'))
    for _try in range(400):
        case = make_case(rng, solver, **kw)
        if case['cplx'] != want_c:
            continue
        A = np.atleast_2d(_dec(case['A'], want_c))
        n = A.shape[0]
        b = _dec(case['b'], want_c).ravel()
        x0 = None if case['x0'] is None else _dec(case['x0'], want_c).ravel()
        M = None if case['M'] is None else np.atleast_2d(_dec(case['M'], want_c))
        base = 'D' if want_c else 'd'
        store = {'A': base, 'b': base, 'x0': base, 'M': base}
        if kind in ('rA-cb', 'rA-cb-cx0', 'rA-cM-cb'):
            b = b + 1j * (A @ _rint(rng, n, -3, 3, False))
            store['b'] = 'D'
        if kind in ('rA-cx0', 'rA-cb-cx0'):
            x0 = (np.zeros(n) if x0 is None else x0) + 1j * _rint(rng, n, -3, 3, False)
            store['x0'] = 'D'
        if kind in ('cA-rb-rx0', 'c64A-rb'):
            b = b.real.copy()
            x0 = None if x0 is None else x0.real.copy()
            store['b'] = store['x0'] = 'd'
        if kind in ('rA-cM-cb', 'rA-cM-rb'):
            d = np.ones(n) if M is None else np.maximum(np.real(np.diag(M)), 1.0)
            if M is not None and np.count_nonzero(M - np.diag(np.diag(M))):
                ph = np.array([1, 1j, -1, -1j])[rng.integers(0, 4, size=n)]
                M = (ph[:, None] * M) * ph.conj()[None, :]
            else:
                M = np.diag(d).astype(complex) + 0.25j * (np.eye(n, k=1) - np.eye(n, k=-1))
            if n == 1 or not np.any(M.imag) or np.linalg.eigvalsh(M)[0] <= 0 or keff(solver, A, M) > kbound(n):
                continue
            store['M'] = 'D'
            case['mfam'] = 'complex-hermitian'
        if kind == 'f32A-db':
            store['A'] = store['M'] = 'f'
        if kind == 'c64A-rb':
            store['A'] = store['M'] = 'F'
        if kind in ('f32A-db', 'c64A-rb'):
            A = _store(A, store['A']).astype(complex if want_c else float)
            M = None if M is None else _store(M, store['M']).astype(complex if want_c else float)
        anyc = want_c or 'D' in store.values() or 'F' in store.values()
        case.update({'cplx': bool(anyc), 'A': _enc(A), 'b': _enc(b), 'x0': None if x0 is None else _enc(x0),
                     'M': None if M is None else _enc(M), 'store': store, 'mixed': kind, 'xkind': case['xkind'] + '+' + kind})
        return case
    return None


def run_mixed(ctx, per_solver):
    rng = ctx.np_rng
    kc, lc = [], []
    for t in range(per_solver):
        kind = MIXED[t % len(MIXED)]
        for solver in KSOLVERS:
            c = make_mixed_case(rng, solver, kind)
            if c is not None:
                kc.append(c)
        for solver in ('steepest_descent', 'minimal_residual'):
            c = make_mixed_case(rng, solver, kind, nmax=6)
            if c is not None:
                lc.append(c)
    for c in kc + lc:
        ctx.feat('mixed:' + c['mixed'])
    run_kry_cases(ctx, kc)
    run_line_cases(ctx, lc)


def run_single(ctx, N):
    """all-single-precision systems (float32 / complex64 A, b, x0, M): the solver works in single precision; judged by the
    exact oracle with tolerance 2e-3 on systems with kappa^(n/2) <= 1e3"""
    rng = ctx.np_rng
    names = KSOLVERS + ['steepest_descent', 'minimal_residual']
    items, lines = [], []
    for t in range(N):
        solver = names[t % len(names)]
        for _try in range(200):
            case = make_case(rng, solver, nmax=5)
            s = build(case)
            if case['restart'] or keff(solver, s.A, s.M) > min(100.0, 10.0 ** (6.0 / s.n)) or max(np.abs(s.x0d).max(), 1) > 100:
                continue
            break
        else:
            continue
        cplx = case['cplx']
        code = 'F' if cplx else 'f'
        dt = complex if cplx else float
        A, b = _store(s.A, code).astype(dt), _store(s.b, code).astype(dt)
        x0 = None if s.x0 is None else _store(s.x0, code).astype(dt)
        M = None if s.M is None else _store(s.M, code).astype(dt)
        case.update({'A': _enc(A), 'b': _enc(b), 'x0': None if x0 is None else _enc(x0), 'M': None if M is None else _enc(M),
                     'store': {'A': code, 'b': code, 'x0': code, 'M': code}, 'akind': 'dense', 'mkind': 'dense',
                     'mixed': 'single', 'K': min(case['K'], s.n)})
        s = build(case)
        kind = KRY.get(solver) or LINE[solver]
        it = {'case': case, 's': s, 'kind': kind, 'li': len(lines)}
        lines.append(argmin_line(kind, s, cplx, s.x0d, 1 if solver in LINE else case['K']))
        items.append(it)
    rep = ctx.lean(lines, chunks=1) if lines else []
    for it in items:
        case, s, kind = it['case'], it['s'], it['kind']
        solver, cplx = case['solver'], case['cplx']
        am = parse_argmin(rep[it['li']], cplx)
        ctx.case(key=_key('single', solver, s.A.tobytes(), s.Md.tobytes(), s.b.tobytes(), s.x0d.tobytes(), case['K']),
                 nontrivial=s.n >= 2 and case['K'] >= 2)
        ctx.feat('single-precision:' + solver)
        if am is None or not am['cert']:
            continue
        pub = {'kind': 'single', **case}
        K = 1 if solver in LINE else max(1, min(case['K'], grade_of(am, case['K'])))
        try:
            x, info, log = call(case, s, K, tol=1e-30)      # 1e-300 underflows to 0 in float32
        except Exception as e:       # noqa: BLE001
            ctx.violation(f'{solver} raised {type(e).__name__}: {e} on a single-precision system', pub, fkey=fkey_of(case, s))
            continue
        G = gram(kind, s)
        N0 = gnorm(G, am['xs'] - s.x0d)
        base = gnorm(G, am['xs']) + gnorm(G, s.x0d)
        for j, xj in enumerate(log[:K], 1):
            if j > len(am['ys']) or N0 == 0:
                break
            dev = gnorm(G, np.asarray(xj, dtype=complex if cplx else float) - am['ys'][j - 1])
            if not np.isfinite(dev) or dev > 2e-3 * N0 + 2e-5 * base:
                ctx.violation(f'{solver} (single precision): iterate {j} is not the minimiser of the {PROMISE[kind]} over the '
                              f'{j}-dimensional Krylov space: distance to the minimiser {dev:.3g} (initial value {N0:.6g})',
                              pub, fkey=fkey_of(case, s))
                break




def run(ctx):
    rng = ctx.np_rng
    nk = ctx.scale(40, 800)
    cases = [make_case(rng, KSOLVERS[t % len(KSOLVERS)]) for t in range(nk * len(KSOLVERS))]
    # a few systems of dimension 10..12, K = n: the periodic recomputation of the residual (every 8th step) is reached
    cases += [make_case(rng, ['cg', 'cr', 'cgnr', 'cgne'][t % 4], nmax=12, nmin=10) for t in range(ctx.scale(12, 160))]
    run_kry_cases(ctx, cases)
    nl = ctx.scale(40, 600)
    lcases = [make_case(rng, ['steepest_descent', 'minimal_residual'][t % 2], nmax=6) for t in range(2 * nl)]
    lcases += [make_case(rng, ['steepest_descent', 'minimal_residual'][t % 2], nmax=4, long_run=True) for t in range(ctx.scale(4, 40))]
    run_line_cases(ctx, lcases)
    run_flexible(ctx, ctx.scale(30, 600))
    run_bicgstab(ctx, ctx.scale(30, 600))
    run_mixed(ctx, ctx.scale(8, 96))
    run_single(ctx, ctx.scale(20, 300))


def search(ctx):
    rng = ctx.np_rng
    cases = [make_case(rng, KSOLVERS[t % len(KSOLVERS)]) for t in range(150 * len(KSOLVERS))]
    run_kry_cases(ctx, cases)
    lcases = [make_case(rng, ['steepest_descent', 'minimal_residual'][t % 2], nmax=6) for t in range(200)]
    run_line_cases(ctx, lcases)
    run_flexible(ctx, 200)


def replay(ctx, data):
    case = data['case']
    kind = case.get('kind')
    print('replaying', {k: case[k] for k in case if k not in ('A', 'M', 'Ms', 'b', 'x0')})
    if kind == 'kry':
        run_kry_cases(ctx, [{k: v for k, v in case.items() if k != 'kind'}])
    elif kind == 'line':
        run_line_cases(ctx, [{k: v for k, v in case.items() if k != 'kind'}])
    elif kind == 'single':
        print('   single-precision case: re-run `./check C07`; data in the replay file')
    elif kind == 'flex':
        log = judge_flexible(ctx, case)
        if log is not None and not case['cplx']:
            flexible_model(ctx, [(case, log)])
    for v in ctx.violations:
        print('  ', v['what'])
    if not ctx.violations:
        print('   no violation on this input')
