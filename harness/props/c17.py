"""C17 -- native kernels stay inside their arrays for every well-formed input.

correspondence : the *checked-execution* (`Ck`) Lean models of 24 kernels (gauss_seidel, sor_gauss_seidel, jacobi,
                 jacobi_indexed, gauss_seidel_indexed, gauss_seidel_ne, gauss_seidel_nr, csc_scale_columns/rows,
                 maximum_row_value, rs_*_interpolation_pass1, naive_aggregation, standard_aggregation, classical_strength_of_connection_abs/_min,
                 symmetric_strength_of_connection, apply_(absolute_)distance_filter, min_blocks, jacobi_ne, one_point_interpolation, bellman_ford,
                 breadth_first_search, maximal_independent_set_serial) and, through the `ext_c17_*` ops of Driver/ExtE7.lean, of 11 more
                 (bsr_gauss_seidel, bsr_jacobi, block_jacobi, block_gauss_seidel with `gemm`; rs_direct/classical_interpolation_pass2,
                 remove_strong_FF_connections; truncate_rows_csr with its recursive quicksort, filter_matrix_rows;
                 incomplete_mat_mult_csr) and, through the `ext_c17r3_*` ops of Driver/ExtE19.lean, of 16 more (bsr_jacobi_indexed,
                 block_jacobi_indexed, extract_subblocks, overlapping_schwarz_csr with `gemm` in accumulate mode; rs_cf_splitting_pass2, cr_helper;
                 approx_ideal_restriction_pass1; satisfy_constraints_helper, calc_BtB, incomplete_mat_mult_bsr with the two remaining `gemm` modes;
                 apply_householders, householder_hornerscheme, apply_givens; floyd_warshall, connected_components, most_interior_nodes)
                 and, through the `ext_c17r4_*` ops of Driver/ExtE32.lean, of 13 more (vertex_coloring_mis, maximal_independent_set_parallel,
                 vertex_coloring_jones_plassmann, vertex_coloring_LDF with vertex_coloring_first_fit, maximal_independent_set_k_parallel with
                 csr_propagate_max; pairwise_aggregation with its multimap; cljp_naive_splitting, fit_candidates, pinv_array (svd_jacobi, transpose, gemm),
                 evolution_strength_helper (svd_solve), approx_ideal_restriction_pass2 and its block version (QR / least_squares / dense_GMRES) on IEEE doubles,
                 bit for bit; plus
                 bellman_ford_balanced through the validated model of `ext_c18_bfbal`)
                 are run on exact dyadic inputs (the two interpolation passes on IEEE doubles, bit for bit); their `.val` must
                 equal the output of the rebuilt kernel exactly and their `ok` flag must be true (the flag is what the
                 safety theorems of Props/C17.lean are about); malformed controls must clear the flag.  The proof-side
                 models of the termination theorems (bfs/cc/colouring/parallel MIS/Bellman-Ford, RS splitting) are
                 compared with the kernels through the existing `p_*` / `rs` driver ops.
search         : every kernel of the shim inventory (spec.json) is executed in child processes from the
                 ASan/UBSan/_GLIBCXX_ASSERTIONS build of the working-tree headers, on exact-size NumPy buffers:
                 (a) raw calls with generated structurally valid inputs (empty rows, missing/zero diagonals, isolated
                 nodes, dense rows, unsorted indices, duplicate stored entries, admissible forward/backward/strided sweeps, block sizes, thresholds,
                 all instantiated value types), (b) the public pyamg functions on the same adversarial matrices, so that
                 every buffer has exactly the size the Python callers allocate.  Every kernel call is traced: outputs are
                 poisoned beforehand and the contractually defined region must be overwritten; live heap bytes are
                 compared before/after the call (leak); a per-call CPU-time limit detects non-termination.  A sanitizer
                 report / poison / leak / time-out = violation with the concrete kernel call as the replay.
"""
import base64
import collections
import ctypes
import hashlib
import json
import os
import pickle
import re
import signal
import subprocess
import sys
import tempfile
import time
from pathlib import Path

import numpy as np

HERE = Path(__file__).resolve().parent
HARNESS = HERE.parent
VERIF = HARNESS.parent

META = {
    'rule': 'kernel calls: n = 1..12 mostly (up to 40), CSR/BSR patterns with density in {0,.1,.25,.5,1}, forced empty first/last '
            'rows, isolated nodes, a dense row, missing / explicitly zero diagonals, unsorted column indices, columns stored twice (3 patterns in 10 of the sanitizer search), symmetric and '
            'nonsymmetric patterns, values small integers (float32/64, complex64/128 as instantiated), sweeps forward / backward / '
            'strided (admissible: stop reached through rows 0..n-1), block sizes 1..3, thresholds in {0, .25, .5, 1, 2}; '
            'a case is one traced kernel call, non-trivial when its matrix has at least one stored entry; distinct = distinct '
            '(kernel, dtype signature, argument bytes)',
    'search_only': ['no undefined integer / shift / pointer operation: UBSan + _GLIBCXX_ASSERTIONS on the rebuilt kernels (not modelled in Lean)',
                    'releases what it allocates: live-heap-bytes delta around every traced call (ASan allocator statistics)',
                    'termination of the kernels with data-dependent loops other than the five with a *_total theorem: CPU-time limit per call',
                    'reads of uninitialised work memory: only through ASan malloc_fill (0xbe) turning garbage indices into wild accesses, and output poisoning',
                    'outputs fully defined: poison patterns in output buffers (contract table CONTRACT in this file)'],
    'partial': ['66 of 66 kernels have a model that is compared with the rebuilt kernel and a no-fault theorem (E46: center_nodes, the last one, through E34\'s Option-style '
                'model BalLloyd.centerNodes: center_nodes_no_fault; its loop nest is fixed-trip, so termination is not an issue). '
                'round-4 models with data dependent outer loops: termination INSIDE the Ck models is proved for maximal_independent_set_parallel with max_iters = -1 '
                '(mis_parallel_checked_total: any pattern, WOrd weights, any fuel >= n + 1) and for maximal_independent_set_k_parallel with max_iters = -1 '
                '(mis_k_parallel_checked_total, by refinement to the function model of C18: SYMMETRIC pattern, k >= 0, strictly totally ordered weights above the marker -1, any fuel >= n + 1; '
                'on a nonsymmetric pattern or with a weight <= -1 only "a run that returns was in range" is proved), for vertex_coloring_jones_plassmann / vertex_coloring_LDF / '
                'cljp_naive_splitting (within n rounds, vertex_coloring_*_total, cljp_naive_splitting_total) under WOrd / CjOrd (weight comparisons `>` irreflexive + '
                'transitive, compatible with `==`: IEEE doubles, exact arithmetic); '
                'vertex_coloring_mis, pairwise_aggregation, fit_candidates, pinv_array and evolution_strength_helper (svd_jacobi sweeps) include termination',
                'bellman_ford_balanced and center_nodes: the no-fault theorems are about the validated executable models Bal.kernel / Bal.wrapper / BalLloyd.centerNodes '
                '(Option-style, not the Ck monad; center_nodes reads of the np.empty work arrays C, L are modelled as faults too); termination of bellman_ford_balanced within n*n '
                'sweeps is not proved (the kernel throws); balanced_lloyd_loop_no_fault covers every kernel call of the loop `while (changed1 or changed2) and it < maxiter` '
                '(BalLloyd.innerLoop), not the distance tables / rebalancing of balanced_lloyd_cluster (Floyd-Warshall alone: floyd_warshall_cluster_ok)',
                'rs_cf_splitting: the whole-kernel theorem rs_cf_splitting_safe (checked model RS.runCk, op ext_rs_whole: all initialisation loops, main loop, '
                'bucket moves, clean-up; in range, nothing negative, main loop within n iterations, value = RS.run) is for `influence` = 0, which is what RS() passes '
                'unless the caller supplies a vector; a non-zero influence vector is search-only',
                'termination theorems (bfs/cc/coloring/mis_parallel/bellman_ford_total) are about the proof-side models (run by the driver via p_* ops), '
                'not about Ck transcriptions (connected_components additionally has the Ck theorem connected_components_safe, which includes termination)'],
    'assumptions': ['admissible sweep = `stop` is reached from `start` in k steps of `step`, all visited rows inside 0..n-1 (Ck.Adm); for block kernels rows are block rows; '
                    'jacobi_ne (loops `i < stop`) is called with start >= 0, stop <= n, step > 0 only',
                    'inputs the Python callers never construct (S with diagonal for RS/CLJP) are not generated by the raw splitting scenarios; the Schwarz kernels get any structurally valid A '
                    '(rows unsorted / with duplicate entries: schwarz_parameters() does not canonicalise A) and subdomains that are sorted+unique, in any order, with repetitions, '
                    'the stored rows of A, or empty, raw and through schwarz_parameters() / schwarz(subdomain=...)',
                    'interpolation pass 2 (direct, classical): `Pp` is the output of the matching first pass on the same S / splitting (PpOK, proved for the pass-1 model: '
                    'interpolation_pass1_establishes_PpOK) and Pj, Px hold at least Pp[n] entries; truncate_rows_csr: k >= 0; filter_matrix_rows with lump: no norm is below theta*0 '
                    '(hypothesis on the abstract scalar operations, true for IEEE doubles and exact arithmetic); BSR kernels: Ax holds blocksize^2 values per stored block',
                    'round-3 models: index lists of the indexed block kernels name block rows; Schwarz subdomains are lists of rows (any order, repetitions allowed) and Tx holds '
                    '|subdomain d|^2 values at Tp[d] (WFsub); most_interior_nodes: entries of m are -1 or cluster numbers below |c|, entries of c are nodes; floyd_warshall: L maps the members of the cluster to 0..N-1 (WFfw), D is pre-filled with a large finite value in the correspondence inputs; calc_BtB: BsqCols >= NullDim(NullDim+1)/2; BSR operands of satisfy_constraints / incomplete_mat_mult_bsr hold '
                    'rows*cols values per stored block; cr_helper: indices has n+1 entries with indices[0] <= n nodes listed behind it, and the abstract scalars satisfy CrOrd '
                    '(0 tests as zero, a > 0 implies a != 0, a > m > 0 implies a > 0: true for IEEE doubles and exact arithmetic); the correspondence inputs of cr_helper keep '
                    'inf_norm > 0 (the kernel divides by it; 0/0 is NaN in C and 0 in the exact model)',
                    'round-4 models: n = 0 is covered (vertex_coloring_jones_plassmann / _LDF return -1, cljp_naive_splitting returns at once since c2b91b3; compared exactly on the empty '
                    'graph); maximal_independent_set_k_parallel with n = 0 (addresses of elements of empty std::vectors) and symmetric_rcm / breadth_first_search on a 0x0 matrix '
                    '(order[0] written) were defects of the unchanged tree, repaired in 4c0adfe; the empty-graph scenarios of the sanitizer search include them since (flags EMPTY_MISK / EMPTY_RCM = True); vertex_coloring_first_fit: K >= 0, no entry of x above K and the nodes coloured K separated (what a '
                    'parallel-MIS pass establishes on ANY pattern: parallel_coloring_round_safe); fit_candidates: Ax holds K1*K2 values per stored index, B n_row*K1*K2, R n_col*K2^2; '
                    'approx_ideal_restriction_pass2: Rp is the output of the first pass on the same C / splitting / Cpts / distance (RpOK, proved for the pass-1 model: '
                    'approx_ideal_restriction_pass1_establishes_RpOK), Rj and Rx hold Rp[|Cpts|] entries (block version: Ax, Rx hold blocksize^2 values per entry), maxiter >= 0; '
                    'pinv_array: AA holds m*n*n values; evolution_strength_helper: Sx holds Sp[nrows] values, x nrows*NullDim, y NullDim*nrows, b nrows*BDBCols with '
                    'BDBCols >= NullDim(NullDim+1)/2; the region split of `work` in svd_solve (U, V, x as three arrays) is stricter than the C++ allocation; '
                    'bellman_ford_balanced: positive weights on a grid coarser than 2*tol, arrays as the wrapper / the Lloyd loop initialise them (Bal.Inv); the correspondence inputs of '
                    'maximal_independent_set_k_parallel keep the weights above -1 (C18 finding: otherwise no termination with max_iters = -1, kept as a `nonterm` control)',
                    'round-5 (E46): center_nodes: weights non-negative, the state is what bellman_ford_balanced leaves in the Lloyd loop (KInv: cluster ids -1..k-1 with an exact size array, '
                    'centres inside their clusters; proved for every call site by balanced_lloyd_loop_no_fault), every node assigned and no cluster above max_size (the two ValueError checks '
                    'of balanced_lloyd_cluster in front of the call), predecessors p[j] are nodes (p[c] = c for centres: the Lloyd initialisation, not the -1 of the bare bellman_ford wrapper); '
                    'NO connectivity assumption (a new centre has a finite q, hence a finite row of D). The correspondence inputs: any pattern, weights on the grid 1/2, distinct centres, runs of '
                    'bellman_ford_balanced that return with every node assigned. c17r5_mis_k_parallel: symmetric patterns, weights above -1; c17r5_mis_parallel: any pattern',
                    'scalar arithmetic is abstract in the theorems; overflow of 32-bit index arithmetic is left to UBSan on sizes n <= 40'],
    'trusted_extra': ['g++ AddressSanitizer/UBSan runtime and libstdc++ assertions (the instrumented build is the oracle of the search)',
                      'harness/props/c17.py CONTRACT table: which output regions each kernel must define'],
}

# reported finding (E32 follow-up, not yet repaired / listed): maximal_independent_set_k_parallel with num_rows = 0 takes &(i_keys[0]) .. of empty
# std::vectors (libstdc++ assertion `__n < this->size()`), reachable through pyamg.graph.maximal_independent_set(0x0 matrix, k=1).  The n = 0 call of
# exactly this kernel stays out of the empty-graph scenarios until the tree is repaired; set to True then.
EMPTY_MISK = True
# second reported finding of the same class: pyamg.graph.symmetric_rcm / pseudo_peripheral_node on a 0x0 matrix call breadth_first_search with seed 0 and
# zero-length `order` / `level` (graph.h: `order[0] = seed; level[seed] = 0;` heap-buffer-overflow WRITE).  Left out until repaired; set to True then.
EMPTY_RCM = True
CPU_LIMIT = 4.0          # CPU seconds (ITIMER_VIRTUAL) allowed for one kernel call on n <= 40
P_I4 = -2147482203       # INT_MIN + 1445
P_F8 = 0x7ff8dead0000beef
P_F4 = 0x7fc0dead


# ================================================================================================
# poison
# ================================================================================================

def poison_fill(a):
    if a.dtype == np.int32:
        a[...] = P_I4
    elif a.dtype in (np.float64, np.complex128):
        a.view(np.uint64)[...] = P_F8
    elif a.dtype in (np.float32, np.complex64):
        a.view(np.uint32)[...] = P_F4
    return a


def poisoned(a):
    """boolean mask (per stored scalar component) of entries that still carry the poison payload"""
    a = np.ascontiguousarray(a)
    if a.dtype == np.int32:
        return a == P_I4
    if a.dtype in (np.float64, np.complex128):
        v = a.view(np.uint64)
        m = ((v & np.uint64(0x7ff0000000000000)) == np.uint64(0x7ff0000000000000)) & \
            ((v & np.uint64(0x0007ffffffffffff)) == np.uint64(0x0000dead0000beef))
    elif a.dtype in (np.float32, np.complex64):
        v = a.view(np.uint32)
        m = ((v & np.uint32(0x7f800000)) == np.uint32(0x7f800000)) & ((v & np.uint32(0x003fffff)) == np.uint32(0x0000dead))
    else:
        return np.zeros(a.shape, dtype=bool)
    if a.dtype.kind == 'c':
        m = m.reshape(-1, 2).any(axis=1)
    return m


# ================================================================================================
# output contracts: which regions a kernel must define (used in raw AND public mode)
# ================================================================================================

def _ptr_ok(p, caps):
    """row pointer fully written, starts at 0, non-decreasing, last entry within every capacity"""
    if poisoned(p).any():
        return f'row pointer still holds poison at {np.flatnonzero(poisoned(p))[:5].tolist()}'
    if len(p) and (p[0] != 0 or (np.diff(p) < 0).any()):
        return f'row pointer is not 0-based non-decreasing: {p[:12].tolist()}'
    for c in caps:
        if len(p) and p[-1] > c:
            return f'row pointer ends at {int(p[-1])} > buffer length {c}'
    return None


def _csr_out(pn, names, mult=None):
    def chk(a, ret):
        p = a[pn]
        e = _ptr_ok(p, [len(a[nm]) // (mult(a) if (mult and nm == names[-1]) else 1) for nm in names])
        if e:
            return [(pn, e)]
        k = int(p[-1]) if len(p) else 0
        out = []
        for nm in names:
            kk = k * (mult(a) if (mult and nm == names[-1]) else 1)
            bad = np.flatnonzero(poisoned(a[nm][:kk]))
            if len(bad):
                out.append((nm, f'{nm}[0:{kk}] is the defined region ({pn}[-1] = {k}) but entries {bad[:6].tolist()} were never written'))
        return out
    return chk


def _all(*names):
    def chk(a, ret):
        out = []
        for nm in names:
            bad = np.flatnonzero(poisoned(a[nm]))
            if len(bad):
                out.append((nm, f'{nm} (length {len(a[nm])}) must be fully defined but entries {bad[:6].tolist()} were never written'))
        return out
    return chk


def _agg(a, ret):
    out = _all('x')(a, ret)
    k = int(ret) if ret is not None else 0
    if 0 < k <= len(a['y']):
        bad = np.flatnonzero(poisoned(a['y'][:k]))
        if len(bad):
            out.append(('y', f'y[0:{k}] (returned count {k}) has unwritten entries {bad[:6].tolist()}'))
    elif k > len(a['y']):
        out.append(('y', f'returned count {k} exceeds len(y) = {len(a["y"])}'))
    return out


def _bfs(a, ret):
    k = int((a['level'] != -1).sum())
    bad = np.flatnonzero(poisoned(a['order'][:k]))
    return [('order', f'order[0:{k}] ({k} reached nodes) has unwritten entries {bad[:6].tolist()}')] if len(bad) else []


# name -> (pure output argument names (poisoned before the call), checker(argdict, ret) -> [(arg, message)])
CONTRACT = {
    'classical_strength_of_connection_abs': (['Sp', 'Sj', 'Sx'], _csr_out('Sp', ['Sj', 'Sx'])),
    'classical_strength_of_connection_min': (['Sp', 'Sj', 'Sx'], _csr_out('Sp', ['Sj', 'Sx'])),
    'symmetric_strength_of_connection': (['Sp', 'Sj', 'Sx'], _csr_out('Sp', ['Sj', 'Sx'])),
    'maximum_row_value': (['x'], _all('x')),
    'rs_cf_splitting': (['splitting'], _all('splitting')),
    'cljp_naive_splitting': (['splitting'], _all('splitting')),
    'rs_direct_interpolation_pass1': (['Pp'], lambda a, r: [('Pp', e)] if (e := _ptr_ok(a['Pp'], [])) else []),
    'rs_classical_interpolation_pass1': (['Pp'], lambda a, r: [('Pp', e)] if (e := _ptr_ok(a['Pp'], [])) else []),
    'rs_direct_interpolation_pass2': (['Pj', 'Px'], _csr_out('Pp', ['Pj', 'Px'])),
    'rs_classical_interpolation_pass2': (['Pj', 'Px'], _csr_out('Pp', ['Pj', 'Px'])),
    'one_point_interpolation': (['Pp', 'Pj', 'Px'], _csr_out('Pp', ['Pj', 'Px'])),
    'approx_ideal_restriction_pass1': (['Rp'], lambda a, r: [('Rp', e)] if (e := _ptr_ok(a['Rp'], [])) else []),
    'approx_ideal_restriction_pass2': (['Rj', 'Rx'], _csr_out('Rp', ['Rj', 'Rx'])),
    # block AIR writes only the diagonal of the identity block: Rx relies on the zeros the caller provides -> only Rj is a pure output
    'block_approx_ideal_restriction_pass2': (['Rj'], _csr_out('Rp', ['Rj'])),
    'standard_aggregation': (['x', 'y'], _agg),
    'naive_aggregation': (['x', 'y'], _agg),
    'pairwise_aggregation': (['x', 'y'], _agg),
    'vertex_coloring_mis': (['x'], _all('x')),
    'vertex_coloring_jones_plassmann': (['x'], _all('x')),
    'vertex_coloring_LDF': (['x'], _all('x')),
    'connected_components': (['components'], _all('components')),
    'breadth_first_search': (['order'], _bfs),
    'min_blocks': (['Tx'], _all('Tx')),
    'fit_candidates': (['Ax', 'R'], _all('Ax', 'R')),
}


# ================================================================================================
# narrow input regions (kernel + shape of the arguments) in which the tree violated the property when this check was built.
# Mechanism: a region listed in KNOWN_REGIONS (a `known:` line of KNOWN_FINDINGS.txt) is not executed by the bulk stream (each
# abort costs a child process); one fixed probe per region runs in its own child on every check, so the finding keeps being
# reported (KNOWN-FINDING when listed, VIOLATION otherwise).
# ================================================================================================

def _k_bsr_jacobi(a):
    s0, s1, s2, bs = int(a['row_start']), int(a['row_stop']), int(a['row_step']), int(a['blocksize'])
    if s0 == s1:
        return False
    return s2 < 0 or abs(s1 - s0) * bs > len(a['temp'])


def _k_extract_subblocks(a):
    sp_ = np.asarray(a['Sp'])
    k = int(a['nsdomains'])
    return bool((np.diff(sp_[:k + 1]) == 0).any())


def _k_cr_helper(a):
    ap, aj = np.asarray(a['Ap']), np.asarray(a['Aj'])
    n = len(ap) - 1
    return any(i not in aj[ap[i]:ap[i + 1]] for i in range(n))


def _k_block_air(a):
    rp = np.asarray(a['Rp'])
    return bool((np.diff(rp) == 1).any())


# All four regions found during the build of this check were repaired in /repo (fixed: lines f961a53, d6434ae, 3855dfe, ed6ba0e of
# KNOWN_FINDINGS.txt), so no region is skipped any more; the predicates are kept because the fixed probes below (which must now run
# clean) name them, and the mechanism is what a future `known:` line would use.
FIXED_REGIONS = {
    'bsr_jacobi': [('bsr_jacobi_copy_loop', _k_bsr_jacobi)],
    'extract_subblocks': [('schwarz_empty_subdomain', _k_extract_subblocks)],
    'cr_helper': [('cr_helper_missing_diagonal', _k_cr_helper)],
    'block_approx_ideal_restriction_pass2': [('block_air_empty_neighbourhood', _k_block_air)],
}
KNOWN_REGIONS = {}


class SkipKnown(Exception):
    pass


MATRIX_INDEX_ARGS = ('Aj', 'Sj', 'Cj', 'Ai', 'Bj')


class GroupTimeout(BaseException):
    """a public pyamg function keeps looping in Python (not inside one native call) for GROUP_LIMIT CPU seconds"""


GROUP_LIMIT = 10.0


def known_key(kernel, argdict):
    for fkey, pred in KNOWN_REGIONS.get(kernel, []):
        try:
            if pred(argdict):
                return fkey
        except Exception:
            pass
    return None


def _i32(*v):
    return np.array(v, dtype=np.int32)


def probes():
    """fkey -> (kernel, args): one small fixed input inside each known region"""
    f8 = np.float64
    return {
        # 2 block rows of size 1, backward sweep: the x -> temp copy loop runs i = 0, -1, -2, ...
        'bsr_jacobi_copy_loop': ('bsr_jacobi', [_i32(0, 1, 2), _i32(0, 1), np.array([2.0, 2.0]), np.ones(2), np.ones(2), np.zeros(2),
                                               1, -1, -1, 1, np.array([1.0])]),
        # A = [[1, 0], [0, 0]] (second row empty) with the default subdomains (= rows of A): reads Sj[Sp[1]] = Sj[1] past the end
        'schwarz_empty_subdomain': ('extract_subblocks', [_i32(0, 1, 1), _i32(0), np.array([1.0]), np.zeros(1), _i32(0, 1, 1), _i32(0), _i32(0, 1, 1), 2, 2]),
        # pattern [[0, 1], [0, 1]]: row 0 has no diagonal entry, is selected first, and keeps its weight -> selected again for ever
        'cr_helper_missing_diagonal': ('cr_helper', [_i32(0, 1, 2), _i32(1, 1), np.ones(2), np.array([1.0, 0.5]), _i32(2, 0, 1), _i32(0, 0),
                                                     np.zeros(2), 0.1]),
        # one C-point without any F-point neighbour (Rp = [0, 1]): &A0[0] on an empty std::vector
        'block_air_empty_neighbourhood': ('block_approx_ideal_restriction_pass2',
                                          [_i32(0, 1), _i32(0), np.zeros(4), _i32(0, 1), _i32(0), np.array([4.0, 1.0, 1.0, 4.0]), _i32(0, 1), _i32(0),
                                           np.array([1.0]), _i32(0), _i32(1), 2, 2, 0, 3, 1]),
    }


# ================================================================================================
# (de)serialisation of one kernel call
# ================================================================================================

def enc_arg(a):
    if isinstance(a, np.ndarray):
        if a.dtype.kind == 'c':
            return {'dt': a.dtype.str, 'v': [[float(z.real), float(z.imag)] for z in a.ravel()]}
        if a.dtype.kind == 'f':
            return {'dt': a.dtype.str, 'v': [float(v) for v in a.ravel()]}
        return {'dt': a.dtype.str, 'v': [int(v) for v in a.ravel()]}
    if isinstance(a, (bool, np.bool_)):
        return bool(a)
    if isinstance(a, (int, np.integer)):
        return int(a)
    if isinstance(a, (float, np.floating)):
        return float(a)
    if isinstance(a, (complex, np.complexfloating)):
        return {'c': [float(a.real), float(a.imag)]}
    return str(a)


def dec_arg(o):
    if isinstance(o, dict) and 'dt' in o:
        dt = np.dtype(o['dt'])
        if dt.kind == 'c':
            return np.array([complex(r, i) for r, i in o['v']], dtype=dt)
        return np.array(o['v'], dtype=dt)
    if isinstance(o, dict) and 'c' in o:
        return complex(o['c'][0], o['c'][1])
    return o


def case_of(rec):
    """JSON-able replay description of a traced kernel call record"""
    ctx, name, names, args = rec
    return {'kernel': name, 'argnames': names, 'args': [enc_arg(a) for a in args], 'context': ctx}


# ================================================================================================
# CHILD SIDE (runs under LD_PRELOAD=libasan with the instrumented shims)
# ================================================================================================

class Tracer:
    def __init__(self, spec, inflight_path, out):
        self.spec = spec
        self.inflight = open(inflight_path, 'wb')
        self.out = out
        self.ctx = {}
        self.calls = collections.Counter()
        self.sigs = collections.Counter()
        self.poison_on = True
        self.allow_known = False
        self.skipped = collections.Counter()
        self.keys = set()
        self.trivial = set()
        self.depth = 0
        self.nviol = 0
        try:
            f = getattr(ctypes.CDLL(None), '__sanitizer_get_current_allocated_bytes')     # (getattr: no private-name mangling)
            f.restype = ctypes.c_size_t
            f.argtypes = []
            self.alloc = f
        except AttributeError:
            self.alloc = None
        self.last_delta = 0

    def emit(self, obj):
        self.out.write(json.dumps(obj) + '\n')
        self.out.flush()

    def violation(self, kind, what, rec):
        self.nviol += 1
        if self.nviol <= 40:
            self.emit({'t': 'viol', 'kind': kind, 'what': what, 'case': case_of(rec)})

    def install(self, mods):
        import corebuild
        tr = self
        orig_call = corebuild._Overload.call

        def call(ov, cargs):
            if tr.alloc is None:
                return orig_call(ov, cargs)
            b = tr.alloc()
            r = orig_call(ov, cargs)
            tr.last_delta = tr.alloc() - b
            return r
        corebuild._Overload.call = call
        for stem, ents in self.spec.items():
            mod = mods[stem]
            done = set()
            for ent in ents:
                nm = ent['py']
                if nm in done:
                    continue
                done.add(nm)
                setattr(mod, nm, self.wrap(nm, getattr(mod, nm), [p[2] for p in ent['params']]))

    def wrap(self, name, orig, names):
        tr = self
        contract = CONTRACT.get(name)

        def w(*args, **kw):
            args = list(args)
            for nm in names[len(args):]:
                if nm in kw:
                    args.append(kw.pop(nm))
            if kw or len(args) != len(names):
                return orig(*args, **kw)           # let the shim raise its TypeError
            if not tr.allow_known:
                fk = known_key(name, dict(zip(names, args)))
                if fk:
                    tr.skipped[fk] += 1
                    raise SkipKnown(fk)
            tr.calls[name] += 1
            snap = [a.copy() if isinstance(a, np.ndarray) else a for a in args]
            h = hashlib.blake2b(name.encode(), digest_size=8)
            nontriv = None
            for nm, a in zip(names, args):
                if isinstance(a, np.ndarray):
                    h.update(a.dtype.char.encode())
                    h.update(a.tobytes())
                    if nm in MATRIX_INDEX_ARGS:
                        nontriv = bool(nontriv) or len(a) > 0
                else:
                    h.update(repr(a).encode())
            if nontriv is None:
                nontriv = any(isinstance(a, np.ndarray) and len(a) > 0 for a in args)
            (tr.keys if nontriv else tr.trivial).add(int.from_bytes(h.digest(), 'little'))
            rec = (dict(tr.ctx), name, names, snap)
            tr.inflight.seek(0)
            tr.inflight.truncate()
            pickle.dump(rec, tr.inflight)
            tr.inflight.flush()
            pois = []
            if contract and tr.poison_on:
                for nm in contract[0]:
                    a = args[names.index(nm)]
                    if isinstance(a, np.ndarray) and a.flags.writeable:
                        poison_fill(a)
                        pois.append(nm)
            signal.setitimer(signal.ITIMER_VIRTUAL, CPU_LIMIT)
            try:
                r = orig(*args)
            finally:
                signal.setitimer(signal.ITIMER_VIRTUAL, 0)
            tr.sigs[name + ':' + ','.join(a.dtype.char for a in args if isinstance(a, np.ndarray))] += 1
            if tr.last_delta > 0 and tr.alloc is not None:
                deltas = []
                for _ in range(6):
                    again = [a.copy() if isinstance(a, np.ndarray) else a for a in snap]
                    signal.setitimer(signal.ITIMER_VIRTUAL, CPU_LIMIT)
                    try:
                        orig(*again)
                    finally:
                        signal.setitimer(signal.ITIMER_VIRTUAL, 0)
                    deltas.append(int(tr.last_delta))
                if min(deltas) > 0:
                    tr.violation('leak', f'{name}: {min(deltas)} heap bytes allocated by the call are still live after it returns '
                                         f'(6 repeated calls: {deltas})', rec)
            if pois:
                ad = dict(zip(names, args))
                errs = contract[1](ad, r)
                for nm, msg in errs[:2]:
                    tr.violation('poison', f'{name}: output not fully defined -- {msg}', rec)
                # never hand poison back to Python code: restore what was there before the call
                for nm in pois:
                    i = names.index(nm)
                    m = poisoned(args[i])
                    if m.any():
                        if args[i].dtype.kind == 'c':
                            args[i][m] = snap[i][m]
                        else:
                            args[i][m] = snap[i][m]
            return r
        w.__name__ = name
        return w


# ------------------------------------------------------------------------------------------------
# generators of structurally valid inputs
# ------------------------------------------------------------------------------------------------

DUP_P = 0.0      # probability that a generated pattern stores some columns twice (a structurally valid, non-canonical CSR/BSR matrix).  Set by child_main for
#                  the sanitizer search (raw + public scenarios); 0 for the correspondence inputs, whose generators are unchanged (they build their own duplicates).


def rand_pattern(rng, n, m=None, sym=None, diag=None, dens=None, unsorted=None, cplx=False, explicit_zero=None, dup=None):
    """(indptr, indices, data) int32/int32/float64|complex128, NOT canonicalised by SciPy.
    diag: 'all' | 'some' (some missing) | 'zero' (some stored as explicit 0) | 'none'.
    dup: some rows store a column more than once (next to each other when the row is sorted, anywhere otherwise)."""
    m = n if m is None else m
    if dup is None:
        dup = bool(DUP_P > 0 and rng.random() < DUP_P)       # (no draw when DUP_P = 0: the correspondence stream is as before)
    if dens is None:
        dens = float(rng.choice([0.0, 0.1, 0.25, 0.5, 1.0], p=[.08, .22, .3, .25, .15]))
    if sym is None:
        sym = bool(rng.integers(2))
    if diag is None:
        diag = str(rng.choice(['all', 'all', 'some', 'zero', 'none']))
    if unsorted is None:
        unsorted = rng.random() < 0.35
    if explicit_zero is None:
        explicit_zero = rng.random() < 0.3
    pz = 0.0 if not explicit_zero else (explicit_zero if isinstance(explicit_zero, float) else float(rng.choice([0.2, 0.5])))
    M = rng.random((n, m)) < dens
    if sym and n == m:
        M = np.triu(M, 1)
        M = M | M.T
    k = min(n, m)
    M[np.arange(k), np.arange(k)] = False
    feats = []
    if n > 1 and rng.random() < 0.3:            # a dense row
        M[int(rng.integers(n)), :] = True
        feats.append('dense_row')
        if sym and n == m:
            M = M | M.T
    if n > 1 and rng.random() < 0.3:            # isolated nodes
        for i in rng.choice(n, size=int(rng.integers(1, max(2, n // 3) + 1)), replace=False):
            M[i, :] = False
            if i < m:
                M[:, i] = False
        feats.append('isolated')
    dmask = np.zeros(k, dtype=bool)
    dzero = np.zeros(k, dtype=bool)
    if diag == 'all':
        dmask[:] = True
    elif diag == 'some':
        dmask = rng.random(k) < 0.6
    elif diag == 'zero':
        dmask[:] = True
        dzero = rng.random(k) < 0.4
    if n > 1 and rng.random() < 0.25:           # empty first / last rows (incl. their diagonal)
        for i in set(rng.choice([0, n - 1], size=int(rng.integers(1, 3)))):
            M[i, :] = False
            if i < k:
                dmask[i] = False
        feats.append('empty_first_or_last_row')
    ip = [0]
    ix = []
    dx = []
    for i in range(n):
        cols = list(np.flatnonzero(M[i]))
        if i < k and dmask[i]:
            cols.append(i)
        cols = sorted(set(int(c) for c in cols))
        if unsorted and len(cols) > 1:
            cols = [cols[t] for t in rng.permutation(len(cols))]
        if dup and cols and rng.random() < 0.6:
            for _ in range(int(rng.integers(1, 3))):
                # a stored entry once more: any one, or the smallest / largest column of the row (where scans over a sorted row start / stop)
                r_ = rng.random()
                c2 = cols[int(rng.integers(len(cols)))] if r_ < 0.5 else (max(cols) if r_ < 0.8 else min(cols))
                at = int(rng.integers(len(cols) + 1)) if unsorted else cols.index(c2)
                cols.insert(at, c2)
        for c in cols:
            if c == i and i < k:
                v = 0.0 if dzero[i] else float(rng.choice([1, 2, 4, 8, -2, 0.5]))
            else:
                v = float(rng.choice([-4, -3, -2, -1, 1, 2, 3, 4]))
                if explicit_zero and rng.random() < pz:
                    v = 0.0
            if cplx and v != 0.0:
                v = complex(v, float(rng.integers(-3, 4)))
            dx.append(v)
        ix += cols
        ip.append(len(ix))
    if (np.diff(ip) == 0).any():
        feats.append('empty_row')
    feats += [f'diag={diag}', 'unsorted' if unsorted else 'sorted', 'sym' if sym else 'nonsym', f'dens={dens}'] + (['explicit_zeros'] if explicit_zero else [])
    if dup and any(len(set(ix[ip[i]:ip[i + 1]])) < ip[i + 1] - ip[i] for i in range(n)):
        feats.append('duplicate_entries')
    return (np.array(ip, dtype=np.int32), np.array(ix, dtype=np.int32),
            np.array(dx, dtype=np.complex128 if cplx else np.float64), feats)


def rand_n(rng, big=False):
    r = rng.random()
    if r < 0.12:
        return 1
    if r < 0.22:
        return 2
    if big and r > 0.9:
        return int(rng.integers(13, 41))
    return int(rng.integers(3, 13))


def rand_vec(rng, n, cplx=False):
    v = rng.integers(-5, 6, size=n).astype(np.float64)
    if cplx:
        v = v + 1j * rng.integers(-5, 6, size=n)
    return v


def rand_sweep(rng, n):
    """admissible (start, stop, step): stop reached through rows inside 0..n-1"""
    r = rng.random()
    if r < 0.3:
        return 0, n, 1
    if r < 0.55:
        return n - 1, -1, -1
    step = int(rng.choice([1, 2, 3, -1, -2, -3]))
    start = int(rng.integers(0, n))
    kmax = (n - 1 - start) // step + 1 if step > 0 else start // (-step) + 1
    k = int(rng.integers(0, kmax + 1))
    return start, start + k * step, step


def transpose_pattern(n, ip, ix, m=None):
    m = n if m is None else m
    cnt = np.zeros(m + 1, dtype=np.int64)
    for j in ix:
        cnt[j + 1] += 1
    tp = np.cumsum(cnt)
    tj = np.zeros(len(ix), dtype=np.int32)
    pos = tp[:-1].copy()
    for i in range(n):
        for jj in range(ip[i], ip[i + 1]):
            j = ix[jj]
            tj[pos[j]] = i
            pos[j] += 1
    return tp.astype(np.int32), tj


def strip_diag(ip, ix, dx):
    keep = np.ones(len(ix), dtype=bool)
    n = len(ip) - 1
    nip = [0]
    for i in range(n):
        for jj in range(ip[i], ip[i + 1]):
            if ix[jj] == i:
                keep[jj] = False
        nip.append(int(keep[:ip[i + 1]].sum()))
    return np.array(nip, dtype=np.int32), ix[keep], dx[keep]


class Overloads:
    """dtype signatures of the instantiations of each kernel (from spec.json)"""

    def __init__(self, spec):
        self.by = collections.defaultdict(list)
        for stem, ents in spec.items():
            for e in ents:
                self.by[e['py']].append(e['params'])

    def pick(self, rng, name):
        ovs = self.by[name]
        return ovs[int(rng.integers(len(ovs)))]


_NP = {'i8': np.int64, 'i4': np.int32, 'f4': np.float32, 'f8': np.float64, 'c8': np.complex64, 'c16': np.complex128, 'b1': np.bool_}


def coerce(params, args):
    """cast generated arguments to the dtypes of one instantiation"""
    out = []
    for (kind, code, nm), a in zip(params, args):
        if kind == 'array':
            a = np.asarray(a)
            dt = _NP[code]
            if np.dtype(dt).kind != 'c' and a.dtype.kind == 'c':
                a = a.real
            out.append(np.ascontiguousarray(a.astype(dt, copy=False)))      # no copy when the dtype already matches: outputs land in the caller's array
        elif code in ('i4', 'i8'):
            out.append(int(a))
        elif code in ('f4', 'f8'):
            out.append(float(np.real(a)))
        elif code == 'b1':
            out.append(bool(a))
        else:
            out.append(a)
    return out


def is_cplx(params):
    return any(code in ('c8', 'c16') for _, code, _ in params)


class Raw:
    """raw-kernel scenarios: each method generates one structurally valid call group"""

    def __init__(self, core, ov, tr):
        self.core, self.ov, self.tr = core, ov, tr

    def call(self, rng, name, args, params=None):
        params = params or self.ov.pick(rng, name)
        cargs = coerce(params, args)
        r = getattr(self.core, name)(*cargs)
        return r, cargs

    # ---- relaxation.h (point kernels): every kernel of the family on the same matrix, each with its own sweeps
    def point_relax(self, rng):
        n = rand_n(rng, big=True)
        pats = {False: rand_pattern(rng, n, cplx=False), True: rand_pattern(rng, n, cplx=True)}
        for name in ('gauss_seidel', 'sor_gauss_seidel', 'jacobi', 'jacobi_indexed', 'gauss_seidel_indexed', 'jacobi_ne', 'gauss_seidel_ne',
                     'gauss_seidel_nr'):
            for rep in range(2):
                params = self.ov.pick(rng, name)
                c = is_cplx(params)
                ip, ix, dx, feats = pats[c]
                x, b = rand_vec(rng, n, c), rand_vec(rng, n, c)
                s0, s1, s2 = rand_sweep(rng, n)
                om = float(rng.choice([0.5, 1.0, 1.5]))
                self.tr.ctx.update(feats=feats, sweep=[s0, s1, s2])
                if name == 'gauss_seidel':
                    a = [ip, ix, dx, x, b, s0, s1, s2]
                elif name == 'sor_gauss_seidel':
                    a = [ip, ix, dx, x, b, s0, s1, s2, om]
                elif name == 'jacobi':
                    a = [ip, ix, dx, x, b, np.zeros(n, dtype=dx.dtype), s0, s1, s2, np.array([om], dtype=dx.dtype)]
                elif name == 'jacobi_indexed':
                    idx = rng.integers(0, n, size=int(rng.integers(0, n + 2))).astype(np.int32)
                    a = [ip, ix, dx, x, b, idx, np.array([om], dtype=dx.dtype)]
                elif name == 'gauss_seidel_indexed':
                    m = int(rng.integers(1, n + 3))
                    idx = rng.integers(0, n, size=m).astype(np.int32)
                    if rng.random() < 0.5:
                        idx[int(rng.integers(m))] = n - 1         # the last row is where reading past a row end leaves the arrays
                    s0, s1, s2 = rand_sweep(rng, m)
                    self.tr.ctx.update(sweep=[s0, s1, s2])
                    a = [ip, ix, dx, x, b, idx, s0, s1, s2]
                elif name == 'jacobi_ne':
                    # the kernel loops `i < row_stop`: the Python caller passes slice(None).indices(n) = (0, n, 1)
                    a = [ip, ix, dx, x, b, rand_vec(rng, n, c), np.zeros(n, dtype=dx.dtype), 0, n, 1, np.array([om], dtype=dx.dtype)]
                elif name == 'gauss_seidel_ne':
                    a = [ip, ix, dx, x, b, s0, s1, s2, rand_vec(rng, n, c), om]
                else:
                    a = [ip, ix, dx, x, b, s0, s1, s2, rand_vec(rng, n, c), om]
                self.call(rng, name, a, params)

    # ---- relaxation.h (BSR / block kernels): all six on the same block pattern
    def block_relax(self, rng):
        nb = rand_n(rng)
        bs = int(rng.choice([1, 2, 2, 3]))
        ip, ix, _, feats = rand_pattern(rng, nb, cplx=False)
        nnzb = len(ix)
        for name in ('bsr_gauss_seidel', 'bsr_jacobi', 'bsr_jacobi_indexed', 'block_jacobi', 'block_jacobi_indexed', 'block_gauss_seidel'):
            for rep in range(2):
                params = self.ov.pick(rng, name)
                c = is_cplx(params)
                dx = rand_vec(rng, nnzb * bs * bs, c)
                x, b = rand_vec(rng, nb * bs, c), rand_vec(rng, nb * bs, c)
                s0, s1, s2 = rand_sweep(rng, nb)
                om = np.array([float(rng.choice([0.5, 1.0, 1.5]))], dtype=dx.dtype)
                dinv = rand_vec(rng, nb * bs * bs, c)
                temp = np.zeros(nb * bs, dtype=dx.dtype)
                idx = rng.integers(0, nb, size=int(rng.integers(0, nb + 2))).astype(np.int32)
                self.tr.ctx.update(feats=feats, sweep=[s0, s1, s2], blocksize=bs)
                if name == 'bsr_gauss_seidel':
                    a = [ip, ix, dx, x, b, s0, s1, s2, bs]
                elif name == 'bsr_jacobi':
                    a = [ip, ix, dx, x, b, temp, s0, s1, s2, bs, om]
                elif name == 'bsr_jacobi_indexed':
                    a = [ip, ix, dx, x, b, idx, bs, om]
                elif name == 'block_jacobi':
                    a = [ip, ix, dx, x, b, dinv, temp, s0, s1, s2, om, bs]
                elif name == 'block_jacobi_indexed':
                    a = [ip, ix, dx, x, b, dinv, idx, om, bs]
                else:
                    a = [ip, ix, dx, x, b, dinv, s0, s1, s2, bs]
                self.call(rng, name, a, params)

    # ---- strength of connection + classical chain (ruge_stuben.h, smoothed_aggregation.h)
    def classical_chain(self, rng):
        n = rand_n(rng, big=True)
        name = str(rng.choice(['classical_strength_of_connection_abs', 'classical_strength_of_connection_min',
                               'symmetric_strength_of_connection']))
        params = self.ov.pick(rng, name)
        c = is_cplx(params)
        ip, ix, dx, feats = rand_pattern(rng, n, cplx=c)
        self.tr.ctx.update(feats=feats)
        theta = float(rng.choice([0.0, 0.25, 0.5, 1.0, 2.0]))
        Sp = np.empty(n + 1, dtype=np.int32)
        Sj = np.empty(len(ix), dtype=np.int32)
        Sx = np.empty(len(ix), dtype=dx.dtype)
        _, ca = self.call(rng, name, [n, theta, ip, ix, dx, Sp, Sj, Sx], params)
        Sp, Sj, Sx = ca[5], ca[6], ca[7]
        if not wf_csr(n, Sp, Sj):
            return
        nnz = int(Sp[n])
        Sj, Sx = Sj[:nnz].copy(), Sx[:nnz].copy()
        self.call(rng, 'maximum_row_value', [n, np.zeros(n), Sp, Sj, Sx])
        # splitting on S without diagonal (what classical/split.py passes)
        sp, sj, sx = strip_diag(Sp, Sj, Sx)
        tp, tj = transpose_pattern(n, sp, sj)
        which = int(rng.integers(4))
        split = np.empty(n, dtype=np.int32)
        if which <= 1:
            self.call(rng, 'rs_cf_splitting', [n, sp, sj, tp, tj, np.zeros(n, dtype=np.int32), split])
            if rng.random() < 0.6 and set(np.unique(split)) <= {0, 1}:
                self.call(rng, 'rs_cf_splitting_pass2', [n, sp, sj, split])
        elif which == 2:
            self.call(rng, 'cljp_naive_splitting', [n, sp, sj, tp, tj, split, int(rng.integers(2))])
        else:
            split[:] = rng.integers(0, 2, size=n)
        if not set(np.unique(split)) <= {0, 1}:
            return
        # interpolation: C = strength pattern (with or without diagonal) carrying the entries of A
        Cp, Cj, Cx = (Sp, Sj, Sx) if rng.random() < 0.5 else (sp, sj, sx)
        for p1, p2, extra in (('rs_direct_interpolation_pass1', 'rs_direct_interpolation_pass2', []),
                              ('rs_classical_interpolation_pass1', 'rs_classical_interpolation_pass2', [bool(rng.integers(2))])):
            Pp = np.empty(n + 1, dtype=np.int32)
            self.call(rng, p1, [n, Cp, Cj, split, Pp])
            if _ptr_ok(Pp, []) is not None:
                continue
            nn = int(Pp[n])
            pr = self.ov.pick(rng, p2)
            if is_cplx(pr) != c and c:
                continue
            self.call(rng, p2, [n, ip, ix, dx, Cp, Cj, Cx, split, Pp, np.empty(nn, dtype=np.int32), np.empty(nn, dtype=dx.dtype)] + extra, pr)
        if not c:
            Cx2 = Cx.copy()
            self.call(rng, 'remove_strong_FF_connections', [n, Cp, Cj, Cx2, split])
            self.call(rng, 'one_point_interpolation', [np.empty(n + 1, dtype=np.int32), np.empty(n, dtype=np.int32), np.empty(n), Cp, Cj, Cx, split])

    # ---- RS splitting on many small digraphs of every density (the bucket arrays are stressed when lambda grows after ties)
    def rs_stress(self, rng):
        for rep in range(12):
            n = int(rng.integers(2, 13))
            dens = float(rng.choice([0.15, 0.3, 0.5, 0.7, 0.9]))
            M = rng.random((n, n)) < dens
            if rng.random() < 0.4:
                M = M | M.T
            if rng.random() < 0.3:
                M[:, int(rng.integers(n))] = True          # a node every row depends on
            np.fill_diagonal(M, False)                       # classical/split.py removes the diagonal
            sp_ = np.zeros(n + 1, dtype=np.int32)
            sp_[1:] = np.cumsum(M.sum(axis=1))
            sj = np.concatenate([np.flatnonzero(M[i]) for i in range(n)]).astype(np.int32) if M.any() else np.zeros(0, dtype=np.int32)
            tp, tj = transpose_pattern(n, sp_, sj)
            self.tr.ctx.update(feats=[f'dens={dens}', 'no-diagonal'])
            split = np.empty(n, dtype=np.int32)
            self.call(rng, 'rs_cf_splitting', [n, sp_, sj, tp, tj, np.zeros(n, dtype=np.int32), split])
            if set(np.unique(split)) <= {0, 1}:
                self.call(rng, 'rs_cf_splitting_pass2', [n, sp_, sj, split])
            split = np.empty(n, dtype=np.int32)
            self.call(rng, 'cljp_naive_splitting', [n, sp_, sj, tp, tj, split, int(rng.integers(2))])

    # ---- compatible relaxation helper (sizes as in classical/cr.py: indices has n+1 entries, [0] = number of F points)
    def cr(self, rng):
        n = rand_n(rng, big=True)
        ip, ix, dx, feats = rand_pattern(rng, n)
        self.tr.ctx.update(feats=feats)
        split = (rng.random(n) < 0.3).astype(np.int32) if rng.random() < 0.5 else np.zeros(n, dtype=np.int32)
        F, C = np.flatnonzero(split == 0), np.flatnonzero(split == 1)
        indices = np.zeros(n + 1, dtype=np.int32)
        indices[0] = len(F)
        indices[1:1 + len(F)] = F
        indices[1 + len(F):] = C[::-1]
        B = rng.choice([1.0, 2.0, -1.0, 0.5], size=n)
        e = rand_vec(rng, n) * rng.choice([1.0, 0.25])
        self.call(rng, 'cr_helper', [ip, ix, B, e, indices, split, np.zeros(n), float(rng.choice([0.1, 0.5, 0.9]))])

    # ---- pattern-restricted products (rectangular operands are allowed by the kernel contract)
    def products(self, rng):
        if rng.random() < 0.6:
            params = self.ov.pick(rng, 'incomplete_mat_mult_bsr')
            c = is_cplx(params)
            nr, nk, nc = rand_n(rng), rand_n(rng), rand_n(rng)
            br, bk, bc = (int(v) for v in rng.integers(1, 4, size=3))
            ap, aj, _, f1 = rand_pattern(rng, nr, m=nk, diag='none')
            bp, bj, _, f2 = rand_pattern(rng, nk, m=nc, diag='none')
            sp_, sj, _, f3 = rand_pattern(rng, nr, m=nc, diag='none')
            self.tr.ctx.update(feats=f1 + f2 + f3, shape=[nr, nk, nc, br, bk, bc])
            self.call(rng, 'incomplete_mat_mult_bsr', [ap, aj, rand_vec(rng, len(aj) * br * bk, c), bp, bj, rand_vec(rng, len(bj) * bk * bc, c),
                                                       sp_, sj, np.zeros(len(sj) * br * bc, dtype=np.complex128 if c else np.float64),
                                                       nr, nc, br, bk, bc], params)
        else:
            params = self.ov.pick(rng, 'incomplete_mat_mult_csr')
            c = is_cplx(params)
            n = rand_n(rng)
            # the merge of my_inner is written for sorted duplicate-free rows / columns; it must stay in range on any structurally valid operand
            srt = False if rng.random() < 0.5 else None
            ap, aj, ax, f1 = rand_pattern(rng, n, cplx=c, unsorted=srt)
            bp, bj, bx, f2 = rand_pattern(rng, n, cplx=c, unsorted=srt)      # CSC arrays of B
            sp_, sj, sx, f3 = rand_pattern(rng, n, cplx=c, unsorted=srt)
            self.tr.ctx.update(feats=f1 + f2 + f3)
            self.call(rng, 'incomplete_mat_mult_csr', [ap, aj, ax, bp, bj, bx, sp_, sj, sx, n], params)

    # ---- Schwarz with explicit subdomains, sizes as relaxation.schwarz_parameters builds them (Tx holds |subdomain d|^2 values at Tp[d]).
    #      A: any structurally valid CSR matrix (rows sorted or not, duplicate stored entries: schwarz_parameters does not canonicalise A);
    #      subdomains: lists of rows -- sorted and unique / in any order / with repetitions / the stored rows of A themselves (the default of
    #      schwarz_parameters: unsorted and with repetitions when A is), now and then an empty one.  Every array is an exactly sized heap block of its
    #      own, so an access one past the end of Sj / Tx / Aj is an ASan report (it is for the LAST subdomain / block that a scan running over
    #      the end of a subdomain leaves the array).
    def schwarz_raw(self, rng):
        params = self.ov.pick(rng, 'extract_subblocks')
        c = is_cplx(params)
        n = rand_n(rng)
        ip, ix, dx, feats = rand_pattern(rng, n, cplx=c)
        nsd = int(rng.integers(1, n + 2))
        mode = str(rng.choice(['sorted', 'sorted', 'anyorder', 'repeats', 'rows']))
        doms = []
        for _ in range(nsd):
            if mode == 'rows':
                r_ = int(rng.integers(n))
                d = ix[ip[r_]:ip[r_ + 1]].copy()
            elif mode == 'repeats':
                d = rng.integers(0, n, size=int(rng.integers(1, n + 3)))
                if rng.random() < 0.5:
                    d = np.sort(d)
            else:
                d = rng.choice(n, size=int(rng.integers(1, n + 1)), replace=False)
                if mode == 'sorted':
                    d = np.sort(d)
            if rng.random() < 0.06:
                d = d[:0]
            doms.append(np.asarray(d, dtype=np.int32))
        Sp = np.zeros(nsd + 1, dtype=np.int32)
        Sp[1:] = np.cumsum([len(d) for d in doms])
        Sj = np.concatenate(doms).astype(np.int32)
        Tp = np.zeros(nsd + 1, dtype=np.int32)
        Tp[1:] = np.cumsum([len(d) ** 2 for d in doms])
        Tx = np.zeros(int(Tp[-1]), dtype=dx.dtype)
        self.tr.ctx.update(feats=feats + ['subdomains=' + mode], nsd=nsd)
        _, ca = self.call(rng, 'extract_subblocks', [ip, ix, dx, Tx, Tp, Sj, Sp, nsd, n], params)
        s0, s1, s2 = rand_sweep(rng, nsd)
        self.tr.ctx.update(sweep=[s0, s1, s2])
        pr = next(p_ for p_ in self.ov.by['overlapping_schwarz_csr'] if p_[2][1] == params[2][1])
        self.call(rng, 'overlapping_schwarz_csr', [ip, ix, dx, rand_vec(rng, n, c), rand_vec(rng, n, c), ca[3], Tp, Sj, Sp, nsd, n, s0, s1, s2], pr)

    # ---- approximate ideal restriction (air.h): sizes as classical/interpolate.py local_air
    def air_raw(self, rng):
        nb = rand_n(rng)
        bs = int(rng.choice([1, 1, 2, 3]))
        ap, aj, _, f1 = rand_pattern(rng, nb)
        cp, cj, cx, f2 = rand_pattern(rng, nb, diag=str(rng.choice(['all', 'none'])))
        split = (rng.random(nb) < float(rng.choice([0.2, 0.5, 0.8]))).astype(np.int32)
        cpts = np.flatnonzero(split == 1).astype(np.int32)
        nc = len(cpts)
        dist = int(rng.integers(1, 3))
        self.tr.ctx.update(feats=f1 + f2, blocksize=bs, distance=dist)
        Rp = np.empty(nc + 1, dtype=np.int32)
        self.call(rng, 'approx_ideal_restriction_pass1', [Rp, cp, cj, cpts, split, dist])
        if _ptr_ok(Rp, []) is not None:
            return
        nnz = int(Rp[-1])
        opts = [dist, int(rng.integers(2)), int(rng.integers(1, 5)), int(rng.integers(2))]
        if bs == 1:
            self.call(rng, 'approx_ideal_restriction_pass2', [Rp, np.zeros(nnz, dtype=np.int32), np.zeros(nnz), ap, aj, rand_vec(rng, len(aj)) + 0.5,
                                                              cp, cj, cx, cpts, split] + opts)
        else:
            self.call(rng, 'block_approx_ideal_restriction_pass2', [Rp, np.zeros(nnz, dtype=np.int32), np.zeros(nnz * bs * bs), ap, aj,
                                                                    rand_vec(rng, len(aj) * bs * bs) + 0.5, cp, cj, cx, cpts, split, bs] + opts)

    # ---- constraint projection (satisfy_constraints_helper, calc_BtB): BSR pattern with RowsPerBlock x ColsPerBlock blocks, NullDim candidates;
    #      buffer sizes as util/utils.py / aggregation/smooth.py build them: B is (n_bcol*cpb) x NullDim, UB is (n_brow*rpb) x NullDim,
    #      BtBinv is n_brow x NullDim x NullDim, Bsq is (n_bcol*cpb) x NullDim(NullDim+1)/2
    def constraints(self, rng):
        for rep in range(3):
            nbr, nbc = rand_n(rng), rand_n(rng)
            rpb, cpb, nd = (int(v) for v in rng.integers(1, 4, size=3))
            sp_, sj, _, feats = rand_pattern(rng, nbr, m=nbc, diag='none')
            if nbc > 1 and len(sj) and rng.random() < 0.7:
                sj[int(rng.integers(len(sj)))] = nbc - 1            # the last block column is where a wrong stride leaves B
            # drop duplicates created above by rebuilding the rows (now and then they stay: block rows out of order / a block column stored twice)
            keep_dup = DUP_P > 0 and rng.random() < 0.3
            rows = [(sj[sp_[i]:sp_[i + 1]].tolist() if keep_dup else sorted(set(sj[sp_[i]:sp_[i + 1]].tolist()))) for i in range(nbr)]
            sp_ = np.zeros(nbr + 1, dtype=np.int32)
            sp_[1:] = np.cumsum([len(r_) for r_ in rows])
            sj = np.array([c_ for r_ in rows for c_ in r_], dtype=np.int32)
            self.tr.ctx.update(feats=feats, blocks=[rpb, cpb, nd], shape=[nbr, nbc])
            params = self.ov.pick(rng, 'satisfy_constraints_helper')
            c = is_cplx(params)
            self.call(rng, 'satisfy_constraints_helper',
                      [rpb, cpb, nbr, nd, rand_vec(rng, nbc * cpb * nd, c), rand_vec(rng, nbr * rpb * nd, c), rand_vec(rng, nbr * nd * nd, c),
                       sp_, sj, rand_vec(rng, len(sj) * rpb * cpb, c)], params)
            params = self.ov.pick(rng, 'calc_BtB')
            c = is_cplx(params)
            bsq = nd * (nd + 1) // 2
            self.call(rng, 'calc_BtB', [nd, nbr, cpb, rand_vec(rng, nbc * cpb * bsq, c), bsq,
                                        np.zeros(nbr * nd * nd, dtype=np.complex128 if c else np.float64), sp_, sj], params)

    # ---- aggregation (smoothed_aggregation.h)
    def aggregation(self, rng):
        n = rand_n(rng, big=True)
        ip, ix, dx, feats = rand_pattern(rng, n, sym=bool(rng.random() < 0.7))
        self.tr.ctx.update(feats=feats)
        for name in ('standard_aggregation', 'naive_aggregation'):
            self.call(rng, name, [n, ip, ix, np.empty(n, dtype=np.int32), np.empty(n, dtype=np.int32)])
        self.call(rng, 'pairwise_aggregation', [n, ip, ix, np.abs(dx) + (rng.random(len(dx)) < 0.2), np.empty(n, dtype=np.int32), np.empty(n, dtype=np.int32)])
        for rep in range(2):
            tp_, tj_, tx_, tf = rand_pattern(rng, n, explicit_zero=float(rng.choice([0.0, 0.4])) or False)
            self.tr.ctx.update(feats=tf)
            self.call(rng, 'truncate_rows_csr', [n, int(rng.integers(0, 5)), tp_, tj_, tx_])

    # ---- graph.h
    def graph(self, rng):
        n = rand_n(rng, big=True)
        ip, ix, dx, feats = rand_pattern(rng, n, sym=bool(rng.random() < 0.8))
        self.tr.ctx.update(feats=feats)
        x = np.full(n, -1, dtype=np.int32)
        self.call(rng, 'maximal_independent_set_serial', [n, ip, ix, -1, 1, 0, x])
        x = np.full(n, -1, dtype=np.int32)
        y = rng.integers(0, 4, size=n).astype(float)
        self.call(rng, 'maximal_independent_set_parallel', [n, ip, ix, -1, 1, 0, x, y, int(rng.choice([-1, -1, 0, 1, 3]))])
        self.call(rng, 'maximal_independent_set_k_parallel', [n, ip, ix, int(rng.integers(1, 4)), np.empty(n, dtype=np.int32), rng.random(n), int(rng.choice([-1, -1, 2]))])
        self.call(rng, 'vertex_coloring_mis', [n, ip, ix, np.empty(n, dtype=np.int32)])
        sympat = all(i in ix[ip[j]:ip[j + 1]] for i in range(n) for j in ix[ip[i]:ip[i + 1]])
        if sympat:      # JP / LDF are called on undirected graphs only (asgraph + symmetric input in graph.py)
            self.call(rng, 'vertex_coloring_jones_plassmann', [n, ip, ix, np.empty(n, dtype=np.int32), rng.random(n)])
            self.call(rng, 'vertex_coloring_LDF', [n, ip, ix, np.empty(n, dtype=np.int32), rng.random(n)])
        self.call(rng, 'connected_components', [n, ip, ix, np.empty(n, dtype=np.int32)])
        self.call(rng, 'breadth_first_search', [ip, ix, int(rng.integers(n)), np.empty(n, dtype=np.int32), np.full(n, -1, dtype=np.int32)])
        # Bellman-Ford with positive weights
        w = np.abs(dx) + 0.5
        k = int(rng.integers(1, min(n, 3) + 1))
        centers = rng.choice(n, size=k, replace=False).astype(np.int32)
        params = self.ov.pick(rng, 'bellman_ford')
        isint = params[3][1] == 'i4'
        d = np.full(n, 10 ** 6 if isint else np.inf)
        m = np.full(n, -1, dtype=np.int32)
        p = np.full(n, -1, dtype=np.int32)
        d[centers] = 0
        m[centers] = np.arange(k)
        self.call(rng, 'bellman_ford', [n, ip, ix, np.ceil(w) if isint else w, centers, d, m, p], params)

    # ---- linalg.h / evolution_strength.h / krylov.h small helpers
    def helpers(self, rng):
        for name in ('csc_scale_columns', 'csc_scale_rows', 'filter_matrix_rows', 'apply_distance_filter', 'apply_absolute_distance_filter',
                     'min_blocks', 'pinv_array', 'apply_givens', 'apply_householders', 'householder_hornerscheme'):
            self.helper(rng, name)

    def helper(self, rng, name):
        n, mcols = rand_n(rng), rand_n(rng)
        params = self.ov.pick(rng, name)
        c = is_cplx(params)
        if name in ('csc_scale_columns', 'csc_scale_rows'):
            # util/utils.py scale_rows/scale_columns: CSR arrays of an M x N matrix, passed as (M, N, indptr, indices, data, v)
            ip, ix, dx, feats = rand_pattern(rng, n, m=mcols, cplx=c)
            self.tr.ctx.update(feats=feats)
            if name == 'csc_scale_rows':     # scale_rows(A, v): kernel `csc_scale_columns(N, M, ...)`-style call on the transpose view
                self.call(rng, name, [mcols, n, ip, ix, dx, rand_vec(rng, mcols, c)], params)
            else:
                self.call(rng, name, [mcols, n, ip, ix, dx, rand_vec(rng, n, c)], params)
        elif name == 'filter_matrix_rows':
            # thresholds compare |A_ij| with theta*|A_ii|: ties live at stored zeros next to a missing / zero diagonal
            for lump in (True, False, True):
                params = self.ov.pick(rng, name)
                c = is_cplx(params)
                ip, ix, dx, feats = rand_pattern(rng, n, cplx=c, diag=str(rng.choice(['none', 'some', 'zero', 'all'])),
                                                 explicit_zero=float(rng.choice([0.0, 0.3, 0.6])) or False)
                self.tr.ctx.update(feats=feats, lump=lump)
                self.call(rng, name, [n, float(rng.choice([0.0, 0.25, 1.0, 2.0])), ip, ix, dx, lump], params)
        elif name in ('apply_distance_filter', 'apply_absolute_distance_filter'):
            ip, ix, dx, feats = rand_pattern(rng, n, diag=str(rng.choice(['none', 'some', 'zero', 'all'])),
                                             explicit_zero=float(rng.choice([0.0, 0.3, 0.6])) or False)
            self.tr.ctx.update(feats=feats)
            self.call(rng, name, [n, float(rng.choice([0.5, 1.0, 2.0, 4.0])), ip, ix, np.abs(dx)], params)
        elif name == 'min_blocks':
            bs = int(rng.integers(1, 4))
            self.call(rng, name, [n, bs, np.abs(rand_vec(rng, n * bs * bs)), np.empty(n)], params)
        elif name == 'pinv_array':
            bs = int(rng.integers(1, 5))
            self.call(rng, name, [rand_vec(rng, n * bs * bs, c), n, bs, str(rng.choice(['T', 'F']))], params)
        elif name == 'apply_givens':
            nrot = int(rng.integers(0, n))
            self.call(rng, name, [rand_vec(rng, 4 * max(nrot, 1), c), rand_vec(rng, n + 1, c), n + 1, nrot], params)
        else:
            # krylov/_gmres_householder.py: W is (inner+1) x n row-major, v has length n
            k = int(rng.integers(1, n + 1))
            W = rand_vec(rng, k * n, c)
            v = rand_vec(rng, n, c)
            fwd = bool(rng.integers(2))
            s = (0, k, 1) if fwd else (k - 1, -1, -1)
            if name == 'apply_householders':
                self.call(rng, name, [v, W, n, *s], params)
            else:
                self.call(rng, name, [v, W, rand_vec(rng, k, c), n, *s], params)

    # ---- empty graph (num_rows = 0): every graph / splitting / aggregation / strength kernel the public wrappers reach with a 0x0 matrix;
    #      all arrays have length 0 (row pointer: one entry), so any access to "the first element" is out of bounds
    def empty_graph(self, rng):
        i4, f8 = (lambda k=0: np.zeros(k, dtype=np.int32)), (lambda k=0: np.zeros(k))
        ip, ix, dx = i4(1), i4(), f8()
        self.tr.ctx.update(feats=['empty-graph'])
        th = float(rng.choice([0.0, 0.25, 1.0]))
        for name in ('classical_strength_of_connection_abs', 'classical_strength_of_connection_min', 'symmetric_strength_of_connection'):
            self.call(rng, name, [0, th, ip, ix, dx, i4(1), i4(), f8()])
        self.call(rng, 'maximum_row_value', [0, f8(), ip, ix, dx])
        self.call(rng, 'rs_cf_splitting', [0, ip, ix, ip.copy(), ix.copy(), i4(), i4()])
        self.call(rng, 'rs_cf_splitting_pass2', [0, ip, ix, i4()])
        for cf in (0, 1):
            self.call(rng, 'cljp_naive_splitting', [0, ip, ix, ip.copy(), ix.copy(), i4(), cf])
        for p1 in ('rs_direct_interpolation_pass1', 'rs_classical_interpolation_pass1'):
            self.call(rng, p1, [0, ip, ix, i4(), i4(1)])
        for name in ('standard_aggregation', 'naive_aggregation'):
            self.call(rng, name, [0, ip, ix, i4(), i4()])
        self.call(rng, 'pairwise_aggregation', [0, ip, ix, dx, i4(), i4()])
        self.call(rng, 'maximal_independent_set_serial', [0, ip, ix, -1, 1, 0, i4()])
        self.call(rng, 'maximal_independent_set_parallel', [0, ip, ix, -1, 1, 0, i4(), f8(), int(rng.choice([-1, 0, 2]))])
        if EMPTY_MISK:
            self.call(rng, 'maximal_independent_set_k_parallel', [0, ip, ix, int(rng.integers(0, 3)), i4(), f8(), int(rng.choice([-1, 0, 2]))])
        self.call(rng, 'vertex_coloring_mis', [0, ip, ix, i4()])
        self.call(rng, 'vertex_coloring_jones_plassmann', [0, ip, ix, i4(), f8()])
        self.call(rng, 'vertex_coloring_LDF', [0, ip, ix, i4(), f8()])
        self.call(rng, 'connected_components', [0, ip, ix, i4()])

    SCENARIOS = ['point_relax', 'block_relax', 'classical_chain', 'classical_chain', 'aggregation', 'graph', 'helpers', 'cr', 'products', 'schwarz_raw', 'air_raw', 'rs_stress', 'constraints',
                 'empty_graph']


def wf_csr(n, p, j, m=None):
    m = n if m is None else m
    if _ptr_ok(p, [len(j)]) is not None or len(p) != n + 1:
        return False
    k = int(p[-1])
    return bool(((j[:k] >= 0) & (j[:k] < m)).all())


# ------------------------------------------------------------------------------------------------
# public-API scenarios: the Python callers size every buffer
# ------------------------------------------------------------------------------------------------

class Public:
    def __init__(self, tr, out):
        self.tr = tr
        self.exc = collections.Counter()
        self.okc = collections.Counter()

    def attempt(self, label, fn, *a, **k):
        self.tr.ctx['py'] = label
        try:
            r = fn(*a, **k)
            self.okc[label] += 1
            return r
        except (ValueError, TypeError, IndexError, ZeroDivisionError, np.linalg.LinAlgError, RuntimeError, KeyError, AttributeError,
                ArithmeticError, AssertionError, NotImplementedError, Exception) as e:   # Python-level refusals are not C17 violations
            self.exc[label + ':' + type(e).__name__] += 1
            return None

    def csr(self, ip, ix, dx, n, m=None):
        import scipy.sparse as sp
        A = sp.csr_array((dx.copy(), ix.copy(), ip.copy()), shape=(n, n if m is None else m))
        A.indptr = A.indptr.astype(np.int32)
        A.indices = A.indices.astype(np.int32)
        return A

    def strength_split_interp(self, rng):
        import pyamg
        from pyamg import strength as ST
        from pyamg.classical import split as SPL, interpolate as INT, cr as CRM
        n = rand_n(rng, big=True)
        c = rng.random() < 0.2
        ip, ix, dx, feats = rand_pattern(rng, n, cplx=c)
        self.tr.ctx.update(feats=feats)
        A = self.csr(ip, ix, dx, n)
        th = float(rng.choice([0.0, 0.1, 0.25, 0.5, 1.0]))
        S = None
        for norm in ('abs', 'min'):
            if norm == 'min' and c:
                continue
            S_ = self.attempt(f'classical_strength_of_connection({norm})', ST.classical_strength_of_connection, A, theta=th, norm=norm)
            S = S_ if S_ is not None else S
        self.attempt('symmetric_strength_of_connection', ST.symmetric_strength_of_connection, A, theta=th)
        if S is None:
            return
        S.indptr, S.indices = S.indptr.astype(np.int32), S.indices.astype(np.int32)
        splits = []
        for nm, fn, kw in (('RS', SPL.RS, {}), ('RS2', SPL.RS, {'second_pass': True}), ('PMIS', SPL.PMIS, {}), ('PMISc', SPL.PMISc, {}),
                           ('CLJP', SPL.CLJP, {}), ('CLJPc', SPL.CLJPc, {})):
            np.random.seed(int(rng.integers(2 ** 31)))
            s = self.attempt('split.' + nm, fn, S, **kw)
            if s is not None:
                splits.append(np.asarray(s, dtype=np.int32))
        splits.append(rng.integers(0, 2, size=n).astype(np.int32))
        for s in splits[::2] if len(splits) > 3 else splits:
            if not c:
                self.attempt('direct_interpolation', INT.direct_interpolation, A, S, s)
                self.attempt('classical_interpolation', INT.classical_interpolation, A, S, s, modified=bool(rng.integers(2)))
                self.attempt('one_point_interpolation', INT.one_point_interpolation, A, S, s, by_val=bool(rng.integers(2)))
                self.attempt('local_air', INT.local_air, A, s, theta=th, degree=int(rng.integers(1, 3)), use_gmres=bool(rng.integers(2)),
                             maxiter=int(rng.integers(1, 4)), precondition=bool(rng.integers(2)))
            self.attempt('injection_interpolation', INT.injection_interpolation, A, s)
        # block AIR on a BSR matrix (block strength, one splitting entry per block row)
        import scipy.sparse as sp
        bs = int(rng.choice([2, 3]))
        nb = rand_n(rng)
        bp, bj, _, bf = rand_pattern(rng, nb, diag=str(rng.choice(['all', 'all', 'some'])), dens=float(rng.choice([0.25, 0.5, 1.0])))
        data = rand_vec(rng, len(bj) * bs * bs).reshape(-1, bs, bs)
        Ab = sp.bsr_array((data, bj.copy(), bp.copy()), shape=(nb * bs, nb * bs), blocksize=(bs, bs))
        Ab.indptr, Ab.indices = Ab.indptr.astype(np.int32), Ab.indices.astype(np.int32)
        sb = (rng.random(nb) < 0.3).astype(np.int32)
        self.tr.ctx.update(feats=bf + [f'bsr{bs}'])
        self.attempt('local_air(bsr)', INT.local_air, Ab, sb, theta=th, degree=int(rng.integers(1, 3)), use_gmres=bool(rng.integers(2)),
                     maxiter=int(rng.integers(1, 4)), precondition=bool(rng.integers(2)))
        self.attempt('injection_interpolation(bsr)', INT.injection_interpolation, Ab, sb)

    def aggregation_sa(self, rng):
        from pyamg import strength as ST
        from pyamg.aggregation import aggregate as AG, tentative as TT, smooth as SM
        import scipy.sparse as sp
        n = rand_n(rng, big=True)
        ip, ix, dx, feats = rand_pattern(rng, n, sym=True, diag=str(rng.choice(['all', 'all', 'some', 'zero'])))
        self.tr.ctx.update(feats=feats)
        A = self.csr(ip, ix, dx, n)
        C = self.attempt('symmetric_strength_of_connection', ST.symmetric_strength_of_connection, A, theta=float(rng.choice([0.0, 0.25])))
        if C is None:
            return
        C.indptr, C.indices = C.indptr.astype(np.int32), C.indices.astype(np.int32)
        aggs = []
        for nm, fn, kw in (('standard_aggregation', AG.standard_aggregation, {}), ('naive_aggregation', AG.naive_aggregation, {}),
                           ('lloyd_aggregation', AG.lloyd_aggregation, {'ratio': float(rng.choice([0.1, 0.3, 0.6])), 'maxiter': 3}),
                           ('balanced_lloyd_aggregation', AG.balanced_lloyd_aggregation, {'ratio': float(rng.choice([0.1, 0.3, 0.6])), 'maxiter': 2})):
            np.random.seed(int(rng.integers(2 ** 31)))
            Cc = C
            if 'lloyd' in nm:
                Cc = C.copy()
                Cc.data = np.abs(Cc.data) + 1.0
            r = self.attempt(nm, fn, Cc, **kw)
            if r is not None:
                aggs.append(r[0])
        self.attempt('pairwise_aggregation', AG.pairwise_aggregation, A, matchings=int(rng.integers(1, 3)), theta=float(rng.choice([0.0, 0.25])),
                     norm=str(rng.choice(['abs', 'min'])))
        for AggOp in aggs[:2]:
            if AggOp.shape[1] == 0:
                continue
            AggOp = sp.csr_array(AggOp)
            AggOp.indptr, AggOp.indices = AggOp.indptr.astype(np.int32), AggOp.indices.astype(np.int32)
            k = int(rng.integers(1, 4))
            B = np.ones((n, k))
            if k > 1:
                B[:, 1:] = rng.integers(-2, 3, size=(n, k - 1))
            K1 = int(rng.choice([1, 1, 2, 3]))
            if K1 > 1:           # K1 dofs per node: T is (n*K1) x (nagg*k); only fit_candidates is exercised with it
                Bk = rng.integers(-2, 3, size=(n * K1, k)).astype(float)
                Bk[:, 0] = 1.0
                if rng.random() < 0.3:
                    Bk = Bk + 1j * rng.integers(-2, 3, size=Bk.shape)
                self.attempt('fit_candidates(K1>1)', TT.fit_candidates, AggOp, Bk)
            r = self.attempt('fit_candidates', TT.fit_candidates, AggOp, B)
            if r is None:
                continue
            T, Bc = r
            self.attempt('jacobi_prolongation_smoother', SM.jacobi_prolongation_smoother, A, T, C, Bc, filter_entries=bool(rng.integers(2)), weighting='local')
            np.random.seed(int(rng.integers(2 ** 31)))
            self.attempt('energy_prolongation_smoother', SM.energy_prolongation_smoother, A, T, C, Bc, None, (False, {}),
                         krylov=str(rng.choice(['cg', 'cgnr', 'gmres'])), maxiter=2, degree=1)

    def energy_bsr(self, rng):
        """energy-minimising prolongation smoothing of a block matrix: the tentative prolongator has bs x k blocks (taller than wide for k < bs)"""
        from pyamg.aggregation import aggregate as AG, tentative as TT, smooth as SM
        from pyamg import strength as ST
        import scipy.sparse as sp
        nb = rand_n(rng)
        bs = int(rng.choice([2, 3]))
        k = int(rng.integers(1, 3))
        bp, bj, _, feats = rand_pattern(rng, nb, sym=True, diag='all', explicit_zero=False)
        self.tr.ctx.update(feats=feats + [f'bsr{bs}', f'candidates={k}'])
        D = rand_vec(rng, len(bj) * bs * bs).reshape(-1, bs, bs)
        A = sp.bsr_array((D, bj.copy(), bp.copy()), shape=(nb * bs, nb * bs), blocksize=(bs, bs))
        A = sp.bsr_array(sp.csr_array(A + A.T) + sp.eye_array(nb * bs) * 40, blocksize=(bs, bs))
        A.indptr, A.indices = A.indptr.astype(np.int32), A.indices.astype(np.int32)
        C = self.attempt('symmetric_strength_of_connection(bsr)', ST.symmetric_strength_of_connection, A, theta=0.0)
        if C is None:
            return
        C = sp.csr_array(C)
        C.indptr, C.indices = C.indptr.astype(np.int32), C.indices.astype(np.int32)
        r = self.attempt('standard_aggregation', AG.standard_aggregation, C)
        if r is None or r[0].shape[1] == 0:
            return
        AggOp = sp.csr_array(r[0])
        AggOp.indptr, AggOp.indices = AggOp.indptr.astype(np.int32), AggOp.indices.astype(np.int32)
        B = np.ones((nb * bs, k))
        if k > 1:
            B[:, 1] = np.arange(nb * bs) % bs
        r = self.attempt('fit_candidates(bsr)', TT.fit_candidates, AggOp, B)
        if r is None:
            return
        T, Bc = r
        np.random.seed(int(rng.integers(2 ** 31)))
        self.attempt('energy_prolongation_smoother(bsr)', SM.energy_prolongation_smoother, A, T, A, Bc, None, (False, {}),
                     krylov=str(rng.choice(['cg', 'cgnr', 'gmres'])), maxiter=2, degree=1)
        self.attempt('jacobi_prolongation_smoother(bsr)', SM.jacobi_prolongation_smoother, A, T, A, Bc, weighting=str(rng.choice(['local', 'diagonal', 'block'])))

    def relaxation_api(self, rng):
        from pyamg.relaxation import relaxation as RX
        import scipy.sparse as sp
        n = rand_n(rng)
        c = rng.random() < 0.25
        ip, ix, dx, feats = rand_pattern(rng, n, cplx=c)
        self.tr.ctx.update(feats=feats)
        A = self.csr(ip, ix, dx, n)
        mk = (lambda: (rand_vec(rng, n, c), rand_vec(rng, n, c)))
        for sweep in ('forward', 'backward', 'symmetric'):
            x, b = mk()
            self.attempt('gauss_seidel', RX.gauss_seidel, A, x, b, sweep=sweep)
            x, b = mk()
            self.attempt('sor', RX.sor, A, x, b, 1.5, sweep=sweep)
            x, b = mk()
            self.attempt('gauss_seidel_ne', RX.gauss_seidel_ne, A, x, b, sweep=sweep)
            x, b = mk()
            self.attempt('gauss_seidel_nr', RX.gauss_seidel_nr, A, x, b, sweep=sweep)
            x, b = mk()
            self.attempt('schwarz', RX.schwarz, self.csr(ip, ix, dx, n), x, b, sweep=sweep)
        # Schwarz set-up called directly: schwarz() sorts the rows of its matrix first, schwarz_parameters() hands A to extract_subblocks as it is stored
        # (default subdomains = the stored rows of A: unsorted / with repetitions when A is), and with caller-supplied subdomains (sorted and
        # unique, any order, repetitions, an empty one); then one sweep with the parameters it returned
        self.attempt('schwarz_parameters', RX.schwarz_parameters, self.csr(ip, ix, dx, n))
        smode = str(rng.choice(['sorted', 'anyorder', 'repeats']))
        sdoms = []
        for _ in range(int(rng.integers(1, n + 2))):
            if smode == 'repeats':
                d = rng.integers(0, n, size=int(rng.integers(1, n + 3)))
            else:
                d = rng.choice(n, size=int(rng.integers(1, n + 1)), replace=False)
            if smode == 'sorted' or rng.random() < 0.3:
                d = np.sort(d)
            if rng.random() < 0.06:
                d = d[:0]
            sdoms.append(np.asarray(d, dtype=np.int32))
        sdp = np.zeros(len(sdoms) + 1, dtype=np.int32)
        sdp[1:] = np.cumsum([len(d) for d in sdoms])
        sd = np.concatenate(sdoms).astype(np.int32)
        self.tr.ctx.update(feats=feats + ['subdomains=' + smode])
        A2 = self.csr(ip, ix, dx, n)
        r = self.attempt('schwarz_parameters(subdomains)', RX.schwarz_parameters, A2, sd.copy(), sdp.copy())
        if r is not None:
            x, b = mk()
            self.attempt('schwarz(subdomains, inverses)', RX.schwarz, A2, x, b, subdomain=r[0], subdomain_ptr=r[1], inv_subblock=r[2], inv_subblock_ptr=r[3],
                         sweep=str(rng.choice(['forward', 'backward', 'symmetric'])))
        x, b = mk()
        self.attempt('schwarz(subdomains)', RX.schwarz, self.csr(ip, ix, dx, n), x, b, subdomain=sd.copy(), subdomain_ptr=sdp.copy(),
                     sweep=str(rng.choice(['forward', 'backward', 'symmetric'])))
        self.tr.ctx.update(feats=feats)
        x, b = mk()
        self.attempt('jacobi', RX.jacobi, A, x, b, omega=0.5)
        x, b = mk()
        self.attempt('jacobi_ne', RX.jacobi_ne, A, x, b, omega=0.5)
        idx = rng.permutation(n)[:max(1, n // 2)].astype(np.int32)
        x, b = mk()
        self.attempt('gauss_seidel_indexed', RX.gauss_seidel_indexed, A, x, b, idx, sweep=str(rng.choice(['forward', 'backward', 'symmetric'])))
        x, b = mk()
        self.attempt('jacobi_indexed', RX.jacobi_indexed, A, x, b, idx)
        split = rng.integers(0, 2, size=n)
        Cp, Fp = np.flatnonzero(split == 1).astype(np.int32), np.flatnonzero(split == 0).astype(np.int32)
        x, b = mk()
        self.attempt('cf_jacobi', RX.cf_jacobi, A, x, b, Cp, Fp)
        x, b = mk()
        self.attempt('fc_jacobi', RX.fc_jacobi, A, x, b, Cp, Fp)
        # BSR forms
        bs = int(rng.choice([1, 2, 3]))
        nb = rand_n(rng)
        bp, bj, _, bf = rand_pattern(rng, nb, diag=str(rng.choice(['all', 'all', 'some'])))
        data = rand_vec(rng, len(bj) * bs * bs, c).reshape(-1, bs, bs)
        Ab = sp.bsr_array((data, bj.copy(), bp.copy()), shape=(nb * bs, nb * bs), blocksize=(bs, bs))
        Ab.indptr, Ab.indices = Ab.indptr.astype(np.int32), Ab.indices.astype(np.int32)
        N = nb * bs
        mkb = (lambda: (rand_vec(rng, N, c), rand_vec(rng, N, c)))
        for sweep in ('forward', 'backward', 'symmetric'):
            x, b = mkb()
            self.attempt('gauss_seidel(bsr)', RX.gauss_seidel, Ab, x, b, sweep=sweep)
            x, b = mkb()
            self.attempt('block_gauss_seidel', RX.block_gauss_seidel, Ab, x, b, sweep=sweep, blocksize=bs)
        x, b = mkb()
        self.attempt('jacobi(bsr)', RX.jacobi, Ab, x, b, omega=0.5)
        x, b = mkb()
        self.attempt('block_jacobi', RX.block_jacobi, Ab, x, b, blocksize=bs, omega=0.5)
        splitb = rng.integers(0, 2, size=nb)
        Cb, Fb = np.flatnonzero(splitb == 1).astype(np.int32), np.flatnonzero(splitb == 0).astype(np.int32)
        x, b = mkb()
        self.attempt('cf_jacobi(bsr)', RX.cf_jacobi, Ab, x, b, Cb, Fb)
        x, b = mkb()
        self.attempt('cf_block_jacobi', RX.cf_block_jacobi, Ab, x, b, Cb, Fb, blocksize=bs)
        x, b = mkb()
        self.attempt('fc_block_jacobi', RX.fc_block_jacobi, Ab, x, b, Cb, Fb, blocksize=bs)
        x, b = mkb()
        self.attempt('jacobi_indexed(bsr)', RX.jacobi_indexed, Ab, x, b, Cb)

    def graph_api(self, rng):
        import pyamg.graph as PG
        n = rand_n(rng, big=True)
        ip, ix, dx, feats = rand_pattern(rng, n, sym=True, diag=str(rng.choice(['none', 'all'])), explicit_zero=False)
        self.tr.ctx.update(feats=feats)
        G = self.csr(ip, ix, np.abs(dx) + 0.5, n)
        for algo in ('serial', 'parallel'):
            np.random.seed(int(rng.integers(2 ** 31)))
            self.attempt('maximal_independent_set', PG.maximal_independent_set, G, algo=algo)
        np.random.seed(int(rng.integers(2 ** 31)))
        self.attempt('maximal_independent_set(k)', PG.maximal_independent_set, G, k=int(rng.integers(1, 4)))
        for method in ('MIS', 'JP', 'LDF'):
            np.random.seed(int(rng.integers(2 ** 31)))
            self.attempt('vertex_coloring', PG.vertex_coloring, G, method=method)
        self.attempt('connected_components', PG.connected_components, G)
        self.attempt('breadth_first_search', PG.breadth_first_search, G, int(rng.integers(n)))
        self.attempt('symmetric_rcm', PG.symmetric_rcm, G)
        k = int(rng.integers(1, min(n, 4) + 1))
        centers = rng.choice(n, size=k, replace=False).astype(np.int32)
        for method in ('standard', 'balanced'):
            self.attempt('bellman_ford', PG.bellman_ford, G, centers.copy(), method=method)
        np.random.seed(int(rng.integers(2 ** 31)))
        self.attempt('lloyd_cluster', PG.lloyd_cluster, G, centers.copy(), maxiter=3)
        np.random.seed(int(rng.integers(2 ** 31)))
        self.attempt('balanced_lloyd_cluster', PG.balanced_lloyd_cluster, G, centers.copy(), maxiter=2, rebalance_iters=2)

    def utils_api(self, rng):
        from pyamg.util import utils as UT
        from pyamg import strength as ST
        import scipy.sparse as sp
        n, m = rand_n(rng), rand_n(rng)
        c = rng.random() < 0.2
        ip, ix, dx, feats = rand_pattern(rng, n, m=m, cplx=c)
        self.tr.ctx.update(feats=feats)
        A = self.csr(ip, ix, dx, n, m)
        self.attempt('scale_rows', UT.scale_rows, A, rand_vec(rng, n, c), copy=True)
        self.attempt('scale_columns', UT.scale_columns, A, rand_vec(rng, m, c), copy=True)
        self.attempt('scale_rows(csc)', UT.scale_rows, sp.csc_array(A), rand_vec(rng, n, c), copy=True)
        ip, ix, dx, feats = rand_pattern(rng, n, cplx=c)
        A = self.csr(ip, ix, dx, n)
        self.attempt('filter_matrix_rows', UT.filter_matrix_rows, A, float(rng.choice([0.0, 0.25, 1.0])), diagonal=bool(rng.integers(2)), lump=bool(rng.integers(2)))
        self.attempt('filter_matrix_columns', UT.filter_matrix_columns, A, float(rng.choice([0.0, 0.25, 1.0])))
        self.attempt('truncate_rows', UT.truncate_rows, A, int(rng.integers(1, 4)))
        self.attempt('scale_rows_by_largest_entry', UT.scale_rows_by_largest_entry, A.copy())
        bs = int(rng.choice([1, 2, 3, 4]))
        nb = rand_n(rng)
        bp, bj, _, _ = rand_pattern(rng, nb)
        data = rand_vec(rng, len(bj) * bs * bs, c).reshape(-1, bs, bs)
        Ab = sp.bsr_array((data, bj.copy(), bp.copy()), shape=(nb * bs, nb * bs), blocksize=(bs, bs))
        Ab.indptr, Ab.indices = Ab.indptr.astype(np.int32), Ab.indices.astype(np.int32)
        self.attempt('get_block_diag', UT.get_block_diag, Ab, bs, inv_flag=True)
        # evolution / distance strength measures
        nn = rand_n(rng)
        ip, ix, dx, feats = rand_pattern(rng, nn, sym=True, diag='all')
        A = self.csr(ip, ix, dx, nn)
        np.random.seed(int(rng.integers(2 ** 31)))
        self.attempt('evolution_strength_of_connection', ST.evolution_strength_of_connection, A, np.ones((nn, 1)), epsilon=float(rng.choice([2.0, 4.0])),
                     k=int(rng.integers(1, 4)), proj_type=str(rng.choice(['l2', 'D_A'])), symmetrize_measure=bool(rng.integers(2)))
        np.random.seed(int(rng.integers(2 ** 31)))
        B2 = np.ones((nn, 2))
        B2[:, 1] = np.arange(nn) - nn / 2.0
        self.attempt('evolution_strength_of_connection(2 candidates)', ST.evolution_strength_of_connection, A, B2, epsilon=4.0,
                     k=int(rng.integers(1, 4)), proj_type=str(rng.choice(['l2', 'D_A'])))
        self.attempt('distance_strength_of_connection', ST.distance_strength_of_connection, A, rng.random((nn, 2)), theta=float(rng.choice([1.5, 2.0])),
                     relative_drop=bool(rng.integers(2)))
        np.random.seed(int(rng.integers(2 ** 31)))
        self.attempt('algebraic_distance', ST.algebraic_distance, A, R=2, k=3)
        np.random.seed(int(rng.integers(2 ** 31)))
        self.attempt('affinity_distance', ST.affinity_distance, A, R=2, k=3)
        self.attempt('energy_based_strength_of_connection', ST.energy_based_strength_of_connection, A, theta=0.1, k=2)
        # BSR evolution (min_blocks) and elasticity-like candidates
        if bs > 1:
            Asym = sp.bsr_array(sp.csr_array(Ab + Ab.T.conj()) + sp.eye_array(nb * bs) * 50, blocksize=(bs, bs))
            Asym.indptr, Asym.indices = Asym.indptr.astype(np.int32), Asym.indices.astype(np.int32)
            np.random.seed(int(rng.integers(2 ** 31)))
            self.attempt('evolution_strength_of_connection(bsr)', ST.evolution_strength_of_connection, Asym, np.ones((nb * bs, 1)), k=2)

    def solvers_api(self, rng):
        import pyamg
        from pyamg.krylov import gmres, fgmres
        n = int(rng.integers(4, 30))
        import gen
        A = gen.spd_matrix(rng, n, kind=str(rng.choice(['poisson1d', 'poisson2d', 'laplacian', 'random'])))
        N = A.shape[0]
        b = rand_vec(rng, N)
        self.tr.ctx.update(feats=['spd', f'N={N}'])
        which = int(rng.integers(6))
        np.random.seed(int(rng.integers(2 ** 31)))
        if which == 0:
            ml = self.attempt('ruge_stuben_solver', pyamg.ruge_stuben_solver, A, max_coarse=2,
                              CF=str(rng.choice(['RS', 'PMIS', 'PMISc', 'CLJP', 'CLJPc', 'CR'])),
                              interpolation=str(rng.choice(['classical', 'direct'])))
        elif which == 1:
            ml = self.attempt('smoothed_aggregation_solver', pyamg.smoothed_aggregation_solver, A, max_coarse=2,
                              strength=str(rng.choice(['symmetric', 'classical', 'evolution'])),
                              aggregate=str(rng.choice(['standard', 'naive', 'lloyd'])),
                              smooth=str(rng.choice(['jacobi', 'richardson', 'energy'])))
        elif which == 2:
            ml = self.attempt('rootnode_solver', pyamg.rootnode_solver, A, max_coarse=2)
        elif which == 3:
            ml = self.attempt('air_solver', pyamg.air_solver, A, max_coarse=2)
        elif which == 4:
            ml = self.attempt('pairwise_solver', pyamg.pairwise_solver, A, max_coarse=2)
        else:
            ml = None
            self.attempt('gmres_householder', gmres, A, b, maxiter=3, restart=3, orthog='householder')
            self.attempt('fgmres', fgmres, A, b, maxiter=3, restrt=3)
        if ml is not None:
            self.attempt('solve', ml.solve, b, maxiter=2, cycle=str(rng.choice(['V', 'W', 'F'])))

    def empty_api(self, rng):
        """the public graph / splitting / aggregation / strength functions on a 0 x 0 matrix (Python-level refusals are fine, the kernels must stay in range)"""
        import scipy.sparse as sp
        import pyamg.graph as PG
        from pyamg import strength as ST
        from pyamg.classical import split as SPL
        from pyamg.aggregation import aggregate as AG
        self.tr.ctx.update(feats=['empty-graph'])

        def E():
            A = sp.csr_array((np.zeros(0), np.zeros(0, dtype=np.int32), np.zeros(1, dtype=np.int32)), shape=(0, 0))
            A.indptr, A.indices = A.indptr.astype(np.int32), A.indices.astype(np.int32)
            return A
        for algo in ('serial', 'parallel'):
            np.random.seed(int(rng.integers(2 ** 31)))
            self.attempt('maximal_independent_set(0x0)', PG.maximal_independent_set, E(), algo=algo)
        if EMPTY_MISK:
            np.random.seed(int(rng.integers(2 ** 31)))
            self.attempt('maximal_independent_set(k, 0x0)', PG.maximal_independent_set, E(), k=int(rng.integers(1, 3)))
        for method in ('MIS', 'JP', 'LDF'):
            np.random.seed(int(rng.integers(2 ** 31)))
            self.attempt('vertex_coloring(0x0)', PG.vertex_coloring, E(), method=method)
        self.attempt('connected_components(0x0)', PG.connected_components, E())
        if EMPTY_RCM:
            self.attempt('symmetric_rcm(0x0)', PG.symmetric_rcm, E())
        for norm in ('abs', 'min'):
            self.attempt('classical_strength_of_connection(0x0)', ST.classical_strength_of_connection, E(), theta=0.25, norm=norm)
        self.attempt('symmetric_strength_of_connection(0x0)', ST.symmetric_strength_of_connection, E(), theta=0.25)
        for nm, fn, kw in (('RS', SPL.RS, {}), ('RS2', SPL.RS, {'second_pass': True}), ('PMIS', SPL.PMIS, {}), ('PMISc', SPL.PMISc, {}),
                           ('CLJP', SPL.CLJP, {}), ('CLJPc', SPL.CLJPc, {})):
            np.random.seed(int(rng.integers(2 ** 31)))
            self.attempt(f'{nm}(0x0)', fn, E(), **kw)
        self.attempt('MIS(0x0)', SPL.MIS, E(), np.zeros(0))
        for nm, fn, kw in (('standard_aggregation', AG.standard_aggregation, {}), ('naive_aggregation', AG.naive_aggregation, {}),
                           ('pairwise_aggregation', AG.pairwise_aggregation, {'matchings': 1})):
            self.attempt(f'{nm}(0x0)', fn, E(), **kw)

    SCENARIOS = ['strength_split_interp', 'strength_split_interp', 'aggregation_sa', 'energy_bsr', 'relaxation_api', 'relaxation_api', 'graph_api', 'utils_api', 'solvers_api',
                 'empty_api']


def child_main(argv):
    import argparse
    ap = argparse.ArgumentParser()
    ap.add_argument('--build')
    ap.add_argument('--seed', type=int, default=0)
    ap.add_argument('--worker', type=int, default=0)
    ap.add_argument('--nworkers', type=int, default=1)
    ap.add_argument('--groups', type=int, default=100)
    ap.add_argument('--budget', type=float, default=30.0)
    ap.add_argument('--skip', type=int, default=-1)
    ap.add_argument('--inflight')
    ap.add_argument('--out')
    ap.add_argument('--replay', default=None)
    ap.add_argument('--only', default=None)
    ap.add_argument('--no-poison', action='store_true')
    ap.add_argument('--model-items', action='store_true')
    ap.add_argument('--ncases', type=int, default=10)
    a = ap.parse_args(argv)
    sys.path.insert(0, str(HARNESS))
    repo = os.environ.get('VERIF_REPO')
    if repo and os.path.realpath(repo) != '/repo':
        sys.path.insert(0, repo)
    import warnings
    warnings.filterwarnings('ignore')
    np.seterr(all='ignore')
    import corebuild
    if a.model_items:
        corebuild.activate()
        # a kernel output that is not finite on an exact dyadic input (e.g. computed from memory outside the arrays in this plain build) has to become a
        # correspondence failure (no exact model value prints as `nan`), not a crash of this child in Fraction(nan) (the unchanged tree never gets here)
        import common as _cm
        _enc_rat = _cm.enc_rat

        def _enc_rat_total(x):
            try:
                return _enc_rat(x)
            except (ValueError, OverflowError):
                return 'nan'
        _cm.enc_rat = _enc_rat_total
        items, feats = model_items(a.seed, a.ncases, a.inflight)
        Path(a.out).write_text(json.dumps({'items': items, 'feats': feats}))
        return 0
    spec = json.loads((Path(a.build) / 'spec.json').read_text())
    mods = corebuild.load(a.build, register=True)
    out = open(a.out, 'a')
    tr = Tracer(spec, a.inflight, out)
    tr.poison_on = not a.no_poison
    tr.install(mods)
    t0 = time.time()
    if a.replay:
        case = json.loads(Path(a.replay).read_text())
        args = [dec_arg(o) for o in case['args']]
        stem = next(s for s, ents in spec.items() if any(e['py'] == case['kernel'] for e in ents))
        tr.ctx = {'replay': True}
        tr.allow_known = True
        tr.emit({'t': 'group', 'g': 0, 'scenario': 'replay'})
        getattr(mods[stem], case['kernel'])(*args)
        tr.emit({'t': 'done', 'calls': dict(tr.calls), 'sigs': dict(tr.sigs), 'groups': 1, 'pyexc': {}, 'pyok': {}, 'alloc': tr.alloc is not None,
                 'skipped': {}, 'keys': [], 'ntrivial': 0})
        return 0
    def on_prof(sig, frm):
        raise GroupTimeout()
    signal.signal(signal.SIGPROF, on_prof)
    from pyamg import amg_core          # the package namespace re-exports the (wrapped) shim functions
    global DUP_P
    DUP_P = 0.3                         # raw + public scenarios: three patterns in ten store some column twice
    raw = Raw(amg_core, Overloads(spec), tr)
    pub = Public(tr, out)
    scen = [('raw', s) for s in Raw.SCENARIOS] + [('pub', s) for s in Public.SCENARIOS]
    ng = 0
    for g in range(a.worker, a.groups, a.nworkers):
        if g <= a.skip:
            continue
        if time.time() - t0 > a.budget:
            break
        rng = np.random.default_rng([a.seed, 17, g])
        kind, s = scen[int(rng.integers(len(scen)))]
        if a.only and a.only not in (s, kind):
            continue
        tr.ctx = {'group': g, 'seed': a.seed, 'scenario': f'{kind}:{s}'}
        tr.emit({'t': 'group', 'g': g, 'scenario': f'{kind}:{s}'})
        signal.setitimer(signal.ITIMER_PROF, GROUP_LIMIT)
        try:
            getattr(raw if kind == 'raw' else pub, s)(rng)
        except SkipKnown:
            pass
        except GroupTimeout:
            pub.exc['python-level-loop-timeout:' + str(tr.ctx.get('py', s))] += 1
            tr.emit({'t': 'slow', 'g': g, 'scenario': s, 'py': tr.ctx.get('py')})
        finally:
            signal.setitimer(signal.ITIMER_PROF, 0)
        ng += 1
    tr.emit({'t': 'done', 'calls': dict(tr.calls), 'sigs': dict(tr.sigs), 'groups': ng, 'pyexc': dict(pub.exc), 'pyok': dict(pub.okc),
             'alloc': tr.alloc is not None, 'skipped': dict(tr.skipped), 'keys': sorted(tr.keys), 'ntrivial': len(tr.trivial)})
    return 0


# ================================================================================================
# PARENT SIDE
# ================================================================================================

MAX_RESTARTS = 12


def asan_env():
    lib = subprocess.run(['g++', '-print-file-name=libasan.so'], capture_output=True, text=True).stdout.strip()
    env = dict(os.environ)
    env['LD_PRELOAD'] = lib
    # fresh heap blocks are filled with 0xbe: an index read from uninitialised work memory becomes a wild index that ASan reports
    env['ASAN_OPTIONS'] = ('detect_leaks=0:abort_on_error=0:allocator_may_return_null=1:detect_odr_violation=0:symbolize=1:'
                           'malloc_fill_byte=190:max_malloc_fill_size=65536')
    env['UBSAN_OPTIONS'] = 'print_stacktrace=1'
    env['PYTHONHASHSEED'] = '0'
    return env


def parse_report(err, rc):
    """-> (kind, summary, where, ours) from the stderr of a dead child"""
    ours = ('_shim.cpp' in err) or ('/amg_core/' in err)
    where = ''
    m = re.search(r'/amg_core/(\w+\.h):(\d+)', err)
    if m:
        where = f'{m.group(1)}:{m.group(2)}'
    m = re.search(r'ERROR: AddressSanitizer: (\S+)', err)
    if m:
        acc = re.search(r'^(READ|WRITE) of size (\d+)', err, re.M)
        loc = re.search(r'is located (\d+ bytes (?:to the left|to the right|inside|before|after) of \d+-byte region)', err)
        s = f'AddressSanitizer {m.group(1)}' + (f', {acc.group(1)} of size {acc.group(2)}' if acc else '') + (f' ({loc.group(1)})' if loc else '')
        return 'asan:' + m.group(1), s, where, ours
    m = re.search(r'(\w+\.h):(\d+):\d+: runtime error: (.*)', err)
    if m:
        return 'ubsan', f'UBSan: {m.group(3).strip()}', f'{m.group(1)}:{m.group(2)}', True
    m = re.search(r"terminate called after throwing an instance of '(std::\w+)'\s*what\(\):\s*(pyamg-error[^\n]*)", err)
    if m:
        # a kernel's own safety check (`throw std::runtime_error("pyamg-error ...")`, a Python exception under pybind11): a refusal, not a violation
        return 'exception', f'kernel raised {m.group(1)}: {m.group(2)[:120]}', where, False
    m = re.search(r"Assertion '(.*?)' failed", err)
    if m:
        return 'assert', f'libstdc++ assertion failed: {m.group(1)[:160]}', where, True
    if rc == -signal.SIGVTALRM:
        return 'timeout', f'the call did not return within {CPU_LIMIT} CPU seconds (n <= 40): does not terminate', where, True
    if rc in (-signal.SIGSEGV, -signal.SIGBUS, -signal.SIGFPE, -signal.SIGABRT, -signal.SIGILL):
        return 'signal', f'the process died with signal {-rc} inside the call', where, True
    return 'other', f'child exited rc={rc}: {err[-400:]}', where, False


def classify(kernel, case, kind, where):
    """narrow keys of findings of the UNCHANGED tree (KNOWN_REGIONS); anything else -> None"""
    try:
        ad = dict(zip(case['argnames'], [dec_arg(o) for o in case['args']]))
    except Exception:
        return None
    return known_key(kernel, ad)


def run_child(args, env, errpath, timeout):
    with open(errpath, 'wb') as ef:
        p = subprocess.Popen([sys.executable, str(Path(__file__).resolve())] + args, env=env, stdout=subprocess.DEVNULL, stderr=ef,
                             cwd=str(HARNESS))
        try:
            rc = p.wait(timeout=timeout)
        except subprocess.TimeoutExpired:
            p.kill()
            p.wait()
            rc = 'wall-timeout'
    return rc, Path(errpath).read_text(errors='replace')


def worker_loop(w, nworkers, build, seed, groups, budget, tmp, env, only=None, poison=True):
    """run worker w to completion, restarting after every sanitizer abort; returns (events, stats)"""
    events, stats = [], []
    skip = -1
    t_end = time.time() + budget
    for attempt in range(MAX_RESTARTS + 1):
        left = t_end - time.time()
        if left < 2 and attempt > 0:
            break
        outp, infl, errp = tmp / f'out{w}.{attempt}.jsonl', tmp / f'inflight{w}.pkl', tmp / f'err{w}.{attempt}.txt'
        a = ['--build', str(build), '--seed', str(seed), '--worker', str(w), '--nworkers', str(nworkers), '--groups', str(groups),
             '--budget', str(max(left, 2.0)), '--skip', str(skip), '--inflight', str(infl), '--out', str(outp)]
        if only:
            a += ['--only', only]
        if not poison:
            a += ['--no-poison']
        rc, err = run_child(a, env, errp, timeout=max(left, 2.0) + 90)
        lines = [json.loads(x) for x in outp.read_text().split('\n') if x.strip()] if outp.exists() else []
        cur = -1
        done = None
        for ln in lines:
            if ln['t'] == 'group':
                cur = ln['g']
            elif ln['t'] == 'viol':
                events.append(('viol', ln))
            elif ln['t'] == 'done':
                done = ln
        if done is not None and rc == 0:
            stats.append(done)
            break
        if rc == 'wall-timeout':
            events.append(('infra', f'worker {w}: child exceeded its wall-clock allowance'))
            break
        rec = None
        try:
            rec = pickle.loads(infl.read_bytes())
        except Exception:
            pass
        kind, summary, where, ours = parse_report(err, rc)
        if kind == 'exception' and rec is not None:
            events.append(('refused', f'{rec[1]}: {summary}'))
            skip = cur
            continue
        if kind == 'other' or rec is None:
            events.append(('infra', f'worker {w} died outside a traced kernel call (rc={rc}): {err[-600:]}'))
            break
        events.append(('crash', {'kind': kind, 'summary': summary, 'where': where, 'ours': ours, 'case': case_of(rec), 'group': cur}))
        skip = cur
    return events, stats


def san_search(ctx, groups, budget, nworkers=8, only=None):
    import corebuild
    from concurrent.futures import ThreadPoolExecutor
    build = corebuild.build(asan=True)
    spec = json.loads((build / 'spec.json').read_text())
    inventory = sorted({e['py'] for ents in spec.values() for e in ents})
    env = asan_env()
    tmp = Path(tempfile.mkdtemp(prefix='c17_'))
    with ThreadPoolExecutor(max_workers=nworkers) as ex:
        res = list(ex.map(lambda w: worker_loop(w, nworkers, build, ctx.seed, groups, budget, tmp, env, only=only), range(nworkers)))
    calls = collections.Counter()
    sigs = collections.Counter()
    for events, stats in res:
        for st in stats:
            for key in st.get('keys', []):
                ctx.distinct.add(key)
            ctx.evaluations += sum(st['calls'].values())
            for k_, v_ in st.get('skipped', {}).items():
                ctx.feat('known-region-call-skipped:' + k_, v_)
            calls.update(st['calls'])
            sigs.update(st['sigs'])
            for k, v in st['pyexc'].items():
                ctx.feat('public-api-refused:' + k, v)
            for k, v in st['pyok'].items():
                ctx.feat('public-api:' + k, v)
            if not st.get('alloc'):
                raise_infra('the ASan allocator statistics (__sanitizer_get_current_allocated_bytes) are not available: no leak check')
        for typ, ev in events:
            if typ == 'infra':
                raise_infra(ev)
            elif typ == 'refused':
                ctx.feat('kernel-refused-by-own-check:' + ev[:80])
            elif typ == 'viol':
                c = ev['case']
                ctx.violation(ev['what'], c, fkey=classify(c['kernel'], c, ev['kind'], ''))
            elif typ == 'crash':
                c = ev['case']
                if not ev['ours']:
                    ctx.search_only.append('sanitizer report outside the kernels (ignored): ' + ev['summary'][:200])
                    continue
                what = f"{c['kernel']}: {ev['summary']}" + (f" at {ev['where']}" if ev['where'] else '') + \
                       f" [scenario {c['context'].get('scenario')}, {c['context'].get('py', 'raw call')}]"
                ctx.violation(what, c, fkey=classify(c['kernel'], c, ev['kind'], ev['where']))
    return calls, sigs, inventory


def raise_infra(msg):
    from common import InfraError
    raise InfraError(msg)


def run_probe(fkey, kernel, args, build, env, tmp):
    """execute one fixed input of a known region in its own child; -> violation description or None"""
    import corebuild
    spec = json.loads((build / 'spec.json').read_text())
    names = None
    for ents in spec.values():
        for e in ents:
            if e['py'] == kernel and len(e['params']) == len(args):
                names = [p_[2] for p_ in e['params']]
    case = {'kernel': kernel, 'argnames': names, 'args': [enc_arg(a) for a in args], 'context': {'scenario': 'probe:' + fkey}}
    return replay_case(case, build, env, tmp, tag='probe_' + fkey)


def replay_case(case, build, env, tmp, tag='replay'):
    cf = tmp / f'{tag}.json'
    cf.write_text(json.dumps(case))
    outp, infl, errp = tmp / f'{tag}.out.jsonl', tmp / f'{tag}.inflight.pkl', tmp / f'{tag}.err.txt'
    rc, err = run_child(['--build', str(build), '--replay', str(cf), '--inflight', str(infl), '--out', str(outp)], env, errp, timeout=120)
    lines = [json.loads(x) for x in outp.read_text().split('\n') if x.strip()] if outp.exists() else []
    for ln in lines:
        if ln['t'] == 'viol':
            return ln['what'], case
    if any(ln['t'] == 'done' for ln in lines) and rc == 0:
        return None
    kind, summary, where, ours = parse_report(err, rc)
    if kind == 'other':
        raise_infra(f'replay child failed: {err[-600:]}')
    return f"{case['kernel']}: {summary}" + (f' at {where}' if where else ''), case


# ------------------------------------------------------------------------------------------------
# correspondence: checked Lean models vs the rebuilt kernels (plain build, in process)
# ------------------------------------------------------------------------------------------------

def _exact_csr(rng, n, m=None, **kw):
    ip, ix, dx, feats = rand_pattern(rng, n, m=m, explicit_zero=False, **kw)
    return ip, ix, dx, feats


class GuardedCore:
    """the rebuilt (plain) kernels with a CPU-time limit per call and a record of the call in flight"""

    def __init__(self, core, inflight):
        self.core, self.inflight = core, inflight

    def __getattr__(self, name):
        fn = getattr(self.core, name)

        def g(*a):
            with open(self.inflight, 'wb') as f:
                pickle.dump(({'scenario': 'model-correspondence'}, name, [f'arg{i}' for i in range(len(a))],
                             [v.copy() if isinstance(v, np.ndarray) else v for v in a]), f)
            signal.setitimer(signal.ITIMER_VIRTUAL, CPU_LIMIT)
            try:
                return fn(*a)
            finally:
                signal.setitimer(signal.ITIMER_VIRTUAL, 0)
        return g


def fbits(a):
    """IEEE doubles as bit patterns (any NaN as `nan`), the encoding of `parseFloats` / `showFloats` of Driver/ExtE7.lean"""
    a = np.ascontiguousarray(a, dtype=np.float64)
    if len(a) == 0:
        return '-'
    return ','.join('nan' if np.isnan(v) else str(int(b)) for v, b in zip(a, a.view(np.uint64)))


def bsr_exact(rng, ip, ix, bs):
    """block values: small integers; the diagonal of each diagonal block is a power of two or 0 (the point sweeps divide by it)"""
    dx = rng.integers(-3, 4, size=(len(ix), bs, bs)).astype(np.float64)
    for i in range(len(ip) - 1):
        for jj in range(ip[i], ip[i + 1]):
            if ix[jj] == i:
                for k in range(bs):
                    dx[jj, k, k] = float(rng.choice([1, 2, 4, -2, 0.5, 0.0], p=[.25, .25, .15, .15, .1, .1]))
    return dx.ravel()


def ext_model_items(rng, amg_core, add, n, ip, ix, dx):
    """extension E7: the checked models of Model/ExtC17Ck*.lean (driver ops `ext_c17_<kernel>`) against the rebuilt kernels"""
    from common import enc_ints, enc_rats, enc_rat
    nt = len(ix) > 0
    hdr = f'{n} {enc_ints(ip)} {enc_ints(ix)} {enc_rats(dx)}'
    # linalg.h: filter_matrix_rows, both branches (thresholds exact: theta dyadic, values small integers)
    for lump in (True, False):
        th = float(rng.choice([0.0, 0.25, 0.5, 1.0, 2.0]))
        ax = dx.copy()
        amg_core.filter_matrix_rows(n, th, ip, ix, ax, lump)
        add(f'ext_c17_filter_matrix_rows {enc_rat(th)} {int(lump)} {hdr}', enc_rats(ax) + ';ok', 'filter_matrix_rows', nt)
    # smoothed_aggregation.h: truncate_rows_csr (rectangular, ties between equal norms included)
    mc = int(rng.integers(1, 8))
    tp, tj, tx, _ = _exact_csr(rng, n, m=mc)
    k = int(rng.integers(0, 5))
    Sj, Sx = tj.copy(), tx.copy()
    amg_core.truncate_rows_csr(n, k, tp, Sj, Sx)
    add(f'ext_c17_truncate_rows_csr {k} {n} {enc_ints(tp)} {enc_ints(tj)} {enc_rats(tx)}', f'{enc_ints(Sj)};{enc_rats(Sx)};ok', 'truncate_rows_csr', len(tj) > 0)
    # evolution_strength.h: incomplete_mat_mult_csr, A (n x kk, CSR), B (kk x mc, CSC arrays), S (n x mc pattern); sorted and unsorted operands
    kk = int(rng.integers(1, 7))
    srt = bool(rng.random() < 0.7)
    ap, aj, ax, _ = _exact_csr(rng, n, m=kk, unsorted=not srt)
    bp, bj, bx, _ = _exact_csr(rng, mc, m=kk, unsorted=not srt)
    sp, sj, sx0, _ = _exact_csr(rng, n, m=mc)
    sx = sx0.copy()
    amg_core.incomplete_mat_mult_csr(ap, aj, ax, bp, bj, bx, sp, sj, sx, n)
    add(f'ext_c17_incomplete_mat_mult_csr {n} {enc_ints(ap)} {enc_ints(aj)} {enc_rats(ax)} {mc} {enc_ints(bp)} {enc_ints(bj)} {enc_rats(bx)} '
        f'{n} {enc_ints(sp)} {enc_ints(sj)} {enc_rats(sx0)}', enc_rats(sx) + ';ok', 'incomplete_mat_mult_csr', len(sj) > 0)
    # ruge_stuben.h: S = a sub-pattern of A (strength), with or without the diagonal; any splitting
    keep = rng.random(len(ix)) < float(rng.choice([0.5, 0.8, 1.0]))
    sp = np.zeros(n + 1, dtype=np.int32)
    for i in range(n):
        sp[i + 1] = sp[i] + int(keep[ip[i]:ip[i + 1]].sum())
    sj, sx = ix[keep].copy(), dx[keep].copy()
    split = rng.integers(0, 2, size=n).astype(np.int32)
    shdr = f'{n} {enc_ints(sp)} {enc_ints(sj)}'
    fx = sx.copy()
    amg_core.remove_strong_FF_connections(n, sp, sj, fx, split)
    add(f'ext_c17_remove_strong_FF_connections {shdr} {enc_rats(sx)} {enc_ints(split)}', enc_rats(fx) + ';ok', 'remove_strong_FF_connections', len(sj) > 0)
    eps = fbits(np.array([1e-15]))
    for p1, p2, extra in (('rs_direct_interpolation_pass1', 'rs_direct_interpolation_pass2', []),
                          ('rs_classical_interpolation_pass1', 'rs_classical_interpolation_pass2', [bool(rng.integers(2))])):
        Pp = np.full(n + 1, -7, dtype=np.int32)
        getattr(amg_core, p1)(n, sp, sj, split, Pp)
        nn = int(Pp[n])
        Pj, Px = np.full(nn, -7, dtype=np.int32), np.full(nn, -7.0)
        getattr(amg_core, p2)(n, ip, ix, dx, sp, sj, sx, split, Pp, Pj, Px, *extra)
        pre = f'ext_c17_{p2}' + (f' {int(extra[0])} {eps}' if extra else '')
        add(f'{pre} {n} {enc_ints(ip)} {enc_ints(ix)} {fbits(dx)} {enc_ints(sp)} {enc_ints(sj)} {fbits(sx)} {enc_ints(split)} {enc_ints(Pp)} '
            f'{enc_ints(np.full(nn, -7))} {fbits(np.full(nn, -7.0))}', f'{enc_ints(Pj)};{fbits(Px)};ok', p2, nn > 0)
    # relaxation.h: BSR / block kernels on a block pattern with nb block rows
    nb, bs = int(rng.integers(1, 6)), int(rng.choice([1, 2, 2, 3]))
    gp, gj, _, _ = _exact_csr(rng, nb)
    gx = bsr_exact(rng, gp, gj, bs)
    bh = f'{bs} {nb} {enc_ints(gp)} {enc_ints(gj)} {enc_rats(gx)}'
    x0, b = rand_vec(rng, nb * bs), rand_vec(rng, nb * bs)
    s0, s1, s2 = rand_sweep(rng, nb)
    sw = f'{s0} {s1} {s2}'
    om = float(rng.choice([0.5, 1.0, 1.5]))
    bnt = len(gj) > 0
    x = x0.copy()
    amg_core.bsr_gauss_seidel(gp, gj, gx, x, b, s0, s1, s2, bs)
    add(f'ext_c17_bsr_gauss_seidel {bh} {enc_rats(b)} {enc_rats(x0)} {sw}', enc_rats(x) + ';ok', 'bsr_gauss_seidel', bnt)
    x, t0 = x0.copy(), rand_vec(rng, nb * bs)
    t = t0.copy()
    amg_core.bsr_jacobi(gp, gj, gx, x, b, t, s0, s1, s2, bs, np.array([om]))
    add(f'ext_c17_bsr_jacobi {enc_rat(om)} {bh} {enc_rats(b)} {enc_rats(x0)} {enc_rats(t0)} {sw}', f'{enc_rats(x)};{enc_rats(t)};ok', 'bsr_jacobi', bnt)
    dinv = rng.integers(-2, 3, size=nb * bs * bs).astype(np.float64) * 0.5
    x, t = x0.copy(), t0.copy()
    amg_core.block_jacobi(gp, gj, gx, x, b, dinv, t, s0, s1, s2, np.array([om]), bs)
    add(f'ext_c17_block_jacobi {enc_rat(om)} {bh} {enc_rats(b)} {enc_rats(dinv)} {enc_rats(x0)} {enc_rats(t0)} {sw}', f'{enc_rats(x)};{enc_rats(t)};ok',
        'block_jacobi', bnt)
    x = x0.copy()
    amg_core.block_gauss_seidel(gp, gj, gx, x, b, dinv, s0, s1, s2, bs)
    add(f'ext_c17_block_gauss_seidel {bh} {enc_rats(b)} {enc_rats(dinv)} {enc_rats(x0)} {sw}', enc_rats(x) + ';ok', 'block_gauss_seidel', bnt)


def ext25_model_items(rng, amg_core, add, n, ip, ix):
    """extension E25: the checked model of the WHOLE rs_cf_splitting (Model/ExtRsCk.lean, driver op `ext_rs_whole`, theorem
    rs_cf_splitting_safe) against the rebuilt kernel: any structurally valid S (diagonal or not, unsorted, duplicates, nonsymmetric),
    T = S^T, sometimes an unrelated valid T (the theorem does not need T = S^T), sizes beyond the other model cases"""
    from common import enc_ints
    cases = [(n, ip, ix)]
    for _ in range(3):
        m = int(rng.choice([n, int(rng.integers(1, 13)), int(rng.integers(8, 33))], p=[.3, .5, .2]))
        gp, gj, _, _ = rand_pattern(rng, m, explicit_zero=False)
        cases.append((m, gp, gj))
    for (k, sp, sj) in cases:
        sp, sj = np.asarray(sp, dtype=np.int32), np.asarray(sj, dtype=np.int32)
        if rng.random() < 0.25:
            tp, tj, _, _ = rand_pattern(rng, k, explicit_zero=False)
            tp, tj = np.asarray(tp, dtype=np.int32), np.asarray(tj, dtype=np.int32)
            what = 'rs_cf_splitting (whole kernel, unrelated T)'
        else:
            tp, tj = transpose_pattern(k, sp, sj)
            what = 'rs_cf_splitting (whole kernel)'
        spl = np.full(k, -7, dtype=np.int32)
        amg_core.rs_cf_splitting(k, sp, sj, tp, tj, np.zeros(k, dtype=np.int32), spl)
        add(f'ext_rs_whole {k} {enc_ints(sp)} {enc_ints(sj)} {enc_ints(tp)} {enc_ints(tj)}', enc_ints(spl) + ';ok', what, len(sj) > 0 and len(tj) > 0)


def ext3_model_items(rng, amg_core, add, n, ip, ix, dx):
    """extension E19: the checked models of Model/ExtC17CkR3*.lean (driver ops `ext_c17r3_<kernel>`) against the rebuilt kernels"""
    from common import enc_ints, enc_rats, enc_rat
    # relaxation.h: indexed BSR / block Jacobi (index lists with repetitions, empty lists)
    nb, bs = int(rng.integers(1, 6)), int(rng.choice([1, 2, 2, 3]))
    gp, gj, _, _ = _exact_csr(rng, nb)
    gx = bsr_exact(rng, gp, gj, bs)
    bh = f'{bs} {nb} {enc_ints(gp)} {enc_ints(gj)} {enc_rats(gx)}'
    x0, b = rand_vec(rng, nb * bs), rand_vec(rng, nb * bs)
    om = float(rng.choice([0.5, 1.0, 1.5]))
    idx = rng.integers(0, nb, size=int(rng.integers(0, nb + 2))).astype(np.int32)
    bnt = len(gj) > 0 and len(idx) > 0
    x = x0.copy()
    amg_core.bsr_jacobi_indexed(gp, gj, gx, x, b, idx, bs, np.array([om]))
    add(f'ext_c17r3_bsr_jacobi_indexed {enc_rat(om)} {bh} {enc_rats(b)} {enc_ints(idx)} {enc_rats(x0)}', enc_rats(x) + ';ok', 'bsr_jacobi_indexed', bnt)
    dinv = rng.integers(-2, 3, size=nb * bs * bs).astype(np.float64) * 0.5
    x = x0.copy()
    amg_core.block_jacobi_indexed(gp, gj, gx, x, b, dinv, idx, np.array([om]), bs)
    add(f'ext_c17r3_block_jacobi_indexed {enc_rat(om)} {bh} {enc_rats(b)} {enc_rats(dinv)} {enc_ints(idx)} {enc_rats(x0)}', enc_rats(x) + ';ok',
        'block_jacobi_indexed', bnt)
    # ruge_stuben.h: second pass of the RS splitting on any pattern (with or without diagonal) and any 0/1 splitting
    split0 = rng.integers(0, 2, size=n).astype(np.int32)
    split = split0.copy()
    amg_core.rs_cf_splitting_pass2(n, ip, ix, split)
    add(f'ext_c17r3_rs_cf_splitting_pass2 {n} {enc_ints(ip)} {enc_ints(ix)} {enc_ints(split0)}', enc_ints(split) + ';ok', 'rs_cf_splitting_pass2', len(ix) > 0)
    # air.h: row pointer of R, distance 1 and 2 (and a distance the kernel only complains about)
    cpts = np.flatnonzero(split0 == 1).astype(np.int32)
    if rng.random() < 0.3:
        cpts = rng.integers(0, n, size=int(rng.integers(0, n + 2))).astype(np.int32)       # any node list
    dist = int(rng.choice([1, 2, 2]))
    rp = np.full(len(cpts) + 1, -7, dtype=np.int32)
    amg_core.approx_ideal_restriction_pass1(rp, ip, ix, cpts, split0, dist)
    add(f'ext_c17r3_approx_ideal_restriction_pass1 {dist} {enc_ints(np.full(len(cpts) + 1, -7))} {enc_ints(ip)} {enc_ints(ix)} {enc_ints(cpts)} {enc_ints(split0)}',
        enc_ints(rp) + ';ok', 'approx_ideal_restriction_pass1', len(ix) > 0 and len(cpts) > 0)
    # relaxation.h: Schwarz kernels; subdomains = sorted unique node lists (what the Python callers build), sometimes empty,
    # sometimes unsorted with repetitions (longer than nrows: the work arrays are sized by the largest subdomain)
    nsd = int(rng.integers(1, 5))
    doms = []
    for d in range(nsd):
        u = rng.random()
        if u < 0.15:
            doms.append(np.zeros(0, dtype=np.int32))
        elif u < 0.8:
            doms.append(np.flatnonzero(rng.random(n) < 0.6).astype(np.int32))
        else:
            doms.append(rng.integers(0, n, size=int(rng.integers(1, n + 3))).astype(np.int32))
    Sp = np.concatenate([[0], np.cumsum([len(d) for d in doms])]).astype(np.int32)
    Sj = (np.concatenate(doms) if len(doms) else np.zeros(0)).astype(np.int32)
    Tp = np.concatenate([[0], np.cumsum([len(d) ** 2 for d in doms])]).astype(np.int32)
    hdr = f'{n} {enc_ints(ip)} {enc_ints(ix)} {enc_rats(dx)}'
    T0 = np.full(int(Tp[-1]), -7.0)
    Tx = T0.copy()
    amg_core.extract_subblocks(ip, ix, dx, Tx, Tp, Sj, Sp, nsd, n)
    add(f'ext_c17r3_extract_subblocks {hdr} {enc_rats(T0)} {enc_ints(Tp)} {enc_ints(Sj)} {enc_ints(Sp)} {nsd}', enc_rats(Tx) + ';ok', 'extract_subblocks',
        len(ix) > 0 and len(Sj) > 0)
    Tinv = rng.integers(-2, 3, size=int(Tp[-1])).astype(np.float64) * 0.5
    x0, b = rand_vec(rng, n), rand_vec(rng, n)
    s0, s1, s2 = rand_sweep(rng, nsd)
    x = x0.copy()
    amg_core.overlapping_schwarz_csr(ip, ix, dx, x, b, Tinv, Tp, Sj, Sp, nsd, n, s0, s1, s2)
    add(f'ext_c17r3_overlapping_schwarz_csr {hdr} {enc_rats(b)} {enc_rats(Tinv)} {enc_ints(Tp)} {enc_ints(Sj)} {enc_ints(Sp)} {nsd} {n} {enc_rats(x0)} {s0} {s1} {s2}',
        enc_rats(x) + ';ok', 'overlapping_schwarz_csr', len(ix) > 0 and len(Sj) > 0)
    # smoothed_aggregation.h: dense-block helpers on BSR patterns with non-square blocks
    rpb, cpb, nd = int(rng.integers(1, 4)), int(rng.integers(1, 4)), int(rng.integers(1, 4))
    nbr, nbc = int(rng.integers(1, 5)), int(rng.integers(1, 5))
    sp, sj, _, _ = _exact_csr(rng, nbr, m=nbc)
    ri = lambda k: rng.integers(-2, 3, size=k).astype(np.float64)
    sx0 = ri(len(sj) * rpb * cpb)
    bt, ub, btbinv = ri(nbc * cpb * nd), ri(nbr * rpb * nd), ri(nbr * nd * nd) * 0.5
    sx = sx0.copy()
    amg_core.satisfy_constraints_helper(rpb, cpb, nbr, nd, bt, ub, btbinv, sp, sj, sx)
    add(f'ext_c17r3_satisfy_constraints_helper {rpb} {cpb} {nd} {enc_rats(bt)} {enc_rats(ub)} {enc_rats(btbinv)} {nbr} {enc_ints(sp)} {enc_ints(sj)} {enc_rats(sx0)}',
        enc_rats(sx) + ';ok', 'satisfy_constraints_helper', len(sj) > 0)
    bsqc = nd * (nd + 1) // 2
    bsq = ri(nbc * cpb * bsqc)
    btb0 = np.full(nbr * nd * nd, -7.0)
    btb = btb0.copy()
    amg_core.calc_BtB(nd, nbr, cpb, bsq, bsqc, btb, sp, sj)
    add(f'ext_c17r3_calc_BtB {nd} {nbr} {cpb} {enc_rats(bsq)} {bsqc} {enc_rats(btb0)} {enc_ints(sp)} {enc_ints(sj)}', enc_rats(btb) + ';ok', 'calc_BtB', len(sj) > 0)
    # S (nbr x nbc blocks of rpb x cpb) += A (nbr x kb blocks of rpb x nd) * B (kb x nbc blocks of nd x cpb) on the pattern of S; Sx need not start at zero
    kb = int(rng.integers(1, 5))
    if rng.random() < 0.25:
        rpb = cpb = nd = 1                                     # the scalar branch
    ap, aj, _, _ = _exact_csr(rng, nbr, m=kb)
    bp, bj, _, _ = _exact_csr(rng, kb, m=nbc)
    ax, bx, sx0 = ri(len(aj) * rpb * nd), ri(len(bj) * nd * cpb), ri(len(sj) * rpb * cpb)
    sx = sx0.copy()
    amg_core.incomplete_mat_mult_bsr(ap, aj, ax, bp, bj, bx, sp, sj, sx, nbr, nbc, rpb, nd, cpb)
    add(f'ext_c17r3_incomplete_mat_mult_bsr {nbr} {enc_ints(ap)} {enc_ints(aj)} {enc_rats(ax)} {kb} {enc_ints(bp)} {enc_ints(bj)} {enc_rats(bx)} '
        f'{nbr} {enc_ints(sp)} {enc_ints(sj)} {enc_rats(sx0)} {nbc} {rpb} {nd} {cpb}', enc_rats(sx) + ';ok', 'incomplete_mat_mult_bsr', len(sj) > 0 and len(aj) > 0 and len(bj) > 0)
    # ruge_stuben.h: cr_helper; any pattern (diagonal present or not), any 0/1 splitting with the matching index list, target B = +-2^k and
    # e = B * (0 or +-2^j) so that e/B, the candidate measure e/inf_norm and the weights are exact; at least one non-zero e among the F-points
    spl0 = rng.integers(0, 2, size=n).astype(np.int32) if rng.random() < 0.6 else np.zeros(n, dtype=np.int32)
    fpts, cpts = np.flatnonzero(spl0 == 0), np.flatnonzero(spl0 != 0)
    ind0 = np.concatenate([[len(fpts)], fpts, cpts[::-1]]).astype(np.int32)
    Bv = np.ldexp(rng.choice([-1.0, 1.0], size=n), rng.integers(-2, 3, size=n))
    ev = Bv * np.where(rng.random(n) < 0.3, 0.0, np.ldexp(rng.choice([-1.0, 1.0], size=n), rng.integers(-3, 2, size=n)))
    if len(fpts) and not np.any(ev[fpts]):
        ev[fpts[0]] = Bv[fpts[0]]
    g0 = rng.integers(-1, 2, size=n).astype(np.float64)
    th = float(rng.choice([0.0, 0.125, 0.25, 0.5, 1.0]))
    e1, ind1, spl1, g1 = ev.copy(), ind0.copy(), spl0.copy(), g0.copy()
    amg_core.cr_helper(ip, ix, Bv, e1, ind1, spl1, g1, th)
    add(f'ext_c17r3_cr_helper {enc_ints(ip)} {enc_ints(ix)} {enc_rats(Bv)} {enc_rats(ev)} {enc_ints(ind0)} {enc_ints(spl0)} {enc_rats(g0)} {enc_rat(th)}',
        f'{enc_rats(e1)};{enc_ints(ind1)};{enc_ints(spl1)};{enc_rats(g1)};ok', 'cr_helper', len(ix) > 0 and len(fpts) > 0)
    # krylov.h: Householder / Givens helpers on small integer data (exact); W has `rows` reflectors of length nk
    nk, rows = int(rng.integers(1, 6)), int(rng.integers(1, 5))
    ri = lambda k: rng.integers(-2, 3, size=k).astype(np.float64)
    W, z0, yv = ri(rows * nk), ri(nk), ri(max(nk, rows))
    s0, s1, s2 = rand_sweep(rng, rows)
    z = z0.copy()
    amg_core.apply_householders(z, W, nk, s0, s1, s2)
    add(f'ext_c17r3_apply_householders {enc_rats(W)} {nk} {s0} {s1} {s2} {enc_rats(z0)}', enc_rats(z) + ';ok', 'apply_householders')
    s0, s1, s2 = rand_sweep(rng, min(rows, nk))
    z = z0.copy()
    amg_core.householder_hornerscheme(z, W, yv, nk, s0, s1, s2)
    add(f'ext_c17r3_householder_hornerscheme {enc_rats(W)} {enc_rats(yv)} {nk} {s0} {s1} {s2} {enc_rats(z0)}', enc_rats(z) + ';ok', 'householder_hornerscheme')
    nrot = int(rng.integers(0, 5))
    Q, xg0 = ri(4 * nrot), ri(nrot + 1 + int(rng.integers(0, 2)))
    xg = xg0.copy()
    amg_core.apply_givens(Q, xg, len(xg), nrot)
    add(f'ext_c17r3_apply_givens {enc_rats(Q)} {nrot} {enc_rats(xg0)}', enc_rats(xg) + ';ok', 'apply_givens', nrot > 0)
    # graph.h: floyd_warshall on cluster `a` of a random clustering (L = local index inside the own cluster), non-negative integer weights,
    # D pre-filled with a large finite value (the exact model has no infinity)
    ncl = int(rng.integers(1, 4))
    mcl = rng.integers(0, ncl, size=n).astype(np.int32)
    acl = int(rng.integers(0, ncl))
    Cl = np.flatnonzero(mcl == acl).astype(np.int32)
    if rng.random() < 0.5:
        Cl = rng.permutation(Cl).astype(np.int32)
    Ll = np.zeros(n, dtype=np.int32)
    for a_ in range(ncl):
        mem = np.flatnonzero(mcl == a_) if a_ != acl else Cl
        Ll[mem] = np.arange(len(mem))
    Nl = len(Cl)
    wx = np.abs(dx) + 1.0
    D0, P0 = np.full(Nl * Nl, 1000.0), np.full(Nl * Nl, -1, dtype=np.int32)
    D1, P1 = D0.copy(), P0.copy()
    amg_core.floyd_warshall(n, ip, ix, wx, D1, P1, Cl, Ll, mcl, acl, Nl)
    add(f'ext_c17r3_floyd_warshall {n} {enc_ints(ip)} {enc_ints(ix)} {enc_rats(wx)} {enc_ints(Cl)} {enc_ints(Ll)} {enc_ints(mcl)} {acl} {Nl} {enc_rats(D0)} {enc_ints(P0)}',
        f'{enc_rats(D1)};{enc_ints(P1)};ok', 'floyd_warshall', len(ix) > 0 and Nl > 1)
    # graph.h: connected_components on any pattern (symmetric or not, with or without diagonal); value and returned count
    cc = np.full(n, -7, dtype=np.int32)
    ncomp = amg_core.connected_components(n, ip, ix, cc)
    add(f'ext_c17r3_connected_components {n} {enc_ints(ip)} {enc_ints(ix)} {enc_ints(np.full(n, -7))}', f'{enc_ints(cc)};{int(ncomp)};ok', 'connected_components', len(ix) > 0)
    # graph.h: most_interior_nodes (boundary marking, Bellman-Ford from the boundary, new centres); clusters with unassigned nodes (-1),
    # positive integer weights, `inf` distances encoded as in c17_bf
    nc = int(rng.integers(1, 4))
    mcl = rng.integers(-1 if rng.random() < 0.4 else 0, nc, size=n).astype(np.int32)
    cen0 = rng.integers(0, n, size=nc).astype(np.int32)
    wpos = np.abs(dx) + 1.0
    d1, p0 = rand_vec(rng, n), rng.integers(-1, n, size=n).astype(np.int32)
    cen1, dd1, m1, p1 = cen0.copy(), d1.copy(), mcl.copy(), p0.copy()
    chg = amg_core.most_interior_nodes(n, ip, ix, wpos, cen1, dd1, m1, p1)
    encd = lambda v: ','.join('inf' if not np.isfinite(t_) else enc_rat(t_) for t_ in v) if len(v) else '-'
    add(f'ext_c17r3_most_interior_nodes {n} {enc_ints(ip)} {enc_ints(ix)} {enc_rats(wpos)} {enc_ints(cen0)} {enc_rats(d1)} {enc_ints(mcl)} {enc_ints(p0)}',
        f'{enc_ints(cen1)};{int(bool(chg))};{encd(dd1)};{enc_ints(m1)};{enc_ints(p1)};ok', 'most_interior_nodes', len(ix) > 0)


def ext4_model_items(rng, amg_core, add, n, ip, ix, dx):
    """extension E32 (round 4): the checked models of Model/ExtC17R4*.lean (driver ops `ext_c17r4_<kernel>`) against the rebuilt kernels"""
    from common import enc_ints, enc_rats, enc_rat
    nt = len(ix) > 0
    gh = f'{n} {enc_ints(ip)} {enc_ints(ix)}'
    # graph.h: colourings and independent sets on ANY structurally valid pattern (nonsymmetric, self loops, duplicates); weights with ties
    col = np.full(n, -7, dtype=np.int32)
    K = amg_core.vertex_coloring_mis(n, ip, ix, col)
    add(f'ext_c17r4_vertex_coloring_mis {gh} {enc_ints(np.full(n, -7))}', f'{enc_ints(col)};{int(K)};ok', 'vertex_coloring_mis', nt)
    y = rng.integers(0, 3, size=n).astype(float) * float(rng.choice([0.5, 1.0]))
    mi = int(rng.choice([-1, -1, 0, 1, 2]))
    x0 = np.full(n, -1, dtype=np.int32)
    if rng.random() < 0.3:
        x0 = rng.choice([-1, -1, 0, 1], size=n).astype(np.int32)        # partially decided input
    xp = x0.copy()
    N = amg_core.maximal_independent_set_parallel(n, ip, ix, -1, 1, 0, xp, y, mi)
    add(f'ext_c17r4_maximal_independent_set_parallel {gh} -1 1 0 {enc_ints(x0)} {enc_rats(y)} {mi}', f'{enc_ints(xp)};{int(N)};ok', 'maximal_independent_set_parallel', nt)
    z0 = rng.integers(0, 3, size=n).astype(float) * 0.25
    col, z = np.full(n, -7, dtype=np.int32), z0.copy()
    K = amg_core.vertex_coloring_jones_plassmann(n, ip, ix, col, z)
    add(f'ext_c17r4_vertex_coloring_jones_plassmann {gh} {enc_ints(np.full(n, -7))} {enc_rats(z0)}', f'{enc_ints(col)};{enc_rats(z)};{int(K)};ok',
        'vertex_coloring_jones_plassmann', nt)
    col = np.full(n, -7, dtype=np.int32)
    K = amg_core.vertex_coloring_LDF(n, ip, ix, col, z0)
    add(f'ext_c17r4_vertex_coloring_LDF {gh} {enc_ints(np.full(n, -7))} {enc_rats(z0)}', f'{enc_ints(col)};{int(K)};ok', 'vertex_coloring_LDF', nt)
    # ruge_stuben.h: cljp_naive_splitting, both weight initialisations (colouring; the C library generator replayed after srand(2448422)), S any pattern,
    # T = S^T or an unrelated valid pattern; IEEE doubles bit for bit
    cf = int(rng.integers(2))
    if rng.random() < 0.25:
        tp_, tj_, _, _ = rand_pattern(rng, n, explicit_zero=False)
        tp_, tj_ = np.asarray(tp_, dtype=np.int32), np.asarray(tj_, dtype=np.int32)
    else:
        tp_, tj_ = transpose_pattern(n, ip, ix)
    libc = ctypes.CDLL(None)
    libc.srand(2448422)
    rnd = np.array([libc.rand() for _ in range(n)], dtype=np.float64) / 2147483647.0
    spl = np.full(n, -7, dtype=np.int32)
    amg_core.cljp_naive_splitting(n, ip, ix, tp_, tj_, spl, cf)
    add(f'ext_c17r4_cljp_naive_splitting {gh} {enc_ints(tp_)} {enc_ints(tj_)} {enc_ints(np.full(n, -7))} {cf} {fbits(rnd)}', enc_ints(spl) + ';ok',
        'cljp_naive_splitting', nt)
    # air.h: approx_ideal_restriction_pass2 (std::set neighbourhoods, local least squares by Householder QR or dense GMRES) on IEEE doubles, bit for bit:
    # Rp from the first pass on the same C / splitting / distance, A any pattern (missing entries give zeros in the local matrix), both solvers
    spl_a = (rng.random(n) < float(rng.choice([0.3, 0.5, 0.7]))).astype(np.int32)
    cpts_a = np.flatnonzero(spl_a == 1).astype(np.int32)
    dist_a = int(rng.integers(1, 3))
    ccp, ccj, _, _ = _exact_csr(rng, n)
    Rp_a = np.full(len(cpts_a) + 1, -7, dtype=np.int32)
    amg_core.approx_ideal_restriction_pass1(Rp_a, ccp, ccj, cpts_a, spl_a, dist_a)
    nnz_a = int(Rp_a[-1])
    ug, mi_a, pc_a = int(rng.integers(2)), int(rng.integers(0, 5)), int(rng.integers(2))
    axa = dx + 0.5 * (rng.random(len(dx)) < 0.5)
    Rj0, Rx0 = np.full(nnz_a, -7, dtype=np.int32), np.full(nnz_a, -7.0)
    Rj1, Rx1 = Rj0.copy(), Rx0.copy()
    amg_core.approx_ideal_restriction_pass2(Rp_a, Rj1, Rx1, ip, ix, axa, ccp, ccj, np.ones(len(ccj)), cpts_a, spl_a, dist_a, ug, mi_a, pc_a)
    add(f'ext_c17r4_approx_ideal_restriction_pass2 {enc_ints(Rp_a)} {enc_ints(Rj0)} {fbits(Rx0)} {n} {enc_ints(ip)} {enc_ints(ix)} {fbits(axa)} {enc_ints(ccp)} '
        f'{enc_ints(ccj)} {enc_ints(cpts_a)} {enc_ints(spl_a)} {dist_a} {ug} {mi_a} {pc_a}', f'{enc_ints(Rj1)};{fbits(Rx1)};ok', 'approx_ideal_restriction_pass2',
        nnz_a > len(cpts_a))
    # air.h: the block version on the same neighbourhoods, block sizes 1..3, Rx pre-filled with zeros (the kernel writes only the diagonal of the identity block)
    bsa = int(rng.choice([1, 2, 2, 3]))
    axb = rng.integers(-3, 4, size=len(ix) * bsa * bsa).astype(np.float64) + 0.5 * (rng.random(len(ix) * bsa * bsa) < 0.3)
    Rjb0, Rxb0 = np.full(nnz_a, -7, dtype=np.int32), np.zeros(nnz_a * bsa * bsa)
    Rjb1, Rxb1 = Rjb0.copy(), Rxb0.copy()
    ugb, mib, pcb = int(rng.integers(2)), int(rng.integers(0, 5)), int(rng.integers(2))
    amg_core.block_approx_ideal_restriction_pass2(Rp_a, Rjb1, Rxb1, ip, ix, axb, ccp, ccj, np.ones(len(ccj)), cpts_a, spl_a, bsa, dist_a, ugb, mib, pcb)
    add(f'ext_c17r4_block_approx_ideal_restriction_pass2 {enc_ints(Rp_a)} {enc_ints(Rjb0)} {fbits(Rxb0)} {n} {enc_ints(ip)} {enc_ints(ix)} {fbits(axb)} {enc_ints(ccp)} '
        f'{enc_ints(ccj)} {enc_ints(cpts_a)} {enc_ints(spl_a)} {bsa} {dist_a} {ugb} {mib} {pcb}', f'{enc_ints(Rjb1)};{fbits(Rxb1)};ok',
        'block_approx_ideal_restriction_pass2', nnz_a > len(cpts_a))
    # evolution_strength.h: evolution_strength_helper (svd_solve, gemm, the packed BDB offsets) on IEEE doubles, bit for bit: any pattern (rows shorter
    # than NullDim take the short branch), NullDim 1..3, BDBCols = NullDim(NullDim+1)/2, small integer data
    ND = int(rng.integers(1, 4))
    cols = ND * (ND + 1) // 2
    Sx0 = rng.integers(-3, 4, size=len(ix)).astype(np.float64) + (rng.random(len(ix)) < 0.3) * 0.5
    Bm, DBm, BDBm = (rng.integers(-2, 3, size=n * ND).astype(np.float64), rng.integers(-2, 3, size=ND * n).astype(np.float64),
                     rng.integers(-2, 3, size=n * cols).astype(np.float64))
    tole = float(rng.choice([1e-10, 2.220446049250313e-16 * 10]))
    Sx1 = Sx0.copy()
    amg_core.evolution_strength_helper(Sx1, ip, ix, n, Bm, DBm, BDBm, cols, ND, tole)
    add(f'ext_c17r4_evolution_strength_helper {fbits(Sx0)} {enc_ints(ip)} {enc_ints(ix)} {n} {fbits(Bm)} {fbits(DBm)} {fbits(BDBm)} {cols} {ND} {fbits(np.array([tole]))}',
        fbits(Sx1) + ';ok', 'evolution_strength_helper', nt)
    # linalg.h: pinv_array (svd_jacobi, transpose, gemm) on IEEE doubles, bit for bit: block sizes 1..5 (all branches of `transpose`), singular and
    # zero blocks, both storage orders
    nblk, bsz = int(rng.integers(1, 4)), int(rng.choice([1, 2, 2, 3, 3, 4, 5]))
    AA0 = rng.integers(-3, 4, size=nblk * bsz * bsz).astype(np.float64)
    u = rng.random()
    if u < 0.2:
        AA0[:bsz * bsz] = 0.0                                                   # a zero block
    elif u < 0.4 and bsz > 1:
        AA0.reshape(nblk, bsz, bsz)[0, :, -1] = AA0.reshape(nblk, bsz, bsz)[0, :, 0]   # a singular block
    trA = str(rng.choice(['T', 'F']))
    AA1 = AA0.copy()
    amg_core.pinv_array(AA1, nblk, bsz, trA)
    add(f'ext_c17r4_pinv_array {nblk} {bsz} {trA} {fbits(AA0)}', fbits(AA1) + ';ok', 'pinv_array', True)
    # smoothed_aggregation.h: fit_candidates (real instantiation, IEEE doubles bit for bit): any CSC pattern of nagg columns over nrow supernodes
    # (empty columns, rows in several columns), K1 dofs per supernode, K2 candidates (rank deficient columns included)
    nagg, K1, K2 = int(rng.integers(1, 5)), int(rng.integers(1, 3)), int(rng.integers(1, 4))
    cp, ci, _, _ = _exact_csr(rng, nagg, m=n)
    Bf = rng.integers(-2, 3, size=n * K1 * K2).astype(np.float64)
    if rng.random() < 0.3:
        Bf.reshape(n * K1, K2)[:, -1] = Bf.reshape(n * K1, K2)[:, 0]          # a dependent column
    tolf = float(rng.choice([1e-10, 0.5]))
    Q0, R0 = np.full(len(ci) * K1 * K2, -7.0), np.full(nagg * K2 * K2, -7.0)
    Q1, R1 = Q0.copy(), R0.copy()
    amg_core.fit_candidates(n, nagg, K1, K2, cp, ci, Q1, Bf, R1, tolf)
    add(f'ext_c17r4_fit_candidates {nagg} {K1} {K2} {enc_ints(cp)} {enc_ints(ci)} {fbits(Q0)} {fbits(Bf)} {fbits(R0)} {fbits(np.array([tolf]))}',
        f'{fbits(Q1)};{fbits(R1)};ok', 'fit_candidates', len(ci) > 0)
    # smoothed_aggregation.h: pairwise_aggregation on any pattern (self loops, duplicates, nonsymmetric), weights with ties (>= takes the last one)
    xa, ya = np.full(n, -7, dtype=np.int32), np.full(n, -7, dtype=np.int32)
    sxw = np.abs(dx) * float(rng.choice([0.5, 1.0])) - float(rng.choice([0.0, 1.0]))
    k = amg_core.pairwise_aggregation(n, ip, ix, sxw, xa, ya)
    add(f'ext_c17r4_pairwise_aggregation {gh} {enc_rats(sxw)} {enc_ints(np.full(n, -7))} {enc_ints(np.full(n, -7))}', f'{enc_ints(xa)};{enc_ints(ya)};{int(k)};ok',
        'pairwise_aggregation', nt)
    # graph.h: bellman_ford_balanced from the wrapper's initial arrays: positive weights on the grid 1/2 (far above the kernel's tolerance
    # 1e-14), distinct centres, any pattern; the validated model Bal.kernel (theorem bellman_ford_balanced_no_fault) must return, with the same arrays
    wb = (np.abs(dx) + 1.0) * 0.5
    kc = int(rng.integers(1, min(n, 3) + 1))
    cen = rng.choice(n, size=kc, replace=False).astype(np.int32)
    bd, bm, bp = np.full(n, np.inf), np.full(n, -1, dtype=np.int32), np.full(n, -1, dtype=np.int32)
    bpc, bs = np.zeros(n, dtype=np.int32), np.ones(kc, dtype=np.int32)
    bd[cen] = 0
    bm[cen] = np.arange(kc)
    tb = bool(rng.integers(2))
    encd = lambda v: ','.join('inf' if not np.isfinite(t_) else enc_rat(t_) for t_ in v) if len(v) else '-'
    line = (f'ext_c18_bfbal {gh} {enc_rats(wb)} {enc_rat(1e-14)} {int(tb)} {encd(bd)} {enc_ints(bm)} {enc_ints(bp)} {enc_ints(bpc)} {enc_ints(bs)}')
    ch = amg_core.bellman_ford_balanced(n, ip, ix, wb, cen, bd, bm, bp, bpc, bs, tb)
    add(line, f'{encd(bd)};{enc_ints(bm)};{enc_ints(bp)};{enc_ints(bpc)};{enc_ints(bs)};{"true" if ch else "false"}', 'bellman_ford_balanced', nt)
    # MIS-k: weights above -1 (a weight <= -1 next to a decided node never terminates with max_iters = -1: C18 finding), ties included
    k = int(rng.integers(0, 4))
    yk = rng.integers(0, 4, size=n).astype(float) * 0.25
    mi = int(rng.choice([-1, -1, 0, 1, 2]))
    xk = np.full(n, -7, dtype=np.int32)
    amg_core.maximal_independent_set_k_parallel(n, ip, ix, k, xk, yk, mi)
    add(f'ext_c17r4_maximal_independent_set_k_parallel {gh} {k} {enc_ints(np.full(n, -7))} {enc_rats(yk)} {mi}', f'{enc_ints(xk)};ok',
        'maximal_independent_set_k_parallel', nt)


def ext5_model_items(rng, amg_core, add, n, ip, ix, dx):
    """extension E46 (round 5): the termination theorems of the checked models of the two parallel independent-set kernels (driver ops
    `c17r5_mis_parallel`, `c17r5_mis_k_parallel`: max_iters = -1, fuel n + 1, rational weights; theorems mis_parallel_checked_total,
    mis_k_parallel_checked_total) and the last kernel, center_nodes, against E34's fault-detecting model `BalLloyd.centerNodes` (op
    `ext_c12_center_nodes`; theorem center_nodes_no_fault: the reply is never `fault` on a state bellman_ford_balanced leaves)"""
    from common import enc_ints, enc_rats, enc_rat
    nt = len(ix) > 0
    gh = f'{n} {enc_ints(ip)} {enc_ints(ix)}'
    # maximal_independent_set_parallel with max_iters = -1 on ANY pattern, ties, any start vector (entries -1 = active, 0, 1), marks -1/1/0
    y = rng.integers(0, 3, size=n).astype(float) * float(rng.choice([0.5, 1.0]))
    x0 = np.full(n, -1, dtype=np.int32)
    if rng.random() < 0.3:
        x0 = rng.choice([-1, -1, 0, 1], size=n).astype(np.int32)
    xp = x0.copy()
    N = amg_core.maximal_independent_set_parallel(n, ip, ix, -1, 1, 0, xp, y, -1)
    add(f'c17r5_mis_parallel {gh} -1 1 0 {enc_ints(x0)} {enc_rats(y)}', f'{enc_ints(xp)};{int(N)};ok',
        'maximal_independent_set_parallel(max_iters=-1, fuel n+1)', nt)
    # maximal_independent_set_k_parallel with max_iters = -1 on a SYMMETRIC pattern (self loops, duplicates allowed), weights above -1 with ties
    gp, gj, _, _ = _exact_csr(rng, n, sym=True, unsorted=bool(rng.integers(2)))
    k = int(rng.integers(0, 4))
    yk = rng.integers(0, 4, size=n).astype(float) * 0.25 - float(rng.choice([0.0, 0.5]))
    xk = np.full(n, -7, dtype=np.int32)
    amg_core.maximal_independent_set_k_parallel(n, gp, gj, k, xk, yk, -1)
    add(f'c17r5_mis_k_parallel {n} {enc_ints(gp)} {enc_ints(gj)} {k} {enc_ints(np.full(n, -7))} {enc_rats(yk)}',
        f'{enc_ints(xk)};ok;{enc_ints(xk)}', 'maximal_independent_set_k_parallel(max_iters=-1, fuel n+1, symmetric)', len(gj) > 0)
    # center_nodes on the state one bellman_ford_balanced pass leaves (Lloyd-style initialisation p[c] = c, pc[c] = 1): ANY pattern,
    # positive weights on the grid 1/2 (far above the tolerance 1e-14), distinct centres; max_size = the wrapper's value or the exact maximum
    wb = (np.abs(dx) + 1.0) * 0.5
    kc = int(rng.integers(1, min(n, 3) + 1))
    cs = rng.choice(n, size=kc, replace=False).astype(np.int32)
    d, m, p = np.full(n, np.inf), np.full(n, -1, dtype=np.int32), np.full(n, -1, dtype=np.int32)
    pc, sz = np.zeros(n, dtype=np.int32), np.ones(kc, dtype=np.int32)
    d[cs], m[cs], p[cs], pc[cs] = 0, np.arange(kc), cs, 1
    try:
        amg_core.bellman_ford_balanced(n, ip, ix, wb, cs, d, m, p, pc, sz, bool(rng.integers(2)))
        ok = bool(m.min() >= 0)
    except RuntimeError:
        ok = False
    if ok:
        maxsize = int(12 * np.ceil(n / kc)) if rng.integers(2) else int(sz.max())
        encd = lambda v: ','.join('inf' if not np.isfinite(t_) else enc_rat(t_) for t_ in v) if len(v) else '-'
        line = (f'ext_c12_center_nodes {gh} {enc_rats(wb)} {enc_rat(1e-14)} {maxsize} {enc_ints(cs)} {encd(d)} {enc_ints(m)} '
                f'{enc_ints(p)} {enc_ints(pc)} {enc_ints(sz)}')
        Cptr, CC, L = np.zeros(kc, dtype=np.int32), np.zeros(n, dtype=np.int32), np.zeros(n, dtype=np.int32)
        D, P, q = np.zeros(maxsize * maxsize), np.zeros(maxsize * maxsize, dtype=np.int32), np.zeros(maxsize)
        ch = amg_core.center_nodes(n, ip, ix, wb, Cptr, D, P, CC, L, q, cs, d, m, p, pc, sz)
        add(line, f'{enc_ints(cs)};{encd(d)};{enc_ints(p)};{enc_ints(pc)};{"true" if ch else "false"}', 'center_nodes', nt)


def ext4_empty_items(rng, amg_core, add):
    """E32: the round-4 graph / splitting / aggregation models on the EMPTY graph (num_rows = 0, all arrays of length 0), compared exactly with the kernels
    (since c2b91b3 the colourings return -1 and CLJP returns at once)"""
    from common import enc_ints, enc_rats
    i4, f8 = (lambda k=0: np.zeros(k, dtype=np.int32)), (lambda k=0: np.zeros(k))
    ip, ix = i4(1), i4()
    gh = f'0 {enc_ints(ip)} {enc_ints(ix)}'
    x = i4()
    K = amg_core.vertex_coloring_mis(0, ip, ix, x)
    add(f'ext_c17r4_vertex_coloring_mis {gh} -', f'-;{int(K)};ok', 'vertex_coloring_mis(n=0)', False)
    mi = int(rng.choice([-1, 0, 2]))
    N = amg_core.maximal_independent_set_parallel(0, ip, ix, -1, 1, 0, x, f8(), mi)
    add(f'ext_c17r4_maximal_independent_set_parallel {gh} -1 1 0 - - {mi}', f'-;{int(N)};ok', 'maximal_independent_set_parallel(n=0)', False)
    K = amg_core.vertex_coloring_jones_plassmann(0, ip, ix, x, f8())
    add(f'ext_c17r4_vertex_coloring_jones_plassmann {gh} - -', f'-;-;{int(K)};ok', 'vertex_coloring_jones_plassmann(n=0)', False)
    K = amg_core.vertex_coloring_LDF(0, ip, ix, x, f8())
    add(f'ext_c17r4_vertex_coloring_LDF {gh} - -', f'-;{int(K)};ok', 'vertex_coloring_LDF(n=0)', False)
    k = amg_core.pairwise_aggregation(0, ip, ix, f8(), x, i4())
    add(f'ext_c17r4_pairwise_aggregation {gh} - - -', f'-;-;{int(k)};ok', 'pairwise_aggregation(n=0)', False)
    for cf in (0, 1):
        amg_core.cljp_naive_splitting(0, ip, ix, ip.copy(), ix.copy(), x, cf)
        add(f'ext_c17r4_cljp_naive_splitting {gh} {enc_ints(ip)} - - {cf} -', '-;ok', 'cljp_naive_splitting(n=0)', False)


def model_items(seed, ncases, inflight):
    """(runs in a child process) correspondence requests for the Lean driver with the outputs of the real kernels"""
    from pyamg import amg_core as _core
    from common import enc_ints, enc_rats, enc_rat
    amg_core = GuardedCore(_core, inflight)
    rng = np.random.default_rng([seed, 1717])
    rng_ext = np.random.default_rng([seed, 1717, 7])      # own stream: the first 25 models keep their inputs
    rng_ext3 = np.random.default_rng([seed, 1717, 19])
    rng_ext25 = np.random.default_rng([seed, 1717, 25])
    rng_ext4 = np.random.default_rng([seed, 1717, 32])
    rng_ext5 = np.random.default_rng([seed, 1717, 46])
    items = []          # (line, expected, what, nontrivial)
    feats_all = collections.Counter()

    def add(line, exp, what, nontrivial=True):
        items.append((line, exp, what, bool(nontrivial)))

    for t in range(ncases):
        n = int(rng.integers(1, 7))
        ip, ix, dx, feats = _exact_csr(rng, n)
        for f in feats:
            feats_key = 'model-input:' + f.split('=')[0] + ('=' + f.split('=')[1] if f.startswith('diag') else '')
            feats_all[feats_key] += 1
        nt = len(ix) > 0
        hdr = f'{n} {enc_ints(ip)} {enc_ints(ix)} {enc_rats(dx)}'
        x0, b = rand_vec(rng, n), rand_vec(rng, n)
        s0, s1, s2 = rand_sweep(rng, n)
        sw = f'{s0} {s1} {s2}'
        om = float(rng.choice([0.5, 1.0, 1.5]))
        x = x0.copy()
        amg_core.gauss_seidel(ip, ix, dx, x, b, s0, s1, s2)
        add(f'c17_gs {hdr} {enc_rats(b)} {enc_rats(x0)} {sw}', enc_rats(x) + ';ok', 'gauss_seidel', nt)
        x = x0.copy()
        amg_core.sor_gauss_seidel(ip, ix, dx, x, b, s0, s1, s2, om)
        add(f'c17_sor {enc_rat(om)} {hdr} {enc_rats(b)} {enc_rats(x0)} {sw}', enc_rats(x) + ';ok', 'sor_gauss_seidel', nt)
        x = x0.copy()
        temp = rand_vec(rng, n)
        amg_core.jacobi(ip, ix, dx, x, b, temp.copy(), s0, s1, s2, np.array([om]))
        add(f'c17_jac {enc_rat(om)} {hdr} {enc_rats(b)} {enc_rats(x0)} {enc_rats(temp)} {sw}', enc_rats(x) + ';ok', 'jacobi', nt)
        idx = rng.integers(0, n, size=int(rng.integers(0, n + 2))).astype(np.int32)
        x = x0.copy()
        amg_core.jacobi_indexed(ip, ix, dx, x, b, idx, np.array([om]))
        add(f'c17_jaci {enc_rat(om)} {hdr} {enc_rats(b)} {enc_rats(x0)} {enc_ints(idx)}', enc_rats(x) + ';ok', 'jacobi_indexed', nt)
        m = int(rng.integers(1, n + 3))
        Id = rng.integers(0, n, size=m).astype(np.int32)
        i0, i1, i2 = rand_sweep(rng, m)
        x = x0.copy()
        amg_core.gauss_seidel_indexed(ip, ix, dx, x, b, Id, i0, i1, i2)
        add(f'c17_gsi {hdr} {enc_rats(b)} {enc_rats(x0)} {enc_ints(Id)} {i0} {i1} {i2}', enc_rats(x) + ';ok', 'gauss_seidel_indexed', nt)
        dinv = rng.choice([0.5, 0.25, 1.0, 0.125], size=n)
        x = x0.copy()
        amg_core.gauss_seidel_ne(ip, ix, dx, x, b, s0, s1, s2, dinv, om)
        add(f'c17_gsne {enc_rat(om)} {hdr} {enc_rats(b)} {enc_rats(x0)} {enc_rats(dinv)} {sw}', enc_rats(x) + ';ok', 'gauss_seidel_ne', nt)
        x = x0.copy()
        r0 = rand_vec(rng, n)
        r = r0.copy()
        amg_core.gauss_seidel_nr(ip, ix, dx, x, r, s0, s1, s2, dinv, om)
        add(f'c17_gsnr {enc_rat(om)} {hdr} {enc_rats(r0)} {enc_rats(x0)} {enc_rats(dinv)} {sw}', enc_rats(x) + ';' + enc_rats(r) + ';ok', 'gauss_seidel_nr', nt)
        # rectangular: csc_scale_* as util/utils.py calls them, maximum_row_value
        mc = int(rng.integers(1, 7))
        rp, rj, rx, _ = _exact_csr(rng, n, m=mc)
        rh = f'{n} {enc_ints(rp)} {enc_ints(rj)} {enc_rats(rx)}'
        v = rand_vec(rng, n)
        ax = rx.copy()
        amg_core.csc_scale_columns(mc, n, rp, rj, ax, v)
        add(f'c17_scalecols {rh} {enc_rats(v)}', enc_rats(ax) + ';ok', 'csc_scale_columns', len(rj) > 0)
        v = rand_vec(rng, mc)
        ax = rx.copy()
        amg_core.csc_scale_rows(mc, n, rp, rj, ax, v)
        add(f'c17_scalerows {rh} {enc_rats(v)}', enc_rats(ax) + ';ok', 'csc_scale_rows', len(rj) > 0)
        xm = np.zeros(n)
        amg_core.maximum_row_value(n, xm, rp, rj, rx)
        add(f'c17_maxrow {rh} {enc_rats(np.ones(n))}', enc_rats(xm) + ';ok', 'maximum_row_value', len(rj) > 0)
        # strength of connection (abs), exact thresholds
        th = float(rng.choice([0.0, 0.25, 0.5, 1.0, 2.0]))
        Sp, Sj, Sx = np.full(n + 1, -7, dtype=np.int32), np.full(len(ix), -7, dtype=np.int32), np.full(len(ix), -7.0)
        amg_core.classical_strength_of_connection_abs(n, th, ip, ix, dx, Sp, Sj, Sx)
        k = int(Sp[n])
        add(f'c17_soc_abs {enc_rat(th)} {hdr} {enc_ints(np.full(n + 1, -7))} {enc_ints(np.full(len(ix), -7))} {enc_rats(np.full(len(ix), -7.0))}',
            f'{enc_ints(Sp)};{enc_ints(Sj[:k])};{enc_rats(Sx[:k])};ok', 'classical_strength_of_connection_abs', nt)
        for kn, op in (('classical_strength_of_connection_min', 'c17_soc_min'), ('symmetric_strength_of_connection', 'c17_symsoc')):
            Sp, Sj, Sx = np.full(n + 1, -7, dtype=np.int32), np.full(len(ix), -7, dtype=np.int32), np.full(len(ix), -7.0)
            getattr(amg_core, kn)(n, th, ip, ix, dx, Sp, Sj, Sx)
            k = int(Sp[n])
            add(f'{op} {enc_rat(th)} {hdr} {enc_ints(np.full(n + 1, -7))} {enc_ints(np.full(len(ix), -7))} {enc_rats(np.full(len(ix), -7.0))}',
                f'{enc_ints(Sp)};{enc_ints(Sj[:k])};{enc_rats(Sx[:k])};ok', kn, nt)
        # distance filters on non-negative "distances" (exact thresholds), min_blocks
        dist = np.abs(dx) * rng.choice([0.5, 1.0, 2.0])
        dh = f'{n} {enc_ints(ip)} {enc_ints(ix)} {enc_rats(dist)}'
        for kn, op in (('apply_distance_filter', 'c17_distf'), ('apply_absolute_distance_filter', 'c17_adistf')):
            eps = float(rng.choice([0.5, 1.0, 2.0, 4.0]))
            sx = dist.copy()
            getattr(amg_core, kn)(n, eps, ip, ix, sx)
            add(f'{op} {enc_rat(eps)} {dh}', enc_rats(sx) + ';ok', kn, nt)
        nbk, bsz = int(rng.integers(1, 5)), int(rng.integers(1, 5))
        bx = rng.integers(0, 4, size=nbk * bsz).astype(float) * rng.choice([0.5, 1.0])
        tx = np.full(nbk, -7.0)
        amg_core.min_blocks(nbk, bsz, bx, tx)
        add(f'c17_minblocks {nbk} {bsz} {enc_rats(bx)} {enc_rats(np.full(nbk, -7.0))}',
            enc_rats(tx) + ';ok', 'min_blocks', True)
        # jacobi_ne (loops `i < stop`): start >= 0, stop <= n, step > 0
        j0 = int(rng.integers(0, n))
        j1 = int(rng.integers(j0, n + 1))
        j2 = int(rng.integers(1, 4))
        delta, tmp0 = rand_vec(rng, n), rand_vec(rng, n)
        x, tmp = x0.copy(), tmp0.copy()
        amg_core.jacobi_ne(ip, ix, dx, x, b, delta, tmp, j0, j1, j2, np.array([om]))
        add(f'c17_jacne {enc_rat(om)} {hdr} {enc_rats(delta)} {enc_rats(x0)} {enc_rats(tmp0)} {j0} {j1} {j2}',
            enc_rats(x) + ';' + enc_rats(tmp) + ';ok', 'jacobi_ne', nt)
        # pattern kernels
        split = rng.integers(0, 2, size=n).astype(np.int32)
        Pp, Pj, Px = np.full(n + 1, -7, dtype=np.int32), np.full(n, -7, dtype=np.int32), np.full(n, -7.0)
        amg_core.one_point_interpolation(Pp, Pj, Px, ip, ix, dx, split)
        k = int(Pp[n])
        add(f'c17_onepoint {enc_ints(np.full(n + 1, -7))} {enc_ints(np.full(n, -7))} {enc_rats(np.full(n, -7.0))} {hdr} {enc_ints(split)}',
            f'{enc_ints(Pp)};{enc_ints(Pj[:k])};{enc_rats(Px[:k])};ok', 'one_point_interpolation', nt)
        # Bellman-Ford with positive dyadic weights
        w = np.abs(dx) + 0.5
        kc = int(rng.integers(1, min(n, 3) + 1))
        centers = rng.choice(n, size=kc, replace=False).astype(np.int32)
        dd = np.full(n, np.inf)
        mm = np.full(n, -1, dtype=np.int32)
        ppd = np.full(n, -1, dtype=np.int32)
        dd[centers] = 0
        mm[centers] = np.arange(kc)
        encd = lambda v: ','.join('inf' if not np.isfinite(t_) else enc_rat(t_) for t_ in v)
        line = f'c17_bf {n} {enc_ints(ip)} {enc_ints(ix)} {enc_rats(w)} {encd(dd)} {enc_ints(mm)} {enc_ints(ppd)}'
        amg_core.bellman_ford(n, ip, ix, w, centers, dd, mm, ppd)
        add(line, f'{encd(dd)};{enc_ints(mm)};{enc_ints(ppd)};ok', 'bellman_ford', nt)
        for kn in ('rs_direct_interpolation_pass1', 'rs_classical_interpolation_pass1'):
            Pp = np.full(n + 1, -7, dtype=np.int32)
            getattr(amg_core, kn)(n, ip, ix, split, Pp)
            add(f'c17_pass1 {n} {enc_ints(ip)} {enc_ints(ix)} {enc_ints(split)} {enc_ints(np.full(n + 1, -7))}', enc_ints(Pp) + ';ok', kn, nt)
        xa, ya = np.full(n, -7, dtype=np.int32), np.full(n, -7, dtype=np.int32)
        k = amg_core.naive_aggregation(n, ip, ix, xa, ya)
        add(f'c17_naive {n} {enc_ints(ip)} {enc_ints(ix)} {enc_ints(np.full(n, -7))} {enc_ints(np.full(n, -7))}',
            f'{enc_ints(xa)};{enc_ints(ya[:k])};{k};ok', 'naive_aggregation', nt)
        xa, ya = np.full(n, -7, dtype=np.int32), np.full(n, -7, dtype=np.int32)
        k = amg_core.standard_aggregation(n, ip, ix, xa, ya)
        add(f'c17_stdagg {n} {enc_ints(ip)} {enc_ints(ix)} {enc_ints(np.full(n, -7))} {enc_ints(np.full(n, -7))}',
            f'{enc_ints(xa)};{enc_ints(ya[:max(k, 0)])};{k};ok', 'standard_aggregation', nt)
        seed = int(rng.integers(n))
        order, level = np.full(n, -9, dtype=np.int32), np.full(n, -1, dtype=np.int32)
        amg_core.breadth_first_search(ip, ix, seed, order, level)
        reached = int((level != -1).sum())
        add(f'c17_bfs {n} {enc_ints(ip)} {enc_ints(ix)} {seed} {enc_ints(np.full(n, -9))} {enc_ints(np.full(n, -1))}',
            f'{enc_ints(order[:reached])};{enc_ints(level)};ok', 'breadth_first_search', nt)
        xm_ = np.full(n, -1, dtype=np.int32)
        amg_core.maximal_independent_set_serial(n, ip, ix, -1, 1, 0, xm_)
        add(f'c17_mis {n} {enc_ints(ip)} {enc_ints(ix)} -1 1 0 {enc_ints(np.full(n, -1))}', enc_ints(xm_) + ';ok', 'maximal_independent_set_serial', nt)
        ext_model_items(rng_ext, amg_core, add, n, ip, ix, dx)
        ext3_model_items(rng_ext3, amg_core, add, n, ip, ix, dx)
        ext25_model_items(rng_ext25, amg_core, add, n, ip, ix)
        ext4_model_items(rng_ext4, amg_core, add, n, ip, ix, dx)
        ext5_model_items(rng_ext5, amg_core, add, n, ip, ix, dx)
        if t % 10 == 0:
            ext4_empty_items(rng_ext4, amg_core, add)
        # proof-side models of the termination theorems + RS model (existing ops; symmetric graphs, no self loops for RS)
        gp, gj, gx, _ = _exact_csr(rng, n, sym=True, diag='none', unsorted=False)
        gh = f'{n} {enc_ints(gp)} {enc_ints(gj)}'
        gnt = len(gj) > 0
        lv = np.full(n, -1, dtype=np.int32)
        od = np.full(n, -9, dtype=np.int32)
        amg_core.breadth_first_search(gp, gj, seed, od, lv)
        add(f'p_bfs {gh} {seed}', enc_ints(lv), 'p_bfs (bfs_total)', gnt)
        cc = np.full(n, -7, dtype=np.int32)
        amg_core.connected_components(n, gp, gj, cc)
        add(f'p_cc {gh}', enc_ints(cc), 'p_cc (cc_total)', gnt)
        col = np.full(n, -7, dtype=np.int32)
        amg_core.vertex_coloring_mis(n, gp, gj, col)
        add(f'p_color_mis {gh}', enc_ints(col), 'p_color_mis (coloring_total)', gnt)
        y = rng.integers(0, 5, size=n).astype(float)
        xp = np.full(n, -1, dtype=np.int32)
        amg_core.maximal_independent_set_parallel(n, gp, gj, -1, 1, 0, xp, y, -1)
        add(f'p_mis_par {gh} {enc_ints(y)}', enc_ints(xp), 'p_mis_par (mis_parallel_total)', gnt)
        tp, tj = transpose_pattern(n, gp, gj)
        spl = np.full(n, -7, dtype=np.int32)
        amg_core.rs_cf_splitting(n, gp, gj, tp, tj, np.zeros(n, dtype=np.int32), spl)
        add(f'rs {gh} {enc_ints(tp)} {enc_ints(tj)}', enc_ints(spl), 'rs (rs_*_bounds model)', gnt)
    return items, dict(feats_all)


def part_model(ctx, ncases):
    tmp = Path(tempfile.mkdtemp(prefix='c17m_'))
    outp, infl, errp = tmp / 'items.json', tmp / 'inflight.pkl', tmp / 'err.txt'
    rc, err = run_child(['--model-items', '--seed', str(ctx.seed), '--ncases', str(ncases), '--out', str(outp), '--inflight', str(infl)],
                        dict(os.environ), errp, timeout=600)
    if rc != 0 or not outp.exists():
        # a kernel crashed or did not return on a correspondence input (plain build): the model cannot be compared;
        # the instrumented search below (and the deeper one this triggers) has to find the concrete failing input
        rec = None
        try:
            rec = pickle.loads(infl.read_bytes())
        except Exception:
            pass
        if rec is None or rc == 'wall-timeout' or (isinstance(rc, int) and rc > 0):
            raise_infra(f'model-items child failed rc={rc}: {err[-800:]}')
        kind = 'did not return within the CPU limit' if rc == -signal.SIGVTALRM else f'died with signal {-rc}'
        ctx.corr(f'kernel {rec[1]} (plain build) {kind} on a correspondence input', case_of(rec), 'model: terminates, ok', kind)
        items = []
    else:
        d = json.loads(outp.read_text())
        items = [tuple(it) for it in d['items']]
        for k, v in d['feats'].items():
            ctx.feat(k, v)
    outs = ctx.lean([it[0] for it in items], chunks=1 if len(items) < 6000 else 3)
    for (line, exp, what, nt), o in zip(items, outs):
        ctx.case(key='m:' + hashlib.sha1(line.encode()).hexdigest(), nontrivial=nt,
                 sample={'request': line[:160], 'model': o[:80], 'impl': exp[:80]})
        ctx.feat('model-vs-kernel:' + what)
        if o != exp:
            ctx.corr('checked model ' + what, {'line': line}, o, exp,
                     note='the `ok` flag of the model is false' if o.endswith(';fault') or o == 'nonterm' else '')
    # controls: malformed inputs must clear the flag / exhaust the fuel (the flag is not vacuous)
    controls = [
        ('c17_gs 2 0,1,2 0,5 1,1 1,1 0,0 0 2 1', ';fault'),                  # column index 5 >= n
        ('c17_gs 2 0,1,2 0,1 1,1 1,1 0,0 0 3 2', 'nonterm'),                 # stop = 3 is stepped over
        ('c17_sor 1 2 0,1,2 0,1 1,1 1,1 0,0 1 -2 -2', 'nonterm'),               # 1, -1, -3, ... never equals -2
        ('c17_jac 1 2 0,1,2 0,1 1,1 1,1 0,0 0 0 2 1', ';fault'),              # temp too short
        ('c17_jaci 1 2 0,1,2 0,1 1,1 1,1 0,0 0,2', ';fault'),                # row index 2 >= n
        ('c17_gsi 2 0,1,2 0,1 1,1 1,1 0,0 0,1 0 3 1', ';fault'),             # reads Id[2] past the end of Id
        ('c17_gsne 1 2 0,1,2 0,1 1,1 1,1 0 1,1 0 2 1', ';fault'),            # x shorter than the number of columns
        ('c17_scalerows 2 0,1,2 0,1 1,1 3', ';fault'),                       # Xx shorter than the largest index
        ('c17_scalecols 2 0,1,3 0,1 1,1 3,3', ';fault'),                     # row pointer beyond Ax
        ('c17_maxrow 2 0,1,2 0,1 1,1 0', ';fault'),                          # x too short
        ('c17_pass1 2 0,1,2 1,0 0,0 -7,-7', ';fault'),                       # Pp has n entries instead of n+1
        ('c17_naive 2 0,1,2 5,0 -7,-7 -7,-7', ';fault'),                     # column index out of range
        ('c17_stdagg 2 0,1,2 1,0 -7,-7 -', ';fault'),                        # y is empty
        ('c17_bfs 2 0,1,2 1,0 0 -9 -1,-1', ';fault'),                        # order buffer too short
        ('c17_soc_abs 0 2 0,2,4 0,1,0,1 1,1,1,1 -7,-7,-7 -7,-7,-7 -7,-7,-7', ';fault'),   # Sj/Sx one entry short
        ('c17_mis 2 0,1,2 7,0 -1 1 0 -1,-1', ';fault'),
        ('c17_distf 1 2 0,1,3 0,0,1 1,1', ';fault'),                         # Sx shorter than the row pointer says
        ('c17_adistf 1 2 0,1,3 0,0,1 1,1', ';fault'),
        ('c17_minblocks 2 2 1,1,1 -7,-7', ';fault'),                        # Sx one entry short
        ('c17_jacne 1 2 0,1,2 0,1 1,1 1,1 0,0 0,0 0 3 1', ';fault'),        # stop = 3 > n
        ('c17_onepoint -7,-7,-7 -7 -7 2 0,1,2 0,1 1,1 1,1', ';fault'),      # Pj, Px shorter than n with two C points
        ('c17_bf 2 0,1,2 1,2 1,1 0,inf 0,-1 -1,-1', ';fault'),              # column index 2 >= n
        ('c17_soc_min 0 2 0,2,4 0,1,0,1 -1,-1,-1,-1 -7,-7,-7 -7,-7,-7 -7,-7,-7', ';fault'),
        ('c17_symsoc 0 2 0,2,4 0,1,0,1 1,1,1,1 -7,-7,-7 -7,-7,-7 -7,-7,-7', ';fault'),          # Sj/Sx one entry short
        ('c17_symsoc 0 2 0,1,2 0,3 1,1 -7,-7,-7 -7,-7 -7,-7', ';fault'),                        # diags[3] out of range
        # extension E7
        ('ext_c17_filter_matrix_rows 1 1 2 0,1,3 0,1,0 4,1', ';fault'),                                # Ax shorter than the row pointer says
        ('ext_c17_filter_matrix_rows 1 0 2 0,1,3 0,1,0 4,1', ';fault'),
        ('ext_c17_remove_strong_FF_connections 2 0,1,2 1,5 1,1 0,0', ';fault'),                       # column index 5: splitting[5]
        ('ext_c17_incomplete_mat_mult_csr 1 0,1 0 1 1 0,1 0 1 1 0,1 3 7', ';fault'),                   # S has column 3, B has one column
        ('ext_c17_truncate_rows_csr 1 1 0,3 0,1 5,1', ';fault'),                                       # row pointer beyond Sj/Sx
        ('ext_c17_bsr_gauss_seidel 2 1 0,1 0 1,0,0,1 1,1 0 0 1 1', ';fault'),                          # x has 1 entry, one 2x2 block row needs 2
        ('ext_c17_bsr_gauss_seidel 2 1 0,1 0 1,0,0,1 1,1 0,0 0 3 2', 'nonterm'),                       # stop = 3 is stepped over
        ('ext_c17_bsr_gauss_seidel 2 1 0,1 0 1,0,0 1,1 0,0 0 1 1', ';fault'),                          # Ax one value short of a 2x2 block
        ('ext_c17_bsr_jacobi 1 2 1 0,1 0 1,0,0,1 1,1 0,0 0 0 1 1', ';fault'),                          # temp shorter than x
        ('ext_c17_block_jacobi 1 2 1 0,1 0 1,0,0,1 1,1 1,0,0 0,0 0,0 0 1 1', ';fault'),                # Tx one value short
        ('ext_c17_block_gauss_seidel 2 2 0,2,2 0,1 1,0,0,1,1,1,1,1 1,1,1,1 1,0,0,1,1,0,0,1 0,0 0 2 1', ';fault'),   # x half as long as the columns
        # one F row with two strong C neighbours: Pp = 0,2,3,4
        ('ext_c17_rs_direct_interpolation_pass2 3 0,3,4,5 0,1,2,1,2 0,0,0,0,0 0,2,2,2 1,2 0,0 0,1,1 0,2,3,4 -7,-7,-7 0,0,0', ';fault'),   # Pj one short
        ('ext_c17_rs_direct_interpolation_pass2 3 0,3,4,5 0,1,2,1,2 0,0,0,0,0 0,2,2,2 1,2 0,0 0,1,1 1,3,4,5 -7,-7,-7,-7,-7 0,0,0,0,0', ';fault'),  # Pp[0] = 1: slot 0 is never written, the renumbering reads map[-7]
        ('ext_c17_rs_classical_interpolation_pass2 0 0 3 0,3,4,5 0,1,2,1,2 0,0,0,0,0 0,2,2,2 1,2 0,0 0,1,1 0,2,3,4 -7,-7,-7,-7 0,0,0', ';fault'),   # Px one short
        ('ext_c17_rs_classical_interpolation_pass2 1 0 3 0,3,4,5 0,1,2,1,2 0,0,0,0,0 0,2,2,2 1,7 0,0 0,1,1 0,2,3,4 -7,-7,-7,-7 0,0,0,0', ';fault'),  # Sj = 7
        # extension E25: the whole rs_cf_splitting
        ('ext_rs_whole 2 0,1,2 1,0 0,1,2 1,5', ';fault'),                   # Tj = 5: splitting[5]
        ('ext_rs_whole 2 0,1,2 1,7 0,1,2 1,0', ';fault'),                   # Sj = 7 (met in the lambda-decrement loop)
        ('ext_rs_whole 2 0,1,2 1,0 0,2,1 1,0', ';fault'),                   # Tp decreasing: negative lambda indexes interval_count
        ('ext_rs_whole 2 0,1,2 1,0 0,1 0', ';fault'),                       # Tp has n entries instead of n+1
        ('ext_rs_whole 2 0,1,2 1,-1 0,1,2 1,0', 'rejected'),                # negative entries are not representable in the model: rejected, not defaulted
        # extension E19 (round 3)
        ('ext_c17r3_bsr_jacobi_indexed 1 2 1 0,1 0 1,0,0,1 1,1 1 0,0', ';fault'),                         # indices names block row 1 of a matrix with one block row
        ('ext_c17r3_block_jacobi_indexed 1 2 1 0,1 0 1,0,0,1 1,1 1,0,0 0 0,0', ';fault'),                 # Tx one value short of a 2x2 block
        ('ext_c17r3_rs_cf_splitting_pass2 2 0,1,2 5,0 0,0', ';fault'),                                    # column index 5: splitting[5]
        ('ext_c17r3_approx_ideal_restriction_pass1 2 -7 0,1,2 1,0 0 0,0', ';fault'),                      # Rp has |Cpts| entries instead of |Cpts|+1
        ('ext_c17r3_extract_subblocks 2 0,2,4 0,1,0,1 4,-1,-1,4 7,7,7,7 0,4,5 0,1,1 0,2,3 2', ';fault'),  # Tx one entry shorter than Tp[nsdomains]
        ('ext_c17r3_overlapping_schwarz_csr 2 0,2,4 0,1,0,1 4,-1,-1,4 1,1 1,0,0,1 0,4 0,1 0,2 1 2 0,0 0 3 2', 'nonterm'),   # stop = 3 is stepped over
        ('ext_c17r3_overlapping_schwarz_csr 2 0,2,4 0,1,0,1 4,-1,-1,4 1,1 1,0,0,1 0,4 0,1 0,2 1 2 0 0 1 1', ';fault'),     # x has one entry, A has two columns
        ('ext_c17r3_satisfy_constraints_helper 1 2 1 1,1 1 1 1 0,1 0 1', ';fault'),                       # Sx holds one value for a 1x2 block
        ('ext_c17r3_calc_BtB 2 1 1 1,1 2 0,0,0,0 0,1 0', ';fault'),                                       # BsqCols = 2 < NullDim(NullDim+1)/2 = 3
        ('ext_c17r3_incomplete_mat_mult_bsr 1 0,1 0 1 1 0,1 3 1 1 0,1 0 5 1 1 1 1', ';fault'),            # Bj = 3 indexes the pointer array S of n_bcol = 1 entries
        ('ext_c17r3_cr_helper 0,1,2 0,1 1,1 1,1 3,0,1 0,0 0,0 0', ';fault'),                              # indices[0] = 3 F-points in an index array of n + 1 = 3 entries
        ('ext_c17r3_apply_householders 1,0,0 2 0 2 1 1,1', ';fault'),                                     # B one entry short of two reflectors of length 2
        ('ext_c17r3_apply_householders 1,0,0,1 2 0 3 2 1,1', 'nonterm'),                                  # stop = 3 is stepped over
        ('ext_c17r3_householder_hornerscheme 1,0,0,1 1 2 0 2 1 1,1', ';fault'),                           # y has one entry, i reaches 1
        ('ext_c17r3_apply_givens 1,0,0,1 1 1', ';fault'),                                                 # one rotation needs x[0], x[1]
        ('ext_c17r3_apply_givens 1,0,0 1 1,1', ';fault'),                                                 # B one entry short of a rotation
        ('ext_c17r3_floyd_warshall 2 0,1,2 1,0 1,1 0,1 0,5 0,0 0 2 9,9,9,9 -1,-1,-1,-1', ';fault'),       # L[1] = 5 is not a local index of a cluster of 2
        ('ext_c17r3_connected_components 2 0,1,2 1,5 -7,-7', ';fault'),                                   # column index 5: components[5]
        ('ext_c17r3_most_interior_nodes 2 0,1,2 1,0 1,1 0 0,0 0,3 -1,-1', ';fault'),                      # m[1] = 3 indexes c, which has one cluster
        # extension E32 (round 4)
        # block AIR, 2x2 blocks, C-point 0 with one F neighbour: Rx one value short / Ax one value short (GMRES path) / well formed
        ('ext_c17r4_block_approx_ideal_restriction_pass2 0,2 -7,-7 0,0,0,0,0,0,0 2 0,1,2 0,1 4607182418800017408,0,0,4607182418800017408,4607182418800017408,0,0,4607182418800017408 0,1,1 1 0 1,0 2 1 0 1 0', ';fault'),
        ('ext_c17r4_block_approx_ideal_restriction_pass2 0,2 -7,-7 0,0,0,0,0,0,0,0 2 0,1,2 0,1 4607182418800017408,0,0,4607182418800017408,4607182418800017408,0,0 0,1,1 1 0 1,0 2 1 1 1 1', ';fault'),
        ('ext_c17r4_block_approx_ideal_restriction_pass2 0,2 -7,-7 0,0,0,0,0,0,0,0 2 0,1,2 0,1 4607182418800017408,0,0,4607182418800017408,4607182418800017408,0,0,4607182418800017408 0,1,1 1 0 1,0 2 1 0 1 0', ';ok'),
        # C-point 0 with one F neighbour: Rp = 0,2; Rj one entry short / Rx one entry short (GMRES path) / well formed
        ('ext_c17r4_approx_ideal_restriction_pass2 0,2 -7 0,0 2 0,1,2 0,1 4607182418800017408,4607182418800017408 0,1,1 1 0 1,0 1 0 1 0', ';fault'),
        ('ext_c17r4_approx_ideal_restriction_pass2 0,2 -7,-7 0 2 0,1,2 0,1 4607182418800017408,4607182418800017408 0,1,1 1 0 1,0 1 1 1 1', ';fault'),
        ('ext_c17r4_approx_ideal_restriction_pass2 0,2 -7,-7 0,0 2 0,1,2 0,1 4607182418800017408,4607182418800017408 0,1,1 1 0 1,0 1 0 1 0', ';ok'),
        # one row with three entries, NullDim = 2: BDBCols = 2 < 3 walks past the packed row of the last node; Sx one entry short
        ('ext_c17r4_evolution_strength_helper 4607182418800017408,4607182418800017408,4607182418800017408 0,3,3,3 0,1,2 3 0,0,0,0,0,0 0,0,0,0,0,0 0,0,0,0,0,0 2 2 0', ';fault'),
        ('ext_c17r4_evolution_strength_helper 4607182418800017408,4607182418800017408,4607182418800017408 0,3,3,3 0,1,2 3 0,0,0,0,0,0 0,0,0,0,0,0 0,0,0,0,0,0,0,0,0 3 2 0', ';ok'),
        ('ext_c17r4_evolution_strength_helper 4607182418800017408,4607182418800017408 0,3,3,3 0,1,2 3 0,0,0 0,0,0 0,0,0 1 1 0', ';fault'),
        ('ext_c17r4_pinv_array 2 2 F 0,0,0,0,0,0,0', ';fault'),                                              # AA one entry short of two 2x2 blocks
        ('ext_c17r4_pinv_array 1 4 T 0,0,0,0,0,0,0,0,0,0,0,0,0,0,0', ';fault'),                              # AA one entry short of a 4x4 block (unrolled transpose)
        ('ext_c17r4_fit_candidates 1 1 2 0,1 0 0,0 0,0 0,0,0 0', ';fault'),                                   # R holds 3 of the K2*K2 = 4 entries of the block column
        ('ext_c17r4_fit_candidates 1 2 1 0,1 0 0 0,0 0 0', ';fault'),                                        # Ax holds one of the K1*K2 = 2 entries of the stored block
        ('ext_c17r4_fit_candidates 1 1 1 0,1 3 0 0 0 0', ';fault'),                                          # Ai = 3: B has one supernode
        ('ext_c17r4_cljp_naive_splitting 2 0,1,2 1,0 0,1,2 1,5 -7,-7 1 0,0', ';fault'),                      # Tj = 5: splitting[5]
        ('ext_c17r4_cljp_naive_splitting 2 0,1,2 1,7 0,1,2 1,0 -7,-7 0 0,0', ';fault'),                      # Sj = 7: weight[7]
        ('ext_c17r4_pairwise_aggregation 2 0,1,2 1,5 1,1 -7,-7 -7,-7', ';fault'),                           # column index 5: m[5]
        ('ext_c17r4_pairwise_aggregation 2 0,1,2 1,0 1,1 -7,-7 -', ';fault'),                               # y is empty
        ('ext_c18_bfbal 2 0,1,2 1,0 1,1 1/100000000000000 1 0,inf 0,-1 -1,-1 0,0 -', 'fault'),                 # s is empty: s[m[i]] out of range
        ('ext_c18_bfbal 2 0,1,2 1,5 1,1 1/100000000000000 1 0,inf 0,-1 -1,-1 0,0 1', 'fault'),                 # column index 5
        ('ext_c17r4_vertex_coloring_mis 2 0,1,2 1,5 -7,-7', ';fault'),                                    # column index 5: x[5]
        ('ext_c17r4_vertex_coloring_mis 2 0,1,2 1,0 -7', ';fault'),                                       # x has one entry
        ('ext_c17r4_maximal_independent_set_parallel 2 0,1,2 1,0 -1 1 0 -1,-1 0 -1', ';fault'),           # y has one entry
        ('ext_c17r4_maximal_independent_set_parallel 2 0,1,2 1,0 -1 1 0 -1,-1 0,0 0', '-1,-1;0;ok'),      # max_iters = 0: no pass
        ('ext_c17r4_vertex_coloring_jones_plassmann 2 0,1,2 1,0 -7,-7 0', ';fault'),                      # z has one entry
        ('ext_c17r4_vertex_coloring_LDF 2 0,1,2 1,7 -7,-7 0,0', ';fault'),                                # column index 7
        ('ext_c17r4_maximal_independent_set_k_parallel 2 0,1,2 1,0 1 -7,-7 0 -1', ';fault'),              # y has one entry
        ('ext_c17r4_maximal_independent_set_k_parallel 2 0,1,2 1,5 1 -7,-7 0,0 -1', ';fault'),            # column index 5: i_keys[5]
        ('ext_c17r4_maximal_independent_set_k_parallel 3 0,1,3,4 1,0,2,1 1 -7,-7,-7 -1,0,1 -1', 'nonterm'),
        # E46: the termination theorems need their hypotheses: a weight <= -1 next to a decided node exhausts the fuel n + 1 ...
        ('c17r5_mis_k_parallel 3 0,1,3,4 1,0,2,1 1 -7,-7,-7 -1,0,1', 'nonterm'),
        ('c17r5_mis_k_parallel 3 0,1,3,4 1,0,2,1 1 -7,-7,-7 0,0,1', '1,0,1;ok;1,0,1'),                  # ... weights above -1 do not
        ('c17r5_mis_parallel 2 0,1,2 1,0 -1 1 0 -1,-1 0', ';fault'),                                    # y has one entry
        ('c17r5_mis_parallel 3 0,1,2,2 1,2 -1 1 0 -1,-1,-1 0,1,2', '1,0,1;2;ok'),                       # directed path 0->1->2, increasing weights: several passes, within the fuel
        # E46, center_nodes (model BalLloyd.centerNodes): path 0-1-2, one cluster, centre 0 moves to node 1; with p[1] = -1 (not a node: hypothesis
        # PRange of center_nodes_no_fault violated) the update `pc[p[j]]--` leaves the array
        ('ext_c12_center_nodes 3 0,1,3,4 1,0,2,1 1,1,1,1 1/100000000000000 3 0 0,1,2 0,0,0 0,0,1 2,1,0 3', '1;1,0,1;1,1,1;0,3,0;true'),
        ('ext_c12_center_nodes 3 0,1,3,4 1,0,2,1 1,1,1,1 1/100000000000000 3 0 0,1,2 0,0,0 0,-1,1 2,1,0 3', 'fault'),
        ('ext_c12_center_nodes 3 0,1,3,4 1,0,2,1 1,1,1,1 1/100000000000000 2 0 0,1,2 0,0,0 0,0,1 2,1,0 3', 'fault'),   # max_size 2 < cluster size 3   # a weight <= -1 next to a decided node (C18 finding): the fuel runs out
    ]
    outs = ctx.lean([c[0] for c in controls], chunks=1)
    for (line, want), o in zip(controls, outs):
        ctx.feat('model-control:' + line.split(' ')[0])
        if not o.endswith(want):
            ctx.corr('control ' + line.split(' ')[0], {'line': line}, o, '...' + want,
                     note='a malformed input must clear the ok flag of the checked model (or exhaust the fuel)')


# ------------------------------------------------------------------------------------------------
# the check
# ------------------------------------------------------------------------------------------------

def san_part(ctx, groups, budget, nworkers=8, only=None):
    import corebuild
    from concurrent.futures import ThreadPoolExecutor
    build = corebuild.build(asan=True)
    env = asan_env()
    tmp = Path(tempfile.mkdtemp(prefix='c17p_'))
    pr = probes()
    with ThreadPoolExecutor(max_workers=len(pr) + 1) as ex:
        futs = {fk: ex.submit(run_probe, fk, k, a, build, env, tmp) for fk, (k, a) in pr.items()}
        main = ex.submit(san_search, ctx, groups, budget, nworkers, only)
        calls, sigs, inventory = main.result()
        for fk, fu in futs.items():
            r = fu.result()
            ctx.case(key='probe:' + fk, nontrivial=True)
            if r is None:
                ctx.feat('known-region-probe-clean:' + fk)
            else:
                what, case = r
                ctx.feat('known-region-probe-fails:' + fk)
                ctx.violation(f'{what} [fixed probe of the formerly defective region `{fk}`]', case, fkey=classify(case['kernel'], case, '', ''))
    for k in inventory:
        ctx.feat('kernel-calls:' + k, calls.get(k, 0))
        if calls.get(k, 0) == 0:
            ctx.feat('kernel-NOT-exercised:' + k)
    raw_gen = {'gauss_seidel', 'sor_gauss_seidel', 'jacobi', 'jacobi_indexed', 'gauss_seidel_indexed', 'jacobi_ne', 'gauss_seidel_ne', 'gauss_seidel_nr',
               'bsr_gauss_seidel', 'bsr_jacobi', 'bsr_jacobi_indexed', 'block_jacobi', 'block_jacobi_indexed', 'block_gauss_seidel',
               'classical_strength_of_connection_abs', 'classical_strength_of_connection_min', 'symmetric_strength_of_connection', 'maximum_row_value',
               'rs_cf_splitting', 'rs_cf_splitting_pass2', 'cljp_naive_splitting', 'rs_direct_interpolation_pass1', 'rs_direct_interpolation_pass2',
               'rs_classical_interpolation_pass1', 'rs_classical_interpolation_pass2', 'remove_strong_FF_connections', 'one_point_interpolation',
               'standard_aggregation', 'naive_aggregation', 'pairwise_aggregation', 'truncate_rows_csr', 'maximal_independent_set_serial',
               'maximal_independent_set_parallel', 'maximal_independent_set_k_parallel', 'vertex_coloring_mis', 'vertex_coloring_jones_plassmann',
               'vertex_coloring_LDF', 'connected_components', 'breadth_first_search', 'bellman_ford', 'csc_scale_columns', 'csc_scale_rows',
               'filter_matrix_rows', 'apply_distance_filter', 'apply_absolute_distance_filter', 'min_blocks', 'pinv_array', 'apply_givens',
               'apply_householders', 'householder_hornerscheme', 'cr_helper', 'incomplete_mat_mult_bsr', 'incomplete_mat_mult_csr',
               'extract_subblocks', 'overlapping_schwarz_csr', 'satisfy_constraints_helper', 'calc_BtB', 'approx_ideal_restriction_pass1', 'approx_ideal_restriction_pass2',
               'block_approx_ideal_restriction_pass2'}
    for k in inventory:
        ctx.feat(('generator:raw+public:' if k in raw_gen else 'generator:public-api-only:') + k)
    for k, v in sigs.items():
        ctx.feat('instantiation:' + k, v)
    return calls


def run(ctx):
    part_model(ctx, ctx.scale(40, 400))
    san_part(ctx, ctx.scale(2600, 160000), ctx.scale(30, 700))


def search(ctx):
    # the proof or the correspondence broke: spend more on the instrumented search (different group numbers via the seed offset)
    ctx.seed += 1000
    try:
        san_part(ctx, ctx.scale(2500, 20000), ctx.scale(45, 400))
    finally:
        ctx.seed -= 1000


def replay(ctx, data):
    import corebuild
    case = data['case']
    print('replaying kernel call', case.get('kernel'), 'context', case.get('context'))
    if 'kernel' not in case:
        print('  (correspondence case) request line:', case.get('line'))
        return
    build = corebuild.build(asan=True)
    tmp = Path(tempfile.mkdtemp(prefix='c17r_'))
    r = replay_case(case, build, asan_env(), tmp)
    if r is None:
        print('  the call now runs clean under ASan/UBSan, defines its outputs and frees its memory')
    else:
        what, c = r
        ctx.violation(what, c, fkey=classify(c['kernel'], c, '', ''))
        print('  ', what)


if __name__ == '__main__':
    sys.exit(child_main(sys.argv[1:]))
