"""C03 -- a cycle is the textbook multigrid recursion: fixed, linear and consistent.

correspondence : real hierarchies (every constructor, AIR with R != P^T, hand-built non-Galerkin ones, per-level
                 smoother lists, the four direct coarse solvers, real and complex -- complex data are sent as the
                 equivalent real 2n x 2n system) are taken apart into levels[i].A/P/R, the probed smoother maps
                 (Q from unit right-hand sides, E from unit iterates, checked for E = I - Q A and affinity) and the
                 probed coarse-solver matrix S.  The Lean model (Model/C03Cyc.lean: cycT/cycM = __solve, solveM = the
                 solve loop, precM = aspreconditioner, mopM = the textbook operator M as a matrix, traceM = textbook
                 order of visits) is run on these exact rationals and compared (1e-9 relative to the largest
                 intermediate quantity) with solve(b, x0, maxiter=1|k, cycle, cycles_per_level),
                 aspreconditioner(cycle) @ v, x0 + M (b - A x0) on further vectors, and the recorded order of
                 smoother / coarse-solver calls (exact).
                 Extension E17 (Model/ExtSolvePath.lean): on the first configuration of every such hierarchy the composed
                 models are run as well -- ext_e17_solve = C01's statement-by-statement loop solvePy on cycM with the exact
                 residual test (x0 given/omitted, list with stale content, callback, return_info, a tolerance placed strictly
                 between two observed residual norms or 0) against the real solve with the same options (vectors judged here,
                 the bookkeeping by C01), and ext_e17_precond = C08's plan followed by aspreconditioner-through-solvePy against
                 the operator a recording accelerator of either calling convention receives (cycle string in either case).
                 Gauss-Seidel / SOR / Jacobi closures on real CSR levels are in addition compared (1e-10) with the Q that
                 the Lean kernel models of C09 (pygs / pyjac, proved linear iterations) produce column by column.
                 Extension E38 (Model/ExtC03XCyc.lean, theorems Proofs/ExtC03XThm.lean): the EXTENDED cycle model cycX / solveX /
                 precX takes every smoother as a recorded relaxation call -- requested method and options plus the numerical
                 by-products of its setup (the CSR / CSC / BSR copy of the level matrix the closure works on, omega and
                 polynomial coefficients after the spectral-radius scaling, exact rational inverses of the stored diagonal blocks,
                 Schwarz subdomains with the recorded subdomain inverses) -- and executes the validated kernel models of
                 polynomial (Richardson, Chebyshev), block_jacobi, block_gauss_seidel, jacobi_ne, gauss_seidel_ne,
                 gauss_seidel_nr, cf_jacobi / fc_jacobi, schwarz, gauss_seidel / sor, jacobi inside the V / W / F recursion
                 (c03x_run: one cycle, solve(maxiter=k), aspreconditioner @ b against the real solve, same tolerance; the driver
                 evaluates the theorems' hypothesis AllOK and, on small instances, checks that the cycle equals cycM run with the
                 matrices Q of the recorded calls), and c03x_q gives the Q of a recorded call column by column for the
                 requested-smoother check of every family (also on the systematic option grid).  Exact arithmetic on kernels
                 that divide is expensive: requests are taken cheapest-first (every family first) within a budget per tier.
                 Extension E55 (Model/ExtC03YCyc.lean, theorems Proofs/ExtC03YThm.lean over an arbitrary field): the same model
                 with the scalar type as a parameter (cycY / solveY / precY, driver ops c03y_run / c03y_q with a scalar tag) runs
                 COMPLEX hierarchies -- Hermitian (smoothed aggregation, root node, hand-built) and nonsymmetric (complex
                 advection-diffusion) -- over the Gaussian rationals with every level matrix, P, R, the coarse solver and every
                 recorded relaxation call as complex data (the conjugation of the _ne / _nr kernels included) instead of the
                 realified system with probed smoother matrices, and takes the POINT SMOOTHERS OF BSR LEVELS (gauss_seidel / sor /
                 jacobi: kernels bsr_gauss_seidel / bsr_jacobi = the point kernels on the point rows of the BSR arrays) and
                 CF / FC BLOCK JACOBI on BSR levels (block CF splitting supplied by the check; kernel block_jacobi_indexed) as
                 recorded calls.  Half of the elasticity matrices are transformed by a block-diagonal congruence so that the
                 diagonal blocks are full (otherwise the order of the rows inside a block row is not observable).
search         : an independent NumPy recursion from the same pieces; exact solution is a fixed point; k one-cycle
                 calls == one k-cycle call (bitwise in practice); aspreconditioner is additive/homogeneous, equals the
                 cycle from a zero guess and follows the requested cycle type across a history of requests (V, W, F in
                 random order on ONE object, directly and through solve(accel=...), older operators re-applied after
                 newer ones were created); identical calls give identical results, b and x0 are not modified; the
                 smoother installed on level i is the requested method with the requested options (systematic option
                 grid of every linear family, both sides, per-level lists of all length combinations, CSR / AIR / BSR
                 base hierarchies, via the constructors and via change_smoothers); order and number of coarse solves.
storage types  : every configuration is also run with b and x0 stored in other types than the matrix (float32 / float16 /
                 integer / bool right-hand side with a float64 or complex128 initial guess, real b with complex x0 and complex b
                 with real x0 on complex hierarchies, narrow x0 with wide b, x0 as a Python list; complex data on hierarchies of
                 real matrices may be refused with a TypeError, otherwise the part-by-part result is required): one cycle ==
                 x0 + M (b - A x0) on the VALUES in the common upcast type (NumPy recursion, 1e-9), the same values stored in the
                 common type give the same result (1e-13 of the result: separates a single-precision rounding of an input from
                 double rounding), k calls with the wide iterate fed back == one k-cycle call, x0 omitted, aspreconditioner @ v,
                 the exact solution of the narrow right-hand side is a fixed point, b and x0 keep their content and type.
coarse solve   : the coarse-solver matrix of the reference recursion (and of the Lean requests) is the dense inverse -- the
                 pseudo-inverse for pinv on an exactly singular matrix -- recomputed from the STORED levels[-1].A, not the matrix
                 probed from the solver under test; the probed matrix is compared with it (tolerance 1e3 eps cond, at least 1e-10;
                 condition > 1e4: compared only, the probed matrix stays in the reference).  Systematic grid in every run: every
                 direct solver name (plain and (name, {}) form) x coarsest matrix real nonsymmetric | complex Hermitian | complex
                 nonsymmetric (| real symmetric) x coarsest matrix stored as CSR | BSR x 1 | 2 | 3 levels (RS / AIR / aggregation /
                 hand-built hierarchies), each with cycles, k calls, fixed point, storage types and the aspreconditioner history.
histories      : every grid specification and a third of the random ones is also run after
                 MultilevelSolver.change_solve_matrix(Anew) (Anew = S A S, same format / block size): the whole pipeline
                 above (finest-level smoothers consistent with Anew, requested method with its default options set up for
                 Anew, fixed point, operator vs the NumPy recursion and the Lean model) is applied to the changed hierarchy.
"""
import hashlib
import json
import sys

import numpy as np
import scipy.sparse as sp

import gen
from common import enc_rats, enc_rat, enc_ints, dec_list, dec_rat, enc_crats, enc_crat, dec_crat

META = {
    'rule': 'cases = (hierarchy, cycle, cycles_per_level) with hierarchy = matrix family (1-D/2-D Poisson, anisotropic '
            'diffusion, weighted graph Laplacian, random SPD, singular Neumann, upwind advection-diffusion 1-D/2-D, '
            'linear elasticity BSR (plain / with coupled diagonal blocks; with a CF splitting of the block rows for CF / FC block '
            'Jacobi; complex Hermitian with complex blocks), complex Hermitian, complex nonsymmetric advection-diffusion) x constructor (ruge_stuben, smoothed_aggregation, rootnode, '
            'pairwise, adaptive_sa, air, hand-built MultilevelSolver with random P, R = P^H or independent R, Galerkin or not) x '
            'max_levels/max_coarse x pre/post smoother (all linear families, options, per-level lists, via constructor or '
            'change_smoothers) x coarse solver (pinv, lu, cholesky, splu; each also on a grid coarsest matrix real nonsymmetric / '
            'complex Hermitian / complex nonsymmetric x stored as CSR / BSR x 1, 2, 3 levels) x history (as built | after change_solve_matrix(S A S)); '
            'cycle in V, W, F with cycles_per_level 1..3; b and x0 in the matrix type and in mixed storage types (narrower / '
            'integer / bool / real-vs-complex / Python list; values compared in the common upcast type); '
            'non-trivial = at least 2 levels for V, at least 3 levels for W and F (otherwise the cycle types coincide); '
            'distinct = distinct (hierarchy specification, cycle, cycles_per_level)',
    'search_only': ['hierarchies too large for the exact rational model (real dimension > 34 quick / 44 thorough) and hierarchies '
                    'with a coarse-level smoother that is affine but not of the form x + Q (b - A x) (zero rows / singular diagonal '
                    'blocks of a coarse matrix) are compared with the NumPy recursion only',
                    'the requested-smoother check (closure installed on level i == the requested relaxation call with the '
                    'requested options; systematic option grid of every linear smoother family) has a Lean counterpart (c03x_q: the '
                    'kernel model of the recorded call applied to the unit right-hand sides; pygs / pyjac for Gauss-Seidel / SOR / '
                    'Jacobi; c03y_q for complex levels, the point smoothers of BSR levels and CF / FC block Jacobi on BSR levels) for '
                    'every linear family on real and complex levels within the exact-arithmetic budget of the tier; levels with a '
                    'singular diagonal block or a row without exactly one non-zero stored diagonal entry, cf_jacobi / fc_jacobi on a '
                    'BSR level (kernel bsr_jacobi_indexed), cf/fc_block_jacobi with non-default f/c iterations on real CSR levels '
                    '(the path of the repaired defect bf8780c) and requests beyond the budget are judged by the direct relaxation '
                    'call only',
                    'solve(accel=...) hands aspreconditioner(cycle) to the Krylov method: for callables of both conventions the '
                    'composed model (C08 plan + C01 loop + this cycle model; theorem accelerated_solve_preconditioner_is_M) is '
                    'compared with what a recording accel receives; named accelerators are observed by C08',
                    'repeatability of identical calls and the in-place integrity of b and x0',
                    'mixed storage types of b and x0 (the Lean model works on values; that solve() converts b and x0 to the common '
                    'type without changing their values is observed against the NumPy recursion and against the same values '
                    'stored in the common type)'],
    'partial': ['generated_cycle_visits_grid_5x3x3 / generated_cycle_trace_grid_5x3x3 / generated_cycle_spec_visits_grid_5x3x3 (E57): the order of the smoother / coarse-solver calls (= C03.traceM, the order of the hand-written model) and the whole event trace (= the hand-written textbook data flow ExtPy3Cyc.specCyc) of the __solve GENERATED from the working tree are proved on a FINITE grid only (2..6 levels x cycle V / W / F x cycles_per_level 1..3, by kernel evaluation on the mock hierarchy hierWorld L); there is no theorem for all depths (no induction on the number of levels, not even for the V-cycle), none for the AMLI branch, and the mock world has no scripted results; deeper hierarchies, AMLI, raising callees and explicit level lists are covered by the exact comparison of the generated definition with the real method only (part_pylogic3)'],
    'trusted_extra': ["harness/py2lean3_cycle.py (E57: py2lean2's translation + the recursion self.__solve(...) as a call of the generated definition itself with an explicit fuel, under the ASSUMPTION that the attribute self.__solve is this very method; tuple subscripts x[k, :]; augmented assignment to an item), lean/PyamgV/Model/ExtPy3CycRt.lean (getItemT) on top of harness/py2lean2.py + lean/PyamgV/Model/ExtPy2Rt.lean / ExtPyRt.lean, and harness/extpy3_cycle.py + harness/extpy2.py (the mock objects; the mock self answers __solve with the REAL method bound to it): exercised on every run by the exact comparison (result, exception class, whole trace) of the generated multilevel_cycle with the REAL MultilevelSolver.__solve on mock hierarchies (op ext_py3c_call)"],
    'assumptions': ['the smoother closures and the coarse solver are probed on unit vectors and checked per instance to be affine '
                    'maps x + Q (b - A x) resp. linear maps (1e-8); their internals are C09 / outside this property',
                    'the coarse solve of the reference is inv(levels[-1].A) recomputed densely (pinv for the pinv solver on an exactly '
                    'singular matrix with an unambiguous numerical rank; cholesky only on Hermitian positive definite matrices); the '
                    'probed coarse-solver matrix must agree with it to max(1e-10, 1e3 eps cond) |A_c^-1|; for condition numbers in '
                    '(1e4, 1e8) the probed matrix (so verified) is used in the recursion, singular matrices with a non-pinv solver '
                    'and ambiguous ranks have no dense oracle (counted)',
                    'complex hierarchies are sent to the rational model of the probed pieces (c03_run) as the equivalent real system '
                    '[[Re,-Im],[Im,Re]] (a complex-linear map is a real-linear map; complex linearity of the probed maps is checked on '
                    'random complex vectors) and, extension E55, as complex data to the scalar-polymorphic extended model (c03y_run: '
                    'Gaussian rationals, recorded relaxation calls with the conjugation of the _ne / _nr kernels)',
                    'floating-point rounding is outside the model: comparison tolerance 1e-9 relative to the largest '
                    'intermediate quantity of the cycle; instances whose reference operator amplifies a vector by more than 1e4, '
                    'whose probed pieces exceed 1e6 or whose coarse matrix has condition > 1e8 are skipped and counted',
                    'the residual test of solve is switched off (tol = 0) for the k-cycle calls, matching the hypothesis of '
                    'k_one_cycle_calls_eq_one_k_cycle_call; the E17 runs with a live test place tol*||b|| at least 20 % away from '
                    'every residual norm it is compared with (and above 1e-6 of the scale), so rounding cannot flip the decision',
                    'one-level hierarchies have the form x + M (b - A x) only for nonsingular A (theorem one_level_cycle); the '
                    'singular one-level case is the known finding one-level-singular-x0-ignored',
                    'extension E38: the hypothesis Sm.OK / AllOK of the extended-model theorems (the recorded matrix copy is the level '
                    'matrix entry by entry, indices in range, one non-zero stored diagonal entry per row where the kernel divides by '
                    'it, Dinv_i A_ii = I) is decided by the driver on every request; block inverses are sent as the exact rational '
                    'inverses of the stored diagonal blocks (the LAPACK inverses the code uses agree with them to 1e-12, checked; otherwise the probed matrix is used), '
                    'Schwarz subdomain inverses, scaled omegas and polynomial coefficients are sent as recorded (floats = dyadic '
                    'rationals); rho estimates (A.rho, A.rho_D_inv, A.rho_block_D_inv) are read from the level matrices',
                    'extension E55: the same for the scalar-polymorphic model (theorems over an arbitrary field, applied over the '
                    'rationals and the Gaussian rationals): Sm.OK / AllOK is decided by the driver on every request -- for the point '
                    'smoothers of a BSR level it asks that the BSR arrays are the level matrix (theorem: their point rows then are, '
                    'too) and that every point row the kernel traverses stores one non-zero diagonal entry; for CF / FC block Jacobi that '
                    'Dinv_i A_ii = I and the C / F block rows exist; block inverses are sent as exact (Gaussian-)rational inverses '
                    '(agreement with the LAPACK inverses to 1e-12 checked, otherwise the probed matrix is used)'],
}

TOL = 1e-9
sys.set_int_max_str_digits(0)      # exact rationals of deep W-cycles have thousands of digits
CONFIGS = [('V', 1), ('W', 1), ('F', 1), ('F', 2), ('F', 3)]


def _key(*a):
    return hashlib.sha1(repr(a).encode()).hexdigest()


# ------------------------------------------------------------------------------------------------
# matrices
# ------------------------------------------------------------------------------------------------

SYM_FAMS = ['poisson1d', 'poisson2d', 'laplacian', 'randspd', 'aniso2d']
NONSYM_FAMS = ['advdiff1d', 'advdiff2d']
OTHER_FAMS = ['elasticity', 'celasticity', 'complex', 'cadvdiff', 'neumann1d']


def matrix(fam, n, mseed):
    """-> (A with int32 indices, info dict)"""
    import pyamg
    rng = np.random.default_rng(mseed)
    info = {'sym': True, 'spd': True, 'B': None, 'singular': False, 'complex': False}
    if fam == 'poisson1d':
        A = pyamg.gallery.poisson((n,), format='csr')
    elif fam == 'poisson2d':
        a = max(2, int(round(n ** 0.5)))
        b = max(2, n // a)
        A = pyamg.gallery.poisson((a, b), format='csr')
    elif fam == 'laplacian':
        A = gen.spd_matrix(rng, n, 'laplacian')
    elif fam == 'randspd':
        A = gen.spd_matrix(rng, n, 'random')
    elif fam == 'aniso2d':
        a = max(2, int(round(n ** 0.5)))
        b = max(2, n // a)
        st = pyamg.gallery.diffusion_stencil_2d(epsilon=float(rng.choice([0.01, 0.1, 0.5])),
                                                theta=float(rng.choice([0.0, np.pi / 6, np.pi / 4])), type='FD')
        A = pyamg.gallery.stencil_grid(st, (a, b), format='csr')
    elif fam == 'neumann1d':
        d = 2.0 * np.ones(n)
        d[0] = d[-1] = 1.0
        A = sp.diags_array([-np.ones(n - 1), d, -np.ones(n - 1)], offsets=[-1, 0, 1], format='csr')
        info.update(spd=False, singular=True)
    elif fam == 'advdiff1d':
        c = float(rng.choice([0.5, 1.0, 3.0]))
        A = sp.diags_array([(-1.0 - c) * np.ones(n - 1), (2.0 + c) * np.ones(n), -1.0 * np.ones(n - 1)],
                           offsets=[-1, 0, 1], format='csr')
        info.update(sym=False, spd=False)
    elif fam == 'advdiff2d':
        a = max(2, int(round(n ** 0.5)))
        b = max(2, n // a)
        c = float(rng.choice([0.5, 2.0]))
        T = lambda m, cc: sp.diags_array([(-1.0 - cc) * np.ones(m - 1), (2.0 + cc) * np.ones(m), -1.0 * np.ones(m - 1)],
                                         offsets=[-1, 0, 1], format='csr')
        A = sp.kron(sp.eye_array(b), T(a, c)) + sp.kron(T(b, 0.0), sp.eye_array(a))
        info.update(sym=False, spd=False)
    elif fam in ('elasticity', 'celasticity'):
        a = max(2, int(round((n / 2) ** 0.5)))
        b = max(2, (n // 2) // a)
        A, B = pyamg.gallery.linear_elasticity((a, b), format='bsr')
        if mseed % 2 == 1:
            # the diagonal blocks of the Q1 elasticity matrix on a uniform grid are diagonal matrices, so the order in which a
            # point kernel visits the rows INSIDE a block row would not be observable: congruence with the block-diagonal
            # T = diag([[1, 1/2], [0, 1]]) (A -> T^T A T, near-nullspace B -> T^-1 B) couples the two unknowns of every node
            T = sp.kron(sp.eye_array(A.shape[0] // 2), np.array([[1.0, 0.5], [0.0, 1.0]])).tocsr()
            Ti = sp.kron(sp.eye_array(A.shape[0] // 2), np.array([[1.0, -0.5], [0.0, 1.0]])).tocsr()
            A = sp.csr_array(T.T @ sp.csr_array(A) @ T).tobsr(blocksize=(2, 2))
            B = Ti @ B
        if fam == 'celasticity':
            # complex Hermitian positive definite BSR matrix with complex diagonal blocks: unitary diagonal congruence D^H A D with
            # phases in {1, i, -1, -i} (exact in floating point), near-nullspace D^H B
            ph = rng.choice(np.array([1, 1j, -1, -1j]), size=A.shape[0])
            D = sp.diags_array(ph).tocsr()
            A = sp.csr_array(D.conj() @ sp.csr_array(A) @ D).tobsr(blocksize=(2, 2))
            B = D.conj() @ B.astype(complex)
            info['complex'] = True
        info['B'] = B
        A.indptr = A.indptr.astype(np.int32)
        A.indices = A.indices.astype(np.int32)
        return A, info
    elif fam == 'complex':
        A = gen.spd_matrix(rng, n, str(rng.choice(['poisson1d', 'laplacian'])), complex_=True)
        info['complex'] = True
    elif fam == 'cadvdiff':
        # complex NONSYMMETRIC (neither Hermitian nor symmetric): upwind advection-diffusion with a complex shift and a complex
        # upper diagonal; all entries dyadic, strictly diagonally dominant by rows
        c = float(rng.choice([0.5, 1.0, 3.0]))
        A = sp.diags_array([(-1.0 - c) * np.ones(n - 1, dtype=complex), (2.5 + c + 0.5j) * np.ones(n, dtype=complex),
                            (-1.0 + 0.25j) * np.ones(n - 1, dtype=complex)], offsets=[-1, 0, 1], format='csr')
        info.update(sym=False, spd=False, complex=True)
    else:
        raise KeyError(fam)
    return gen.int32csr(sp.csr_array(A)), info


# ------------------------------------------------------------------------------------------------
# smoother specifications (linear families only; Krylov smoothers are excluded by the property)
# ------------------------------------------------------------------------------------------------

def draw_smoother(rng, caps):
    pool = ['gauss_seidel', 'gauss_seidel', 'sor', 'jacobi', 'richardson', 'chebyshev', 'gauss_seidel_ne',
            'gauss_seidel_nr', 'jacobi_ne', 'block_gauss_seidel', 'block_jacobi', None]
    if 'split' in caps:
        pool += ['cf_jacobi', 'fc_jacobi', 'cf_block_jacobi', 'fc_block_jacobi']
    if 'schwarz' in caps:
        pool += ['schwarz', 'strength_based_schwarz']
    name = pool[int(rng.integers(len(pool)))]
    if name is None:
        return None
    it = int(rng.choice([1, 1, 2, 3]))
    sweep = str(rng.choice(['forward', 'backward', 'symmetric']))
    om = float(rng.choice([1.0, 0.5, 2.0 / 3.0, 1.25]))
    kw = {}
    if name in ('gauss_seidel', 'block_gauss_seidel', 'schwarz', 'strength_based_schwarz'):
        kw = {'sweep': sweep, 'iterations': it}
    elif name == 'sor':
        kw = {'omega': om, 'sweep': sweep, 'iterations': it}
    elif name in ('jacobi', 'block_jacobi', 'jacobi_ne'):
        kw = {'omega': om, 'iterations': it, 'withrho': bool(rng.integers(2))}
    elif name == 'richardson':
        kw = {'omega': om, 'iterations': it}
    elif name == 'chebyshev':
        kw = {'degree': int(rng.integers(1, 5)), 'iterations': it}
    elif name in ('gauss_seidel_ne', 'gauss_seidel_nr'):
        kw = {'sweep': sweep, 'iterations': it, 'omega': om}
    elif name in ('cf_jacobi', 'fc_jacobi', 'cf_block_jacobi', 'fc_block_jacobi'):
        kw = {'omega': om, 'iterations': it, 'f_iterations': int(rng.integers(1, 3)), 'c_iterations': int(rng.integers(1, 3)),
              'withrho': bool(rng.integers(2))}
    drop = [k for k in list(kw) if rng.random() < 0.25]          # leave some options at their defaults
    for k in drop:
        del kw[k]
    if not kw and rng.random() < 0.5:
        return name
    return [name, kw]


def draw_smoothers(rng, caps):
    """pre / post specification: one entry for all levels or per-level lists (possibly of different lengths)"""
    def one():
        return draw_smoother(rng, caps)
    mode = int(rng.integers(4))
    if mode == 0:
        s = one()
        return s, s
    if mode == 1:
        return one(), one()
    pre = {'levels': [one() for _ in range(int(rng.integers(1, 4)))]}
    post = {'levels': [one() for _ in range(int(rng.integers(1, 4)))]} if mode == 3 else one()
    return pre, post


def _to_arg(s):
    """JSON form -> what pyamg expects (name | (name, kwargs) | None | list of these)"""
    if isinstance(s, dict) and 'levels' in s:
        return [_to_arg(v) for v in s['levels']]
    if isinstance(s, (list, tuple)):
        return (s[0], dict(s[1]))
    return s


def spec_for_level(s, i):
    """the (name, kwargs) requested for level i (documented rule: the last entry is used for the remaining levels)"""
    if isinstance(s, dict) and 'levels' in s:
        lst = s['levels']
        s = lst[min(i, len(lst) - 1)]
    if s is None:
        return None, {}
    if isinstance(s, (list, tuple)):
        return s[0], dict(s[1])
    return s, {}


# ------------------------------------------------------------------------------------------------
# hierarchy specifications and construction
# ------------------------------------------------------------------------------------------------

def gen_spec(rng, t, big=False):
    r = rng.random()
    if r < 0.45:
        fam = str(rng.choice(SYM_FAMS))
    elif r < 0.65:
        fam = str(rng.choice(NONSYM_FAMS))
    elif r < 0.75:
        fam = 'elasticity'
    elif r < 0.85:
        fam = 'complex' if r < 0.815 else 'cadvdiff'      # complex Hermitian | complex nonsymmetric (extension E55)
    else:
        fam = 'neumann1d'
    n = int(rng.integers(60, 130)) if big else int(rng.choice([6, 9, 12, 15, 16, 20, 24, 27, 31, 32]))
    if fam == 'elasticity':
        n = max(n, 16)
    if fam in SYM_FAMS or fam == 'neumann1d':
        ctor = str(rng.choice(['rs', 'sa', 'rootnode', 'pairwise', 'manual', 'air', 'adaptive'] if fam in SYM_FAMS else
                              ['rs', 'sa', 'rootnode', 'pairwise', 'manual', 'air']))
    elif fam in NONSYM_FAMS:
        ctor = str(rng.choice(['air', 'air', 'rs', 'sa', 'rootnode', 'manual']))
    elif fam == 'elasticity':
        ctor = str(rng.choice(['sa', 'rootnode']))
    else:
        ctor = str(rng.choice(['sa', 'rootnode', 'manual']))
    spec = {'fam': fam, 'n': n, 'mseed': int(rng.integers(1 << 30)), 'npseed': int(rng.integers(1 << 30)), 'ctor': ctor,
            'max_levels': int(rng.choice([1, 2, 3, 4, 6, 10], p=[0.04, 0.1, 0.16, 0.25, 0.25, 0.2])),
            'max_coarse': int(rng.choice([1, 2, 3, 5])),
            'via': str(rng.choice(['ctor', 'change'])), 't': t}
    caps = set()
    if ctor in ('rs', 'air', 'manual'):
        caps.add('split')
    if fam in SYM_FAMS and ctor != 'air':
        caps.add('schwarz')
    spec['pre'], spec['post'] = draw_smoothers(rng, caps)
    if fam == 'neumann1d':
        cs = 'pinv'
    elif fam in SYM_FAMS and ctor in ('rs', 'sa', 'rootnode', 'pairwise'):
        cs = str(rng.choice(['pinv', 'lu', 'cholesky', 'splu']))
    else:
        cs = str(rng.choice(['pinv', 'lu', 'splu']))
    spec['coarse'] = cs if rng.random() < 0.8 else [cs, {}]
    if ctor == 'manual':
        spec['manual'] = {'galerkin': bool(rng.random() < 0.6), 'own_R': bool(rng.random() < 0.5),
                          'depth': int(rng.choice([1, 2, 3, 4, 5, 6]))}
    if ctor == 'rs':
        spec['opts'] = {'CF': str(rng.choice(['RS', 'PMIS', 'CLJP'])),
                        'interpolation': str(rng.choice(['classical', 'direct']))}
    elif ctor == 'air':
        spec['opts'] = {'restrict': ['air', {'theta': 0.05, 'degree': int(rng.choice([1, 2]))}],
                        'interpolation': str(rng.choice(['one_point', 'classical']))}
    elif ctor in ('sa', 'rootnode'):
        spec['opts'] = {'aggregate': str(rng.choice(['standard', 'naive']))}
        if ctor == 'sa':
            spec['opts']['smooth'] = [None, 'jacobi', 'richardson', 'energy'][int(rng.integers(4))]
    else:
        spec['opts'] = {}
    return spec


def _manual_levels(A, info, spec):
    """hand-built hierarchy: random sparse dyadic P (every coarse column used), R = P^H (attribute left unset) or an
    independent R, coarse matrices Galerkin or unrelated diagonally dominant ones"""
    from pyamg.multilevel import MultilevelSolver
    rng = np.random.default_rng(spec['mseed'] + 7)
    m = spec['manual']
    cplx = info['complex']
    levels = []
    cur = sp.csr_array(A)
    depth = m['depth']
    for d in range(depth):
        lv = MultilevelSolver.Level()
        lv.A = gen.int32csr(cur)
        n = cur.shape[0]
        lv.splitting = rng.random(n) < 0.5
        levels.append(lv)
        if d == depth - 1 or n <= 1:
            break
        nc = max(1, int(np.ceil(n / float(rng.choice([2, 3])))))
        if nc >= n:
            nc = n - 1
        P = np.zeros((n, nc), dtype=complex if cplx else float)
        for i in range(n):
            j = min(nc - 1, i * nc // n)
            P[i, j] = float(rng.choice([1.0, 0.5, 0.75]))
            if rng.random() < 0.4:
                P[i, int(rng.integers(nc))] += float(rng.choice([0.25, -0.25, 0.5]))
        if cplx:
            P = P * np.exp(1j * np.pi / 4 * rng.integers(0, 8, size=(1, nc)))
        lv.P = gen.int32csr(sp.csr_array(P))
        if m['own_R']:
            Rm = P.conj().T.copy()
            Rm = Rm * rng.choice([1.0, 0.5, 1.5], size=Rm.shape) + (rng.random(Rm.shape) < 0.1) * 0.25
            lv.R = gen.int32csr(sp.csr_array(Rm))
            Rd = Rm
        else:
            Rd = P.conj().T
        if m['galerkin']:
            Ac = Rd @ cur.toarray() @ P
        else:
            Ac = (rng.random((nc, nc)) < 0.5) * rng.integers(-2, 3, size=(nc, nc)).astype(float)
            Ac = Ac + Ac.T if not m['own_R'] else Ac
            Ac[np.arange(nc), np.arange(nc)] = np.abs(Ac).sum(1) + rng.integers(1, 4, size=nc)
            if cplx:
                Ac = Ac.astype(complex)
        cur = sp.csr_array(Ac)
    return levels


def changed_matrix(A, seed):
    """a different matrix of the same format, block size and pattern: S A S with a random positive diagonal S (keeps symmetry
    and definiteness, changes every diagonal block)"""
    rng = np.random.default_rng(seed)
    n = A.shape[0]
    S = sp.diags_array(rng.choice([1.0, 1.25, 1.5, 2.0, 0.75], size=n))
    B = sp.csr_array(S @ sp.csr_array(A) @ S)
    if A.format == 'bsr':
        B = B.tobsr(blocksize=A.blocksize)
        B.indptr = B.indptr.astype(np.int32)
        B.indices = B.indices.astype(np.int32)
        return B
    return gen.int32csr(B)


# smoothers whose setup keeps a converted copy of the level matrix on the level (matrix_asformat: lvl.Acsr / lvl.Acsc)
FORMAT_CACHING = ('gauss_seidel_ne', 'gauss_seidel_nr', 'jacobi_ne', 'schwarz', 'strength_based_schwarz')


def requested(spec, side, i):
    """(name, options) the hierarchy is supposed to use on level i: as requested; after change_solve_matrix the finest
    level is rebuilt by rebuild_smoother = the same method with its default options, set up for the new matrix"""
    name, kw = spec_for_level(spec[side], i)
    if spec.get('changed') is not None and i == 0:
        return name, {}
    return name, kw


def build(spec):
    """construct the hierarchy described by `spec` (deterministic: np.random is seeded from the spec)"""
    import pyamg
    from pyamg.multilevel import MultilevelSolver
    from pyamg.relaxation.smoothing import change_smoothers
    A, info = matrix(spec['fam'], spec['n'], spec['mseed'])
    if spec.get('tobsr'):          # coarse-solver grid: the same matrix handed over in BSR storage
        A = _as_bsr(A, spec['tobsr'])
    np.random.seed(spec['npseed'])
    pre, post = _to_arg(spec['pre']), _to_arg(spec['post'])
    cs = spec['coarse'] if isinstance(spec['coarse'], str) else (spec['coarse'][0], dict(spec['coarse'][1]))
    ctor = spec['ctor']
    kw = {'max_levels': spec['max_levels'], 'max_coarse': spec['max_coarse'], 'coarse_solver': cs}
    if spec['via'] == 'ctor' and ctor not in ('manual', 'adaptive'):
        kw['presmoother'], kw['postsmoother'] = pre, post
    o = spec.get('opts', {})
    if ctor == 'rs':
        ml = pyamg.ruge_stuben_solver(A, CF=o['CF'], interpolation=o['interpolation'], **kw)
    elif ctor == 'air':
        ml = pyamg.air_solver(A, restrict=(o['restrict'][0], dict(o['restrict'][1])), interpolation=o['interpolation'], **kw)
    elif ctor == 'sa':
        sym = 'hermitian' if info['sym'] else 'nonsymmetric'
        ml = pyamg.smoothed_aggregation_solver(A, B=info['B'], symmetry=sym, aggregate=o['aggregate'], smooth=o['smooth'], **kw)
    elif ctor == 'rootnode':
        sym = 'hermitian' if info['sym'] else 'nonsymmetric'
        ml = pyamg.rootnode_solver(A, B=info['B'], symmetry=sym, aggregate=o['aggregate'], **kw)
    elif ctor == 'pairwise':
        ml = pyamg.pairwise_solver(A, **kw)
    elif ctor == 'manual':
        lvs_ = _manual_levels(A, info, spec)
        if spec['manual'].get('coarse_fmt') == 'bsr':          # coarse-solver grid: the coarsest matrix stored as BSR
            lvs_[-1].A = _as_bsr(lvs_[-1].A, 2)
        ml = MultilevelSolver(lvs_, coarse_solver=cs)
    elif ctor == 'adaptive':
        from pyamg.aggregation import adaptive_sa_solver
        ml, _work = adaptive_sa_solver(A, num_candidates=1 + spec['mseed'] % 2, candidate_iters=3, max_levels=max(2, spec['max_levels']),
                                       max_coarse=spec['max_coarse'], coarse_solver=cs)
    else:
        raise KeyError(ctor)
    if spec.get('block_split') is not None:
        # extension E55: a CF splitting of the BLOCK rows of every level (cf_block_jacobi / fc_block_jacobi on BSR levels need
        # one; the aggregation constructors do not produce it), both classes non-empty where possible
        srng = np.random.default_rng(spec['block_split'])
        for lv in ml.levels:
            if hasattr(lv, 'splitting'):
                continue
            bsz = lv.A.blocksize[0] if lv.A.format == 'bsr' else 1
            nbl = lv.A.shape[0] // bsz
            spl = srng.random(nbl) < 0.5
            if nbl >= 2:
                spl[int(srng.integers(nbl))] = True
                spl[(int(np.argmax(spl)) + 1) % nbl] = False
            lv.splitting = spl
    if spec['via'] == 'change' or ctor in ('manual', 'adaptive'):
        change_smoothers(ml, pre, post)
    if spec.get('changed') is not None and len(ml.levels) > 1:
        # history: the solve matrix is replaced after the setup; the hierarchy must then cycle for levels[0].A = Anew
        ml.change_solve_matrix(changed_matrix(ml.levels[0].A, spec['changed']))
    return ml, info


# ------------------------------------------------------------------------------------------------
# taking a hierarchy apart
# ------------------------------------------------------------------------------------------------

class Hier:
    pass


def _probe(f, A, n, dt):
    Q = np.zeros((n, n), dtype=dt)
    E = np.zeros((n, n), dtype=dt)
    for k in range(n):
        x = np.zeros(n, dtype=dt)
        b = np.zeros(n, dtype=dt)
        b[k] = 1
        f(A, x, b)
        Q[:, k] = x
        x = np.zeros(n, dtype=dt)
        x[k] = 1
        b = np.zeros(n, dtype=dt)
        f(A, x, b)
        E[:, k] = x
    return Q, E


def _rvec(rng, n, cplx, small=True):
    v = rng.integers(-4, 5, size=n).astype(float) if small else rng.standard_normal(n)
    if cplx:
        v = v + 1j * (rng.integers(-4, 5, size=n) if small else rng.standard_normal(n))
    return v


def take_apart(ml, info, rng):
    """dense level data, probed smoother maps and coarse-solver matrix; returns (Hier, list of defects found)"""
    H = Hier()
    H.ml = ml
    H.nlev = len(ml.levels)
    H.cplx = bool(info['complex']) or any(np.iscomplexobj(l.A.data) for l in ml.levels)
    dt = complex if H.cplx else float
    H.dt = dt
    H.levels = []
    H.inconsistent_coarse = False
    H.dims = [l.A.shape[0] for l in ml.levels]
    problems = []
    for i, l in enumerate(ml.levels[:-1]):
        n = l.A.shape[0]
        Ad = l.A.toarray().astype(dt)
        L = {'A': Ad, 'P': l.P.toarray().astype(dt), 'R': l.R.toarray().astype(dt)}
        for side, f in (('pre', l.presmoother), ('post', l.postsmoother)):
            Q, E = _probe(f, l.A, n, dt)
            L['Q' + side], L['E' + side] = Q, E
            sc = 1 + np.abs(Q).max() * max(1.0, np.abs(Ad).max()) + np.abs(E).max()
            if not (np.all(np.isfinite(Q)) and np.all(np.isfinite(E))):
                problems.append((i, side, 'the smoother returns non-finite values on unit vectors'))
                continue
            d1 = np.abs(E - (np.eye(n) - Q @ Ad)).max()
            x, b = _rvec(rng, n, H.cplx), _rvec(rng, n, H.cplx)
            y = x.copy()
            f(l.A, y, b.copy())
            d2 = np.abs(y - (E @ x + Q @ b)).max()
            if d2 > 1e-8 * sc * 10:
                problems.append((i, side, f'the smoother is not an affine map of its arguments (superposition defect {d2:.3g})'))
            elif d1 > 1e-8 * sc:
                # affine but not of the form x + Q (b - A x): on the finest level the cycle is then not consistent; on a
                # coarser level (zero rows / singular diagonal blocks of a coarse matrix) only the textbook composition
                # of the affine maps is determined -- the NumPy recursion handles it, the Lean model does not apply
                if i == 0:
                    problems.append((i, side, f'the smoother is not of the form x + Q (b - A x): |E - (I - Q A)| = {d1:.3g}'))
                else:
                    H.inconsistent_coarse = True
        H.levels.append(L)
    Ac = ml.levels[-1].A
    nc = Ac.shape[0]
    H.Ac = Ac.toarray().astype(dt)
    H.S = np.column_stack([np.ravel(ml.coarse_solver(Ac, e)) for e in np.eye(nc, dtype=dt)]).astype(dt) if nc else np.zeros((0, 0))
    v = _rvec(rng, nc, H.cplx)
    sv = np.ravel(ml.coarse_solver(Ac, v.copy()))
    H.S_ok = bool(np.all(np.isfinite(H.S)) and np.abs(sv - H.S @ v).max() <= 1e-8 * (1 + np.abs(H.S).max() * 10))
    try:
        H.cond_c = float(np.linalg.cond(H.Ac)) if nc else 1.0
    except Exception:
        H.cond_c = np.inf
    return H, problems


class _Log:
    def __init__(self):
        self.ev = []


def instrument(ml, log):
    """record the order of smoother / coarse-solver calls (the wrapped callables behave identically)"""
    def wrap(f, tag):
        def g(A, x, b):
            log.ev.append(tag)
            return f(A, x, b)
        g.__name__ = getattr(f, '__name__', 'smoother')
        return g
    for i, l in enumerate(ml.levels[:-1]):
        l.presmoother = wrap(l.presmoother, f'pre{i}')
        l.postsmoother = wrap(l.postsmoother, f'post{i}')
    inner = ml.coarse_solver

    class CS:
        def __call__(self, A, b):
            log.ev.append('c')
            return inner(A, b)

        def __getattr__(self, name):
            return getattr(inner, name)
    ml.coarse_solver = CS()


# ------------------------------------------------------------------------------------------------
# independent references
# ------------------------------------------------------------------------------------------------

def py_trace(c, cpl, lvl, nlev):
    """textbook order of visits (independent Python version)"""
    if nlev == 1:
        return ['c']
    if lvl == nlev - 2:
        inner = ['c']
    elif c == 'V':
        inner = py_trace('V', 1, lvl + 1, nlev)
    elif c == 'W':
        inner = py_trace('W', 1, lvl + 1, nlev) * 2
    else:
        inner = py_trace('F', cpl, lvl + 1, nlev) + py_trace('V', 1, lvl + 1, nlev) * cpl
    return [f'pre{lvl}'] + inner + [f'post{lvl}']


def n_coarse(c, cpl, nlev):
    if nlev <= 2:
        return 1
    return {'V': 1, 'W': 2 ** (nlev - 2), 'F': 1 + cpl * (nlev - 2)}[c]


def ref_cycle(H, lvl, x, b, c, cpl, st):
    """dense textbook recursion from the hierarchy's own pieces; st[0] tracks the largest intermediate magnitude"""
    if H.nlev == 1:
        y = H.S @ b
        st[0] = max(st[0], np.abs(y).max(initial=0.0))
        return y
    L = H.levels[lvl]
    x = L['Epre'] @ x + L['Qpre'] @ b
    r = b - L['A'] @ x
    rc = L['R'] @ r
    if lvl == H.nlev - 2:
        xc = H.S @ rc
    else:
        xc = np.zeros(rc.shape[0], dtype=H.dt)
        if c == 'V':
            xc = ref_cycle(H, lvl + 1, xc, rc, 'V', 1, st)
        elif c == 'W':
            xc = ref_cycle(H, lvl + 1, xc, rc, 'W', 1, st)
            xc = ref_cycle(H, lvl + 1, xc, rc, 'W', 1, st)
        else:
            xc = ref_cycle(H, lvl + 1, xc, rc, 'F', cpl, st)
            for _ in range(cpl):
                xc = ref_cycle(H, lvl + 1, xc, rc, 'V', 1, st)
    x = x + L['P'] @ xc
    y = L['Epost'] @ x + L['Qpost'] @ b
    st[0] = max(st[0], np.abs(x).max(initial=0.0), np.abs(r).max(initial=0.0), np.abs(xc).max(initial=0.0),
                np.abs(y).max(initial=0.0))
    return y


def ref(H, x0, b, c, cpl, k=1):
    st = [max(1.0, np.abs(x0).max(initial=0.0), np.abs(b).max(initial=0.0))]
    x = np.array(x0, dtype=H.dt)
    for _ in range(k):
        x = ref_cycle(H, 0, x, np.asarray(b, dtype=H.dt), c, cpl, st)
    return x, st[0]


def expected_smoother(level, name, kw, variant=None):
    """the requested relaxation call on this level, written directly against pyamg.relaxation.relaxation
    (independent of smoothing.py's setup functions); None when there is no simple direct form"""
    from pyamg.relaxation import relaxation as R
    from pyamg.util.utils import get_block_diag
    A = level.A
    it = kw.get('iterations', 1)
    sw = kw.get('sweep', 'forward')
    if name is None:
        return lambda A_, x, b: None
    if name == 'gauss_seidel':
        return lambda A_, x, b: R.gauss_seidel(A, x, b, iterations=it, sweep=sw)
    if name == 'sor':
        om = kw.get('omega', 0.5)
        return lambda A_, x, b: R.sor(A, x, b, om, iterations=it, sweep=sw)
    if name == 'jacobi' or (name == 'block_jacobi' and A.format == 'csr'):
        om = kw.get('omega', 1.0)
        if kw.get('withrho', True):
            if not hasattr(A, 'rho_D_inv'):
                return None
            om = om / A.rho_D_inv
        return lambda A_, x, b: R.jacobi(A, x, b, iterations=it, omega=om)
    if name == 'richardson':
        if not hasattr(A, 'rho'):
            return None
        om = kw.get('omega', 1.0) / A.rho
        return lambda A_, x, b: R.polynomial(A, x, b, coefficients=[om], iterations=it)
    if name == 'block_gauss_seidel':
        bs = A.blocksize[0] if A.format == 'bsr' else 1
        if bs == 1:
            return lambda A_, x, b: R.gauss_seidel(A, x, b, iterations=it, sweep=sw)
        Dinv = get_block_diag(A, blocksize=bs, inv_flag=True)
        return lambda A_, x, b: R.block_gauss_seidel(A, x, b, iterations=it, sweep=sw, Dinv=Dinv, blocksize=bs)
    if name == 'block_jacobi' and A.format == 'bsr':
        bs = A.blocksize[0]
        om = kw.get('omega', 1.0)
        if kw.get('withrho', True):
            if not hasattr(A, 'rho_block_D_inv'):
                return None
            om = om / A.rho_block_D_inv
        Dinv = get_block_diag(A, blocksize=bs, inv_flag=True)
        return lambda A_, x, b: R.block_jacobi(A, x, b, Dinv=Dinv, blocksize=bs, iterations=it, omega=om)
    if name in ('gauss_seidel_ne', 'gauss_seidel_nr'):
        om = kw.get('omega', 1.0)
        M = A.tocsr() if name == 'gauss_seidel_ne' else A.tocsc()
        fn = R.gauss_seidel_ne if name == 'gauss_seidel_ne' else R.gauss_seidel_nr
        return lambda A_, x, b: fn(M, x, b, iterations=it, sweep=sw, omega=om)
    if name == 'jacobi_ne':
        om = kw.get('omega', 1.0)
        M = A.tocsr()
        if kw.get('withrho', True):
            Acsr = getattr(level, 'Acsr', None)
            if Acsr is None or not hasattr(Acsr, 'rho_D_inv'):
                return None
            om = om / Acsr.rho_D_inv ** 2
        return lambda A_, x, b: R.jacobi_ne(M, x, b, iterations=it, omega=om)
    if name in ('cf_jacobi', 'fc_jacobi') or (name in ('cf_block_jacobi', 'fc_block_jacobi') and A.format == 'csr'):
        if not hasattr(level, 'splitting'):
            return None
        om = kw.get('omega', 1.0)
        if kw.get('withrho', False):
            if not hasattr(A, 'rho_D_inv'):
                return None
            om = om / A.rho_D_inv
        F = np.where(np.logical_not(level.splitting))[0].astype(int)
        C = np.where(level.splitting)[0].astype(int)
        fn = R.cf_jacobi if name.startswith('cf') else R.fc_jacobi
        fi, ci = kw.get('f_iterations', 1), kw.get('c_iterations', 1)
        if variant == 'fc-iterations-dropped':
            fi = ci = 1
        return lambda A_, x, b: fn(A, x, b, Cpts=C, Fpts=F, iterations=it, f_iterations=fi, c_iterations=ci, omega=om)
    if name in ('cf_block_jacobi', 'fc_block_jacobi') and A.format == 'bsr':
        if not hasattr(level, 'splitting'):
            return None
        bs = A.blocksize[0]
        om = kw.get('omega', 1.0)
        Dinv = get_block_diag(A, blocksize=bs, inv_flag=True)
        if kw.get('withrho', False):
            if not hasattr(A, 'rho_block_D_inv'):
                return None
            om = om / A.rho_block_D_inv
        F = np.where(np.logical_not(level.splitting))[0].astype(int)
        C = np.where(level.splitting)[0].astype(int)
        fn = R.cf_block_jacobi if name.startswith('cf') else R.fc_block_jacobi
        fi, ci = kw.get('f_iterations', 1), kw.get('c_iterations', 1)
        return lambda A_, x, b: fn(A, x, b, Cpts=C, Fpts=F, Dinv=Dinv, blocksize=bs, iterations=it, f_iterations=fi,
                                   c_iterations=ci, omega=om)
    if name == 'chebyshev':
        from pyamg.relaxation.chebyshev import chebyshev_polynomial_coefficients
        if not hasattr(A, 'rho'):
            return None
        lo, hi = kw.get('lower_bound', 1.0 / 30.0), kw.get('upper_bound', 1.1)
        coef = -chebyshev_polynomial_coefficients(A.rho * lo, A.rho * hi, kw.get('degree', 3))[:-1]
        return lambda A_, x, b: R.polynomial(A, x, b, coefficients=coef, iterations=it)
    if name in ('schwarz', 'strength_based_schwarz'):
        M = A.tocsr().copy()
        M.sort_indices()
        if name == 'schwarz' or not hasattr(level, 'C'):
            return lambda A_, x, b: R.schwarz(M, x, b, iterations=it, sweep=sw)
        Cm = level.C.tocsr().copy()
        Cm.sort_indices()
        return lambda A_, x, b: R.schwarz(M, x, b, iterations=it, subdomain=Cm.indices.copy(), subdomain_ptr=Cm.indptr.copy(), sweep=sw)
    return None


# ------------------------------------------------------------------------------------------------
# Lean protocol
# ------------------------------------------------------------------------------------------------

def _realify_m(M, cplx):
    M = np.asarray(M)
    if not cplx:
        return M.real.astype(float)
    return np.block([[M.real, -M.imag], [M.imag, M.real]])


def _realify_v(v, cplx):
    v = np.asarray(v)
    if not cplx:
        return v.real.astype(float)
    return np.concatenate([v.real, v.imag])


def _unreal_v(v, cplx):
    v = np.asarray(v, dtype=float)
    if not cplx:
        return v
    n = len(v) // 2
    return v[:n] + 1j * v[n:]


def _encm(M):
    M = np.asarray(M)
    if M.size == 0:
        return '-'
    return ';'.join(enc_rats(r) for r in M)


def lean_header(H):
    parts = []
    for L in H.levels:
        parts += [_encm(_realify_m(L[k], H.cplx)) for k in ('A', 'P', 'R', 'Qpre', 'Qpost')]
    parts.append(_encm(_realify_m(H.S, H.cplx)))
    return f'{H.nlev - 1} ' + ' '.join(parts)


def lean_line(H, hdr, c, cpl, k, want_m, x0, b):
    return (f'c03_run {c} {cpl} {k} {1 if want_m else 0} {hdr} {enc_rats(_realify_v(x0, H.cplx))} '
            f'{enc_rats(_realify_v(b, H.cplx))}')


def parse_reply(H, o):
    parts = o.split('#')
    if len(parts) != 6:
        return None
    fv = lambda s: _unreal_v([float(q) for q in dec_list(s, dec_rat)], H.cplx)
    out = {'x1': fv(parts[0]), 'xk': fv(parts[1]), 'pv': fv(parts[2]), 'trace': dec_list(parts[3]), 'flags': parts[5]}
    if parts[4] != '-':
        out['M'] = np.array([[float(q) for q in dec_list(r, dec_rat)] for r in parts[4].split(';')])
    return out


# ------------------------------------------------------------------------------------------------
# extension E17: the composed solve-path models (Model/ExtSolvePath.lean, theorems Proofs/ExtSolvePath.lean)
#   ext_e17_solve   = SolvePath.solvePyM : C01's statement-by-statement loop (x0 given/omitted, caller's list with stale
#                     content, callback, return_info, tolerance test) on C03's cycle model, exact residual test
#   ext_e17_precond = C08.plan followed by SolvePath.callPrecond : the M handed to the accelerator, applied to a vector
# ------------------------------------------------------------------------------------------------

def e17_observe(ctx, H, hdr, c, cpl, x0, b, A0d, scale):
    """one real stand-alone solve with all options and one accelerated solve with a recording accelerator; returns the
    observations and the two driver lines (None when the real calls raise: reported by the caller's other checks)"""
    rng = ctx.np_rng
    ml = H.ml
    n = H.dims[0]
    K = int(rng.integers(2, 4))
    x0given = bool(rng.random() < 0.7)
    has_res, has_cb, ret_info = (bool(rng.random() < 0.8), bool(rng.random() < 0.7), bool(rng.random() < 0.7))
    start = x0 if x0given else np.zeros(n, dtype=H.dt)
    normb = float(np.linalg.norm(b)) or 1.0
    sc_a = (1.0 + float(np.abs(A0d).sum(axis=1).max(initial=0.0))) * scale + normb
    # trial run (no tolerance test) to place the tolerance strictly between two observed residual norms
    trial = [-1.0]
    ml.solve(b, x0=(x0.copy() if x0given else None), tol=0.0, maxiter=K, cycle=c, cycles_per_level=cpl, residuals=trial)
    tol = 0.0
    if len(trial) == K + 1 and rng.random() < 0.65:
        j = int(rng.integers(1, K + 1))
        rj = float(trial[j])
        prev = min([float(t) for t in trial[1:j]], default=max(4.0 * rj, 1e-3 * normb))
        T = float(np.sqrt(max(rj, 1e-300) * prev)) if prev > 0 else 0.0
        if np.isfinite(T) and T > 1e-6 * sc_a and rj < 0.8 * T and prev > 1.25 * T:
            tol = T / normb
    res = [-1.0] if has_res else None
    cbs = []
    out = ml.solve(b, x0=(x0.copy() if x0given else None), tol=tol, maxiter=K, cycle=c, cycles_per_level=cpl, residuals=res,
                   callback=(lambda v: cbs.append(np.array(np.ravel(v), copy=True))) if has_cb else None, return_info=ret_info)
    if ret_info:
        xr, info = out
    else:
        xr, info = out, None
    a0 = _encm(_realify_m(A0d, H.cplx))
    f = lambda t: '1' if t else '0'
    line1 = (f'ext_e17_solve {c} {cpl} {K} {enc_rat(tol)} {f(x0given)} {f(has_res)} {f(has_cb)} {f(ret_info)} {a0} {hdr} '
             f'{enc_rats(_realify_v(x0, H.cplx))} {enc_rats(_realify_v(b, H.cplx))}')
    # the preconditioner of the accelerated branch, through a recording accelerator of either convention
    captured = []
    style = 'pyamg' if rng.random() < 0.5 else 'scipy1'

    def acc_pyamg(A, b, x0=None, tol=None, maxiter=None, M=None, callback=None, residuals=None):
        captured.append(M)
        return (np.zeros_like(b) if x0 is None else x0), 0

    def acc_scipy(A, b, x0=None, *, rtol=1e-5, atol=0.0, maxiter=None, M=None, callback=None):
        captured.append(M)
        return (np.zeros_like(b) if x0 is None else x0), 0

    cstr = c.lower() if rng.random() < 0.5 else c
    ml.solve(np.ones(n, dtype=H.dt), x0=np.zeros(n, dtype=H.dt), maxiter=3, cycle=cstr, tol=1e-8,
             accel=acc_pyamg if style == 'pyamg' else acc_scipy)
    pv = [np.ravel(M @ b) for M in captured if M is not None]
    line2 = (f'ext_e17_precond {cstr} _ 1 f:{style} {enc_rat(1e-8)} 3 1 0 0 0 {a0} {hdr} {enc_rats(_realify_v(b, H.cplx))}')
    return {'lines': [line1, line2], 'K': K, 'tol': tol, 'x0given': x0given, 'has_res': has_res, 'has_cb': has_cb,
            'ret_info': ret_info, 'x': np.ravel(xr), 'info': info, 'res': None if res is None else [float(t) for t in res],
            'cb': cbs, 'start': start, 'sc_a': sc_a, 'pv': pv, 'ncaptured': len(captured), 'style': style, 'cstr': cstr}


def e17_oracle(H, it, ob):
    """what the property (C01 bookkeeping on the textbook cycle) determines, from the NumPy recursion"""
    c, cpl, b, A0d = it['c'], it['cpl'], it['b'], it['A0d']
    normb = float(np.linalg.norm(b)) or 1.0
    ys = [np.ravel(ob['start'])]
    for _ in range(ob['K']):
        ys.append(np.ravel(ref(H, ys[-1], b, c, cpl)[0]))
    rs = [float(np.linalg.norm(b - A0d @ y)) for y in ys]
    k, info = ob['K'], ob['K']
    for j in range(1, ob['K'] + 1):
        if rs[j] < ob['tol'] * normb:
            k, info = j, 0
            break
    return {'x': ys[k], 'info': info if ob['ret_info'] else None, 'res': rs[:k + 1] if ob['has_res'] else None,
            'cb': ys[1:k + 1] if ob['has_cb'] else []}


def _e17_book(d):
    return (d['info'], None if d['res'] is None else len(d['res']), len(d['cb']))


def _e17_vecs_same(got, want, sc):
    return (len(got['cb']) == len(want['cb']) and _close(got['x'], want['x'], sc)
            and all(_close(g, w, sc) for g, w in zip(got['cb'], want['cb'])))


def judge_e17(ctx, items, outs):
    """correspondence of the composed models with the real calls; a disagreement is judged by the NumPy oracle.  This
    property determines the VECTORS (returned iterate, callback arguments = textbook cycles applied k times); how many cycles
    are performed, `info` and the list are C01's: when they differ from the model only the vectors are judged here."""
    for idx, it in enumerate(items):
        ob, H, spec, c, cpl = it['e17'], it['H'], it['spec'], it['c'], it['cpl']
        o1, o2 = outs[2 * idx], outs[2 * idx + 1]
        sc = 4 * it['scale']
        desc = _case(spec, dims=H.dims, cycle=c, cpl=cpl, kind='e17-solve', maxiter=ob['K'], tol=ob['tol'], x0given=ob['x0given'],
                     residuals=ob['has_res'], callback=ob['has_cb'], return_info=ob['ret_info'], x0=_lst(it['x0']), b=_lst(it['b']))
        ctx.feat('e17:solve')
        ctx.feat(f"e17:stop={'tol' if ob['tol'] > 0 else 'maxiter'}")
        got = {'x': ob['x'], 'info': ob['info'], 'res': ob['res'], 'cb': ob['cb']}
        parts = o1.split('#') if o1 not in ('bad-op', 'none') else None
        model = None
        if parts is not None and len(parts) == 5:
            fv = lambda t: _unreal_v([float(q) for q in dec_list(t, dec_rat)], H.cplx)
            try:
                model = {'x': fv(parts[0]), 'info': None if parts[1] == '_' else int(parts[1]),
                         'res': None if parts[2] == '_' else [float(np.sqrt(float(q))) for q in dec_list(parts[2], dec_rat)],
                         'cb': [] if parts[3] == '-' else [fv(t) for t in parts[3].split(';')]}
            except Exception:
                model = None
            if model is not None and parts[4] != '1':
                ctx.corr('ext_e17_solve self-check (solvePyM returns what solveM returns; theorem solvePyM_x)', desc, parts[4], '1')
        if model is None:
            ctx.corr('ext_e17_solve', desc, o1[:200], 'n/a', 'driver rejected the request')
        elif _e17_book(got) != _e17_book(model):
            # number of cycles / info / list bookkeeping: C01's statement, not this property's
            ctx.feat('e17:bookkeeping-differs(decided-by-C01)')
            k_real = len(got['cb']) if ob['has_cb'] else (len(got['res']) - 1 if ob['has_res'] else None)
            if k_real is not None and 1 <= k_real <= ob['K']:
                want = e17_oracle(H, it, dict(ob, tol=0.0, K=k_real))
                if not _e17_vecs_same(got, want, sc):
                    ctx.violation(f"stand-alone solve: the vector returned after {k_real} {c}-cycles (cycles_per_level={cpl}) or a callback "
                                  f"argument is not the textbook cycle applied that many times", dict(desc, kind='cycle'))
        else:
            ctx.feat('e17:solve:compared')
            if got['res'] is not None and _close(got['res'], model['res'], ob['sc_a'], 1e-8):
                ctx.feat('e17:residual-list-agrees')
            if not _e17_vecs_same(got, model, sc):
                ctx.corr('solve(b, x0, tol, maxiter, cycle, residuals, callback, return_info) vs solvePyM (C01 loop on the C03 cycle)', desc,
                         {'info': model['info'], 'ncb': len(model['cb']), 'x': np.ravel(model['x'])[:4].tolist()},
                         {'info': got['info'], 'ncb': len(got['cb']), 'x': np.ravel(got['x'])[:4].tolist()})
                want = e17_oracle(H, it, ob)
                if not _e17_vecs_same(got, want, sc):
                    ctx.violation(f"stand-alone solve (maxiter={ob['K']}, tol={ob['tol']:.3g}, {c}, cycles_per_level={cpl}): the returned vector "
                                  f"or a callback argument is not the textbook cycle applied {len(want['cb']) if ob['has_cb'] else '<=' + str(ob['K'])} "
                                  f"times", dict(desc, kind='cycle'))
        # ---- the preconditioner handed to the accelerator
        ctx.feat('e17:precond:' + ob['style'])
        d2 = dict(desc, kind='precond', cycle_string=ob['cstr'], accel_convention=ob['style'])
        mr, scp = ref(H, np.zeros_like(it['b']), it['b'], c, 1)
        if o2 in ('bad-op', 'raise') or '?' in o2:
            ctx.corr('ext_e17_precond', d2, o2[:200], 'n/a', 'the plan does not reach the accelerator')
            mvs = None
        else:
            mvs = [_unreal_v([float(q) for q in dec_list(t, dec_rat)], H.cplx) for t in o2.split('|')]
        bad = len(ob['pv']) == 0          # nothing (or None) handed over
        scq = max(sc, scp)
        if mvs is not None and not bad and not all(_close(pv, mv, scq) for pv in ob['pv'] for mv in mvs):
            ctx.corr(f"M handed to accel (cycle={ob['cstr']!r}) applied to b vs callPrecond (plan + C01 loop + C03 cycle)", d2,
                     np.ravel(mvs[0])[:6].tolist(), ob['pv'][0][:6].tolist())
            bad = not all(_close(pv, mr, scq) for pv in ob['pv'])
        if bad:
            ctx.violation(f"solve(accel=<{ob['style']}-convention callable>, cycle={ob['cstr']!r}): the preconditioner handed to the accelerator "
                          f"({ob['ncaptured']} received) is not M of one {c}-cycle with cycles_per_level=1", d2)


# ------------------------------------------------------------------------------------------------
# the check of one hierarchy
# ------------------------------------------------------------------------------------------------

def _close(a, b, scale, tol=TOL):
    a, b = np.ravel(np.asarray(a)), np.ravel(np.asarray(b))
    if a.shape != b.shape or not np.all(np.isfinite(a)):
        return False
    return bool(np.abs(a - b).max(initial=0.0) <= tol * scale)


def _solve(H, b, x0, c, cpl, k=1):
    H.log.ev.clear()
    H.calls = getattr(H, 'calls', 0) + 1
    if H.calls % 5 == 0:
        c = c.lower()          # solve() upper-cases its cycle argument
    return H.ml.solve(b, x0=x0, maxiter=k, cycle=c, cycles_per_level=cpl, tol=0.0)


def _case(spec, **kw):
    d = {'spec': spec}
    d.update(kw)
    return d


def _lst(v):
    v = np.asarray(v)
    if np.iscomplexobj(v):
        return [[float(z.real), float(z.imag)] for z in v]
    return [float(z) for z in v]


def _vec(l, cplx):
    if cplx:
        return np.array([complex(a[0], a[1]) if isinstance(a, (list, tuple)) else complex(a) for a in l], dtype=complex)
    return np.array(l, dtype=float)


def check_smoothers_requested(ctx, H, spec):
    """the closure installed on level i is the requested method with the requested options"""
    rng = ctx.np_rng
    for i, l in enumerate(H.ml.levels[:-1]):
        for side in ('pre', 'post'):
            name, kw = requested(spec, side, i)
            try:
                f = expected_smoother(l, name, kw)
            except Exception:
                f = None
            if f is None:
                ctx.feat('requested-smoother:not-checked')
                continue
            ctx.feat('requested-smoother:checked')
            n = l.A.shape[0]
            x, b = _rvec(rng, n, H.cplx).astype(H.dt), _rvec(rng, n, H.cplx).astype(H.dt)
            y = x.copy()
            try:
                f(l.A, y, b.copy())
            except Exception:
                ctx.feat('requested-smoother:direct-call-raised')
                continue
            L = H.levels[i]
            got = L['E' + side] @ x + L['Q' + side] @ b
            sc = 1 + max(np.abs(y).max(initial=0), np.abs(got).max(initial=0))
            if not _close(got, y, sc, 1e-8):
                fkey = None
                if (name in ('cf_block_jacobi', 'fc_block_jacobi') and l.A.format == 'csr'
                        and (kw.get('f_iterations', 1) != 1 or kw.get('c_iterations', 1) != 1)):
                    # is it exactly "the CSR fallback forgets f_iterations / c_iterations"?
                    z = x.copy()
                    expected_smoother(l, name, kw, variant='fc-iterations-dropped')(l.A, z, b.copy())
                    if _close(got, z, sc, 1e-8):
                        fkey = 'cf-block-jacobi-csr-drops-fc-iterations'
                ctx.violation(('after change_solve_matrix(Anew): ' if spec.get('changed') is not None else '') +
                              f'level {i} {side}smoother installed on the hierarchy is not the requested '
                              f'{name}{kw}: closure gives {got[:4].tolist()}.. the requested relaxation call {y[:4].tolist()}..',
                              _case(spec, kind='requested-smoother', level=i, side=side), fkey=fkey)
                if fkey is None:
                    return False
    return True


# ------------------------------------------------------------------------------------------------
# storage types of b and x0: the statement is quantified over ALL b, x0 -- the arrays a caller passes need not be stored in
# the type of the matrix (a real load vector for a complex matrix, single-precision or integer data, the wide iterate
# returned by an earlier call fed back as x0).  solve() is documented to bring A, b and x to a common type; the cycle is then
# x0 + M (b - A x0) evaluated on the VALUES of b and x0 in that common type.
# ------------------------------------------------------------------------------------------------

# (storage of b, storage of x0); 'list' / 'clist' = a plain Python list of floats / complex numbers (x0 only)
REAL_PAIRS = [('f4', 'f8'), ('i8', 'f8'), ('i4', 'f8'), ('f4', 'f8'), ('i8', 'f8'), ('f2', 'f8'), ('bool', 'f8'), ('u1', 'f8'),
              ('f8', 'f4'), ('f8', 'i8'), ('f8', 'f2'), ('f4', 'f4'), ('i8', 'i8'), ('i4', 'f4'), ('f4', 'i4'), ('f8', 'list'),
              ('f4', 'list'), ('i8', 'list')]
CPLX_PAIRS = [('f8', 'c16'), ('f8', 'c16'), ('f4', 'c16'), ('i8', 'c16'), ('c8', 'c16'), ('c16', 'f8'), ('c16', 'c8'), ('c16', 'i8'),
              ('c16', 'f4'), ('f8', 'c8'), ('c8', 'f8'), ('f8', 'f8'), ('f4', 'f8'), ('i8', 'f4'), ('c8', 'c8'), ('f8', 'clist'),
              ('i4', 'clist'), ('bool', 'c16')]
# complex data for a hierarchy of real matrices: M is real-linear, so its action on complex vectors is determined (real and
# imaginary parts separately); the code may refuse such a call with a TypeError but must not return anything else
REAL_H_CPLX_PAIRS = [('c16', 'f8'), ('f8', 'c16'), ('c16', 'c16'), ('c8', 'f8'), ('f4', 'c16'), ('i8', 'c16'), ('f8', 'clist')]
_WIDE = {'f8', 'c16', 'list', 'clist'}


def _typed(rng, n, t):
    """a vector with full-precision content of storage type t (so that any narrowing cast changes it)"""
    if t in ('i8', 'i4', 'i2'):
        return rng.integers(-4, 5, size=n).astype(np.dtype(t))
    if t == 'u1':
        return rng.integers(0, 9, size=n).astype(np.uint8)
    if t == 'bool':
        return rng.random(n) < 0.5
    v = 3.0 * rng.standard_normal(n)
    if t in ('c16', 'c8', 'clist'):
        v = v + 3.0j * rng.standard_normal(n)
    if t in ('list', 'clist'):
        return v.tolist()
    return v.astype(np.dtype(t))


def _retype(v, t):
    """replay: values (wide array) -> the recorded storage type"""
    if t in (None, ''):
        return v
    if t in ('list', 'clist'):
        return np.asarray(v).tolist()
    return np.asarray(v).astype(np.dtype(t))


def _same_store(a, keep):
    if isinstance(keep, list):
        return isinstance(a, list) and a == keep
    return isinstance(a, np.ndarray) and a.dtype == keep.dtype and np.array_equal(a, keep)


def ref_any(H, x0, b, c, cpl, k=1):
    """ref for values of any type: a hierarchy of real matrices acts on complex data part by part"""
    x0, b = np.asarray(x0), np.asarray(b)
    if H.cplx or not (np.iscomplexobj(x0) or np.iscomplexobj(b)):
        return ref(H, x0.astype(H.dt), b.astype(H.dt), c, cpl, k)
    yr, s1 = ref(H, x0.real.astype(float), b.real.astype(float), c, cpl, k)
    yi, s2 = ref(H, x0.imag.astype(float), b.imag.astype(float), c, cpl, k)
    return yr + 1j * yi, max(s1, s2)


def check_storage_types(ctx, spec, H, c, cpl, A0d, viol):
    """one configuration with b and x0 stored in types other than the matrix type: one cycle, x0 omitted, the preconditioner,
    k calls == one k-call with the (wide) iterate fed back, exact solution of the narrow right-hand side is a fixed point,
    the result depends on the VALUES of b and x0 only (the same values stored in the common type give the same result)"""
    rng = ctx.np_rng
    n = H.dims[0]
    foreign = (not H.cplx) and rng.random() < 0.12
    pairs = REAL_H_CPLX_PAIRS if foreign else (CPLX_PAIRS if H.cplx else REAL_PAIRS)
    bt, xt = pairs[int(rng.integers(len(pairs)))]
    b, x0 = _typed(rng, n, bt), _typed(rng, n, xt)
    bkeep = b.copy()
    xkeep = list(x0) if isinstance(x0, list) else x0.copy()
    W = complex if (H.cplx or foreign) else float
    bw, xw = np.asarray(b).astype(W), np.asarray(x0).astype(W)          # the same values in the common type (widening: exact)
    how = f'b stored as {np.asarray(b).dtype}, x0 as {"a Python list" if isinstance(x0, list) else x0.dtype}, matrix {H.ml.levels[0].A.dtype}'
    desc = dict(cycle=c, cpl=cpl, x0=_lst(xw), b=_lst(bw), b_dtype=bt, x0_dtype=xt)
    ctx.feat(f'storage:b={bt},x0={xt}' + (',real-matrices' if foreign else ''))
    try:
        y1 = np.ravel(_solve(H, b, x0, c, cpl))
    except TypeError as e:
        if foreign:          # refused loudly: nothing is returned that could be wrong
            ctx.feat('storage:complex-data-real-matrices:refused(TypeError)')
            return
        viol(f'solve(maxiter=1, cycle={c!r}) raised {type(e).__name__}: {e} ({how})', kind='mixed-dtype', **desc)
        return
    except Exception as e:
        viol(f'solve(maxiter=1, cycle={c!r}) raised {type(e).__name__}: {e} ({how})', kind='mixed-dtype', **desc)
        return
    if foreign:
        ctx.feat('storage:complex-data-real-matrices:accepted')
    yr, sc = ref_any(H, xw, bw, c, cpl)
    ctx.rel_err(float(np.abs(y1 - yr).max(initial=0.0) / sc))
    if not _close(y1, yr, sc):
        viol(f'one {c}-cycle (cycles_per_level={cpl}) with {how} is not x0 + M (b - A x0) on the values of b and x0 in the common '
             f'type: max difference from the textbook recursion {np.abs(y1 - yr).max():.3g} (scale {sc:.3g})', kind='mixed-dtype', **desc)
        return
    k = 2
    xs = None
    if bt not in _WIDE:
        try:
            xs = np.linalg.solve(A0d.astype(W), bw)
            if not (np.all(np.isfinite(xs)) and np.abs(A0d @ xs - bw).max() <= 1e-10 * (1 + np.abs(bw).max())
                    and np.abs(xs).max() < 1e6):
                xs = None
        except Exception:
            xs = None
    try:
        yu = np.ravel(_solve(H, bw, xw, c, cpl))
        xk = np.ravel(_solve(H, b, x0, c, cpl, k))
        y2 = np.ravel(_solve(H, b, y1, c, cpl))          # the wide iterate fed back with the narrow right-hand side
        yz = np.ravel(_solve(H, b, None, c, cpl))
        Mop = H.ml.aspreconditioner(cycle=c)
        pv = np.ravel(Mop @ b)
        pw = np.ravel(Mop @ bw)
        ys = np.ravel(_solve(H, b, xs.copy(), c, cpl)) if xs is not None else None
    except Exception as e:
        viol(f'solve / aspreconditioner raised {type(e).__name__}: {e} on the values of an accepted call ({how}) stored in the common '
             f'type, fed back, or without x0', kind='mixed-dtype', **desc)
        return
    if not (_same_store(b, bkeep) and _same_store(x0, xkeep)):
        viol(f'solve modified its right-hand side or initial guess in place ({how})', kind='mixed-dtype', **desc)
        return
    # identical values in another storage type go through identical arithmetic after the conversion: compared relative to the
    # result itself (far below single-precision rounding of an input)
    if not _close(y1, yu, 1 + np.abs(yu).max(initial=0.0), 1e-13):
        viol(f'one {c}-cycle (cycles_per_level={cpl}) depends on how b and x0 are stored, not only on their values: {how} gives a '
             f'result that differs by {np.abs(y1 - yu).max():.3g} (size {np.abs(yu).max(initial=0.0):.3g}) from the same values stored in '
             f'the common type -- M is determined by the hierarchy and the cycle type only', kind='mixed-dtype', **desc)
        return
    xkr, sck = ref_any(H, xw, bw, c, cpl, k)
    if not _close(xk, y2, 1 + np.abs(xk).max(initial=0.0), 1e-12) or not _close(xk, xkr, sck):
        viol(f'{k} one-cycle calls (the returned iterate fed back as x0) differ from one call with maxiter={k} ({c}, '
             f'cycles_per_level={cpl}; {how}): |diff| = {np.abs(xk - y2).max():.3g}, against the reference {np.abs(xk - xkr).max():.3g}',
             kind='mixed-dtype', k=k, **desc)
        return
    zr, scz = ref_any(H, np.zeros(n), bw, c, cpl)
    if not _close(yz, zr, scz):
        viol(f'one {c}-cycle (cycles_per_level={cpl}) without x0 ({how}) is not M b: max difference {np.abs(yz - zr).max():.3g}',
             kind='mixed-dtype', **dict(desc, x0=_lst(np.zeros(n))))
        return
    pr, scp = ref_any(H, np.zeros(n), bw, c, 1)
    if not _close(pv, pr, scp) or not _close(pv, pw, 1 + np.abs(pw).max(initial=0.0), 1e-13):
        viol(f'aspreconditioner(cycle={c!r}) @ v with v stored as {np.asarray(b).dtype} is not M v of the values of v: difference from '
             f'the textbook M v {np.abs(pv - pr).max():.3g}, from the same values stored in the common type {np.abs(pv - pw).max():.3g}',
             kind='precond', **dict(desc, x0=_lst(np.zeros(n))))
        return
    if ys is not None:
        ctx.feat('storage:fixed-point')
        _, scs = ref_any(H, xs, bw, c, cpl)
        if not _close(ys, xs, scs, 1e-8):
            viol(f'the exact solution of a right-hand side stored as {np.asarray(b).dtype} is not a fixed point of a {c}-cycle '
                 f'(cycles_per_level={cpl}): moved by {np.abs(ys - xs).max():.3g}', kind='mixed-dtype', **dict(desc, x0=_lst(xs)))


def check_hier(ctx, spec, H, configs, lean_items, want_lean, want_m, precond=True):
    """search on one hierarchy with the NumPy recursion as oracle; appends Lean requests to lean_items"""
    rng = ctx.np_rng
    ml = H.ml
    n = H.dims[0]
    A0 = ml.levels[0].A
    A0d = A0.toarray().astype(H.dt)
    hdr = lean_header(H) if want_lean else None
    ok = True

    def viol(what, **kw):
        nonlocal ok
        ok = False
        if spec.get('changed') is not None:
            what = 'after change_solve_matrix(Anew): ' + what
        ctx.violation(what, _case(spec, dims=H.dims, **kw))

    singular1 = False
    if H.nlev == 1:
        singular1 = not (H.cond_c < 1e8)

    for (c, cpl) in configs:
        nontrivial = H.nlev >= (2 if c == 'V' else 3)
        ctx.case(key=_key(json.dumps(spec, sort_keys=True, default=str), c, cpl), nontrivial=nontrivial,
                 sample={'spec': {k: spec[k] for k in ('fam', 'n', 'ctor', 'pre', 'post', 'coarse')}, 'levels': H.dims,
                         'cycle': c, 'cycles_per_level': cpl})
        ctx.feat(f'cycle:{c}{cpl}')
        ctx.feat(f'levels:{min(H.nlev, 6)}')
        b = _rvec(rng, n, H.cplx).astype(H.dt)
        x0 = _rvec(rng, n, H.cplx).astype(H.dt)
        if H.nlev == 1 and singular1:
            # a one-level hierarchy is a pure direct solve: with singular A the initial guess cannot matter (see META)
            xs = x0.copy()
            try:        # make sure the initial guess has a null-space component
                nv = np.linalg.svd(A0d)[2][-1].conj()
                if abs(np.vdot(nv, xs)) < 0.5:
                    xs = xs + 3.0 * nv / max(1e-300, np.abs(nv).max())
            except Exception:
                pass
            bb = A0d @ xs
            try:
                y = _solve(H, bb, xs.copy(), c, cpl)
            except Exception as e:
                viol(f'solve raised {type(e).__name__}: {e}', cycle=c, cpl=cpl)
                continue
            if not _close(y, xs, 1 + np.abs(xs).max(), 1e-7):
                ctx.violation('one-level hierarchy with a singular matrix: the exact solution x0 (with a null-space component) is '
                              f'not a fixed point, solve ignores x0: got {np.ravel(y)[:4].tolist()}.. for x0 {xs[:4].tolist()}..',
                              _case(spec, dims=H.dims, kind='one-level-singular', cycle=c, cpl=cpl, x0=_lst(xs), b=_lst(bb)),
                              fkey='one-level-singular-x0-ignored')
            continue
        bkeep, xkeep = b.copy(), x0.copy()
        # ---- one cycle vs the dense textbook recursion
        xr, sc = ref(H, x0, b, c, cpl)
        try:
            x1 = _solve(H, b, x0, c, cpl)
            tr = list(H.log.ev)
        except Exception as e:
            viol(f'solve(maxiter=1, cycle={c!r}, cycles_per_level={cpl}) raised {type(e).__name__}: {e}', cycle=c, cpl=cpl)
            continue
        ctx.rel_err(float(np.abs(np.ravel(x1) - xr).max(initial=0.0) / sc))
        cdesc = dict(cycle=c, cpl=cpl, x0=_lst(xkeep), b=_lst(bkeep))
        if not _close(x1, xr, sc):
            viol(f'one {c}-cycle (cycles_per_level={cpl}) on {H.nlev} levels {H.dims} differs from the textbook recursion composed '
                 f'of the hierarchy\'s own smoothers, R, coarse solve, P: max difference {np.abs(np.ravel(x1) - xr).max():.3g} '
                 f'(scale {sc:.3g})', kind='cycle', **cdesc)
        if not (np.array_equal(b, bkeep) and np.array_equal(x0, xkeep)):
            viol('solve modified its right-hand side or initial guess in place', kind='inplace', **cdesc)
            b, x0 = bkeep.copy(), xkeep.copy()
        # ---- order and number of visits
        want_tr = py_trace(c, cpl, 0, H.nlev)
        if tr != want_tr:
            viol(f'{c}-cycle (cycles_per_level={cpl}) on {H.nlev} levels visits {",".join(tr)} instead of the textbook order '
                 f'{",".join(want_tr)} ({tr.count("c")} coarse solves instead of {n_coarse(c, cpl, H.nlev)})',
                 kind='trace', **cdesc)
        # ---- repeatability (no hidden state) and k calls == one k-call
        k = int(rng.integers(2, 4)) if not want_lean else 2
        try:
            x1b = _solve(H, b, x0, c, cpl)
            xk = _solve(H, b, x0, c, cpl, k)
            y = x0.copy()
            for _ in range(k):
                y = _solve(H, b, y, c, cpl)
        except Exception as e:
            viol(f'solve raised {type(e).__name__}: {e}', kind='cycle', **cdesc)
            continue
        if not np.array_equal(x1, x1b):
            viol(f'two identical one-cycle calls ({c}, cycles_per_level={cpl}) return different results: the cycle is not a fixed '
                 f'operator (difference {np.abs(x1 - x1b).max():.3g})', kind='repeat', **cdesc)
        xkr, sck = ref(H, x0, b, c, cpl, k)
        if np.array_equal(xk, y):
            ctx.feat('k-calls:bitwise')
        if not _close(xk, y, sck, 1e-12) or not _close(xk, xkr, sck):
            viol(f'{k} one-cycle calls differ from one call with maxiter={k} ({c}, cycles_per_level={cpl}): '
                 f'|diff| = {np.abs(xk - y).max():.3g}, against the reference {np.abs(xk - xkr).max():.3g}', kind='kcalls', k=k, **cdesc)
        # ---- the exact solution is a fixed point
        xs = _rvec(rng, n, H.cplx, small=False).astype(H.dt)
        bs = A0d @ xs
        try:
            ys = _solve(H, bs, xs.copy(), c, cpl)
        except Exception as e:
            viol(f'solve raised {type(e).__name__}: {e}', kind='fixed', **cdesc)
            continue
        _, scs = ref(H, xs, bs, c, cpl)
        if not _close(ys, xs, scs, 1e-8):
            viol(f'the exact solution is not a fixed point of a {c}-cycle (cycles_per_level={cpl}): moved by {np.abs(ys - xs).max():.3g}',
                 kind='fixed', cycle=c, cpl=cpl, x0=_lst(xs), b=_lst(bs))
        # ---- b and x0 stored in other types than the matrix (narrower, wider, integer, complex/real, Python list)
        if not spec.get('light') or rng.random() < 0.5:
            check_storage_types(ctx, spec, H, c, cpl, A0d, viol)
        # ---- Lean request for this configuration
        if want_lean:
            try:
                H.log.ev.clear()
                pv = ml.aspreconditioner(cycle=c) @ b
                ptr = list(H.log.ev)
            except Exception as e:
                viol(f'aspreconditioner({c!r}) raised {type(e).__name__}: {e}', kind='precond', **cdesc)
                continue
            lean_items.append({'line': lean_line(H, hdr, c, cpl, k, want_m, x0, b), 'H': H, 'spec': spec, 'c': c, 'cpl': cpl, 'k': k,
                               'x0': x0, 'b': b, 'x1': x1, 'xk': xk, 'pv': pv, 'trace': tr, 'ptrace': ptr, 'scale': max(sc, sck),
                               'A0d': A0d})
            if getattr(H, 'e38', None) is not None and ((c, cpl) == configs[0] or rng.random() < 0.35):
                # extension E38: the same cycle with the recorded relaxation calls executed by their kernel models
                lean_items[-1]['e38'] = (f'c03x_run {c} {cpl} {k} {1 if want_m else 0} {H.e38} '
                                         f'{enc_rats(_realify_v(x0, H.cplx))} {enc_rats(_realify_v(b, H.cplx))}')
                lean_items[-1]['e38_cost'] = e38_cost_run(H.e38_toks, H.dims, c, cpl) * (2.0 if want_m else 1.0)
            if getattr(H, 'e55', None) is not None and ((c, cpl) == configs[0] or rng.random() < 0.35):
                # extension E55: the same cycle through the scalar-polymorphic model (complex data, smoothers of BSR levels)
                E = _Enc(H.cplx)
                chk = want_m or H.dims[0] <= 9
                lean_items[-1]['e55'] = (f'c03y_run {E.tag} {c} {cpl} {k} {1 if chk else 0} {H.e55} {E.vec(x0)} {E.vec(b)}')
                lean_items[-1]['e55_cost'] = e55_cost_run(H.e55_toks, H.dims, c, cpl, H.cplx) * (2.0 if chk else 1.0)
            if (c, cpl) == configs[0] or rng.random() < 0.1:        # extension E17: the composed solve-path models
                try:
                    lean_items[-1]['e17'] = e17_observe(ctx, H, hdr, c, cpl, x0, b, A0d, max(sc, sck))
                except Exception as e:
                    viol(f'solve with options / accelerated solve raised {type(e).__name__}: {e}', kind='e17-solve', **cdesc)
    if (H.nlev == 1 and singular1) or not precond:
        return ok
    ok &= check_precond(ctx, spec, H, A0d)
    return ok


def check_precond(ctx, spec, H, A0d):
    """aspreconditioner: linear, equals the cycle from a zero guess, follows the requested cycle type through a history of
    requests on ONE hierarchy object (direct calls and through solve(accel=...))"""
    rng = ctx.np_rng
    ml = H.ml
    n = H.dims[0]
    ok = True
    order = [str(c) for c in rng.permutation(['V', 'W', 'F'])]
    if rng.random() < 0.5:
        order = order + [order[0]]
    ops = {}
    hist = []

    def viol(what, **kw):
        nonlocal ok
        ok = False
        ctx.violation(what, _case(spec, dims=H.dims, history=list(hist), **kw))

    captured = []

    def rec_accel(A, b, x0=None, tol=None, maxiter=None, M=None, callback=None, residuals=None, **kw):
        captured.append(M)
        return (np.zeros_like(b) if x0 is None else x0), 0

    for c in order:
        via = 'accel' if rng.random() < 0.35 else 'direct'
        hist.append([c, via])
        try:
            if via == 'direct':
                M = ml.aspreconditioner(cycle=c)
            else:
                captured.clear()
                ml.solve(np.ones(n, dtype=H.dt), x0=np.zeros(n, dtype=H.dt), maxiter=1, cycle=c, accel=rec_accel, tol=1e-8)
                if len(captured) != 1 or captured[0] is None:
                    viol(f'solve(accel=..., cycle={c!r}) did not hand a preconditioner to the Krylov method', kind='precond', cycle=c)
                    continue
                M = captured[0]
            ops[c] = M
            ctx.feat('precond:' + via)
            for cc, Mop in list(ops.items()):          # the new operator and every operator created earlier
                v = _rvec(rng, n, H.cplx).astype(H.dt)
                u = _rvec(rng, n, H.cplx).astype(H.dt)
                al = complex(2, -1) if H.cplx else -1.5
                H.log.ev.clear()
                mv = np.ravel(Mop @ v)
                tr = list(H.log.ev)
                mr, sc = ref(H, np.zeros(n, dtype=H.dt), v, cc, 1)
                if not _close(mv, mr, sc):
                    is_other = [o for o in ('V', 'W', 'F') if o != cc and _close(mv, ref(H, np.zeros(n, dtype=H.dt), v, o, 1)[0], sc)]
                    viol(f'aspreconditioner(cycle={cc!r}) @ v is not M v of the requested cycle type on {H.nlev} levels {H.dims} after '
                         f'the requests {hist}: difference {np.abs(mv - mr).max():.3g}'
                         + (f'; it equals the {is_other[0]}-cycle operator' if is_other else ''),
                         kind='precond', cycle=cc, b=_lst(v))
                    break
                if tr != py_trace(cc, 1, 0, H.nlev):
                    viol(f'aspreconditioner(cycle={cc!r}) visits {",".join(tr)}: not one {cc}-cycle', kind='precond', cycle=cc, b=_lst(v))
                    break
                mu = np.ravel(Mop @ u)
                muv = np.ravel(Mop @ (u + v))
                mav = np.ravel(Mop @ (al * v))
                if not _close(muv, mu + mv, 3 * sc + np.abs(mu).max()) or not _close(mav, al * mv, 3 * sc):
                    viol(f'aspreconditioner(cycle={cc!r}) is not linear: |M(u+v) - Mu - Mv| = {np.abs(muv - mu - mv).max():.3g}, '
                         f'|M(a v) - a M v| = {np.abs(mav - al * mv).max():.3g}', kind='precond-linear', cycle=cc, b=_lst(v))
                    break
                xz = np.ravel(_solve(H, v, np.zeros(n, dtype=H.dt), cc, 1))
                if not _close(mv, xz, sc, 1e-12):
                    viol(f'aspreconditioner(cycle={cc!r}) @ v differs from solve(v, x0=0, maxiter=1, cycle={cc!r})', kind='precond',
                         cycle=cc, b=_lst(v))
                    break
        except Exception as e:
            viol(f'aspreconditioner / accelerated solve raised {type(e).__name__}: {e}', kind='precond', cycle=c)
    return ok


# ------------------------------------------------------------------------------------------------
# driver of the whole run
# ------------------------------------------------------------------------------------------------

def smoother_lean_items(H, spec, items):
    """Gauss-Seidel / SOR / Jacobi smoothers on real CSR levels: the Lean kernel models of C09 (`pygs`, `pyjac`; proved to be
    linear iterations, Props.C03.gauss_seidel_sweep_is_linear_iteration) applied to unit right-hand sides give Q column by
    column; compared with the Q probed from the installed closure"""
    if H.cplx:
        return
    for i, l in enumerate(H.ml.levels[:-1]):
        A = l.A
        if A.format != 'csr' or np.iscomplexobj(A.data):
            continue
        n = A.shape[0]
        for side in ('pre', 'post'):
            name, kw = requested(spec, side, i)
            it, sw = kw.get('iterations', 1), kw.get('sweep', 'forward')
            if name in ('gauss_seidel', 'block_gauss_seidel'):
                op, om = 'pygs', 1.0
            elif name == 'sor':
                op, om = 'pygs', kw.get('omega', 0.5)
            elif name in ('jacobi', 'block_jacobi'):
                op, om = 'pyjac', kw.get('omega', 1.0)
                if kw.get('withrho', True):
                    if not hasattr(A, 'rho_D_inv'):
                        continue
                    om = om / A.rho_D_inv
            else:
                continue
            hdr = f'{n} {enc_ints(A.indptr)} {enc_ints(A.indices)} {enc_rats(A.data)}'
            z = enc_rats(np.zeros(n))
            lines = []
            for k in range(n):
                e = np.zeros(n)
                e[k] = 1.0
                if op == 'pygs':
                    lines.append(f'pygs {enc_rat(om)} {hdr} {enc_rats(e)} {z} {it} {sw}')
                else:
                    lines.append(f'pyjac {enc_rat(om)} {hdr} {enc_rats(e)} {z} {it}')
            items.append({'lines': lines, 'Q': H.levels[i]['Q' + side], 'level': i, 'side': side, 'name': name, 'kw': kw,
                          'spec': spec, 'dims': H.dims})


# ------------------------------------------------------------------------------------------------
# extension E38: the extended cycle model (Model/ExtC03XCyc.lean, theorems Proofs/ExtC03XThm.lean).  A smoother is sent as
# a RECORDED RELAXATION CALL -- the requested method and options plus the numerical by-products its setup computes (the
# CSR / CSC / BSR copy of the level matrix the closure works on, spectral-radius-scaled omega / coefficients, inverse
# diagonal blocks (exact rational inverses of the stored diagonal blocks), Schwarz subdomains and subdomain inverses) --
# and Lean runs the validated kernel models of C09 inside the cycle (`c03x_run`), resp. on unit right-hand sides
# (`c03x_q`: the Lean counterpart of the requested-smoother check for every linear family).
# ------------------------------------------------------------------------------------------------

def _sweep_ok(sw):
    return sw in ('forward', 'backward', 'symmetric')


def _csr_tok(M):
    return f'{M.shape[0]}:{enc_ints(M.indptr)}:{enc_ints(M.indices)}:{enc_rats(M.data)}'


def _same_as_level(M, Ad):
    """the matrix copy the smoother works on is the level matrix, entry by entry (no rounding in the comparison: stored
    duplicates, which toarray() would add in floating point, are excluded)"""
    if M.shape != Ad.shape or np.iscomplexobj(M.data) or not np.all(np.isfinite(M.data)):
        return False
    C = M.copy()
    C.sum_duplicates()
    if C.nnz != M.nnz:
        return False
    return bool(np.array_equal(M.toarray(), Ad))


def _diag_ok(M):
    """exactly one stored, non-zero diagonal entry per row (what the Jacobi / Gauss-Seidel kernels divide by)"""
    M = sp.csr_array(M)
    for i in range(M.shape[0]):
        cols = M.indices[M.indptr[i]:M.indptr[i + 1]]
        vals = M.data[M.indptr[i]:M.indptr[i + 1]]
        k = np.where(cols == i)[0]
        if len(k) != 1 or vals[k[0]] == 0:
            return False
    return True


def _frac_inverse(B):
    """exact inverse of a small float matrix (Fractions, Gauss-Jordan); None when singular"""
    from fractions import Fraction
    m = B.shape[0]
    a = [[Fraction(float(B[i, j])) for j in range(m)] + [Fraction(int(i == j)) for j in range(m)] for i in range(m)]
    for c in range(m):
        p = next((r for r in range(c, m) if a[r][c] != 0), None)
        if p is None:
            return None
        a[c], a[p] = a[p], a[c]
        piv = a[c][c]
        a[c] = [v / piv for v in a[c]]
        for r in range(m):
            if r != c and a[r][c] != 0:
                f = a[r][c]
                a[r] = [vr - f * vc for vr, vc in zip(a[r], a[c])]
    return [row[m:] for row in a]


def _bsr_tok(A):
    """BSR arrays of a square-block matrix and the exact inverses of its diagonal blocks; None when not applicable"""
    bs = A.blocksize[0]
    if A.blocksize[1] != bs or A.shape[0] % bs or A.shape[0] != A.shape[1]:
        return None
    nb = A.shape[0] // bs
    from fractions import Fraction
    dinv = []
    for i in range(nb):
        D = np.zeros((bs, bs))
        for jj in range(A.indptr[i], A.indptr[i + 1]):
            if A.indices[jj] == i:
                D = D + A.data[jj]
        inv = _frac_inverse(D)
        if inv is None:
            return None
        dinv += [v for row in inv for v in row]
    enc_f = lambda f: str(f.numerator) if f.denominator == 1 else f'{f.numerator}/{f.denominator}'
    return (f'{nb}:{bs}:{enc_ints(A.indptr)}:{enc_ints(A.indices)}:{enc_rats(np.ravel(A.data))}:' + ','.join(enc_f(f) for f in dinv),
            np.array([float(f) for f in dinv]).reshape(nb, bs, bs))


def e38_token(level, Ad, name, kw):
    """the recorded relaxation call of the requested smoother `name`/`kw` on this level as a driver token, or (None, why)"""
    from pyamg.relaxation import relaxation as R
    A = level.A
    if np.iscomplexobj(Ad) or np.iscomplexobj(A.data):
        return None, 'complex'
    it = int(kw.get('iterations', 1))
    sw = kw.get('sweep', 'forward')
    if not _sweep_ok(sw):
        return None, 'sweep'
    csr_level = A.format == 'csr'

    def point():                # the Gauss-Seidel / SOR / Jacobi kernels divide by THE stored diagonal entry of a CSR row
        if not csr_level or not _same_as_level(A, Ad):
            return 'not-csr'
        return None if _diag_ok(A) else 'no-unique-nonzero-diagonal'

    if name in ('gauss_seidel', 'block_gauss_seidel') and (csr_level or name == 'gauss_seidel'):
        why = point()
        return (f'gs:1:{_csr_tok(A)}:{it}:{sw}', None) if why is None else (None, why)
    if name == 'sor':
        why = point()
        return (f'gs:{enc_rat(kw.get("omega", 0.5))}:{_csr_tok(A)}:{it}:{sw}', None) if why is None else (None, why)
    if name == 'jacobi' or (name == 'block_jacobi' and csr_level):
        om = kw.get('omega', 1.0)
        if kw.get('withrho', True):
            if not hasattr(A, 'rho_D_inv'):
                return None, 'no-rho'
            om = om / A.rho_D_inv
        why = point()
        return (f'jac:{enc_rat(om)}:{_csr_tok(A)}:{it}', None) if why is None else (None, why)
    if name in ('richardson', 'chebyshev'):
        if not hasattr(A, 'rho'):
            return None, 'no-rho'
        if name == 'richardson':
            coef = [kw.get('omega', 1.0) / A.rho]
        else:
            from pyamg.relaxation.chebyshev import chebyshev_polynomial_coefficients
            lo, hi = kw.get('lower_bound', 1.0 / 30.0), kw.get('upper_bound', 1.1)
            coef = list(-chebyshev_polynomial_coefficients(A.rho * lo, A.rho * hi, kw.get('degree', 3))[:-1])
        M = sp.csr_array(A)
        if not coef or not _same_as_level(M, Ad):
            return None, 'matrix-copy'
        return f'poly:{_csr_tok(M)}:{enc_rats(coef)}:{it}', None
    if name in ('block_jacobi', 'block_gauss_seidel') and A.format == 'bsr':
        if not _same_as_level(A, Ad):
            return None, 'matrix-copy'
        bt = _bsr_tok(A)
        if bt is None:
            return None, 'singular-diagonal-block'
        tok, dinv = bt
        from pyamg.util.utils import get_block_diag
        rec = get_block_diag(A, blocksize=A.blocksize[0], inv_flag=True)
        if rec.shape != dinv.shape or np.abs(rec - dinv).max(initial=0.0) > 1e-12 * (1 + np.abs(dinv).max(initial=0.0)):
            return None, 'block-inverse-ill-conditioned'
        if name == 'block_gauss_seidel':
            return f'bgs:{tok}:{it}:{sw}', None
        om = kw.get('omega', 1.0)
        if kw.get('withrho', True):
            if not hasattr(A, 'rho_block_D_inv'):
                return None, 'no-rho'
            om = om / A.rho_block_D_inv
        return f'bjac:{enc_rat(om)}:{tok}:{it}', None
    if name in ('gauss_seidel_ne', 'jacobi_ne'):
        M = getattr(level, 'Acsr', None)
        if M is None or M.format != 'csr' or not _same_as_level(M, Ad):
            return None, 'matrix-copy'
        om = kw.get('omega', 1.0)
        if name == 'gauss_seidel_ne':
            return f'gsne:{enc_rat(om)}:{_csr_tok(M)}:{it}:{sw}', None
        if kw.get('withrho', True):
            if not hasattr(M, 'rho_D_inv'):
                return None, 'no-rho'
            om = om / M.rho_D_inv ** 2
        return f'jacne:{enc_rat(om)}:{_csr_tok(M)}:{it}', None
    if name == 'gauss_seidel_nr':
        M = getattr(level, 'Acsc', None)
        if M is None or M.format != 'csc' or not _same_as_level(M, Ad):
            return None, 'matrix-copy'
        return f'gsnr:{enc_rat(kw.get("omega", 1.0))}:{_csr_tok(M)}:{it}:{sw}', None
    if name in ('cf_jacobi', 'fc_jacobi') or (name in ('cf_block_jacobi', 'fc_block_jacobi') and csr_level):
        if not hasattr(level, 'splitting'):
            return None, 'no-splitting'
        fi, ci = int(kw.get('f_iterations', 1)), int(kw.get('c_iterations', 1))
        if name.endswith('block_jacobi') and (fi != 1 or ci != 1):
            return None, 'known-finding-path'          # cf-block-jacobi-csr-drops-fc-iterations: judged by the direct call
        om = kw.get('omega', 1.0)
        if kw.get('withrho', False):
            if not hasattr(A, 'rho_D_inv'):
                return None, 'no-rho'
            om = om / A.rho_D_inv
        why = point()
        if why is not None:
            return None, why
        Fp = np.where(np.logical_not(level.splitting))[0]
        Cp = np.where(level.splitting)[0]
        return (f'cfjac:{1 if name.startswith("cf") else 0}:{enc_rat(om)}:{_csr_tok(A)}:{enc_ints(Cp)}:{enc_ints(Fp)}:{it}:{fi}:{ci}', None)
    if name in ('schwarz', 'strength_based_schwarz'):
        M0 = getattr(level, 'Acsr', None)
        if M0 is None or M0.format != 'csr' or not _same_as_level(M0, Ad):
            return None, 'matrix-copy'
        M = M0.copy()                        # a fresh object: no cached parameters
        M.sort_indices()
        if name == 'schwarz' or not hasattr(level, 'C'):
            sub, subp = None, None
        else:
            Cm = level.C.tocsr().copy()
            Cm.sort_indices()
            sub, subp = Cm.indices.copy(), Cm.indptr.copy()
        sub, subp, tx, tp = R.schwarz_parameters(M, sub, subp, None, None)
        if not np.all(np.isfinite(tx)) or np.abs(tx).max(initial=0.0) > 1e8:
            return None, 'subdomain-inverse-size'
        return f'schwarz:{_csr_tok(M)}:{enc_rats(tx)}:{enc_ints(tp)}:{enc_ints(sub)}:{enc_ints(subp)}:{it}:{sw}', None
    return None, 'no-model'


def _tok_depth(tok):
    """length of the longest chain of dependent exact multiplications / divisions in ONE application of the recorded call (the
    size of the rationals the Lean driver computes with grows by about 53 bits per link): rows / columns / subdomains of a
    Gauss-Seidel-like sweep depend on each other, Jacobi-like steps only through the iterations"""
    f = tok.split(':')
    kind = f[0]
    passes = lambda sw: 2 if sw == 'symmetric' else 1
    if kind == 'mat':
        return 1
    if kind == 'poly':
        return int(f[6]) * max(1, len(f[5].split(',')))
    if kind in ('gs', 'gsne', 'gsnr'):
        return int(f[2]) * passes(f[7]) * int(f[6])
    if kind == 'jac':
        return 4 * int(f[6])
    if kind == 'jacne':          # the model of the Python driver recomputes A @ x for every row of the scaled residual
        return int(f[2]) * int(f[6])
    if kind == 'cfjac':
        return 4 * int(f[9]) * (int(f[10]) + int(f[11]))
    if kind == 'bjac':
        return 4 * int(f[3]) * int(f[8])
    if kind == 'bgs':
        return 2 * int(f[1]) * passes(f[8]) * int(f[7])
    if kind == 'schwarz':
        return 2 * max(1, len(f[8].split(',')) - 1) * passes(f[10]) * int(f[9])
    return 10 ** 6


def _visits(c, cpl, nlev):
    """number of visits of level l = 0 .. nlev-2 in one cycle"""
    if nlev <= 1:
        return []
    return [1 if c == 'V' else 2 ** d if c == 'W' else 1 + cpl * d for d in range(nlev - 1)]


def e38_cost_q(tok, n):
    """estimated driver seconds of a `c03x_q` line (calibrated on this driver: about 5e-5 s per decimal digit of the result)"""
    return 8e-4 * n * n * _tok_depth(tok)


def e38_cost_run(toks, dims, c, cpl):
    depth = sum(v * (_tok_depth(t1) + _tok_depth(t2) + 2) for v, (t1, t2) in zip(_visits(c, cpl, len(dims)), toks))
    return 1.5e-5 * dims[0] * depth * depth


def e38_levels(ctx, H, spec):
    """per level the tokens of the pre / post smoother for the extended model (probed matrix where no recorded call applies);
    -> (list of (pre token, post token), number of recorded calls, list of (level, side, name, kw, token))"""
    toks, rec, nrec = [], [], 0
    for i, l in enumerate(H.ml.levels[:-1]):
        L = H.levels[i]
        pair = []
        for side in ('pre', 'post'):
            name, kw = requested(spec, side, i)
            tok = None
            if name is not None and not H.cplx:
                try:
                    tok, why = e38_token(l, L['A'], name, kw)
                except Exception as e:
                    tok, why = None, 'raised:' + type(e).__name__
                if tok is None:
                    ctx.feat(f'e38:probed-matrix:{name}:{why}')
            if tok is None:
                tok = 'mat:' + _encm(_realify_m(L['Q' + side], H.cplx))
            else:
                nrec += 1
                ctx.feat('e38:recorded:' + tok.split(':', 1)[0])
                rec.append((i, side, name, kw, tok))
            pair.append(tok)
        toks.append(tuple(pair))
    return toks, nrec, rec


def e38_header(H, toks):
    parts = []
    for L, (t1, t2) in zip(H.levels, toks):
        parts += [_encm(_realify_m(L[k], H.cplx)) for k in ('A', 'P', 'R')] + [t1, t2]
    parts.append(_encm(_realify_m(H.S, H.cplx)))
    return f'{H.nlev - 1} ' + ' '.join(parts)


def e38_q_items(H, spec, rec, items):
    """the requested-smoother check in Lean for every linear family: Q of the recorded call (kernel model applied to the unit
    right-hand sides from a zero guess) against the Q probed from the installed closure"""
    for (i, side, name, kw, tok) in rec:
        items.append({'lines': [f'c03x_q {_encm(H.levels[i]["A"])} {tok}'], 'Q': H.levels[i]['Q' + side], 'level': i, 'side': side,
                      'name': name, 'kw': kw, 'spec': spec, 'dims': H.dims, 'e38': True, 'cost': e38_cost_q(tok, H.dims[i])})


def judge_e38(ctx, items, outs):
    """the extended cycle model (recorded relaxation calls executed inside the cycle) against the real solve"""
    for it, o in zip(items, outs):
        H, spec, c, cpl, k = it['H'], it['spec'], it['c'], it['cpl'], it['k']
        desc = _case(spec, dims=H.dims, cycle=c, cpl=cpl, k=k, x0=_lst(it['x0']), b=_lst(it['b']))
        ctx.feat('lean:e38-run')
        parts = o.split('#') if o != 'bad-op' else []
        if len(parts) != 4:
            ctx.corr('c03x_run', desc, o[:200], 'n/a', 'the driver rejected the request (a recorded call that is not a call for its '
                     'level matrix, or a malformed line)')
            continue
        if parts[3] != '11':
            ctx.corr('c03x_run model self-check (AllOK; one cycle = cycM with the matrices Q of the recorded calls)', desc, parts[3], '11')
        fv = lambda s: _unreal_v([float(q) for q in dec_list(s, dec_rat)], H.cplx)
        sc = it['scale']

        def cmp(what, model, impl, refv):
            if _close(impl, model, sc):
                return
            ctx.corr(what, desc, np.ravel(model)[:6].tolist(), np.ravel(impl)[:6].tolist())
            if not _close(impl, refv, sc):
                ctx.violation(f'{what}: the real code differs from the textbook recursion (extended Lean model and NumPy recursion agree '
                              f'with each other): max difference {np.abs(np.ravel(impl) - np.ravel(refv)).max():.3g}', dict(desc, kind='cycle'))
        cmp(f'extended model: one {c}-cycle cpl={cpl}', fv(parts[0]), it['x1'], ref(H, it['x0'], it['b'], c, cpl)[0])
        cmp(f'extended model: solve maxiter={k} {c} cpl={cpl}', fv(parts[1]), it['xk'], ref(H, it['x0'], it['b'], c, cpl, k)[0])
        cmp(f'extended model: aspreconditioner({c}) @ b', fv(parts[2]), it['pv'], ref(H, np.zeros_like(it['b']), it['b'], c, 1)[0])


def _q_kind(it):
    """family of the recorded call of a c03x_q / c03y_q item"""
    f = it['lines'][0].split(' ')
    return f[3 if it.get('e55') else 2].split(':', 1)[0]


def _q_sig(it):
    """family and option signature of the recorded call of a c03y_q item (budget selection: one request of every signature
    first): sweep direction, iteration counts, CF / FC order, omega = 1 or not"""
    f = it['lines'][0].split(' ')[3].split(':')
    k = f[0]
    if k == 'cfbjac':
        return ':'.join([k, f[1]] + f[11:14])
    if k == 'cfjac':
        return ':'.join([k, f[1]] + f[9:12])
    blk = ['b1' if f[3] == '1' else 'bN'] if k in ('bsrgs', 'bsrjac') else []      # 1 x 1 blocks (coarse levels) or real blocks
    if k in ('gs', 'gsne', 'gsnr', 'bsrgs', 'bgs', 'schwarz'):
        return ':'.join([k, 'w1' if f[1] in ('1', '1|0') else 'w'] + blk + f[-2:])
    return ':'.join([k] + blk + [f[-1]])


def judge_smoothers(ctx, sm_items, outs):
    pos = 0
    for it in sm_items:
        rep = outs[pos:pos + len(it['lines'])]
        pos += len(it['lines'])
        ctx.feat('lean:smoother-Q' + ((':e55:' + it['e55'].tag + ':' if it.get('e55') else ':e38:') + _q_kind(it) if it.get('e38') else ''))
        try:
            if it.get('e55'):           # `ok#Q` of c03y_q (rationals or Gaussian rationals)
                okflag, qs = rep[0].split('#')
                if okflag != '1':
                    raise ValueError('not a call for the level matrix')
                Qm = np.array([it['e55'].dec_vec(r) for r in qs.split(';')])
            elif it.get('e38'):           # `ok#Q` of c03x_q: the recorded call must be a call for the level matrix
                okflag, qs = rep[0].split('#')
                if okflag != '1':
                    raise ValueError('not a call for the level matrix')
                Qm = np.array([[float(q) for q in dec_list(r, dec_rat)] for r in qs.split(';')])
            else:
                Qm = np.column_stack([[float(q) for q in dec_list(o, dec_rat)] for o in rep])
        except Exception:
            ctx.corr('smoother kernel model', _case(it['spec'], level=it['level'], side=it['side']), rep[0][:100], 'n/a', 'bad reply')
            continue
        Q = it['Q']
        if Qm.shape != Q.shape or np.abs(Qm - Q).max(initial=0.0) > 1e-10 * (1 + np.abs(Q).max(initial=0.0)):
            # the requested-smoother check (direct relaxation call) is the judge of this disagreement; it has run already
            ctx.corr(f'level {it["level"]} {it["side"]}smoother {it["name"]}{it["kw"]}: Q of the installed closure vs the Lean kernel model',
                     _case(it['spec'], dims=it['dims'], kind='requested-smoother', level=it['level'], side=it['side']),
                     Qm[:2].tolist(), np.asarray(Q)[:2].tolist())


# ------------------------------------------------------------------------------------------------
# extension E55: the scalar-polymorphic extended cycle model (Model/ExtC03YCyc.lean, theorems Proofs/ExtC03YThm.lean over an
# arbitrary field).  Same protocol as E38 with a scalar tag: `r` = rationals, `c` = Gaussian rationals (`re|im`), so that
#   * COMPLEX hierarchies (Hermitian and nonsymmetric) are no longer realified with probed smoother matrices: every level matrix,
#     P, R, the coarse solver and every recorded relaxation call (with the conjugation of the `_ne` / `_nr` kernels) is sent as
#     complex data and the kernel models run over the Gaussian rationals,
#   * the POINT SMOOTHERS OF BSR LEVELS (gauss_seidel / sor / jacobi: kernels bsr_gauss_seidel, bsr_jacobi) and CF / FC BLOCK
#     JACOBI on BSR levels are recorded calls (`bsrgs`, `bsrjac`, `cfbjac`) instead of probed matrices.
# ------------------------------------------------------------------------------------------------

E55_NEW_KINDS = ('bsrgs', 'bsrjac', 'cfbjac')


class _Enc:
    """scalar encoding of one request: rationals or Gaussian rationals"""
    def __init__(self, cplx):
        self.cplx = bool(cplx)
        self.tag = 'c' if cplx else 'r'
        self.vec = enc_crats if cplx else enc_rats
        self.one = enc_crat if cplx else enc_rat

    def mat(self, M):
        M = np.asarray(M)
        if M.size == 0:
            return '-'
        return ';'.join(self.vec(r) for r in M)

    def dec_vec(self, t):
        if self.cplx:
            return np.array([complex(float(a), float(b)) for (a, b) in dec_list(t, dec_crat)], dtype=complex)
        return np.array([float(q) for q in dec_list(t, dec_rat)])


def _gq_inverse(B):
    """exact inverse of a small real or complex float matrix over the (Gaussian) rationals, Gauss-Jordan; None when singular;
    entries are returned as (Fraction re, Fraction im)"""
    from fractions import Fraction
    m = B.shape[0]
    B = np.asarray(B, dtype=complex)

    def mul(u, v):
        return (u[0] * v[0] - u[1] * v[1], u[0] * v[1] + u[1] * v[0])

    def sub(u, v):
        return (u[0] - v[0], u[1] - v[1])

    def inv(u):
        d = u[0] * u[0] + u[1] * u[1]
        return (u[0] / d, -u[1] / d)
    zero, one = (Fraction(0), Fraction(0)), (Fraction(1), Fraction(0))
    a = [[(Fraction(float(B[i, j].real)), Fraction(float(B[i, j].imag))) for j in range(m)] + [one if i == j else zero for j in range(m)]
         for i in range(m)]
    for c in range(m):
        p = next((r for r in range(c, m) if a[r][c] != zero), None)
        if p is None:
            return None
        a[c], a[p] = a[p], a[c]
        pi = inv(a[c][c])
        a[c] = [mul(v, pi) for v in a[c]]
        for r in range(m):
            if r != c and a[r][c] != zero:
                f = a[r][c]
                a[r] = [sub(vr, mul(f, vc)) for vr, vc in zip(a[r], a[c])]
    return [row[m:] for row in a]


def _enc_frac(f):
    return str(f.numerator) if f.denominator == 1 else f'{f.numerator}/{f.denominator}'


def _same_as_level_s(M, Ad):
    """`_same_as_level` for real or complex data: the stored copy is the level matrix entry by entry, no stored duplicates"""
    if M.shape != Ad.shape or not np.all(np.isfinite(M.data)):
        return False
    if np.iscomplexobj(M.data) and not np.iscomplexobj(Ad):
        return False
    C = M.copy()
    C.sum_duplicates()
    if C.nnz != M.nnz:
        return False
    return bool(np.array_equal(M.toarray(), Ad))


def _bsr_point_diag_ok(A):
    """every point row of the BSR arrays stores exactly one, non-zero, diagonal entry: the diagonal block of every block row is
    stored exactly once and its diagonal has no zero"""
    bs = A.blocksize[0]
    for i in range(A.shape[0] // bs):
        jj = [q for q in range(A.indptr[i], A.indptr[i + 1]) if A.indices[q] == i]
        if len(jj) != 1 or np.any(np.diag(A.data[jj[0]]) == 0):
            return False
    return True


def _bsr_arrays_tok(A, E):
    return f'{A.shape[0] // A.blocksize[0]}:{A.blocksize[0]}:{enc_ints(A.indptr)}:{enc_ints(A.indices)}:{E.vec(np.ravel(A.data))}'


def _bsr_tok_s(A, E):
    """BSR arrays of a square-block matrix and the exact (Gaussian-)rational inverses of its diagonal blocks; None when n/a"""
    bs = A.blocksize[0]
    if A.blocksize[1] != bs or A.shape[0] % bs or A.shape[0] != A.shape[1]:
        return None
    nb = A.shape[0] // bs
    dinv = []
    for i in range(nb):
        D = np.zeros((bs, bs), dtype=complex)
        for jj in range(A.indptr[i], A.indptr[i + 1]):
            if A.indices[jj] == i:
                D = D + A.data[jj]
        inv = _gq_inverse(D)
        if inv is None:
            return None
        dinv += [v for row in inv for v in row]
    if E.cplx:
        dtok = ','.join(_enc_frac(re) + '|' + _enc_frac(im) for (re, im) in dinv)
    else:
        if any(im != 0 for (_, im) in dinv):
            return None
        dtok = ','.join(_enc_frac(re) for (re, _) in dinv)
    return (f'{_bsr_arrays_tok(A, E)}:{dtok}',
            np.array([complex(float(re), float(im)) for (re, im) in dinv]).reshape(nb, bs, bs))


def e55_token(level, Ad, name, kw, E):
    """the recorded relaxation call of the requested smoother on this level as a token of the scalar-polymorphic driver (real or
    complex data; CSR, CSC and BSR levels), or (None, why)"""
    from pyamg.relaxation import relaxation as R
    A = level.A
    it = int(kw.get('iterations', 1))
    sw = kw.get('sweep', 'forward')
    if not _sweep_ok(sw):
        return None, 'sweep'
    if np.iscomplexobj(A.data) and not E.cplx:
        return None, 'complex-data-real-run'
    csr_level = A.format == 'csr'
    bsr_level = A.format == 'bsr' and A.blocksize[0] == A.blocksize[1]
    csr_tok = lambda M: f'{M.shape[0]}:{enc_ints(M.indptr)}:{enc_ints(M.indices)}:{E.vec(M.data)}'

    def point():                # the Gauss-Seidel / SOR / Jacobi kernels divide by THE stored diagonal entry of a row
        if csr_level:
            if not _same_as_level_s(A, Ad):
                return 'matrix-copy'
            return None if _diag_ok(A) else 'no-unique-nonzero-diagonal'
        if bsr_level:
            if not _same_as_level_s(A, Ad):
                return 'matrix-copy'
            return None if _bsr_point_diag_ok(A) else 'no-unique-nonzero-diagonal'
        return 'format'

    def rho_scaled(om, attr, holder=None, power=1):
        holder = A if holder is None else holder
        if not hasattr(holder, attr):
            return None
        return om / getattr(holder, attr) ** power

    if name in ('gauss_seidel', 'sor') or (name == 'block_gauss_seidel' and (csr_level or A.blocksize[0] == 1)):
        why = point()
        if why is not None:
            return None, why
        om = kw.get('omega', 0.5) if name == 'sor' else 1.0
        if csr_level:
            return f'gs:{E.one(om)}:{csr_tok(A)}:{it}:{sw}', None
        return f'bsrgs:{E.one(om)}:{_bsr_arrays_tok(A, E)}:{it}:{sw}', None
    if name == 'jacobi' or (name == 'block_jacobi' and (csr_level or A.blocksize[0] == 1)):
        om = kw.get('omega', 1.0)
        if kw.get('withrho', True):
            om = rho_scaled(om, 'rho_D_inv')
            if om is None:
                return None, 'no-rho'
        why = point()
        if why is not None:
            return None, why
        if csr_level:
            return f'jac:{E.one(om)}:{csr_tok(A)}:{it}', None
        return f'bsrjac:{E.one(om)}:{_bsr_arrays_tok(A, E)}:{it}', None
    if name in ('richardson', 'chebyshev'):
        if not hasattr(A, 'rho'):
            return None, 'no-rho'
        if name == 'richardson':
            coef = [kw.get('omega', 1.0) / A.rho]
        else:
            from pyamg.relaxation.chebyshev import chebyshev_polynomial_coefficients
            lo, hi = kw.get('lower_bound', 1.0 / 30.0), kw.get('upper_bound', 1.1)
            coef = list(-chebyshev_polynomial_coefficients(A.rho * lo, A.rho * hi, kw.get('degree', 3))[:-1])
        M = sp.csr_array(A)
        if not coef or not _same_as_level_s(M, Ad):
            return None, 'matrix-copy'
        return f'poly:{csr_tok(M)}:{E.vec(coef)}:{it}', None
    if name in ('block_jacobi', 'block_gauss_seidel') and bsr_level:
        if not _same_as_level_s(A, Ad):
            return None, 'matrix-copy'
        bt = _bsr_tok_s(A, E)
        if bt is None:
            return None, 'singular-diagonal-block'
        tok, dinv = bt
        from pyamg.util.utils import get_block_diag
        rec = get_block_diag(A, blocksize=A.blocksize[0], inv_flag=True)
        if rec.shape != dinv.shape or np.abs(rec - dinv).max(initial=0.0) > 1e-12 * (1 + np.abs(dinv).max(initial=0.0)):
            return None, 'block-inverse-ill-conditioned'
        if name == 'block_gauss_seidel':
            return f'bgs:{tok}:{it}:{sw}', None
        om = kw.get('omega', 1.0)
        if kw.get('withrho', True):
            om = rho_scaled(om, 'rho_block_D_inv')
            if om is None:
                return None, 'no-rho'
        return f'bjac:{E.one(om)}:{tok}:{it}', None
    if name in ('gauss_seidel_ne', 'jacobi_ne'):
        M = getattr(level, 'Acsr', None)
        if M is None or M.format != 'csr' or not _same_as_level_s(M, Ad):
            return None, 'matrix-copy'
        om = kw.get('omega', 1.0)
        if name == 'gauss_seidel_ne':
            return f'gsne:{E.one(om)}:{csr_tok(M)}:{it}:{sw}', None
        if kw.get('withrho', True):
            om = rho_scaled(om, 'rho_D_inv', M, 2)
            if om is None:
                return None, 'no-rho'
        return f'jacne:{E.one(om)}:{csr_tok(M)}:{it}', None
    if name == 'gauss_seidel_nr':
        M = getattr(level, 'Acsc', None)
        if M is None or M.format != 'csc' or not _same_as_level_s(M, Ad):
            return None, 'matrix-copy'
        return f'gsnr:{E.one(kw.get("omega", 1.0))}:{csr_tok(M)}:{it}:{sw}', None
    if name in ('cf_jacobi', 'fc_jacobi', 'cf_block_jacobi', 'fc_block_jacobi'):
        if not hasattr(level, 'splitting'):
            return None, 'no-splitting'
        fi, ci = int(kw.get('f_iterations', 1)), int(kw.get('c_iterations', 1))
        cf = 1 if name.startswith('cf') else 0
        Fp = np.where(np.logical_not(level.splitting))[0]
        Cp = np.where(level.splitting)[0]
        om = kw.get('omega', 1.0)
        if csr_level:
            if kw.get('withrho', False):
                om = rho_scaled(om, 'rho_D_inv')
                if om is None:
                    return None, 'no-rho'
            why = point()
            if why is not None:
                return None, why
            return f'cfjac:{cf}:{E.one(om)}:{csr_tok(A)}:{enc_ints(Cp)}:{enc_ints(Fp)}:{it}:{fi}:{ci}', None
        if not (bsr_level and name.endswith('block_jacobi') and A.blocksize[0] > 1):
            return None, 'no-model'
        if not _same_as_level_s(A, Ad) or len(level.splitting) * A.blocksize[0] != A.shape[0]:
            return None, 'matrix-copy'
        bt = _bsr_tok_s(A, E)
        if bt is None:
            return None, 'singular-diagonal-block'
        tok, dinv = bt
        from pyamg.util.utils import get_block_diag
        rec = get_block_diag(A, blocksize=A.blocksize[0], inv_flag=True)
        if rec.shape != dinv.shape or np.abs(rec - dinv).max(initial=0.0) > 1e-12 * (1 + np.abs(dinv).max(initial=0.0)):
            return None, 'block-inverse-ill-conditioned'
        if kw.get('withrho', False):
            om = rho_scaled(om, 'rho_block_D_inv')
            if om is None:
                return None, 'no-rho'
        return f'cfbjac:{cf}:{E.one(om)}:{tok}:{enc_ints(Cp)}:{enc_ints(Fp)}:{it}:{fi}:{ci}', None
    if name in ('schwarz', 'strength_based_schwarz'):
        M0 = getattr(level, 'Acsr', None)
        if M0 is None or M0.format != 'csr' or not _same_as_level_s(M0, Ad):
            return None, 'matrix-copy'
        M = M0.copy()                        # a fresh object: no cached parameters
        M.sort_indices()
        if name == 'schwarz' or not hasattr(level, 'C'):
            sub, subp = None, None
        else:
            Cm = level.C.tocsr().copy()
            Cm.sort_indices()
            sub, subp = Cm.indices.copy(), Cm.indptr.copy()
        sub, subp, tx, tp = R.schwarz_parameters(M, sub, subp, None, None)
        if not np.all(np.isfinite(tx)) or np.abs(tx).max(initial=0.0) > 1e8:
            return None, 'subdomain-inverse-size'
        return f'schwarz:{csr_tok(M)}:{E.vec(tx)}:{enc_ints(tp)}:{enc_ints(sub)}:{enc_ints(subp)}:{it}:{sw}', None
    return None, 'no-model'


def _tok_depth55(tok):
    """`_tok_depth` with the three token kinds of E55"""
    f = tok.split(':')
    passes = lambda sw: 2 if sw == 'symmetric' else 1
    if f[0] == 'bsrgs':
        return int(f[2]) * int(f[3]) * passes(f[8]) * int(f[7])
    if f[0] == 'bsrjac':
        return 4 * int(f[7])
    if f[0] == 'cfbjac':
        return 4 * int(f[11]) * (int(f[12]) + int(f[13]))
    return _tok_depth(tok)


def e55_cost_q(tok, n, cplx):
    return 8e-4 * n * n * _tok_depth55(tok) * (6.0 if cplx else 1.0)


def e55_cost_run(toks, dims, c, cpl, cplx):
    depth = sum(v * (_tok_depth55(t1) + _tok_depth55(t2) + 2) for v, (t1, t2) in zip(_visits(c, cpl, len(dims)), toks))
    return 1.5e-5 * dims[0] * depth * depth * (6.0 if cplx else 1.0)


def e55_levels(ctx, H, spec):
    """per level the tokens of the pre / post smoother for the scalar-polymorphic model (probed matrix where no recorded call
    applies); -> (tokens, number of recorded calls E38 could not express, list of (level, side, name, kw, token, is_new))"""
    E = _Enc(H.cplx)
    toks, rec, nnew = [], [], 0
    for i, l in enumerate(H.ml.levels[:-1]):
        L = H.levels[i]
        pair = []
        for side in ('pre', 'post'):
            name, kw = requested(spec, side, i)
            tok = None
            if name is not None:
                try:
                    tok, why = e55_token(l, L['A'], name, kw, E)
                except Exception as e:
                    tok, why = None, 'raised:' + type(e).__name__
                if tok is None:
                    ctx.feat(f'e55:probed-matrix:{name}:{why}')
            if tok is None:
                tok = 'mat:' + E.mat(L['Q' + side])
            else:
                kind = tok.split(':', 1)[0]
                new = H.cplx or kind in E55_NEW_KINDS
                if new:
                    nnew += 1
                    ctx.feat(f'e55:recorded:{"complex:" if H.cplx else ""}{kind}')
                rec.append((i, side, name, kw, tok, new))
            pair.append(tok)
        toks.append(tuple(pair))
    return toks, nnew, rec


def e55_header(H, toks):
    E = _Enc(H.cplx)
    parts = []
    for L, (t1, t2) in zip(H.levels, toks):
        parts += [E.mat(L[k]) for k in ('A', 'P', 'R')] + [t1, t2]
    parts.append(E.mat(H.S))
    return f'{H.nlev - 1} ' + ' '.join(parts)


def e55_q_items(H, spec, rec, items):
    """the requested-smoother check in Lean for the recorded calls E38 cannot express (complex data, BSR point smoothers, CF / FC
    block Jacobi): Q of the recorded call against the Q probed from the installed closure"""
    E = _Enc(H.cplx)
    for (i, side, name, kw, tok, new) in rec:
        if not new:
            continue
        items.append({'lines': [f'c03y_q {E.tag} {E.mat(H.levels[i]["A"])} {tok}'], 'Q': H.levels[i]['Q' + side], 'level': i,
                      'side': side, 'name': name, 'kw': kw, 'spec': spec, 'dims': H.dims, 'e38': True, 'e55': E,
                      'cost': e55_cost_q(tok, H.dims[i], H.cplx)})


def judge_e55(ctx, items, outs):
    """the scalar-polymorphic extended cycle model (recorded relaxation calls executed inside the cycle over the rationals or the
    Gaussian rationals) against the real solve"""
    for it, o in zip(items, outs):
        H, spec, c, cpl, k = it['H'], it['spec'], it['c'], it['cpl'], it['k']
        E = _Enc(H.cplx)
        desc = _case(spec, dims=H.dims, cycle=c, cpl=cpl, k=k, x0=_lst(it['x0']), b=_lst(it['b']))
        ctx.feat('lean:e55-run' + (':complex' if H.cplx else ':real'))
        parts = o.split('#') if o != 'bad-op' else []
        if len(parts) != 4:
            ctx.corr('c03y_run', desc, o[:200], 'n/a', 'the driver rejected the request (a recorded call that is not a call for its '
                     'level matrix, or a malformed line)')
            continue
        if parts[3] != '11':
            ctx.corr('c03y_run model self-check (AllOK; one cycle = the cycle with the matrices Q of the recorded calls)', desc, parts[3], '11')
        sc = it['scale']

        def cmp(what, model, impl, refv):
            if _close(impl, model, sc):
                return
            ctx.corr(what, desc, np.ravel(model)[:6].tolist(), np.ravel(impl)[:6].tolist())
            if not _close(impl, refv, sc):
                ctx.violation(f'{what}: the real code differs from the textbook recursion (extended Lean model and NumPy recursion agree '
                              f'with each other): max difference {np.abs(np.ravel(impl) - np.ravel(refv)).max():.3g}', dict(desc, kind='cycle'))
        cmp(f'scalar-polymorphic extended model: one {c}-cycle cpl={cpl}', E.dec_vec(parts[0]), it['x1'], ref(H, it['x0'], it['b'], c, cpl)[0])
        cmp(f'scalar-polymorphic extended model: solve maxiter={k} {c} cpl={cpl}', E.dec_vec(parts[1]), it['xk'], ref(H, it['x0'], it['b'], c, cpl, k)[0])
        cmp(f'scalar-polymorphic extended model: aspreconditioner({c}) @ b', E.dec_vec(parts[2]), it['pv'],
            ref(H, np.zeros_like(it['b']), it['b'], c, 1)[0])


# ------------------------------------------------------------------------------------------------
# the coarse solve.  The textbook recursion solves the coarsest system with the STORED coarsest matrix levels[-1].A: the
# coarse-solver matrix of the reference (NumPy recursion, Lean requests) is the dense inverse (pseudo-inverse for the pinv solver
# on a singular matrix) recomputed here from levels[-1].A -- not the matrix probed from the solver under test, which is
# compared with it.  A transposed / conjugated / stale factorisation is invisible on real symmetric coarsest matrices, so the
# generator contains a systematic grid: every direct solver name x coarsest matrix real nonsymmetric | complex Hermitian |
# complex nonsymmetric (| real symmetric) x CSR | BSR storage x 1 | 2 | 3 levels.
# ------------------------------------------------------------------------------------------------

DIRECT_COARSE = ('pinv', 'lu', 'cholesky', 'splu')


def _as_bsr(A, bs):
    n = A.shape[0]
    bs = bs if (bs > 0 and n % bs == 0) else 1
    B = sp.csr_array(A).tobsr(blocksize=(bs, bs))
    B.indptr = B.indptr.astype(np.int32)
    B.indices = B.indices.astype(np.int32)
    return B


def _coarsest_kind(Ac):
    if Ac.size == 0:
        return 'empty'
    s = float(np.abs(Ac).max()) or 1.0
    cx = bool(np.iscomplexobj(Ac) and np.abs(Ac.imag).max() > 1e-12 * s)
    if Ac.shape[0] == 1:
        return 'complex-1x1' if cx else 'real-1x1'
    if np.abs(Ac - Ac.conj().T).max() <= 1e-12 * s:
        return 'complex-hermitian' if cx else 'real-symmetric'
    if cx and np.abs(Ac - Ac.T).max() <= 1e-12 * s:
        return 'complex-symmetric'
    return 'complex-nonsymmetric' if cx else 'real-nonsymmetric'


def coarse_reference(ctx, H, spec):
    """compare the probed coarse-solver matrix with the dense (pseudo-)inverse of the stored coarsest matrix and make the latter
    the coarse solve of the reference recursion (H.S) on well-conditioned instances; -> None or the text of a violation"""
    name = spec['coarse'] if isinstance(spec['coarse'], str) else spec['coarse'][0]
    H.Sp = H.S
    Ac = H.Ac
    nc = Ac.shape[0]
    fmt = getattr(H.ml.levels[-1].A, 'format', '?')
    kind = _coarsest_kind(Ac)
    tag = f'{name}:{kind}:{fmt}:L{min(H.nlev, 3)}'
    ctx.feat('coarsest:' + tag)
    if name not in DIRECT_COARSE or nc == 0 or not np.all(np.isfinite(Ac)) or not np.all(np.isfinite(H.Sp)):
        ctx.feat('coarse-oracle:none')
        return None
    try:
        sv = np.linalg.svd(Ac, compute_uv=False)
    except Exception:
        ctx.feat('coarse-oracle:none')
        return None
    smax = float(sv.max(initial=0.0))
    if not smax > 0:
        ctx.feat('coarse-oracle:none(zero matrix)')
        return None
    rel = sv / smax
    extra = 0.0
    if rel.min() >= 1e-8:
        So = np.linalg.inv(Ac)
        cond = 1.0 / float(rel.min())
    elif name == 'pinv' and not np.any((rel > 1e-13) & (rel < 1e-6)):
        # exactly singular with an unambiguous numerical rank: the coarse solve of the pinv solver is the pseudo-inverse
        So = np.linalg.pinv(Ac, rcond=1e-10)
        cond = 1.0 / float(rel[rel >= 1e-6].min())
    else:
        ctx.near_skipped += 1
        ctx.feat('coarse-oracle:none(ill-conditioned)')
        return None
    if name == 'cholesky':
        # applicable to Hermitian positive definite matrices only (the factorisation reads one triangle)
        hd = float(np.abs(Ac - Ac.conj().T).max()) / smax
        try:
            pd = hd <= 1e-13 and float(np.linalg.eigvalsh((Ac + Ac.conj().T) / 2).min()) > 0
        except Exception:
            pd = False
        if not pd:
            ctx.feat('coarse-oracle:none(cholesky not applicable)')
            return None
        extra = 10.0 * hd * cond
    smag = float(np.abs(So).max())
    tol = max(1e-10, 1e3 * np.finfo(float).eps * cond, extra) * smag
    d = float(np.abs(H.Sp - So).max())
    if d > tol:
        how = ''
        for nm, M in (('the inverse of its TRANSPOSE', So.T), ('the inverse of its CONJUGATE', So.conj()),
                      ('the inverse of its CONJUGATE TRANSPOSE', So.conj().T)):
            if np.abs(H.Sp - M).max() <= tol:
                how = f'; it is {nm}'
                break
        return (f'coarse solver {name!r} on the coarsest level ({nc} x {nc}, {kind}, stored as {fmt}, {H.nlev} level(s)): the coarse '
                f'solve is not the solve with the stored coarsest matrix levels[-1].A: |S - A_c^-1| = {d:.3g} (|A_c^-1| = {smag:.3g}, '
                f'condition {cond:.3g}){how}')
    if cond <= 1e4:
        H.S = np.asarray(So, dtype=H.dt)
        ctx.feat('coarse-oracle:dense-inverse-in-reference')
    else:
        ctx.feat('coarse-oracle:compared-only')
    return None


def coarse_specs(rng, full):
    """systematic grid of the direct coarse solvers over the kind / storage of the COARSEST matrix and the depth"""
    fams = {'rnonsym': ['advdiff1d', 'advdiff2d'], 'cherm': ['complex'], 'cnonsym': ['cadvdiff'], 'rsym': ['poisson1d', 'randspd']}
    smo = [['gauss_seidel', {'sweep': 'forward'}], ['jacobi', {'omega': 2.0 / 3.0}], ['gauss_seidel', {'sweep': 'symmetric'}],
           ['sor', {'omega': 1.25, 'sweep': 'backward'}], 'gauss_seidel', ['gauss_seidel_ne', {'sweep': 'backward'}]]
    specs = []
    t = 0
    for kind in ('rnonsym', 'cherm', 'cnonsym', 'rsym'):
        for cs in ['pinv', 'lu', 'splu'] + (['cholesky'] if kind in ('cherm', 'rsym') else []):
            if kind == 'rsym' and cs != 'cholesky' and not full:
                continue          # real symmetric coarsest matrices: the bulk of the random specifications
            for fmt in ('csr', 'bsr'):
                for depth in (1, 2, 3):
                    t += 1
                    r = int(rng.integers(1 << 20))
                    fam = fams[kind][r % len(fams[kind])]
                    s = {'fam': fam, 'n': int(rng.choice([6, 8, 10])) + 4 * (depth - 1),
                         'mseed': int(rng.integers(1 << 30)), 'npseed': int(rng.integers(1 << 30)), 'max_levels': depth,
                         'max_coarse': 2 if depth > 1 else 10, 'via': ['ctor', 'change'][r // 7 % 2],
                         'pre': smo[r // 3 % len(smo)], 'post': smo[r // 11 % len(smo)],
                         'coarse': cs if t % 4 else [cs, {}], 't': 60000 + t, 'light': True, 'cgrid': True, 'opts': {}}
                    agg = {'aggregate': 'standard'}
                    if depth == 1:
                        s['ctor'] = ['sa', 'rootnode'][r // 5 % 2]
                        s['opts'] = dict(agg, smooth='jacobi') if s['ctor'] == 'sa' else agg
                        if fmt == 'bsr':
                            s['tobsr'] = 2
                    elif fmt == 'csr':
                        routes = {'rnonsym': ['rs', 'air', 'manual'], 'rsym': ['rs', 'manual']}.get(kind, ['manual'])
                        s['ctor'] = routes[r // 5 % len(routes)]
                        if s['ctor'] == 'rs':
                            s['opts'] = {'CF': ['RS', 'PMIS'][r // 13 % 2], 'interpolation': ['classical', 'direct'][r // 17 % 2]}
                        elif s['ctor'] == 'air':
                            s['opts'] = {'restrict': ['air', {'theta': 0.05, 'degree': 1}], 'interpolation': 'one_point'}
                    else:
                        s['ctor'] = ['sa', 'rootnode', 'manual'][r // 5 % 3]
                        if s['ctor'] != 'manual':
                            s['opts'] = dict(agg, smooth=[None, 'jacobi'][r // 13 % 2]) if s['ctor'] == 'sa' else agg
                            if depth == 3:          # aggregation coarsens by about 3: keep the coarsest matrix larger than 1 x 1
                                s['n'] += 14
                    if depth > 1 and s['ctor'] in ('sa', 'rootnode', 'air'):
                        # 1-D (banded) members of the family: strength-based coarsening of the others ends at 1 x 1 at once
                        s['fam'] = fams[kind][0]
                    for _ in range(8):
                        A0 = matrix(s['fam'], s['n'], s['mseed'])[0]
                        if depth == 1 and np.linalg.cond(A0.toarray()) < 1e6:          # (the singular one-level case: special_specs)
                            break
                        if depth > 1 and (s['ctor'] not in ('sa', 'rootnode', 'air') or A0.nnz <= 3 * s['n']):
                            break
                        s['mseed'] = int(rng.integers(1 << 30))
                    if s['ctor'] == 'manual':
                        # Galerkin coarse matrices; R = P^H keeps a Hermitian matrix Hermitian, an independent R does not
                        s['manual'] = {'galerkin': True, 'own_R': bool(kind in ('rnonsym', 'cnonsym') and r // 23 % 2), 'depth': depth,
                                       'coarse_fmt': fmt}
                    specs.append(s)
    return specs


def _usable(H):
    """well-posedness of the instance for a tolerance comparison"""
    if not H.S_ok:
        return False
    for L in H.levels:
        for k in ('A', 'P', 'R', 'Qpre', 'Qpost', 'Epre', 'Epost'):
            if not np.all(np.isfinite(L[k])) or np.abs(L[k]).max(initial=0.0) > 1e6:
                return False
    if np.abs(H.S).max(initial=0.0) > 1e8:
        return False
    return True


def process_spec(ctx, spec, lean_items, sm_items, lean_dim, m_dim, nconf):
    """build, take apart and check one specification; returns True when the hierarchy was usable"""
    rng = ctx.np_rng
    try:
        ml, info = build(spec)
    except Exception as e:       # a combination the constructors reject is not a statement about cycles
        ctx.feat('construct-rejected:' + type(e).__name__)
        return False
    try:
        H, problems = take_apart(ml, info, rng)
    except Exception as e:
        ctx.feat('probe-failed:' + type(e).__name__)
        return False
    if not _usable(H) or (H.nlev > 1 and not (H.cond_c < 1e8) and not spec['fam'] == 'neumann1d'):
        ctx.near_skipped += 1
        ctx.feat('skipped:ill-conditioned')
        return False
    if H.nlev >= 2 and not problems:
        # conditioning of the instance: |M v| / |v| of the reference operator on a few vectors (ill-conditioned coarse
        # problems amplify rounding beyond any fixed tolerance)
        amp = 0.0
        for c in ('V', 'W'):
            for _ in range(2):
                v = _rvec(rng, H.dims[0], H.cplx, small=False).astype(H.dt)
                mv, st = ref(H, np.zeros(H.dims[0], dtype=H.dt), v, c, 1)
                amp = max(amp, st / max(1e-300, np.abs(v).max()))
        if not amp < 1e4:
            ctx.near_skipped += 1
            ctx.feat('skipped:ill-conditioned')
            return False
    for (i, side, msg) in problems:
        nm = requested(spec, side, i)
        fkey = None
        if spec.get('changed') is not None and i == 0 and nm[0] in FORMAT_CACHING:
            fkey = 'change-solve-matrix-stale-format-cache'
        ctx.violation((f'after change_solve_matrix(Anew): ' if spec.get('changed') is not None else '') +
                      f'level {i} {side}smoother {nm}: {msg}',
                      _case(spec, dims=H.dims, kind='smoother-affine', level=i, side=side), fkey=fkey)
    if problems:
        return True
    bad_cs = coarse_reference(ctx, H, spec)          # from here on H.S is the dense inverse of the stored coarsest matrix
    if bad_cs is not None:
        ctx.violation(('after change_solve_matrix(Anew): ' if spec.get('changed') is not None else '') + bad_cs,
                      _case(spec, dims=H.dims, kind='coarse-solve'))
        return True
    H.log = _Log()
    check_smoothers_requested(ctx, H, spec)
    instrument(ml, H.log)
    ctx.feat('ctor:' + spec['ctor'])
    if spec.get('changed') is not None:
        ctx.feat('history:change_solve_matrix')
        if ml.levels[0].A.format == 'bsr':
            ctx.feat('history:change_solve_matrix:bsr')
    ctx.feat('fam:' + spec['fam'])
    ctx.feat('coarse:' + (spec['coarse'] if isinstance(spec['coarse'], str) else spec['coarse'][0] + '-tuple'))
    if H.cplx:
        ctx.feat('complex')
    if H.nlev >= 2 and np.abs(H.levels[0]['R'] - H.levels[0]['P'].conj().T).max() > 1e-12:
        ctx.feat('R!=P^H')
    for side in ('pre', 'post'):
        for i in range(H.nlev - 1):
            ctx.feat('smoother:' + str(spec_for_level(spec[side], i)[0]))
    if isinstance(spec['pre'], dict) or isinstance(spec['post'], dict):
        ctx.feat('per-level-smoother-list')
    if spec.get('cgrid'):
        # coarse-solver grid: cycles, fixed point and aspreconditioner against the recursion with the dense coarse inverse
        ctx.feat('coarse-solver-grid')
        confs = [('V', 1)] + ([[('W', 1)], [('F', 2)], [('F', 1)]][spec['t'] % 3] if H.nlev >= 3 else [])
        check_hier(ctx, spec, H, confs, lean_items, False, False, precond=True)
        return True
    if spec.get('light'):
        # smoother option grid: the requested-smoother check above is the point; one cycle type keeps it cheap
        ctx.feat('smoother-grid')
        if not H.cplx and H.nlev >= 2 and max(H.dims) <= lean_dim and not H.inconsistent_coarse:
            # extension E38: the Lean counterpart of the requested-smoother check on the systematic option grid
            _toks, _nrec, rec = e38_levels(ctx, H, spec)
            e38_q_items(H, spec, rec, sm_items)
        if H.nlev >= 2 and max(H.dims) * (2 if H.cplx else 1) <= lean_dim and not H.inconsistent_coarse:
            # extension E55: the same for complex levels, the point smoothers of BSR levels and CF / FC block Jacobi
            _toks, _nnew, rec = e55_levels(ctx, H, spec)
            e55_q_items(H, spec, rec, sm_items)
        check_hier(ctx, spec, H, [('V', 1) if spec['t'] % 2 else ('F', 2)], lean_items, False, False, precond=False)
        return True
    # configurations: always V; W and F where they differ; cycles_per_level >= 2 on deep hierarchies
    confs = [('V', 1)]
    if H.nlev >= 3:
        confs += [('W', 1), ('F', 1)]
        extra = [('F', 2), ('F', 3)]
        confs += [extra[int(rng.integers(2))]] if nconf < 5 else extra
    elif H.nlev == 2 and rng.random() < 0.3:
        confs += [('W', 1), ('F', 2)]
    realdim = H.dims[0] * (2 if H.cplx else 1)
    want_lean = realdim <= lean_dim and not H.inconsistent_coarse
    want_m = realdim <= m_dim
    if H.inconsistent_coarse:
        ctx.feat('coarse-level-smoother-not-consistent(numpy-only)')
    H.e38 = None
    if want_lean:
        smoother_lean_items(H, spec, sm_items)
        if not H.cplx and H.nlev >= 2:
            toks, nrec, rec = e38_levels(ctx, H, spec)
            if nrec:
                H.e38 = e38_header(H, toks)
                H.e38_toks = toks
                e38_q_items(H, spec, rec, sm_items)
    H.e55 = None
    if want_lean and H.nlev >= 2:
        # extension E55: complex hierarchies and hierarchies with BSR-level point smoothers / CF-FC block Jacobi go through the
        # scalar-polymorphic model (which then also carries the recorded calls E38 knows: one exact run per configuration)
        toks, nnew, rec = e55_levels(ctx, H, spec)
        if nnew:
            H.e55 = e55_header(H, toks)
            H.e55_toks = toks
            H.e38 = None
            e55_q_items(H, spec, rec, sm_items)
    check_hier(ctx, spec, H, confs, lean_items, want_lean, want_m)
    return True


def judge_lean(ctx, items, outs):
    """compare the Lean model's results with the real code (correspondence); a disagreement is judged by the NumPy recursion"""
    rng = ctx.np_rng
    for it, o in zip(items, outs):
        H, spec, c, cpl, k = it['H'], it['spec'], it['c'], it['cpl'], it['k']
        desc = _case(spec, dims=H.dims, cycle=c, cpl=cpl, k=k, x0=_lst(it['x0']), b=_lst(it['b']))
        r = parse_reply(H, o) if o != 'bad-op' else None
        ctx.feat('lean:run')
        if r is None:
            ctx.corr('c03_run', desc, o[:200], 'n/a', 'driver rejected the request')
            continue
        if r['flags'] != '111':
            ctx.corr('c03_run model self-check (cycT = cycM, x1 = x0 + M (b - A x0), trace = traceM)', desc, r['flags'], '111')
        sc = it['scale']

        def cmp(what, model, impl, refv):
            if _close(impl, model, sc):
                return
            ctx.corr(what, desc, np.ravel(model)[:6].tolist(), np.ravel(impl)[:6].tolist())
            if not _close(impl, refv, sc):
                ctx.violation(f'{what}: the real code differs from the textbook recursion (Lean model and NumPy recursion agree with '
                              f'each other): max difference {np.abs(np.ravel(impl) - np.ravel(refv)).max():.3g}', dict(desc, kind='cycle'))
        cmp(f'one {c}-cycle cpl={cpl}', r['x1'], it['x1'], ref(H, it['x0'], it['b'], c, cpl)[0])
        cmp(f'solve maxiter={k} {c} cpl={cpl}', r['xk'], it['xk'], ref(H, it['x0'], it['b'], c, cpl, k)[0])
        cmp(f'aspreconditioner({c}) @ b', r['pv'], it['pv'], ref(H, np.zeros_like(it['b']), it['b'], c, 1)[0])
        if r['trace'] != it['trace']:
            ctx.corr(f'order of visits {c} cpl={cpl}', desc, ','.join(r['trace']), ','.join(it['trace']))
            if it['trace'] != py_trace(c, cpl, 0, H.nlev):
                ctx.violation(f'{c}-cycle (cycles_per_level={cpl}) visits {",".join(it["trace"])} instead of the textbook order '
                              f'{",".join(r["trace"])}', dict(desc, kind='trace'))
        if H.nlev >= 2 and it['ptrace'] != py_trace(c, 1, 0, H.nlev):
            ctx.violation(f'aspreconditioner({c!r}) visits {",".join(it["ptrace"])}: not one {c}-cycle with cycles_per_level=1',
                          dict(desc, kind='precond'))
        if 'M' in r and H.nlev >= 2:
            ctx.feat('lean:M')
            M = r['M']
            n = H.dims[0]
            for _ in range(2):          # the matrix M from Lean against the real code on further vectors
                x0 = _rvec(rng, n, H.cplx).astype(H.dt)
                b = _rvec(rng, n, H.cplx).astype(H.dt)
                res = b - it['A0d'] @ x0
                pred = x0 + _unreal_v(M @ _realify_v(res, H.cplx), H.cplx)
                try:
                    y = _solve(H, b, x0, c, cpl)
                except Exception as e:
                    ctx.violation(f'solve raised {type(e).__name__}: {e}', dict(desc, kind='cycle'))
                    break
                yr, s2 = ref(H, x0, b, c, cpl)
                if not _close(y, pred, max(sc, s2)):
                    d2 = _case(spec, dims=H.dims, cycle=c, cpl=cpl, k=k, x0=_lst(x0), b=_lst(b))
                    ctx.corr(f'x0 + M (b - A x0) with M from the model, {c} cpl={cpl}', d2, pred[:6].tolist(), np.ravel(y)[:6].tolist())
                    if not _close(y, yr, max(sc, s2)):
                        ctx.violation(f'one {c}-cycle (cycles_per_level={cpl}) is not x0 + M (b - A x0) for the textbook M: '
                                      f'max difference {np.abs(np.ravel(y) - yr).max():.3g}', dict(d2, kind='cycle'))
                if cpl == 1:
                    mv = np.ravel(H.ml.aspreconditioner(cycle=c) @ b)
                    pm = _unreal_v(M @ _realify_v(b, H.cplx), H.cplx)
                    if not _close(mv, pm, max(sc, s2)):
                        d2 = _case(spec, dims=H.dims, cycle=c, cpl=1, k=k, x0=_lst(np.zeros(n)), b=_lst(b))
                        ctx.corr(f'aspreconditioner({c}) @ v vs M v with M from the model', d2, pm[:6].tolist(), mv[:6].tolist())
                        if not _close(mv, ref(H, np.zeros(n, dtype=H.dt), b, c, 1)[0], max(sc, s2)):
                            ctx.violation(f'aspreconditioner(cycle={c!r}) @ v is not M v for the textbook M of the requested cycle type',
                                          dict(d2, kind='precond'))


def grid_specs(rng, full):
    """systematic option grid of every linear smoother family (both sides, per-level lists of all length combinations) on three
    small base hierarchies: classical (CSR, CF splitting), AIR (nonsymmetric) and elasticity (BSR blocks)"""
    sweeps = ['forward', 'backward', 'symmetric']
    g = []
    for sw in sweeps:
        for it in (1, 2):
            g.append(['gauss_seidel', {'sweep': sw, 'iterations': it}])
            g.append(['block_gauss_seidel', {'sweep': sw, 'iterations': it}])
            for om in (0.5, 1.25):
                g.append(['sor', {'omega': om, 'sweep': sw, 'iterations': it}])
                g.append(['gauss_seidel_ne', {'omega': om, 'sweep': sw, 'iterations': it}])
                g.append(['gauss_seidel_nr', {'omega': om, 'sweep': sw, 'iterations': it}])
            g.append(['schwarz', {'sweep': sw, 'iterations': it}])
        g.append(['strength_based_schwarz', {'sweep': sw, 'iterations': 2}])
    g += ['gauss_seidel', 'sor', 'jacobi', 'richardson', 'chebyshev', 'jacobi_ne', 'gauss_seidel_ne', 'gauss_seidel_nr',
          'block_jacobi', 'block_gauss_seidel', 'cf_jacobi', 'fc_jacobi', 'cf_block_jacobi', 'fc_block_jacobi', 'schwarz', None]
    for om in (1.0, 2.0 / 3.0):
        for it in (1, 2):
            for wr in (True, False):
                g.append(['jacobi', {'omega': om, 'iterations': it, 'withrho': wr}])
                g.append(['block_jacobi', {'omega': om, 'iterations': it, 'withrho': wr}])
                g.append(['jacobi_ne', {'omega': om, 'iterations': it, 'withrho': wr}])
            g.append(['richardson', {'omega': om, 'iterations': it}])
    for deg in (1, 2, 3, 4):
        for it in (1, 2):
            g.append(['chebyshev', {'degree': deg, 'iterations': it}])
    g.append(['chebyshev', {'degree': 2, 'lower_bound': 0.1, 'upper_bound': 1.2}])
    for nm in ('cf_jacobi', 'fc_jacobi', 'cf_block_jacobi', 'fc_block_jacobi'):
        for (fi, ci) in ((1, 1), (2, 1), (1, 2), (3, 2)):
            for it in (1, 2):
                g.append([nm, {'f_iterations': fi, 'c_iterations': ci, 'iterations': it, 'omega': 2.0 / 3.0,
                               'withrho': bool((fi + ci + it) % 2)}])
    bases = {
        'rs': {'fam': 'poisson1d', 'n': 15, 'mseed': 3, 'ctor': 'rs', 'max_levels': 4, 'max_coarse': 1, 'coarse': 'pinv',
               'opts': {'CF': 'RS', 'interpolation': 'classical'}},
        'air': {'fam': 'advdiff1d', 'n': 12, 'mseed': 4, 'ctor': 'air', 'max_levels': 4, 'max_coarse': 1, 'coarse': 'splu',
                'opts': {'restrict': ['air', {'theta': 0.05, 'degree': 1}], 'interpolation': 'one_point'}},
        'bsr': {'fam': 'elasticity', 'n': 18, 'mseed': 5, 'ctor': 'sa', 'max_levels': 3, 'max_coarse': 2, 'coarse': 'pinv',
                'opts': {'aggregate': 'standard', 'smooth': 'jacobi'}},
    }

    def ok_for(base, s):
        nm = s[0] if isinstance(s, list) else s
        if nm is None:
            return True
        if nm.startswith(('cf_', 'fc_')):
            return base in ('rs', 'air')
        if 'schwarz' in nm:
            return base == 'rs'
        return True
    order = [int(i) for i in rng.permutation(len(g))]
    specs = []
    t = 0
    for idx, i in enumerate(order):
        s1 = g[i]
        s2 = g[order[(idx + 7) % len(order)]]
        nm1 = s1[0] if isinstance(s1, list) else s1
        base = 'bsr' if (nm1 or '').startswith('block_') else ['rs', 'air', 'bsr'][t % 3]
        if not ok_for(base, s1):
            base = 'rs'
        if not ok_for(base, s2):
            s2 = s1
        mode = t % 6
        if mode == 0:
            pre, post = s1, s2
        elif mode == 1:
            pre, post = s2, s1
        elif mode == 2:
            pre, post = {'levels': [s1, s2]}, s1                      # lists of different lengths
        elif mode == 3:
            pre, post = s2, {'levels': [s2, s1, s1]}
        elif mode == 4:
            pre, post = {'levels': [s1, s2, s1]}, {'levels': [s2, s1]}     # both lists longer than one: entries 1.. matter
        else:
            pre, post = {'levels': [s2, s1]}, {'levels': [s1, s2, s2]}
        sp_ = dict(bases[base])
        sp_.update(pre=pre, post=post, via=['change', 'ctor'][t % 2], npseed=1000 + t, t=50000 + t, light=True)
        specs.append(sp_)
        t += 1
    # ---- extension E55: CF / FC block Jacobi on BSR levels (a CF splitting of the block rows is supplied) next to the point
    # smoothers of BSR levels, and every family -- first of all the conjugating `_ne` / `_nr` kernels -- on a complex Hermitian
    # (smoothed aggregation) and on a complex nonsymmetric (hand-built, independent R, CF splitting) base hierarchy
    combos = [(1, 1, 1), (2, 1, 1), (1, 2, 2), (3, 2, 1)]
    mates = [['gauss_seidel', {'sweep': 'symmetric'}], ['jacobi', {'omega': 2.0 / 3.0, 'withrho': True}],
             ['sor', {'omega': 1.25, 'sweep': 'backward'}], ['gauss_seidel', {'sweep': 'backward', 'iterations': 2}]]
    for j, nm in enumerate(('cf_block_jacobi', 'fc_block_jacobi')):
        for (fi, ci, it) in (combos if full else combos[:2]):
            s1 = [nm, {'f_iterations': fi, 'c_iterations': ci, 'iterations': it, 'omega': 2.0 / 3.0, 'withrho': bool((fi + ci + it) % 2)}]
            s2 = mates[(fi + ci + it + j) % 4]
            sp_ = dict(bases['bsr'])
            sp_.update(pre=s1 if j == 0 else s2, post=s2 if j == 0 else s1, via='change', block_split=40 + t, npseed=1000 + t,
                       t=50000 + t, light=True)
            specs.append(sp_)
            t += 1
    cbases = {
        'herm': {'fam': 'complex', 'n': 9, 'mseed': 6, 'ctor': 'sa', 'max_levels': 3, 'max_coarse': 2, 'coarse': 'pinv',
                 'opts': {'aggregate': 'standard', 'smooth': 'jacobi'}},
        'nonsym': {'fam': 'cadvdiff', 'n': 8, 'mseed': 7, 'ctor': 'manual', 'max_levels': 3, 'max_coarse': 2, 'coarse': 'lu', 'opts': {},
                   'manual': {'galerkin': True, 'own_R': True, 'depth': 3}},
    }
    cg = []
    for sw in sweeps:
        cg.append(['gauss_seidel_ne', {'omega': 1.25, 'sweep': sw, 'iterations': 1}])
        cg.append(['gauss_seidel_nr', {'omega': 0.5, 'sweep': sw, 'iterations': 2 if sw == 'forward' else 1}])
    cg += [['jacobi_ne', {'omega': 2.0 / 3.0, 'iterations': 2, 'withrho': True}], ['jacobi_ne', {'omega': 0.5, 'withrho': False}],
           ['gauss_seidel', {'sweep': 'symmetric'}], ['sor', {'omega': 1.25, 'sweep': 'backward'}],
           ['jacobi', {'omega': 2.0 / 3.0, 'iterations': 2, 'withrho': True}], ['chebyshev', {'degree': 2}],
           ['richardson', {'omega': 0.5, 'iterations': 2}], ['block_gauss_seidel', {'sweep': 'forward'}],
           ['cf_jacobi', {'omega': 2.0 / 3.0, 'f_iterations': 2, 'c_iterations': 1}], ['fc_jacobi', {'omega': 0.5, 'iterations': 2}]]
    # complex Hermitian BSR hierarchy (2 x 2 and 3 x 3 complex blocks): block smoothers, point smoothers, CF / FC block Jacobi
    cb = [['block_gauss_seidel', {'sweep': 'symmetric'}], ['block_jacobi', {'omega': 2.0 / 3.0, 'withrho': True}],
          ['cf_block_jacobi', {'omega': 2.0 / 3.0, 'f_iterations': 2, 'c_iterations': 1}], ['gauss_seidel', {'sweep': 'backward'}],
          ['fc_block_jacobi', {'omega': 0.5, 'iterations': 2, 'withrho': True}], ['jacobi', {'omega': 2.0 / 3.0, 'withrho': True}],
          ['block_gauss_seidel', {'sweep': 'backward', 'iterations': 2}], ['sor', {'omega': 1.25, 'sweep': 'symmetric'}]]
    for j in range(0, len(cb) if full else 4, 2):
        sp_ = {'fam': 'celasticity', 'n': 16, 'mseed': 9, 'ctor': 'sa', 'max_levels': 3, 'max_coarse': 2, 'coarse': 'pinv',
               'opts': {'aggregate': 'standard', 'smooth': 'jacobi'}}
        sp_.update(pre=cb[j], post=cb[j + 1], via='change', block_split=80 + t, npseed=1000 + t, t=50000 + t, light=True)
        specs.append(sp_)
        t += 1
    if not full:
        cg = cg[:8] + cg[14:15]
    for j, s1 in enumerate(cg):
        base = 'nonsym' if (j % 2 or s1[0].startswith(('cf_', 'fc_'))) else 'herm'
        s2 = cg[(j + 3) % len(cg)]
        if s2[0].startswith(('cf_', 'fc_')) and base == 'herm':
            s2 = s1
        sp_ = dict(cbases[base])
        sp_.update(pre=s1, post=s2, via='change', npseed=1000 + t, t=50000 + t, light=True)
        specs.append(sp_)
        t += 1
    return specs


def special_specs():
    """dedicated corner cases that every run contains"""
    return [
        # one-level hierarchies: nonsingular (direct solve == x + A^-1 (b - A x)) and singular with pinv (see META)
        {'fam': 'poisson1d', 'n': 6, 'mseed': 1, 'npseed': 1, 'ctor': 'sa', 'max_levels': 1, 'max_coarse': 10, 'via': 'ctor',
         'pre': 'gauss_seidel', 'post': 'gauss_seidel', 'coarse': 'lu', 'opts': {'aggregate': 'standard', 'smooth': 'jacobi'}, 't': -1},
        {'fam': 'neumann1d', 'n': 5, 'mseed': 1, 'npseed': 1, 'ctor': 'sa', 'max_levels': 1, 'max_coarse': 10, 'via': 'ctor',
         'pre': 'gauss_seidel', 'post': 'gauss_seidel', 'coarse': 'pinv', 'opts': {'aggregate': 'standard', 'smooth': 'jacobi'}, 't': -2},
        # deep default hierarchies
        {'fam': 'poisson1d', 'n': 31, 'mseed': 1, 'npseed': 2, 'ctor': 'rs', 'max_levels': 10, 'max_coarse': 1, 'via': 'ctor',
         'pre': ['gauss_seidel', {'sweep': 'forward'}], 'post': ['gauss_seidel', {'sweep': 'backward', 'iterations': 2}],
         'coarse': 'pinv', 'opts': {'CF': 'RS', 'interpolation': 'classical'}, 't': -3},
        {'fam': 'poisson1d', 'n': 27, 'mseed': 1, 'npseed': 3, 'ctor': 'sa', 'max_levels': 10, 'max_coarse': 1, 'via': 'change',
         'pre': {'levels': [['jacobi', {'omega': 0.5, 'withrho': False}], 'gauss_seidel']},
         'post': ['sor', {'omega': 1.25, 'sweep': 'symmetric'}], 'coarse': 'splu',
         'opts': {'aggregate': 'standard', 'smooth': 'jacobi'}, 't': -4},
        {'fam': 'advdiff1d', 'n': 24, 'mseed': 5, 'npseed': 4, 'ctor': 'air', 'max_levels': 10, 'max_coarse': 2, 'via': 'ctor',
         'pre': None, 'post': ['fc_jacobi', {'omega': 1.0, 'iterations': 1, 'withrho': False, 'f_iterations': 2, 'c_iterations': 1}],
         'coarse': 'pinv', 'opts': {'restrict': ['air', {'theta': 0.05, 'degree': 2}], 'interpolation': 'one_point'}, 't': -5},
        # extension E55: complex Hermitian and complex nonsymmetric hierarchies with the conjugating kernels, a BSR hierarchy with
        # FC block Jacobi and a point smoother -- every run sends these through the scalar-polymorphic extended model (c03y_run)
        {'fam': 'complex', 'n': 6, 'mseed': 2, 'npseed': 5, 'ctor': 'sa', 'max_levels': 2, 'max_coarse': 2, 'via': 'ctor',
         'pre': ['gauss_seidel_ne', {'sweep': 'symmetric', 'omega': 1.0}], 'post': ['gauss_seidel_nr', {'sweep': 'forward', 'omega': 0.5}],
         'coarse': 'pinv', 'opts': {'aggregate': 'standard', 'smooth': 'jacobi'}, 't': -6},
        {'fam': 'cadvdiff', 'n': 7, 'mseed': 3, 'npseed': 6, 'ctor': 'manual', 'max_levels': 3, 'max_coarse': 1, 'via': 'change',
         'pre': ['jacobi_ne', {'omega': 0.5, 'withrho': True}], 'post': ['cf_jacobi', {'omega': 2.0 / 3.0, 'f_iterations': 2}],
         'coarse': 'lu', 'opts': {}, 'manual': {'galerkin': True, 'own_R': True, 'depth': 3}, 't': -7},
        {'fam': 'elasticity', 'n': 16, 'mseed': 5, 'npseed': 7, 'ctor': 'sa', 'max_levels': 2, 'max_coarse': 2, 'via': 'change',
         'block_split': 17, 'pre': ['fc_block_jacobi', {'omega': 2.0 / 3.0, 'f_iterations': 2, 'c_iterations': 1}],
         'post': ['gauss_seidel', {'sweep': 'symmetric'}], 'coarse': 'pinv', 'opts': {'aggregate': 'standard', 'smooth': 'jacobi'},
         't': -8},
        {'fam': 'celasticity', 'n': 16, 'mseed': 9, 'npseed': 8, 'ctor': 'sa', 'max_levels': 2, 'max_coarse': 2, 'via': 'change',
         'block_split': 23, 'pre': ['block_gauss_seidel', {'sweep': 'forward'}],
         'post': ['cf_block_jacobi', {'omega': 2.0 / 3.0, 'f_iterations': 1, 'c_iterations': 2}], 'coarse': 'pinv',
         'opts': {'aggregate': 'standard', 'smooth': 'jacobi'}, 't': -9},
    ]


def _lean(ctx, lines, chunks):
    """ctx.lean with a few retries: while another property's Lean files are being rebuilt concurrently the shared driver
    is briefly unavailable (an infrastructure condition, not a result)"""
    import time
    from common import InfraError
    for attempt in range(4):
        try:
            return ctx.lean(lines, chunks=chunks)
        except InfraError:
            if attempt == 3:
                raise
            time.sleep(20)


def _lean_balanced(ctx, heavy, light, chunks=8):
    """one driver batch for the (expensive) cycle requests and the (cheap) smoother requests; common.lean_batch cuts the
    list into `chunks` contiguous blocks that run in parallel, so the expensive lines are dealt round-robin over the blocks"""
    n = len(heavy) + len(light)
    if n == 0:
        return [], []
    if n < 4 * chunks or len(heavy) < chunks:
        outs = _lean(ctx, heavy + light, 1)
        return outs[:len(heavy)], outs[len(heavy):]
    size = (n + chunks - 1) // chunks
    cost = sorted(range(len(heavy)), key=lambda i: -len(heavy[i]))
    blocks = [[] for _ in range(chunks)]
    for r, i in enumerate(cost):
        blocks[r % chunks].append(('h', i))
    li = 0
    for blk in blocks:
        while len(blk) < size and li < len(light):
            blk.append(('l', li))
            li += 1
    order = [e for blk in blocks for e in blk]
    assert len(order) == n
    outs = _lean(ctx, [heavy[i] if k == 'h' else light[i] for k, i in order], chunks)
    oh, ol = [None] * len(heavy), [None] * len(light)
    for (k, i), o in zip(order, outs):
        if k == 'h':
            oh[i] = o
        else:
            ol[i] = o
    return oh, ol


def run_specs(ctx, specs, lean_dim, m_dim, nconf=4, batch=None):
    used = 0
    batch = batch or (10 ** 9 if ctx.quick else 240)
    for start in range(0, len(specs), batch):
        lean_items, sm_items = [], []
        for spec in specs[start:start + batch]:
            if ctx.time_left() < (25 if ctx.quick else 150):
                ctx.feat('budget-stop')
                break
            if process_spec(ctx, spec, lean_items, sm_items, lean_dim, m_dim, nconf):
                used += 1
        e17_items = [it for it in lean_items if 'e17' in it]
        # extension E38: exact arithmetic on the recorded calls is affordable only on small / shallow instances -- the requests
        # are taken in the order of their estimated cost until the budget of this batch is used (deterministic for a seed)
        nb = max(1, (len(specs) + batch - 1) // batch)
        budget = (500.0 if ctx.quick else 5000.0) / nb
        cap = 12.0 if ctx.quick else 90.0
        cand = ([('run', it['e38_cost'], id(it), it) for it in lean_items if 'e38' in it]
                + [('run55' + ('c' if it['H'].cplx else 'r'), it['e55_cost'], id(it), it) for it in lean_items if 'e55' in it]
                + [(('q55' + it['e55'].tag + ':' + _q_sig(it)) if it.get('e55') else ('q:' + _q_kind(it)), it['cost'], id(it), it)
                   for it in sm_items if it.get('e38')])
        cand.sort(key=lambda z: z[1])
        keep, seen = set(), set()
        # the E38 requests and the E55 requests (complex data, smoothers of BSR levels) have budgets of their own, so that the
        # newer ones do not displace the older ones
        groups = ((lambda kd: not kd.startswith(('run55', 'q55')), budget),
                  (lambda kd: kd.startswith('run55'), (40.0 if ctx.quick else 700.0) / nb),
                  (lambda kd: kd.startswith('q55'), (50.0 if ctx.quick else 700.0) / nb))
        for member, bud in groups:
            used_cost = 0.0
            for first_of_kind in (True, False):          # the cheapest request of every family first, then by cost
                for kind, cost, key, it in cand:
                    if not member(kind) or key in keep or (first_of_kind and kind in seen):
                        continue
                    if cost <= cap and used_cost + cost <= bud:
                        keep.add(key)
                        seen.add(kind)
                        used_cost += cost
        for kind, cost, key, it in cand:
            if key not in keep:
                ctx.feat('e38:skipped-cost:' + kind.split(':')[0])
        for it in lean_items:
            if 'e38' in it and id(it) not in keep:
                del it['e38']
            if 'e55' in it and id(it) not in keep:
                del it['e55']
        sm_items = [it for it in sm_items if not it.get('e38') or id(it) in keep]
        e38_items = [it for it in lean_items if 'e38' in it]
        e55_items = [it for it in lean_items if 'e55' in it]
        heavy = ([it['line'] for it in lean_items] + [ln for it in e17_items for ln in it['e17']['lines']]
                 + [it['e38'] for it in e38_items] + [it['e55'] for it in e55_items])
        light = [ln for it in sm_items for ln in it['lines']]
        oh, ol = _lean_balanced(ctx, heavy, light)
        judge_lean(ctx, lean_items, oh[:len(lean_items)])
        n17 = sum(len(it['e17']['lines']) for it in e17_items)
        judge_e17(ctx, e17_items, oh[len(lean_items):len(lean_items) + n17])
        judge_e38(ctx, e38_items, oh[len(lean_items) + n17:len(lean_items) + n17 + len(e38_items)])
        judge_e55(ctx, e55_items, oh[len(lean_items) + n17 + len(e38_items):])
        judge_smoothers(ctx, sm_items, ol)
        if ctx.time_left() < (25 if ctx.quick else 150):
            break
    return used


def part_pylogic3(ctx):
    """extension E57: MultilevelSolver.__solve (the V / W / F / AMLI cycle recursion) as GENERATED from the working tree
    (harness/py2lean3_cycle.py, Generated/PyLogic3_cycle.lean) vs the real method executed against mock hierarchies
    (harness/extpy3_cycle.py): result, exception class and the whole trace are compared exactly"""
    import extpy3_cycle

    def lean(c, lines):
        return c.lean(lines)
    extpy3_cycle.part_cycle(ctx, ctx.scale(250, 5000), lean)


# ---------------------------------------------------------------------------------------------------------------------------------
# units of the matrix (wave 6, stored seed C03-11): a direct coarse solve is homogeneous of degree -1, so the cycle operator of
# s*A is M/s.  Scaling by an exact power of two changes no rounding, hence the real code on s*A must reproduce (a) the dense
# solve with the scaled coarsest matrix and (b) the cycle of the unscaled hierarchy (itself compared with the textbook
# recursion by the other parts) divided by s.  An absolute singular-value / pivot cutoff in a coarse solver shows up here.
SCALE_EXPS = (-70, -52, -30, 30, 70)


def scaled_coarse_cases(rng, full):
    cases = []
    t = 0
    for name in ('pinv', 'lu', 'splu', 'cholesky'):
        fams = ['poisson1d', 'randspd'] if name == 'cholesky' else ['advdiff1d', 'poisson1d', 'randspd', 'advdiff2d']
        for e in SCALE_EXPS + ((-200, 200) if full else ()):
            for levels in (1, 2):
                t += 1
                cases.append({'name': name, 'exp': int(e), 'levels': levels, 'fam': fams[t % len(fams)],
                              'n': int(rng.choice([5, 7, 9])) + 6 * (levels - 1), 'mseed': int(rng.integers(1 << 30)),
                              'vseed': int(rng.integers(1 << 30)), 'kwargs': bool(t % 3 == 0)})
    return cases


def run_scaled_coarse_case(ctx, c):
    """-> None (held / not judged) or the text of the violation"""
    import pyamg
    from pyamg.multilevel import MultilevelSolver, coarse_grid_solver
    from pyamg.relaxation.smoothing import change_smoothers
    import scipy.sparse as sp
    A = None
    ms = c['mseed']
    for k in range(8):
        A0 = matrix(c['fam'], c['n'], ms + k)[0]
        if np.linalg.cond(A0.toarray()) < 1e3:
            A = sp.csr_matrix(A0)
            break
    if A is None or np.iscomplexobj(A.data):
        ctx.feat('scaled-coarse:skipped(no well-conditioned matrix)')
        return None
    s = float(2.0 ** c['exp'])
    n = A.shape[0]
    vr = np.random.default_rng(c['vseed'])
    b = vr.integers(-4, 5, size=n).astype(float)
    b[0] += 1.0
    As = sp.csr_matrix(A * s)
    cs = c['name'] if not c['kwargs'] else (c['name'], {})
    tag = f"coarse solver {c['name']!r} on a {n} x {n} {c['fam']} matrix scaled by 2^{c['exp']}"
    ctx.feat(f"scaled-coarse:{c['name']}:L{c['levels']}")
    if c['levels'] == 1:
        want = np.linalg.solve(A.toarray(), b) / s
        lvl = MultilevelSolver.Level()
        lvl.A = As
        got = np.ravel(MultilevelSolver([lvl], coarse_solver=cs).solve(b.copy(), maxiter=1, tol=1e-30))
        got2 = np.ravel(coarse_grid_solver(cs)(As, b.copy()))
        for nm, g in (('MultilevelSolver([one level]).solve(b)', got), ('coarse_grid_solver(..)(A, b)', got2)):
            if not np.all(np.isfinite(g)) or np.abs(g - want).max() > 1e-9 * max(1e-300, np.abs(want).max()):
                return (f'{tag}: {nm} is not the direct solve with the stored matrix: max |x - A^-1 b| = '
                        f'{float(np.abs(g - want).max()):.3g}, |A^-1 b| = {float(np.abs(want).max()):.3g}')
        return None
    # two levels: the same aggregation hierarchy in both units (P, R shared; the level matrices scaled exactly)
    np.random.seed(c['vseed'] % (1 << 30))
    try:
        ml = pyamg.smoothed_aggregation_solver(A, max_levels=2, max_coarse=1, coarse_solver=cs, smooth=None, symmetry='nonsymmetric',
                                               strength=None, presmoother=('gauss_seidel', {'sweep': 'forward'}),
                                               postsmoother=('gauss_seidel', {'sweep': 'backward'}))
    except Exception as e:
        ctx.feat('scaled-coarse:construct-rejected:' + type(e).__name__)
        return None
    if len(ml.levels) != 2 or ml.levels[1].A.shape[0] < 2 or not np.linalg.cond(ml.levels[1].A.toarray()) < 1e4:
        ctx.feat('scaled-coarse:skipped(coarse level)')
        return None
    lv = []
    for L in ml.levels:
        M = MultilevelSolver.Level()
        M.A = sp.csr_matrix(L.A * s)
        if hasattr(L, 'P'):
            M.P, M.R = L.P.copy(), L.R.copy()
        lv.append(M)
    ml2 = MultilevelSolver(lv, coarse_solver=cs)
    change_smoothers(ml2, ('gauss_seidel', {'sweep': 'forward'}), ('gauss_seidel', {'sweep': 'backward'}))
    for cyc in ('V', 'W'):
        want = np.ravel(ml.solve(b.copy(), maxiter=1, tol=1e-30, cycle=cyc))
        got = np.ravel(ml2.solve(b * s, maxiter=1, tol=1e-30, cycle=cyc))
        # independent of the first hierarchy: the exact two-grid formula with the dense coarse inverse
        Ad, P, R = ml.levels[0].A.toarray(), ml.levels[0].P.toarray(), ml.levels[0].R.toarray()
        Lo, Up = np.tril(Ad), np.triu(Ad)
        x1 = np.linalg.solve(Lo, b)
        x2 = x1 + P @ np.linalg.solve(ml.levels[1].A.toarray(), R @ (b - Ad @ x1))
        x3 = x2 + np.linalg.solve(Up, b - Ad @ x2)
        sc = max(1e-300, np.abs(x3).max())
        for nm, g, w in ((f'one {cyc}-cycle on s*A with right-hand side s*b', got, x3), (f'one {cyc}-cycle on A', want, x3)):
            if not np.all(np.isfinite(g)) or np.abs(g - w).max() > 1e-8 * sc:
                return (f'{tag} (two levels, coarsest {ml.levels[1].A.shape[0]} x {ml.levels[1].A.shape[0]}): {nm} is not the '
                        f'textbook two-grid cycle with the exact coarse solve: max diff {float(np.abs(g - w).max()):.3g}, '
                        f'|x| = {sc:.3g}')
    return None


def part_scaled_coarse(ctx, full=False):
    # own generator: the stream of the other parts (and so their sampled specifications per seed) stays what it was
    own = np.random.default_rng([int(ctx.seed) & 0xffffffff, 0xC03B])
    for c in scaled_coarse_cases(own, full or not ctx.quick):
        try:
            bad = run_scaled_coarse_case(ctx, c)
        except Exception as e:          # raising is not a statement about the cycle operator
            ctx.feat('scaled-coarse:raised:' + type(e).__name__)
            continue
        ctx.case(key=('scaled-coarse', c['name'], c['exp'], c['levels'], c['fam'], c['n'], c['mseed']), nontrivial=True)
        if bad is not None:
            ctx.violation(bad, {'kind': 'scaled-coarse', 'scaled': c})


def run(ctx):
    part_pylogic3(ctx)
    part_scaled_coarse(ctx)
    rng = ctx.np_rng
    n_small = ctx.scale(48, 1600)
    n_big = ctx.scale(6, 250)
    sp_ = special_specs()
    specs = [s for s in sp_ if s['fam'] != 'neumann1d']
    grid = grid_specs(rng, not ctx.quick)
    specs += grid
    specs += [dict(g, changed=7000 + i, t=g['t'] + 100000) for i, g in enumerate(grid)]     # every smoother family after change_solve_matrix
    rnd = [gen_spec(rng, t) for t in range(n_small)]
    specs += rnd
    specs += [dict(g, changed=9000 + i, t=g['t'] + 100000) for i, g in enumerate(rnd) if i % 3 == 0 and g['max_levels'] > 1]
    specs += [gen_spec(rng, 10000 + t, big=True) for t in range(n_big)]
    specs += [s for s in sp_ if s['fam'] == 'neumann1d']      # the singular one-level case (known finding) goes last
    # every direct coarse solver x kind / storage of the coarsest matrix x depth (drawn last, run right after the corner cases)
    cg = [s for rep in range(ctx.scale(1, 4)) for s in coarse_specs(rng, not ctx.quick)]
    nsp = sum(1 for s in sp_ if s['fam'] != 'neumann1d')
    specs = specs[:nsp] + cg + specs[nsp:]
    run_specs(ctx, specs, lean_dim=ctx.scale(34, 44), m_dim=ctx.scale(13, 17))


def search(ctx):
    part_scaled_coarse(ctx, full=True)
    rng = ctx.np_rng
    grid = grid_specs(rng, True)
    rnd = [gen_spec(rng, 20000 + t) for t in range(150)]
    specs = (grid + [dict(g, changed=7000 + i, t=g['t'] + 100000) for i, g in enumerate(grid)] + rnd
             + [dict(g, changed=9000 + i, t=g['t'] + 100000) for i, g in enumerate(rnd) if i % 2 == 0 and g['max_levels'] > 1]
             + [gen_spec(rng, 30000 + t, big=True) for t in range(20)])
    specs = [s for rep in range(3) for s in coarse_specs(rng, True)] + specs
    run_specs(ctx, specs, lean_dim=0, m_dim=0, nconf=5)


def replay(ctx, data):
    case = data['case']
    if case.get('kind') == 'scaled-coarse':
        bad = run_scaled_coarse_case(ctx, case['scaled'])
        print('scaled coarse case', case['scaled'], '->', bad or 'holds')
        if bad is not None:
            ctx.violation(bad, case)
        return
    spec = case['spec']
    print('replaying', {k: spec[k] for k in spec if k not in ('manual',)}, 'kind', case.get('kind'))
    ml, info = build(spec)
    H, problems = take_apart(ml, info, ctx.np_rng)
    print('levels', H.dims, 'smoother problems', problems)
    bad_cs = coarse_reference(ctx, H, spec)
    print('coarse solver vs the dense inverse of levels[-1].A:', bad_cs or 'agree (or no dense oracle for this instance)')
    if bad_cs is not None:
        ctx.violation(bad_cs, _case(spec, dims=H.dims, kind='coarse-solve'))
        H.S = H.Sp
    H.log = _Log()
    check_smoothers_requested(ctx, H, spec)
    instrument(ml, H.log)
    if 'cycle' in case and 'b' in case:
        c, cpl = case['cycle'], case.get('cpl', 1)
        cpx = H.cplx or any(str(case.get(q, '')).startswith('c') for q in ('b_dtype', 'x0_dtype'))
        b = _vec(case['b'], cpx)
        x0 = _vec(case['x0'], cpx) if 'x0' in case else np.zeros_like(b)
        yr, sc = ref_any(H, x0, b, c, cpl)
        if 'b_dtype' in case:          # a storage-type case: the recorded values in the recorded storage types
            b, x0 = _retype(b, case.get('b_dtype')), _retype(x0, case.get('x0_dtype'))
            print('storage: b', case.get('b_dtype'), 'x0', case.get('x0_dtype'), 'matrix', ml.levels[0].A.dtype)
        y = _solve(H, b, x0, c, cpl)
        print(f'one {c}-cycle cpl={cpl}: real', np.ravel(y)[:6].tolist(), 'textbook', yr[:6].tolist(), 'max diff', float(np.abs(np.ravel(y) - yr).max()))
        print('visits', ','.join(H.log.ev), '| textbook', ','.join(py_trace(c, cpl, 0, H.nlev)))
    if 'maxiter' in case and 'x0given' in case and 'b' in case:        # an E17 case: the solve with its options, against the oracle
        c, cpl = case['cycle'], case.get('cpl', 1)
        b = _vec(case['b'], H.cplx)
        x0 = _vec(case['x0'], H.cplx)
        ob = {'K': case['maxiter'], 'tol': case['tol'], 'has_res': case['residuals'], 'has_cb': case['callback'],
              'ret_info': case['return_info'], 'start': x0 if case['x0given'] else np.zeros_like(b)}
        res = [-1.0] if ob['has_res'] else None
        cbs = []
        out = ml.solve(b, x0=(x0.copy() if case['x0given'] else None), tol=ob['tol'], maxiter=ob['K'], cycle=c, cycles_per_level=cpl,
                       residuals=res, callback=(lambda v: cbs.append(np.array(np.ravel(v), copy=True))) if ob['has_cb'] else None,
                       return_info=ob['ret_info'])
        xr = np.ravel(out[0] if ob['ret_info'] else out)
        it = {'c': c, 'cpl': cpl, 'b': b, 'A0d': ml.levels[0].A.toarray().astype(H.dt)}
        k_real = len(cbs) if ob['has_cb'] else (len(res) - 1 if ob['has_res'] else ob['K'])
        want = e17_oracle(H, it, dict(ob, tol=0.0, K=max(1, min(k_real, ob['K']))))
        got = {'x': xr, 'cb': cbs}
        sc = 4 * ref(H, ob['start'], b, c, cpl, ob['K'])[1]
        same = _e17_vecs_same(got, want, sc)
        print(f'solve with options (maxiter={ob["K"]}, tol={ob["tol"]}, x0 given={case["x0given"]}): {k_real} cycles; vectors '
              f'{"agree with" if same else "DIFFER from"} the textbook cycle applied that many times '
              f'(max diff {float(np.abs(xr - np.ravel(want["x"])).max()):.3g})')
        if not same:
            ctx.violation(f'stand-alone solve: the vector returned after {k_real} {c}-cycles (cycles_per_level={cpl}) or a callback argument '
                          f'is not the textbook cycle applied that many times', dict(case, kind='cycle'))
    items = []
    check_hier(ctx, spec, H, CONFIGS if H.nlev >= 3 else [('V', 1), ('W', 1)], items, False, False)
    for v in ctx.violations[:6]:
        print('  ', v['what'][:400])
