"""C13 -- coarse/fine splittings are well formed and cover the strength graph.

correspondence : (A) raw kernels of ruge_stuben.h (rs_cf_splitting, rs_cf_splitting_pass2 on first-pass and on
                 arbitrary 0/1 input, cljp_naive_splitting with the libc rand() stream replayed) vs Model/RsModel.lean,
                 Proofs/RsPass2.lean, Model/KCljp.lean (doubles and exact rationals), exact;
                 (B) the public routines RS / PMIS / PMISc / CLJP / CLJPc / MIS of pyamg/classical/split.py vs the
                 wrapper-level models of Model/C13Wrap.lean (MIS(G, weights, maxiter), truncated or not: `C17R5.misSplit` of
                 Model/ExtC17R5Mis.lean, driver op c13r5_mis, theorems mis_partial / mis_full of extension E46) (remove_diagonal, transpose, S + S^T, kernel, _set_dirichlet
                 all inside the model; the theorems of Props/C13.lean are stated about exactly these functions), exact.
search         : every output of the public routines is judged by independent NumPy checkers of the property (0/1 flags,
                 one per node, reproducible for a fixed seed, a C-point whenever there is an edge, independence /
                 domination in S + S^T, dependence cover).
"""
import ctypes
import hashlib
import json
import mmap
import os
import pickle
import signal
import tempfile
import time
import traceback

import numpy as np
import scipy.sparse as sp

import gen
from common import enc_ints, enc_rats, float_bits

META = {
    'rule': 'strength patterns: every labelled undirected graph on <= 4 (quick) / <= 6 (thorough) nodes and every digraph on '
            '<= 3 / <= 4 nodes, each with and without stored diagonal entries; seeded structured random patterns up to '
            'n = 30 / 80 (paths, stars, cycles, cliques, pairs, grids, two components, Erdos-Renyi, isolated nodes; a third '
            'made nonsymmetric by deleting directed entries; partial stored diagonals; rows stored unsorted or with a duplicate entry) and strength '
            'matrices of gallery problems; every routine and option (second_pass, colouring method, color) on each; '
            'non-trivial = the pattern has an off-diagonal entry; distinct = distinct (routine, options, pattern, storage)',
    'search_only': ['reproducibility for a fixed seed on the real code (same NumPy seed twice; the models are functions of the '
                    'pattern and the weights, so equal weights give equal splittings by construction)',
                    'MIS on a NONsymmetric matrix (split.MIS does not symmetrise): not generated; the theorems mis_partial / mis_full '
                    'assume a symmetric off-diagonal pattern (the kernel-level statement for any pattern is '
                    'kernel_mis_parallel_partial_any_pattern)'],
    'partial': [],
    'assumptions': ['n >= 1 (a 0 x 0 strength matrix is not generated)',
                    'per instance (checked by the driver, reply `invalid-input` / `negative-weight` / `fuel-exhausted` otherwise): '
                    'the CSR arrays are what SciPy guarantees (monotone indptr, indices < n); the initial CLJP weights are >= 0; '
                    'one weight per node',
                    'PMIS/PMISc: the weights are taken where the wrapper hands them to the MIS kernel (recorded) and must be '
                    'finite; the theorems hold for every weight vector, so the random draw and the colouring (JP/LDF/MIS) '
                    'need no model',
                    'CLJP over doubles: the weight laws (x+1, x-1, x<1 on [0,1)+small integers; < irreflexive and transitive) are '
                    'trusted for IEEE doubles; they are proved for exact rationals, and the rational instance -- for which cover, '
                    'flags and termination are unconditional theorems -- is executed on the same inputs and compared with the '
                    'real kernel on every CLJP call (random weights). CLJPc / CLJP(color=True): colour weights c/ncolors tie '
                    'exactly over the rationals whereas the doubles of the kernel break such ties by rounding noise, so only the '
                    'bit-faithful double model is compared there',
                    'stored entries are edges: explicitly stored zeros are not generated'],
}

_libc = ctypes.CDLL('libc.so.6')
_libc.rand.restype = ctypes.c_int
RAND_MAX = 2147483647


def cljp_rand(n):
    """the weights cljp_naive_splitting draws: srand(2448422); rand()/RAND_MAX"""
    _libc.srand(2448422)
    return [_libc.rand() / RAND_MAX for _ in range(n)]


def lean(ctx, lines):
    """one Lean batch; retried when the driver could not be loaded (a concurrent `lake build` of another property
    replaces the compiled driver modules for a moment)"""
    from common import InfraError
    for attempt in range(4):
        try:
            return ctx.lean(lines, chunks=getattr(ctx, 'lean_chunks', None))
        except InfraError:
            if attempt == 3:
                raise
            time.sleep(6 * (attempt + 1))


def _key(*a):
    return hashlib.sha1(repr(a).encode()).hexdigest()


# ---------------------------------------------------------------- crash / hang isolation
# The native kernels run in a forked child.  Before every native call the child writes the concrete input into a shared
# buffer; if the child is killed by a signal (out-of-bounds bucket update ...) or sits in one native call for more than
# HANG_S seconds (selection loop that never ends ...), the parent reports that input as a violation: the routine did not
# return a splitting.

HANG_S = 90
_BUF = None


def mark(case, what):
    """called right before a native call"""
    if _BUF is not None:
        b = json.dumps({'what': what, 'case': case, 't': time.time()}).encode()
        if len(b) < len(_BUF) - 9:
            _BUF[0:8] = len(b).to_bytes(8, 'little')
            _BUF[8:8 + len(b)] = b


def idle():
    """the child is not inside native code of the library (Lean batch, bookkeeping)"""
    if _BUF is not None:
        _BUF[0:8] = (0).to_bytes(8, 'little')


def _last():
    """the last marked input (None while the child is idle or in the middle of writing a new one)"""
    try:
        k = int.from_bytes(_BUF[0:8], 'little')
        return json.loads(bytes(_BUF[8:8 + k]).decode()) if k else None
    except ValueError:
        return None


class _Worker:
    def __init__(self, k, fn):
        self.k, self.fn = k, fn
        self.buf = mmap.mmap(-1, 1 << 21)
        fd, self.path = tempfile.mkstemp(prefix='c13-', suffix='.pkl')
        os.close(fd)
        self.pid = None
        self.status = None


def isolated(ctx, fns):
    """run fns[k](ctx_k) in forked children (ctx_k = copy of ctx with its own seeded generator); merge their counters,
    correspondence failures and violations into ctx; a child killed by a signal or hanging inside a native call becomes a
    violation with the input it was working on"""
    global _BUF
    import numpy as np
    base = {'evaluations': ctx.evaluations, 'features': ctx.features.copy(), 'samples': len(ctx.samples),
            'corr_fail': len(ctx.corr_fail), 'violations': len(ctx.violations), 'near_skipped': ctx.near_skipped}
    seed0 = int(ctx.np_rng.integers(2**31))
    workers = [_Worker(k, fn) for k, fn in enumerate(fns)]
    for w in workers:
        _BUF = w.buf
        idle()
        pid = os.fork()
        if pid == 0:
            code = 0
            try:
                ctx.np_rng = np.random.default_rng([seed0, w.k])
                ctx.lean_chunks = max(1, 8 // len(workers))
                w.fn(ctx)
                idle()
                with open(w.path, 'wb') as f:
                    pickle.dump({k: v for k, v in ctx.__dict__.items() if k not in ('rng', 'np_rng')}, f)
            except BaseException:
                code = 3
                with open(w.path, 'wb') as f:
                    pickle.dump({'__error__': traceback.format_exc()}, f)
            finally:
                os._exit(code)
        w.pid = pid
    _BUF = None

    def last_of(w):
        global _BUF
        _BUF = w.buf
        try:
            return _last()
        finally:
            _BUF = None
    try:
        pending = list(workers)
        while pending:
            for w in list(pending):
                r, st = os.waitpid(w.pid, os.WNOHANG)
                if r == w.pid:
                    w.status = st
                    pending.remove(w)
                    continue
                last = last_of(w)
                if last and time.time() - last['t'] > HANG_S:
                    os.kill(w.pid, signal.SIGKILL)
                    os.waitpid(w.pid, 0)
                    pending.remove(w)
                    w.status = 'hang'
                    ctx.violation(f'{last["what"]} did not return within {HANG_S} s (the routine hangs on this input)',
                                  last['case'])
            time.sleep(0.05)
        errors = []
        for w in workers:
            if w.status == 'hang':
                continue
            if os.WIFSIGNALED(w.status):
                last = last_of(w)
                sig = os.WTERMSIG(w.status)
                if last:
                    ctx.violation(f'{last["what"]} killed the process with signal {sig} ({signal.Signals(sig).name}) '
                                  f'instead of returning a splitting', last['case'])
                else:
                    errors.append(f'check worker died with signal {sig} outside the library')
                continue
            with open(w.path, 'rb') as f:
                d = pickle.load(f)
            if '__error__' in d:
                errors.append(d['__error__'][-2500:])
                continue
            ctx.evaluations += d['evaluations'] - base['evaluations']
            ctx.distinct |= d['distinct']
            ctx.features.update(d['features'] - base['features'])
            ctx.samples.extend(d['samples'][base['samples']:][:2])
            ctx.corr_fail.extend(d['corr_fail'][base['corr_fail']:])
            ctx.violations.extend(d['violations'][base['violations']:])
            ctx.near_skipped += d['near_skipped'] - base['near_skipped']
            ctx.max_rel_err = max(ctx.max_rel_err, d['max_rel_err'])
        if errors and not ctx.violations:
            from common import InfraError
            raise InfraError('check worker raised:\n' + errors[0])
    finally:
        for w in workers:
            try:
                os.unlink(w.path)
            except OSError:
                pass


# ---------------------------------------------------------------- patterns

def csr_of(P, storage='canon', rng=None):
    """int32 CSR strength matrix with pattern P (dense 0/1, diagonal entries = stored diagonal), positive data"""
    P = np.asarray(P) != 0
    n = P.shape[0]
    indptr = np.zeros(n + 1, dtype=np.int32)
    idx = []
    for i in range(n):
        cols = np.nonzero(P[i])[0]
        if storage == 'reversed':
            cols = cols[::-1]
        elif storage == 'shuffled':
            cols = rng.permutation(cols)
        elif storage == 'dup' and len(cols):
            cols = np.concatenate([cols[:1], cols])          # a duplicate entry (summed by remove_diagonal)
        idx.extend(int(c) for c in cols)
        indptr[i + 1] = len(idx)
    indices = np.array(idx, dtype=np.int32)
    data = 0.25 + 0.25 * (np.arange(len(idx)) % 4)
    S = sp.csr_array((data, indices, indptr), shape=(n, n))
    S.indptr = S.indptr.astype(np.int32)
    S.indices = S.indices.astype(np.int32)
    return S


def all_digraphs(n):
    pairs = [(i, j) for i in range(n) for j in range(n) if i != j]
    for bits in range(1 << len(pairs)):
        M = np.zeros((n, n), dtype=int)
        for k, (i, j) in enumerate(pairs):
            if bits >> k & 1:
                M[i, j] = 1
        yield M


def pattern_stream(ctx, n_sym, n_dig, n_rand, nmax, gallery=True, n_dig_sample=0):
    """yields (P, kind, storage)"""
    rng = ctx.np_rng
    t = 0
    for k in range(n_dig_sample):                 # random digraphs on 4..6 nodes (beyond the exhaustive range)
        n = 4 + k % 3
        M = (rng.random((n, n)) < rng.choice([0.2, 0.35, 0.5])).astype(int)
        M[np.arange(n), np.arange(n)] = rng.integers(0, 2, size=n) if k % 2 else 0
        yield M, f'dig{n}-sample', 'canon'

    for n in range(1, n_sym + 1):
        for M in gen.all_graphs(n):
            t += 1
            d = t % 3
            if d == 1:
                M = M + np.eye(n, dtype=int)
            elif d == 2:
                M = M + np.diag(rng.integers(0, 2, size=n))
            yield M, f'all{n}', 'canon'
    for n in range(2, n_dig + 1):
        for M in all_digraphs(n):
            t += 1
            if t % 2:
                M = M + np.diag(rng.integers(0, 2, size=n))
            yield M, f'dig{n}', 'canon'
    for t in range(n_rand):
        n = int(rng.integers(1, nmax + 1)) if t % 4 else int(rng.integers(1, 9))
        M, kind = gen.rand_graph(rng, n)
        while M.sum() > 700:                         # dense patterns only up to ~26 nodes (pass 2 is O(row^3) per row)
            n = max(2, (3 * n) // 4)
            M = M[:n, :n]
        if t % 3 == 1:
            M = M * (rng.random((n, n)) < rng.choice([0.5, 0.8, 0.95]))       # nonsymmetric pattern
            kind += '-nonsym'
        if t % 5 == 2:
            iso = rng.random(n) < 0.3                                           # isolated nodes
            M[iso, :] = 0
            M[:, iso] = 0
            kind += '-iso'
        dsel = t % 4
        if dsel == 1:
            M = M + np.eye(n, dtype=int)
        elif dsel == 2:
            M = M + np.diag(rng.integers(0, 2, size=n))
        yield M, kind, {5: 'reversed', 6: 'shuffled', 7: 'dup'}.get(t % 10, 'canon')
    if gallery:
        from pyamg.gallery import poisson, stencil_grid
        from pyamg.strength import classical_strength_of_connection, symmetric_strength_of_connection
        mats = [poisson((5,), format='csr'), poisson((4, 3), format='csr'), poisson((3, 3, 2), format='csr'),
                stencil_grid(np.array([[-1, -4, -1], [-.01, 10.02, -.01], [-1, -4, -1]]), (5, 4), format='csr'),
                stencil_grid(np.array([[0, -1.5, 0], [-2, 4, 0], [0, -.5, 0]]), (4, 5), format='csr')]
        if not ctx.quick:
            mats += [poisson((9, 8), format='csr'), poisson((4, 4, 4), format='csr'),
                     stencil_grid(np.array([[-.2, -1, -.2], [-3, 8, -.4], [-.2, -1, -.2]]), (9, 7), format='csr')]
        for A in mats:
            A = gen.int32csr(A)
            for theta in (0.0, 0.25, 0.6):
                for fn in (classical_strength_of_connection, symmetric_strength_of_connection):
                    C = sp.csr_array(fn(A, theta))
                    C.eliminate_zeros()
                    yield (C.toarray() != 0).astype(int), 'gallery-' + fn.__name__.split('_')[0], 'canon'


# ---------------------------------------------------------------- the property, judged independently

def judge(P, method, kw, x):
    """-> None or a description of how output x of `method` violates C13 on pattern P (dense, diagonal ignored)"""
    P = np.asarray(P) != 0
    n = P.shape[0]
    O = P & ~np.eye(n, dtype=bool)
    if not isinstance(x, np.ndarray) or x.shape != (n,):
        return f'result is not one flag per node: {type(x).__name__} of shape {getattr(x, "shape", None)} for {n} nodes'
    if x.dtype.kind not in 'iu':
        return f'flags have dtype {x.dtype}'
    if not np.isin(x, (0, 1)).all():
        k = int(np.argmax(~np.isin(x, (0, 1))))
        return f'flag of node {k} is {int(x[k])}, not 0/1'
    c = x == 1
    if O.any() and not c.any():
        return 'the strength graph has an edge but no coarse point is marked'
    G = O | O.T

    def indep_dom():
        cc = G & c[:, None] & c[None, :]
        if cc.any():
            i, j = np.argwhere(cc)[0]
            return f'coarse points {int(i)} and {int(j)} are strongly connected'
        bad = ~c & G.any(1) & ~(G & c[None, :]).any(1)
        if bad.any():
            return f'fine point {int(np.argmax(bad))} has strong connections but none to a coarse point'
        return None

    def cover():
        bad = ~c & O.any(1) & ~(O & c[None, :]).any(1)
        if bad.any():
            return f'fine point {int(np.argmax(bad))} strongly depends on some node but on no coarse point'
        return None
    if method in ('PMIS', 'PMISc', 'MIS'):
        return indep_dom()
    if method == 'RS' and not kw.get('second_pass', False):
        return indep_dom() if (O == O.T).all() else None
    return cover()          # RS two passes, CLJP, CLJPc


CONFIGS = [('RS', {}), ('RS', {'second_pass': True}), ('PMIS', {}), ('PMISc', {'method': 'JP'}), ('PMISc', {'method': 'MIS'}),
           ('PMISc', {'method': 'LDF'}), ('PMISc', {}), ('CLJP', {}), ('CLJP', {'color': True}), ('CLJPc', {})]


class KernelRecorder:
    """records the arguments of amg_core.maximal_independent_set_parallel as called by the public wrappers"""

    def __init__(self):
        from pyamg import amg_core
        self.mod = amg_core
        self.calls = []

    def __enter__(self):
        self.orig = self.mod.maximal_independent_set_parallel

        def rec(n, Ap, Aj, a, c, f, x, y, it):
            r = self.orig(n, Ap, Aj, a, c, f, x, y, it)
            self.calls.append((int(n), np.array(Ap), np.array(Aj), np.array(y, dtype=float), (a, c, f, it)))
            return r
        self.mod.maximal_independent_set_parallel = rec
        return self

    def __exit__(self, *a):
        self.mod.maximal_independent_set_parallel = self.orig


def call_public(method, kw, S, np_seed, case=None):
    from pyamg.classical import split
    if case is not None:
        mark(case, method + ''.join(f'[{k}={v}]' for k, v in sorted(kw.items())))
    np.random.seed(np_seed)
    return getattr(split, method)(S, **kw)


def case_of(S, method, kw, np_seed, **extra):
    return {'n': int(S.shape[0]), 'indptr': [int(v) for v in S.indptr], 'indices': [int(v) for v in S.indices],
            'method': method, 'kwargs': dict(kw), 'np_seed': int(np_seed), **extra}


def pattern_of(S):
    n = S.shape[0]
    P = np.zeros((n, n), dtype=int)
    for i in range(n):
        P[i, S.indices[S.indptr[i]:S.indptr[i + 1]]] = 1
    return P


# ---------------------------------------------------------------- part B: public routines

def part_b(ctx, patterns, with_lean=True, configs=CONFIGS, light=False):
    from pyamg.classical import split
    from pyamg.util.utils import remove_diagonal
    rng = ctx.np_rng
    items = []          # (line, impl_out, op, case)

    for t, (P, kind, storage) in enumerate(patterns):
        P = np.asarray(P)
        n = P.shape[0]
        S = csr_of(P, storage, rng)
        O = (P != 0) & ~np.eye(n, dtype=bool)
        has_edge = bool(O.any())
        sym = bool((O == O.T).all())
        hdr = f'{n} {enc_ints(S.indptr)} {enc_ints(S.indices)}'
        pkey = (hdr, storage)
        ctx.feat('pattern:' + kind)
        ctx.feat('pattern:symmetric' if sym else 'pattern:nonsymmetric')
        ctx.feat('storage:' + storage)
        if np.diag(P).any():
            ctx.feat('pattern:stored-diagonal')
        if has_edge and (~(O | O.T).any(1)).any():
            ctx.feat('pattern:isolated-node')

        if with_lean and not light:
            # the model of the preprocessing against SciPy's own arrays
            try:
                S1 = remove_diagonal(S)
                T1 = S1.T.tocsr()
                np.random.seed(0)
                _, G1, _, _ = split._preprocess(S1)
                impl = ';'.join(enc_ints(a) for a in (S1.indptr, S1.indices, T1.indptr, T1.indices, G1.indptr, G1.indices))
                items.append(('c13_prep ' + hdr, impl, 'prep', {'n': n, 'indptr': S.indptr.tolist(), 'indices': S.indices.tolist(),
                                                              'method': 'preprocess', 'kwargs': {}, 'np_seed': 0}, has_edge))
            except Exception as ex:     # judged below through the public calls
                ctx.feat('prep-raised:' + type(ex).__name__)

        for method, kw in configs:
            np_seed = int(rng.integers(2**31))
            case = case_of(S, method, kw, np_seed, storage=storage)
            name = method + ''.join(f'[{k}={v}]' for k, v in sorted(kw.items()))
            ctx.case(key=_key(name, pkey), nontrivial=has_edge,
                     sample={'routine': name, 'n': n, 'pattern': kind, 'storage': storage} if ctx.evaluations % 1999 == 0 else None)
            ctx.feat('api:' + name)
            keep = (S.indptr.copy(), S.indices.copy())
            try:
                with KernelRecorder() as rec:
                    x = call_public(method, kw, S, np_seed, case)
            except Exception as ex:
                ctx.violation(f'{name} raised {type(ex).__name__}: {ex}', case)
                continue
            e = judge(P, method, kw, x)
            if e:
                ctx.violation(f'{name} on a {"symmetric" if sym else "nonsymmetric"} pattern with {n} nodes: {e}; '
                              f'splitting {np.asarray(x).tolist()[:60]}', case)
                if not isinstance(x, np.ndarray) or x.shape != (n,):
                    continue
            # reproducible for a fixed seed (and the caller's pattern is left alone)
            try:
                if light:
                    raise StopIteration
                x2 = call_public(method, kw, S, np_seed)
                if not (isinstance(x2, np.ndarray) and x2.shape == x.shape and (x2 == x).all()):
                    ctx.violation(f'{name}: two calls with the same random seed return different splittings '
                                  f'{np.asarray(x).tolist()[:40]} / {np.asarray(x2).tolist()[:40]}', case)
            except StopIteration:
                pass
            except Exception as ex:
                ctx.violation(f'{name} raised {type(ex).__name__} on the second call: {ex}', case)
            if not (np.array_equal(keep[0], S.indptr) and np.array_equal(keep[1], S.indices)):
                ctx.feat('input-pattern-modified')
            if not with_lean:
                continue
            out = enc_ints(x)
            if method == 'RS':
                items.append((f'c13_rs {hdr} {1 if kw.get("second_pass") else 0}', out, name, case, has_edge))
            elif method in ('PMIS', 'PMISc'):
                if len(rec.calls) != 1 or rec.calls[0][0] != n or len(rec.calls[0][3]) != n:
                    ctx.corr(name, case, 'one call of maximal_independent_set_parallel with n weights',
                             f'{len(rec.calls)} calls', note='the wrapper no longer reaches the MIS kernel as modelled')
                    continue
                w = rec.calls[0][3]
                if not np.isfinite(w).all():
                    ctx.violation(f'{name}: non-finite weights handed to the MIS kernel', case)
                    continue
                d = 1 if method == 'PMIS' else 0
                items.append((f'c13_pmis {hdr} {enc_rats(w)} {d}', out + ';' + out, name, case, has_edge))
            else:
                color = 1 if (method == 'CLJPc' or kw.get('color')) else 0
                if color:
                    # colour weights c/ncolors tie exactly over the rationals, while the kernel's doubles break such ties by
                    # rounding noise ((1/3+1+1)-1 != 1/3+1): only the bit-faithful double model is comparable here
                    items.append((f'c13_cljp {hdr} 1 -', out, name, case, has_edge))
                else:
                    w = cljp_rand(n)
                    items.append((f'c13_cljp {hdr} 0 {",".join(str(float_bits(v)) for v in w)}', out, name, case, has_edge))
                    items.append((f'c13_cljp_rat {hdr} 0 {enc_rats(w)}', out, name + '(rational weights)', case, has_edge))

        # MIS(G, weights) called directly, tied weights, symmetric graph with optional self loops
        if t % 3 == 0 and not light:
            Gm = ((P != 0) | (P != 0).T)
            SG = csr_of(Gm, storage, rng)
            w = rng.integers(0, 4, size=n).astype(float)
            mi = int(rng.integers(0, 4)) if t % 6 == 0 else None
            case = case_of(SG, 'MIS', {'weights': w.tolist(), 'maxiter': mi}, 0, storage=storage)
            ctx.case(key=_key('MIS', hdr, w.tobytes(), mi), nontrivial=has_edge)
            ctx.feat('api:MIS' + ('[maxiter]' if mi is not None else ''))
            mark(case, 'MIS')
            try:
                x = split.MIS(SG, w) if mi is None else split.MIS(SG, w, maxiter=mi)
            except Exception as ex:
                ctx.violation(f'MIS raised {type(ex).__name__}: {ex}', case)
                continue
            if mi is None:
                e = judge(Gm, 'MIS', {}, x)
                if e:
                    ctx.violation(f'MIS(G, weights={w.tolist()[:40]}): {e}; result {np.asarray(x).tolist()[:60]}', case)
                if with_lean:
                    g = f'{n} {enc_ints(SG.indptr)} {enc_ints(SG.indices)}'
                    out = enc_ints(x)
                    items.append((f'c13_pmis {g} {enc_rats(w)} 0', out + ';' + out, 'MIS', case, has_edge))
                    # E46: the model of MIS itself (`C17R5.misSplit`: no symmetrisation), `mis_full`
                    items.append((f'c13r5_mis {g} {enc_rats(w)} -', out, 'MIS(model misSplit)', case, has_edge))
            else:
                # truncated run (theorem `mis_partial`): flags are -1/0/1, every neighbour of a selected node is marked 0
                # (so the C set is independent), every node marked 0 has a selected neighbour
                xa = np.asarray(x)
                Go = Gm & ~np.eye(n, dtype=bool)
                c = xa == 1
                f0 = xa == 0
                if (not np.isin(xa, (-1, 0, 1)).all() or (Go & c[:, None] & c[None, :]).any()
                        or (Go & c[:, None] & ~f0[None, :]).any() or (f0 & ~(Go & c[None, :]).any(1)).any()):
                    ctx.violation(f'MIS(maxiter={mi}): result {xa.tolist()[:60]} is not a partial independent set', case)
                if with_lean:
                    g = f'{n} {enc_ints(SG.indptr)} {enc_ints(SG.indices)}'
                    items.append((f'c13r5_mis {g} {enc_rats(w)} {mi}', enc_ints(x), f'MIS(maxiter={mi})', case, has_edge))

    idle()
    if with_lean and items:
        outs = lean(ctx, [it[0] for it in items])
        for (line, impl, op, case, has_edge), o in zip(items, outs):
            ctx.case(key=_key(line), nontrivial=has_edge,
                     sample={'request': line[:160], 'model': o[:80], 'impl': impl[:80]} if ctx.evaluations % 2999 == 0 else None)
            ctx.feat('model:' + line.split(' ', 1)[0])
            if o != impl:
                ctx.corr('public ' + op, {**case, 'line': line[:3000]}, o, impl)


# ---------------------------------------------------------------- part A: raw kernels vs kernel models

def part_a(ctx, patterns):
    from pyamg import amg_core
    rng = ctx.np_rng
    items = []
    for t, (P, kind, storage) in enumerate(patterns):
        P = np.asarray(P) != 0
        n = P.shape[0]
        if t % 4 != 0:
            P = P & ~np.eye(n, dtype=bool)       # three quarters without self loops (what the wrappers hand over)
        S = csr_of(P, storage, rng)
        T = csr_of(P.T, storage, rng)
        Sp, Sj, Tp, Tj = S.indptr, S.indices, T.indptr, T.indices
        O = P & ~np.eye(n, dtype=bool)
        has_edge = bool(O.any())
        hs = f'{n} {enc_ints(Sp)} {enc_ints(Sj)}'
        hst = f'{hs} {enc_ints(Tp)} {enc_ints(Tj)}'
        case = {'n': n, 'Sp': Sp.tolist(), 'Sj': Sj.tolist(), 'Tp': Tp.tolist(), 'Tj': Tj.tolist()}

        def add(line, out, what):
            items.append((line, out, what, case, has_edge))
        x = np.full(n, -9, dtype=np.int32)
        mark({**case, 'method': 'kernel-rs'}, 'kernel rs_cf_splitting')
        amg_core.rs_cf_splitting(n, Sp, Sj, Tp, Tj, np.zeros(n, dtype=np.int32), x)
        add('rs ' + hst, enc_ints(x), 'rs_cf_splitting')
        # the checked whole-kernel model (Model/ExtRsCk.lean; theorems rs_kernel_call_safe / kernel_rs_whole_safe): same value, flag set
        add('ext_rs_whole ' + hst, enc_ints(x) + ';ok', 'rs_cf_splitting (checked whole-kernel model RS.runCk)')
        x1 = x.copy()
        if np.isin(x1, (0, 1)).all():
            mark({**case, 'method': 'kernel-pass2', 'x0': x.tolist()}, 'kernel rs_cf_splitting_pass2')
            amg_core.rs_cf_splitting_pass2(n, Sp, Sj, x1)
            add(f'rs2 {hs} {enc_ints(x)}', enc_ints(x1), 'rs_cf_splitting_pass2')
        x0 = rng.integers(0, 2, size=n).astype(np.int32) if t % 2 else (rng.random(n) < 0.15).astype(np.int32)
        x1 = x0.copy()
        mark({**case, 'method': 'kernel-pass2', 'x0': x0.tolist()}, 'kernel rs_cf_splitting_pass2')
        amg_core.rs_cf_splitting_pass2(n, Sp, Sj, x1)
        add(f'rs2 {hs} {enc_ints(x0)}', enc_ints(x1), 'rs_cf_splitting_pass2(arbitrary first pass)')
        if not np.diag(P).any():
            e = judge(P, 'RS', {'second_pass': True}, x1)
            ctx.case(key=_key('pass2-any', hs, x0.tobytes()), nontrivial=has_edge)
            if e and x0.any():
                ctx.violation(f'rs_cf_splitting_pass2 on the 0/1 splitting {x0.tolist()[:40]}: {e}; result {x1.tolist()[:40]}',
                              {**case, 'method': 'kernel-pass2', 'x0': x0.tolist()})
        x = np.full(n, -9, dtype=np.int32)
        mark({**case, 'method': 'kernel-cljp'}, 'kernel cljp_naive_splitting')
        amg_core.cljp_naive_splitting(n, Sp, Sj, Tp, Tj, x, 0)
        w = cljp_rand(n)
        add(f'cljp {hst} {",".join(str(float_bits(v)) for v in w)}', enc_ints(x), 'cljp_naive_splitting')
        add(f'c13_kcljp_rat {hst} {enc_rats(w)}', enc_ints(x), 'cljp_naive_splitting(rational weights)')
    idle()
    outs = lean(ctx, [it[0] for it in items])
    for (line, out, what, case, has_edge), o in zip(items, outs):
        ctx.case(key=_key(line), nontrivial=has_edge,
                 sample={'request': line[:160], 'model': o[:80], 'impl': out[:80]} if ctx.evaluations % 2999 == 0 else None)
        ctx.feat('kernel:' + what)
        if o != out:
            ctx.corr('kernel ' + what, {**case, 'line': line[:3000]}, o, out)


# ---------------------------------------------------------------- entry points

def _smallest_first(ctx):
    ctx.violations.sort(key=lambda v: (v['case'].get('n', 0), len(v['case'].get('indices', v['case'].get('Sj', [])))))


ALL6 = [('RS', {}), ('RS', {'second_pass': True}), ('PMIS', {}), ('PMISc', {'method': 'MIS'}), ('CLJP', {}), ('CLJPc', {})]


def run(ctx):
    K = 2 if ctx.quick else max(1, min(4, (os.cpu_count() or 2) // 2))
    if ctx.quick:
        pa = list(pattern_stream(ctx, 4, 3, 220, 30, gallery=False, n_dig_sample=150))
        pb = list(pattern_stream(ctx, 4, 3, 150, 30, n_dig_sample=200))
        pc = []
    else:
        pa = list(pattern_stream(ctx, 5, 4, 3000, 80, gallery=False, n_dig_sample=1500))
        pb = list(pattern_stream(ctx, 5, 4, 2500, 80, n_dig_sample=2000))
        # the 32768 labelled graphs on 6 nodes: main option settings, no repeated call
        pc = [(M + (np.eye(6, dtype=int) if t % 3 == 1 else 0), 'all6', 'canon') for t, M in enumerate(gen.all_graphs(6))]

    def job(k):
        def fn(c):
            t0 = time.time()
            part_a(c, pa[k::K])
            c.feat('worker_s:kernel-level part', int(time.time() - t0))
            t0 = time.time()
            part_b(c, pb[k::K])
            if pc:
                part_b(c, pc[k::K], configs=ALL6, light=True)
            c.feat('worker_s:public-routine part', int(time.time() - t0))
        return fn
    isolated(ctx, [job(k) for k in range(K)])
    _smallest_first(ctx)


def search(ctx):
    """deeper search on the real code only (something broke): more patterns, judged by the property itself"""
    K = max(1, min(4, (os.cpu_count() or 2) // 2))
    ps = list(pattern_stream(ctx, 5, 4 if not ctx.quick else 3, 2500, 40, n_dig_sample=4000))
    isolated(ctx, [(lambda c, k=k: part_b(c, ps[k::K], with_lean=False)) for k in range(K)])
    _smallest_first(ctx)


def replay(ctx, data):
    isolated(ctx, [lambda c: _replay(c, data)])


def _replay(ctx, data):
    case = data['case']
    n = case['n']
    if 'Sp' in case:
        print('replaying a kernel-level case: n =', n, {k: case[k] for k in ('Sp', 'Sj', 'Tp', 'Tj')})
        P = np.zeros((n, n), dtype=int)
        for i in range(n):
            P[i, case['Sj'][case['Sp'][i]:case['Sp'][i + 1]]] = 1
        if case.get('method') == 'kernel-pass2' and 'x0' in case:
            from pyamg import amg_core
            x1 = np.array(case['x0'], dtype=np.int32)
            mark(case, 'kernel rs_cf_splitting_pass2')
            amg_core.rs_cf_splitting_pass2(n, np.array(case['Sp'], dtype=np.int32), np.array(case['Sj'], dtype=np.int32), x1)
            e = judge(P, 'RS', {'second_pass': True}, x1) if not np.diag(P).any() else None
            print('  pass 2 on', case['x0'], '->', x1.tolist(), '->', e or 'satisfies the property')
            if e:
                ctx.violation(f'rs_cf_splitting_pass2 on the 0/1 splitting {case["x0"]}: {e}', case)
        part_a(ctx, [(P, 'replay', 'canon')])
    else:
        S = gen.csr_from_arrays(n, case['indptr'], case['indices'], np.ones(len(case['indices'])))
        method, kw = case['method'], case.get('kwargs', {})
        print(f'replaying {method}{kw} (np.random.seed({case.get("np_seed")})) on n = {n}, indptr = {case["indptr"]}, '
              f'indices = {case["indices"]}')
        P = pattern_of(S)
        if method == 'MIS':
            from pyamg.classical import split
            x = split.MIS(S, np.array(kw['weights']), **({'maxiter': kw['maxiter']} if kw.get('maxiter') is not None else {}))
            print('  result', np.asarray(x).tolist(), '->', judge(P, 'MIS', {}, x) if kw.get('maxiter') is None else '(truncated run)')
        elif method in ('RS', 'PMIS', 'PMISc', 'CLJP', 'CLJPc'):
            x = call_public(method, kw, S, case.get('np_seed', 0))
            e = judge(P, method, kw, x)
            print('  result', np.asarray(x).tolist(), '->', e or 'satisfies the property')
            if e:
                ctx.violation(f'{method}{kw}: {e}', case)
            x2 = call_public(method, kw, S, case.get('np_seed', 0))
            if not np.array_equal(x, x2):
                ctx.violation(f'{method}{kw}: not reproducible for a fixed seed', case)
    for v in ctx.violations:
        print('  ', v['what'])
