"""Seeded, structured generators shared by the property checks (all randomness from ctx.np_rng)."""
import itertools

import numpy as np
import scipy.sparse as sp


def int32csr(A):
    A = sp.csr_array(A)
    A.indptr = A.indptr.astype(np.int32)
    A.indices = A.indices.astype(np.int32)
    return A


def csr_from_arrays(n, indptr, indices, data, m=None):
    A = sp.csr_array((np.asarray(data), np.asarray(indices, dtype=np.int32), np.asarray(indptr, dtype=np.int32)),
                     shape=(n, n if m is None else m))
    A.indptr = A.indptr.astype(np.int32)
    A.indices = A.indices.astype(np.int32)
    return A


def rand_dyadic_csr(rng, n, complex_=False, zero_diag=True, unsorted=False, duplicates=False, density=None):
    """Small-integer off-diagonals, power-of-two diagonals (all kernel arithmetic exact in binary64).
    Features: missing diagonals (p=.15 when zero_diag), unsorted column indices, duplicated entries,
    empty rows arise naturally at low density. Returns (csr_array with int32 indices, feature set)."""
    feats = set()
    if density is None:
        density = rng.choice([0.2, 0.5, 0.9])
    mask = rng.random((n, n)) < density
    M = mask * rng.integers(-4, 5, size=(n, n)).astype(float)
    if complex_:
        M = M + 1j * (mask * rng.integers(-3, 4, size=(n, n)))
    d = rng.choice([1, 2, 4, 8, -2, 0.5], size=n).astype(M.dtype)
    if zero_diag:
        z = rng.random(n) < 0.15
        if z.any():
            feats.add('missing_diag')
        d = np.where(z, 0, d)
    M[np.arange(n), np.arange(n)] = d
    A = int32csr(sp.csr_array(M))     # explicit zeros dropped: zero diag -> missing
    if (np.diff(A.indptr) == 0).any():
        feats.add('empty_row')
    if duplicates and A.nnz > 0 and n > 1:
        # duplicate one off-diagonal entry per some rows (kernels add duplicates of off-diagonals)
        ip, ix, dt = [0], [], []
        for i in range(n):
            s, e = A.indptr[i], A.indptr[i + 1]
            cols, vals = list(A.indices[s:e]), list(A.data[s:e])
            offs = [k for k, c in enumerate(cols) if c != i]
            if offs and rng.random() < 0.5:
                k = offs[rng.integers(len(offs))]
                cols.append(cols[k])
                vals.append(vals[k])
                feats.add('duplicate_entry')
            ix += cols
            dt += vals
            ip.append(len(ix))
        A = csr_from_arrays(n, ip, ix, np.array(dt, dtype=M.dtype))
    if unsorted:
        for i in range(n):
            s, e = A.indptr[i], A.indptr[i + 1]
            p = rng.permutation(e - s)
            A.indices[s:e] = A.indices[s:e][p]
            A.data[s:e] = A.data[s:e][p]
        A.has_sorted_indices = False
        feats.add('unsorted')
    return A, feats


def rand_vec(rng, n, complex_=False, lo=-5, hi=6):
    v = rng.integers(lo, hi, size=n).astype(float)
    if complex_:
        v = v + 1j * rng.integers(lo, hi, size=n)
    return v


def admissible_sweep(rng, n):
    """(start, stop, step) with `stop` reachable from `start` (the `i != stop` loop terminates)."""
    k = rng.integers(0, 4)
    if k == 0:
        return (0, n, 1), 'forward'
    if k == 1:
        return (n - 1, -1, -1), 'backward'
    if k == 2:
        return ((0, n, 2) if n % 2 == 0 else (0, n + 1, 2)), 'stride2'
    return ((n - 1, -1, -2) if (n - 1) % 2 == 1 else (n - 1, -2, -2)), 'stride-2'


def spd_matrix(rng, n, kind=None, complex_=False):
    """Small SPD/HPD test matrices: 1-D/2-D Poisson, weighted graph Laplacian + shift, random SPD."""
    import pyamg
    kind = kind or rng.choice(['poisson1d', 'poisson2d', 'laplacian', 'random'])
    if kind == 'poisson1d':
        A = pyamg.gallery.poisson((n,), format='csr')
    elif kind == 'poisson2d':
        m = max(2, int(round(n ** 0.5)))
        A = pyamg.gallery.poisson((m, m), format='csr')
    elif kind == 'laplacian':
        W = np.triu((rng.random((n, n)) < 0.4) * rng.integers(1, 4, size=(n, n)), 1).astype(float)
        W = W + W.T
        L = np.diag(W.sum(1)) - W + np.diag(rng.choice([0.0, 0.5, 1.0], size=n))
        L[0, 0] += 1.0
        L += np.diag((np.diag(L) == 0) * 1.0)      # isolated node with zero shift: keep the matrix definite
        A = sp.csr_array(L)
    else:
        B = rng.integers(-2, 3, size=(n, n)).astype(float)
        A = sp.csr_array(B @ B.T + n * np.eye(n))
    A = int32csr(A)
    if complex_:
        ph = np.exp(1j * rng.random(A.shape[0]) * 2 * np.pi)
        D = sp.diags_array(ph)
        A = int32csr(sp.csr_array(D @ A.astype(complex) @ D.conj()))
    return A


def all_graphs(n, self_loops=False):
    """all undirected graphs on n labelled nodes as symmetric 0/1 adjacency (dense)"""
    pairs = list(itertools.combinations(range(n), 2))
    for bits in range(1 << len(pairs)):
        M = np.zeros((n, n), dtype=int)
        for k, (i, j) in enumerate(pairs):
            if bits >> k & 1:
                M[i, j] = M[j, i] = 1
        if self_loops:
            M[np.arange(n), np.arange(n)] = 1
        yield M


def rand_graph(rng, n, kind=None, p=None):
    """symmetric 0/1 adjacency (dense, no self loops) of a structured random graph"""
    kind = kind or rng.choice(['er', 'er', 'path', 'star', 'cycle', 'clique', 'pairs', 'grid', 'empty', 'two'])
    M = np.zeros((n, n), dtype=int)
    if kind == 'er':
        p = p if p is not None else rng.choice([0.1, 0.3, 0.6])
        U = np.triu(rng.random((n, n)) < p, 1)
        M = (U | U.T).astype(int)
    elif kind == 'path':
        for i in range(n - 1):
            M[i, i + 1] = M[i + 1, i] = 1
    elif kind == 'cycle':
        for i in range(n):
            if n > 2:
                M[i, (i + 1) % n] = M[(i + 1) % n, i] = 1
    elif kind == 'star':
        c = rng.integers(n)
        M[c, :] = 1
        M[:, c] = 1
        M[c, c] = 0
    elif kind == 'clique':
        M[:, :] = 1
        M[np.arange(n), np.arange(n)] = 0
    elif kind == 'pairs':
        for i in range(0, n - 1, 2):
            M[i, i + 1] = M[i + 1, i] = 1
    elif kind == 'grid':
        w = max(1, int(n ** 0.5))
        for i in range(n):
            if (i + 1) % w and i + 1 < n:
                M[i, i + 1] = M[i + 1, i] = 1
            if i + w < n:
                M[i, i + w] = M[i + w, i] = 1
    elif kind == 'two':
        h = n // 2
        U = np.triu(rng.random((n, n)) < 0.5, 1)
        U[:h, h:] = False
        M = (U | U.T).astype(int)
    perm = rng.permutation(n)
    M = M[np.ix_(perm, perm)]
    return M, kind


def graph_csr(M, dtype=float, diag=None):
    """CSR (int32 indices) of a dense adjacency; optional stored diagonal value"""
    M = np.array(M, dtype=dtype)
    if diag is not None:
        M = M + np.diag(np.full(M.shape[0], diag, dtype=dtype))
    return int32csr(sp.csr_array(M))
