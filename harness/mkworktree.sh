#!/bin/bash
# mkworktree.sh <dir> : scratch git worktree of /repo at HEAD with the untracked runtime files copied
set -e
d="$1"
git -C /repo worktree add --detach "$d" HEAD >/dev/null 2>&1
cp /repo/pyamg/amg_core/*.so "$d/pyamg/amg_core/"
cp /repo/pyamg/version.py "$d/pyamg/"
cp /repo/pyamg/amg_core/tests/*.so "$d/pyamg/amg_core/tests/" 2>/dev/null || true
echo "$d"
