#!/bin/bash
# wave4.sh Cxx : verify + store + run the two wave-5 seeds of property Cxx
pid=$1
export SEEDROOT=/tmp/wt5 SEEDOFFSET=8
for k in 1 2; do
  r=$(/verif/harness/seedverify.sh $pid $k); echo "$r"
  if echo "$r" | grep -q "demo_with=[1-9].* demo_without=0 tests: 235 of 235"; then
    /venv/bin/python /verif/harness/seedstore.py $pid $k >/dev/null
  else echo "NOT STORED $pid $k"; fi
done
cd /verif && /venv/bin/python harness/seedrun.py $(ls -d seeded/$pid-9 seeded/$pid-10 2>/dev/null | xargs -n1 basename) 2>&1 | cut -c1-260
