#!/usr/bin/env python3
"""Run the repository's own pytest suite against the kernels rebuilt from the working-tree headers
(no source hook needed: the shim modules are registered before pyamg is imported)."""
import sys
from pathlib import Path
sys.path.insert(0, str(Path(__file__).resolve().parent))
import corebuild  # noqa: E402

if __name__ == '__main__':
    corebuild.activate()
    import pytest
    sys.exit(pytest.main(sys.argv[1:]))
