#!/usr/bin/env python3
"""seedstore.py Cxx k [detected_by...] : copy a verified seeded change from its scratch worktree /tmp/wt/Cxx/_seed into
/verif/seeded/Cxx-k/ (patch.diff, demonstration, meta.json)."""
import json
import os
import shutil
import sys
from pathlib import Path

pid, k = sys.argv[1], sys.argv[2]
root = os.environ.get('SEEDROOT', '/tmp/wt')
sid = int(k) + int(os.environ.get('SEEDOFFSET', '0'))      # second wave: SEEDROOT=/tmp/wt2 SEEDOFFSET=2
sd = Path(f'{root}/{pid}/_seed')
out = Path(f'/verif/seeded/{pid}-{sid}')
out.mkdir(parents=True, exist_ok=True)
shutil.copy(sd / f'patch{k}.diff', out / 'patch.diff')
demos = []
for f in sd.iterdir():
    if f.name in (f'demo{k}.py', f'demo{k}.cpp', f'run{k}.sh'):
        shutil.copy(f, out / f.name)
        demos.append(f.name)
meta_all = json.loads((sd / 'meta.json').read_text())
m = next((e for e in meta_all if e.get('patch') == f'patch{k}.diff'), meta_all[int(k) - 1] if len(meta_all) >= int(k) else {})
ver = {}
for nm in ('with', 'without'):
    p = sd / f'verify{k}.{nm}.log'
    ver[f'demo_{nm}_change_tail'] = p.read_text()[-600:] if p.exists() else None
ts = sd / f'verify{k}.tests.summary'
meta = {
    'id': f'{pid}-{sid}', 'wave': (sid + 1) // 2, 'property': pid, 'summary': m.get('summary'), 'needs_to_manifest': m.get('needs'),
    'files': m.get('files'), 'demonstration': sorted(demos),
    'author': 'independent sub-agent given only the property text and a scratch worktree (nothing from /verif)',
    'author_verification': m.get('verified'),
    'my_verification': {
        'how': f'harness/seedverify.sh {pid} {k} in the scratch worktree {root}/{pid}: apply patch, run the demonstration '
               '(must exit non-zero), run the whole pytest suite (all 235 stable baseline tests must pass), revert, run the '
               'demonstration again (must exit 0)',
        'tests': ts.read_text().strip() if ts.exists() else None, **ver},
}
old = out / 'meta.json'
if old.exists():
    prev = json.loads(old.read_text())
    for key in ('detected_by', 'missed_by', 'check_runs'):
        if key in prev:
            meta[key] = prev[key]
(out / 'meta.json').write_text(json.dumps(meta, indent=1) + '\n')
print(out)
