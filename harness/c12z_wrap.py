"""C12, extension E56 part 2 -- the Python wrapper `pairwise_aggregation` (aggregate.py) vs the composed Lean model
`C12ZW.wrapper` (op `ext_c12z_pw`): strength of connection (`C14.pubClassicalNorm`), pairwise kernel (`ExtPw.pairwise`),
`T_temp`, `T @ T_temp` and the Galerkin product `T_temp.T @ Ac @ T_temp` (`Spmm.mul / transpose / galerkin`) between the
matchings.  Exact comparison of the raw arrays of T (indptr, indices, data, shape) and of Cpts, of the numbers of
aggregates of every level and of the composed assignment map (the objects of the theorems
`pairwise_wrapper_*`).

Exactness: integer matrices (entries |a| <= 8 on level 0; the Galerkin products stay small integers), theta dyadic; the
strength values a/max(row) are compared by the kernel inside ONE row only (same denominator: float and exact order agree
for integer numerators), theta*max is exact.
"""
import hashlib

import numpy as np
import scipy.sparse as sp

import gen
from common import enc_ints, enc_rats, enc_rat

TINY = float(np.finfo(np.float64).tiny)


def _key(*a):
    return hashlib.sha1(repr(a).encode()).hexdigest()


def wrapper_matrix(rng, M, t):
    """(CSR matrix, kind): integer M-matrix-like matrices on the graph M; symmetric / nonsymmetric weights, a few positive
    couplings, zero / missing diagonal entries, rows stored in reversed / shuffled column order"""
    M = np.array(M)
    n = M.shape[0]
    off = (M - np.diag(np.diag(M))) != 0
    mode = t % 5
    W = off * rng.integers(1, 5, size=(n, n)).astype(float)
    kind = 'nonsym'
    if mode in (0, 3):
        W = np.triu(W, 1) + np.triu(W, 1).T
        kind = 'sym'
    elif mode == 1:
        W = off * 1.0                               # all couplings equal: every comparison in the kernel is a tie
        kind = 'unit'
    if mode == 3:
        S = np.triu(rng.random((n, n)) < 0.2, 1)
        W = W * np.where(S + S.T, -1.0, 1.0)        # some positive off-diagonal entries in A = D - W
        kind = 'mixed-sign'
    d = np.abs(W).sum(1) + rng.integers(0, 2, size=n) + (np.abs(W).sum(1) == 0)
    if mode == 4 and n:
        d[int(rng.integers(n))] = 0.0               # a missing diagonal entry
        kind = 'nonsym+nodiag'
    D = np.diag(d) - W
    A = gen.int32csr(sp.csr_array(D))
    order = t % 3
    if order:
        ip, ix, dt = A.indptr, A.indices.copy(), A.data.copy()
        for i in range(n):
            s, e = ip[i], ip[i + 1]
            perm = np.arange(e - s)[::-1] if order == 1 else rng.permutation(e - s)
            ix[s:e], dt[s:e] = ix[s:e][perm], dt[s:e][perm]
        A = sp.csr_array((dt, ix, ip.copy()), shape=A.shape)
        kind += '+reversed' if order == 1 else '+shuffled'
    return A, kind


def _csr_text(A):
    nnz = int(A.indptr[-1])
    return f'{A.shape[0]}:{A.shape[1]}:{enc_ints(A.indptr)}:{enc_ints(A.indices[:nnz])}:{enc_rats(A.data[:nnz])}'


def part_w(ctx, graphs, defer=None):
    rng = ctx.np_rng
    jobs = []
    for t, (M, gkind) in enumerate(graphs):
        M = np.array(M)
        if M.shape[0] < 1:
            continue
        A, kind = wrapper_matrix(rng, M, t)
        matchings = 1 + (t // 2) % 3
        theta = [0.0, 0.25, 0.5, 0.25][int(rng.integers(4))]
        norm = ['min', 'abs'][int(rng.integers(2))]
        jobs.append((A, kind, matchings, theta, norm, bool(((M - np.diag(np.diag(M))) != 0).any())))
    run_jobs(ctx, jobs, defer)


def replay_w(ctx, c):
    n = int(c['n'])
    A = sp.csr_array((np.array(c['data'], dtype=float), np.array(c['indices'], dtype=np.int32),
                      np.array(c['indptr'], dtype=np.int32)), shape=(n, n))
    print('replaying pairwise_aggregation wrapper, matchings =', c['matchings'], 'theta =', c['theta'], 'norm =', c['norm'])
    run_jobs(ctx, [(A, 'replay', int(c['matchings']), float(c['theta']), str(c['norm']), True)])


def run_jobs(ctx, jobs, defer=None):
    from pyamg.aggregation import aggregate as AG
    import warnings
    items = []
    for (A, kind, matchings, theta, norm, has_edge) in jobs:
        line = f'ext_c12z_pw {norm} {enc_rat(theta)} {enc_rat(TINY)} {matchings} {_csr_text(A)}'
        ks = []
        orig = AG.amg_core.pairwise_aggregation

        def rec(nn, ap, aj, ax, x, y, orig=orig, ks=ks):
            k = orig(nn, ap, aj, ax, x, y)
            ks.append(int(k))
            return k
        AG.amg_core.pairwise_aggregation = rec
        try:
            with warnings.catch_warnings():
                warnings.simplefilter('ignore')
                T, cpts = AG.pairwise_aggregation(A.copy(), matchings=matchings, theta=theta, norm=norm)
            err = None
        except Exception as ex:     # noqa: BLE001
            T, cpts, err = None, None, f'{type(ex).__name__}: {ex}'
        finally:
            AG.amg_core.pairwise_aggregation = orig
        items.append((line, A, kind, matchings, theta, norm, T, cpts, ks, err, has_edge))
    def finish(outs):
        for (line, A, kind, matchings, theta, norm, T, cpts, ks, err, has_edge), o in zip(items, outs):
            n = A.shape[0]
            case = {'routine': 'pairwise_wrapper', 'n': n, 'indptr': [int(v) for v in A.indptr],
                    'indices': [int(v) for v in A.indices], 'data': [float(v) for v in A.data],
                    'matchings': matchings, 'theta': theta, 'norm': norm}
            ctx.case(key=_key(line), nontrivial=has_edge,
                     sample={'request': line[:300], 'model': o[:200]} if ctx.evaluations % 97 == 0 else None)
            ctx.feat('wrapper:' + kind)
            ctx.feat(f'wrapper:matchings={matchings}')
            ctx.feat(f'wrapper:levels={len(ks)}')
            if err is not None:
                ctx.violation(f'pairwise_aggregation(matchings={matchings}, theta={theta}, norm={norm}) raised {err}', case)
                continue
            T = sp.csr_array(T)
            nnz = int(T.indptr[-1])
            D = T.toarray()
            F = [int(np.argmax(D[i])) if D[i].any() else -1 for i in range(n)]
            impl = (f'{T.shape[0]}:{T.shape[1]}:{enc_ints(T.indptr)}:{enc_ints(T.indices[:nnz])}:{enc_ints(T.data[:nnz])};'
                    f'{enc_ints(cpts)};{enc_ints(ks)};{enc_ints(F)}')
            if o != impl:
                ctx.corr('pairwise wrapper vs C12ZW.wrapper', case, o[:600], impl[:600])
                from props.c12 import check_aggop
                e = check_aggop(T, cpts, n, 'pairwise')
                if not e:
                    if D.sum(1).min() != 1:
                        e = 'a node is left unaggregated'
                    elif D.sum(0).max() > 2 ** matchings:
                        e = f'an aggregate has {int(D.sum(0).max())} > 2^{matchings} nodes'
                if e:
                    ctx.violation(f'pairwise_aggregation(matchings={matchings}, theta={theta}, norm={norm}): {e}', case)

    _dispatch(ctx, [it[0] for it in items], finish, defer)


def _dispatch(ctx, lines, finish, defer):
    if defer is None:
        finish(ctx.lean(lines) if lines else [])
    else:
        defer.append((lines, finish))
