"""Python-AST -> Lean translator, second mode (extension E42; properties C16, C08 and C01).

`generate()` (called from `translate.regenerate()`, i.e. on EVERY run of `./check`) reads the functions listed in
`TARGETS` from the WORKING TREE of the repository and writes `lean/PyamgV/Generated/PyLogic2.lean` (git-ignored,
rewritten only when its content changes).  It reuses the expression / statement machinery of `py2lean.py` (E31: the
pure subset, see the docstring there) and adds what is needed to translate WHOLE functions that are not pure --
`coarse_grid_solver` (pyamg/multilevel.py), `MultilevelSolver.solve` (pyamg/multilevel.py), `solver_configuration`
(pyamg/blackbox.py) -- with the numerical work abstracted:

    def <lean_name> (w__ : World) (p1 ... pn : PyVal) : PyM  PyVal := do ...      -- target without effects
    def <lean_name> (w__ : World) (p1 ... pn : PyVal) : PyM2 PyVal := do ...      -- target with effects

over `lean/PyamgV/Model/ExtPy2Rt.lean` (read its header: opaque objects, `World`, events, scripts, trace).

What is added to the subset of py2lean.py
-----------------------------------------
names      : a free name that the module binds at top level (an import, a function, a class) or `print` is the opaque
             object of that name (`np`, `krylov`, `sla`, `warn`, `inspect`, `make_csr`, ...); `self` is a parameter.
attributes : `x.a` (read) = `getAttr`; `__private` names are mangled as CPython does inside a class.
             `hasattr(x, a)`, `getattr(x, a)`, `callable(x)`, `isinstance(x, <opaque class>)`.
items      : `x[i]` = `getItem2` (opaque objects: look-up / path); `x[i] = v` and `x[lo:hi] = v` on a local or
             parameter = `symSetItem` (an event when `x` is opaque).
operators  : `+ - * / @` = `symBin` in a target with effects (an event when an operand is opaque).
calls      : positional + keyword arguments + one trailing `**d`; the callee is any expression; `recv.m(...)` looks
             the method up first (`methodOf`), then evaluates the arguments, then calls (`symCall`), as CPython does.
             `str() int() dict() len()` built-ins.  Statement calls (`warn(...)`, `callback(x)`) are kept.
             `x.append(e)` / `x.extend(e)` on a local or parameter: an event when `x` is opaque.
             `v = d.pop(k)` / `t[...] = d.pop(k)` with `d` a local name.
closures   : a nested `def` is the VALUE `mkClosure name k calls captured` (k: which of the equally named nested
             definitions, in source order; calls: the dotted names its body calls; captured: the enclosing function's
             variables it reads, with their values at the definition).  A nested `class` is `mkClass name captured`;
             calling it without arguments gives the instance value.  Rejected when a captured variable may be assigned
             after the definition (Python closures see later assignments, values do not).  A nested `def` at the top
             level of the function that captures nothing and lies inside the E31 subset (`unpack_arg`) is translated
             as a helper function and called directly.
try/except : `try: ... except (C1, C2): ...` (no `else` / `finally` / `as`) = Lean `try ... catch`, `excMatches`.
             Lean rolls local variables assigned in the `try` body back when it raises, CPython does not: rejected
             unless every such variable is assigned by the last statement of the body that can raise (or is not
             read again).
attr store : `x.a = v` = `symSetAttr` (an event when `x` is opaque; later reads do not see the store, on either side of
             the comparison).
nested     : a target may be a NESTED definition: the path `outer.Class.method` / `outer.name[callee]` (the nested def
             `name` whose body calls `callee`); its parameters are the variables it captures from the enclosing functions
             (sorted, CPython's `co_freevars`) followed by its own.  The checks run the REAL code object of the nested
             definition (taken from the constants of the enclosing function) closed over mock values.
defaults   : parameter defaults are accepted and ignored (the driver passes every argument; the defaults themselves
             are pinned by `Generated/Facts.lean`).

The tie is the one described in py2lean.py: source edits inside the subset regenerate the definitions and the
theorems about them (`Proofs/ExtPy2*.lean`, restated in `Props/C16.lean`, `C08.lean`, `C01.lean`) are re-checked
against what the code says now; anything else yields the sentinel `unsupported "<reason>"` (the file still compiles,
the driver answers `E:Unsupported`, the theorems about that function stop compiling).

What is trusted: this translator, `ExtPyRt.lean` + `ExtPy2Rt.lean` (CPython's semantics on the value universe and the
event semantics), and `harness/extpy2.py` (the mock objects that implement the same event semantics in Python).  All
are exercised on every run: the REAL functions are executed against the mocks and result + exception class + the whole
trace are compared exactly with the generated definitions.
"""
import ast
import hashlib
import re
import subprocess

import py2lean as P
from py2lean import Unsupported, lstr, ident

VERIF = P.VERIF
LEAN = P.LEAN
GEN = P.GEN

# (lean name, file, qualified name, number of Python parameters, has effects)
TARGETS = [
    ('multilevel_coarse_grid_solver', 'pyamg/multilevel.py', 'coarse_grid_solver', 1, False),
    ('multilevel_solve', 'pyamg/multilevel.py', 'MultilevelSolver.solve', 11, True),
    ('blackbox_solver_configuration', 'pyamg/blackbox.py', 'solver_configuration', 3, True),
    # nested definitions of coarse_grid_solver: parameters = the captured variables (sorted) followed by their own
    ('multilevel_cgs_call', 'pyamg/multilevel.py', 'coarse_grid_solver.GenericSolver.__call__', 4, True),
    ('multilevel_cgs_solve_krylov', 'pyamg/multilevel.py', 'coarse_grid_solver.solve[set_tol]', 6, True),
    ('multilevel_cgs_solve_relax', 'pyamg/multilevel.py', 'coarse_grid_solver.solve[getattr]', 5, True),
]

OPAQUE_BUILTINS = {'print'}
BUILTIN_FUNCS = {'isinstance', 'hasattr', 'getattr', 'callable', 'str', 'int', 'dict', 'len', 'list', 'tuple', 'range',
                 'min', 'max'}
BIN2 = {ast.Add: 'add', ast.Sub: 'sub', ast.Mult: 'mul', ast.Div: 'div', ast.MatMult: 'matmul'}
SCOPES = (ast.FunctionDef, ast.AsyncFunctionDef, ast.ClassDef, ast.Lambda)


# --------------------------------------------------------------------------------------------------
# scope helpers (shared with harness/extpy2.py, which describes REAL closures with the same functions)
# --------------------------------------------------------------------------------------------------

def sub_blocks(st):
    """the statement lists directly inside a compound statement"""
    if isinstance(st, (ast.If, ast.For, ast.While)):
        return [st.body, st.orelse]
    if isinstance(st, ast.Try):
        return [st.body] + [h.body for h in st.handlers] + [st.orelse, st.finalbody]
    if isinstance(st, ast.With):
        return [st.body]
    return []


def scope_walk(nodes):
    """all AST nodes below `nodes` that belong to the same scope: nested def / class / lambda nodes are yielded but not
    entered"""
    todo = list(nodes)
    while todo:
        n = todo.pop()
        yield n
        if isinstance(n, SCOPES):
            continue
        todo.extend(ast.iter_child_nodes(n))


def stored_names(stmts, for_name_targets=True):
    """names (re)bound or mutated in place by the statements, in this scope (`for_name_targets=False`: a `for` whose
    target is a plain name does not count)"""
    out = set()
    for n in scope_walk(stmts):
        if isinstance(n, (ast.Assign,)):
            for t in n.targets:
                out |= P._target_names(t)
        elif isinstance(n, (ast.AugAssign, ast.AnnAssign)):
            out |= P._target_names(n.target)
        elif isinstance(n, ast.For):
            if for_name_targets or not isinstance(n.target, ast.Name):
                out |= P._target_names(n.target)
        elif isinstance(n, (ast.FunctionDef, ast.ClassDef)):
            out.add(n.name)
        elif isinstance(n, ast.Call) and isinstance(n.func, ast.Attribute) and isinstance(n.func.value, ast.Name) \
                and n.func.attr in ('append', 'extend', 'pop', 'update', 'clear', 'insert', 'remove', 'sort', 'setdefault'):
            out.add(n.func.value.id)
        elif isinstance(n, ast.ExceptHandler) and n.name:
            out.add(n.name)
    return out


def bound_names(stmts):
    """names BOUND by the statements in this scope (assignment, for, def, class): what makes a name local"""
    out = set()
    for n in scope_walk(stmts):
        if isinstance(n, ast.Name) and isinstance(n.ctx, (ast.Store, ast.Del)):
            out.add(n.id)
        elif isinstance(n, (ast.FunctionDef, ast.ClassDef)):
            out.add(n.name)
        elif isinstance(n, ast.ExceptHandler) and n.name:
            out.add(n.name)
        elif isinstance(n, (ast.Import, ast.ImportFrom)):
            for a in n.names:
                out.add((a.asname or a.name).split('.')[0])
    return out


def bound_in(fn):
    """names local to a function / lambda: parameters and everything it binds"""
    a = fn.args
    out = {x.arg for x in a.args + a.kwonlyargs + a.posonlyargs}
    if a.vararg:
        out.add(a.vararg.arg)
    if a.kwarg:
        out.add(a.kwarg.arg)
    if isinstance(fn, ast.Lambda):
        return out
    return out | bound_names(fn.body)


def free_names(node):
    """names a nested def / lambda / class reads that it does not bind itself (CPython's scoping: a class body is not
    visible from its methods)"""
    if isinstance(node, ast.ClassDef):
        out = set()
        for n in scope_walk(node.body):
            if isinstance(n, SCOPES):
                out |= free_names(n)
        return out
    bound = bound_in(node)
    body = [node.body] if isinstance(node, ast.Lambda) else node.body
    out = set()
    for n in scope_walk(body):
        if isinstance(n, ast.Name) and isinstance(n.ctx, ast.Load) and n.id not in bound:
            out.add(n.id)
        elif isinstance(n, SCOPES):
            out |= free_names(n) - bound
    return out


def calls_summary(fn):
    """sorted dotted names of everything the body of a nested def calls"""
    out = set()
    for n in ast.walk(fn):
        if isinstance(n, ast.Call):
            f = n.func
            parts = []
            while isinstance(f, ast.Attribute):
                parts.append(f.attr)
                f = f.value
            if isinstance(f, ast.Name):
                parts.append(f.id)
                out.add('.'.join(reversed(parts)))
            else:
                out.add('<expr>')
    return sorted(out)


def nested_defs(outer):
    """all def nodes nested (at any depth) inside `outer`, in source order"""
    return sorted((n for n in ast.walk(outer) if isinstance(n, ast.FunctionDef) and n is not outer),
                  key=lambda n: (n.lineno, n.col_offset))


def closure_ordinal(outer, node):
    return [n for n in nested_defs(outer) if n.name == node.name].index(node)


def scope_locals(fn):
    return bound_in(fn)


# --------------------------------------------------------------------------------------------------

class Module2(P.Module):
    def __init__(self, path, gen):
        super().__init__(path, gen)
        self.globals = set()
        for node in self.tree.body:
            if isinstance(node, ast.Import):
                for a in node.names:
                    self.globals.add((a.asname or a.name).split('.')[0])
            elif isinstance(node, ast.ImportFrom):
                for a in node.names:
                    self.globals.add(a.asname or a.name)
            elif isinstance(node, (ast.FunctionDef, ast.ClassDef)):
                self.globals.add(node.name)

    def find2(self, qualname):
        """(node, name of the innermost class the function is a method of or None, enclosing function nodes).  A path
        component is `name` or `name[callee]` (the definition of that name whose body calls `callee`); definitions are
        looked up anywhere inside the enclosing scope (a nested def may sit inside an `if`)"""
        body = self.tree.body
        node, cls, outers = None, None, []
        for part in qualname.split('.'):
            m = re.fullmatch(r'(\w+)(?:\[([\w.<>]+)\])?', part)
            if m is None:
                return None, None, []
            name, sel = m.groups()
            cands = [n for n in scope_walk(body) if isinstance(n, (ast.FunctionDef, ast.ClassDef)) and n.name == name]
            if sel is not None:
                cands = [n for n in cands if isinstance(n, ast.FunctionDef) and sel in calls_summary(n)]
            if len(cands) != 1:
                return None, None, []
            if node is not None and isinstance(node, ast.FunctionDef):
                outers.append(node)
            node = cands[0]
            if isinstance(node, ast.ClassDef):
                cls = node.name
            body = node.body
        if not isinstance(node, ast.FunctionDef):
            return None, None, []
        return node, cls, outers


def with_captured(node, outers):
    """a copy of the nested def `node` whose parameters are the variables it captures from the enclosing functions
    (sorted, CPython's co_freevars) followed by its own"""
    scope = set()
    for o in outers:
        scope |= bound_in(o)
    cap = sorted(free_names(node) & scope)
    new = ast.parse(ast.unparse(node)).body[0]
    new.args.args = [ast.arg(arg=c) for c in cap] + new.args.args
    new.args.defaults = []
    ast.fix_missing_locations(new)
    return new, cap


class Fn2(P.FnTranslator):
    def __init__(self, gen, module, fdef, lean_name, effects, cls_name, helper=False):
        self.gen, self.module, self.fdef, self.lean_name = gen, module, fdef, lean_name
        self.tmp = 0
        a = fdef.args
        if a.vararg or a.kwarg or a.kwonlyargs or a.posonlyargs:
            raise Unsupported('parameters other than plain positional ones (with or without defaults)')
        self.params = [x.arg for x in a.args]
        self.locals = set()
        self.binder_only = set()
        self.loop_local = set()
        self.effects = effects
        self.cls_name = cls_name
        self.helper = helper
        self.free_globals = set()
        self.helpers = {}            # python name of a nested pure helper -> (lean name, arity)
        self.class_names = set()
        self.scope_names = bound_in(fdef)

    # ---------------------------------------------------------------- names / expressions

    def mangle(self, attr):
        if self.cls_name and attr.startswith('__') and not attr.endswith('__'):
            return '_' + self.cls_name.lstrip('_') + attr
        return attr

    def name(self, nm, env):
        if nm in env['comp']:
            return ident(nm)
        if nm in self.helpers:
            raise Unsupported(f'the helper function {nm!r} used as a value')
        if nm in self.locals or nm in self.params or nm in self.binder_only:
            if nm not in env['defined']:
                raise Unsupported(f'local {nm!r} may be unbound when it is read')
            return ident(nm)
        if nm in self.module.consts:
            return self.gen.constant(self.module, nm)
        if nm in self.module.globals or nm in OPAQUE_BUILTINS:
            self.free_globals.add(nm)
            return f'(PyVal.obj {lstr(nm)})'
        raise Unsupported(f'free name {nm!r}')

    def expr(self, e, env):
        if isinstance(e, ast.Attribute):
            x, _ = self.val(e.value, env)
            return self.act(f'getAttr w__ {x} {lstr(self.mangle(e.attr))}'), 'val', True
        if isinstance(e, ast.Subscript) and not isinstance(e.slice, (ast.Slice, ast.Tuple)):
            x, _ = self.val(e.value, env)
            i, _ = self.val(e.slice, env)
            return self.act(f'getItem2 w__ {x} {i}'), 'val', True
        if isinstance(e, ast.BinOp):
            op = BIN2.get(type(e.op))
            if op is None:
                raise Unsupported(f'binary operator {type(e.op).__name__}')
            a, _ = self.val(e.left, env)
            b, _ = self.val(e.right, env)
            if self.effects:
                return self.act(f'symBin {lstr(op)} {a} {b}'), 'val', True
            if op == 'div':
                return self.act(f'pyTrueDiv {a} {b}'), 'val', True
            if op == 'matmul':
                raise Unsupported('operator @ in a function translated without effects')
            return self.act(f'{P.BIN[type(e.op)]} {a} {b}'), 'val', True
        if isinstance(e, ast.Lambda):
            raise Unsupported('lambda')
        return super().expr(e, env)

    def kwargs_term(self, e, env):
        explicit, extra = [], None
        for k in e.keywords:
            if k.arg is None:
                if extra is not None:
                    raise Unsupported('more than one ** argument')
                extra = self.val(k.value, env)[0]
            else:
                if extra is not None:
                    raise Unsupported('keyword argument after **')
                explicit.append(f'({lstr(k.arg)}, {self.val(k.value, env)[0]})')
        lst = '[' + ', '.join(explicit) + ']'
        if extra is None:
            return lst
        return self.act(f'kwMerge {lst} {extra}')

    def is_builtin_class_expr(self, node):
        if isinstance(node, ast.Name):
            return node.id in P.ISINSTANCE_CLASSES and node.id not in self.scope_names and node.id not in self.module.globals
        if isinstance(node, ast.Tuple):
            return all(self.is_builtin_class_expr(x) for x in node.elts)
        return False

    def builtin_call(self, f, e, env):
        n = len(e.args)
        if f == 'isinstance':
            if n != 2:
                raise Unsupported('isinstance arity')
            if self.is_builtin_class_expr(e.args[1]):
                return super().call(e, env)
            a, _ = self.val(e.args[0], env)
            c, _ = self.val(e.args[1], env)
            return self.act(f'symIsInst w__ {a} {c}'), 'bool', True
        args = [self.val(a, env)[0] for a in e.args]
        if f == 'hasattr' and n == 2:
            return self.act(f'hasAttr w__ {args[0]} {args[1]}'), 'bool', True
        if f == 'getattr' and n == 2:
            return self.act(f'getAttrDyn w__ {args[0]} {args[1]}'), 'val', True
        if f == 'callable' and n == 1:
            return f'(isCallable w__ {args[0]})', 'bool', '←' in args[0]
        if f == 'str' and n == 1:
            return self.act(f'pyStr {args[0]}'), 'val', True
        if f == 'int' and n == 1:
            return self.act(f'pyInt {args[0]}'), 'val', True
        if f == 'dict' and n == 1:
            return self.act(f'pyDictCopy {args[0]}'), 'val', True
        if f == 'len' and n == 1:
            return self.act(f'len2 w__ {args[0]}'), 'val', True
        if f in ('list', 'tuple', 'range', 'min', 'max', 'dict'):
            return super().call(e, env)
        raise Unsupported(f'{f}() with {n} argument(s)')

    def call(self, e, env):
        if any(isinstance(a, ast.Starred) for a in e.args):
            raise Unsupported('call with starred arguments')
        f = e.func
        if isinstance(f, ast.Name) and f.id not in self.scope_names and f.id not in env['comp']:
            if f.id in BUILTIN_FUNCS and f.id not in self.module.globals:
                if e.keywords:
                    raise Unsupported(f'keyword arguments of {f.id}()')
                return self.builtin_call(f.id, e, env)
        if isinstance(f, ast.Name) and f.id in self.helpers:
            lean, arity = self.helpers[f.id]
            if e.keywords or len(e.args) != arity:
                raise Unsupported(f'call of the helper {f.id!r} with keywords / the wrong number of arguments')
            args = [self.val(a, env)[0] for a in e.args]
            return self.act(lean + ' w__' + ''.join(' ' + a for a in args)), 'val', True
        if not self.effects:
            if isinstance(f, ast.Name) and f.id in self.class_names and not e.args and not e.keywords:
                return self.act(f'symInstantiate {self.name(f.id, env)}'), 'val', True
            if isinstance(f, ast.Attribute):
                if e.keywords:
                    raise Unsupported('keyword arguments of a method in a function translated without effects')
                recv, _ = self.val(f.value, env)
                args = [self.val(a, env)[0] for a in e.args]
                return self.act(f'builtinMethod {recv} {lstr(f.attr)} [{", ".join(args)}] []'), 'val', True
            raise Unsupported('call of an opaque callee in a function translated without effects')
        if isinstance(f, ast.Attribute):
            recv, _ = self.val(f.value, env)
            fv = self.act(f'methodOf w__ {recv} {lstr(self.mangle(f.attr))}')
        else:
            fv, _ = self.val(f, env)
        args = [self.val(a, env)[0] for a in e.args]
        kw = self.kwargs_term(e, env)
        return self.act(f'symCall w__ {fv} [{", ".join(args)}] {kw}'), 'val', True

    # ---------------------------------------------------------------- scans

    def collect_locals(self, stmts):
        for n in scope_walk(stmts):
            if isinstance(n, (ast.NamedExpr, ast.Global, ast.Nonlocal, ast.AnnAssign, ast.With, ast.Delete, ast.Yield,
                              ast.YieldFrom, ast.Await, ast.AsyncFunctionDef, ast.Match)):
                raise Unsupported(type(n).__name__)
            if isinstance(n, ast.ExceptHandler) and n.name:
                raise Unsupported('except ... as name')
        self.locals |= stored_names(stmts) - set(self.helpers)

    def terminates(self, stmts):
        if not stmts:
            return False
        last = stmts[-1]
        if isinstance(last, ast.Try):
            return (not last.orelse and not last.finalbody and self.terminates(last.body)
                    and all(self.terminates(h.body) for h in last.handlers))
        return super().terminates(stmts)

    def find_binder_only(self, body):
        cand = set()
        for st in scope_walk(body):
            if isinstance(st, ast.For) and isinstance(st.target, ast.Name):
                cand.add(st.target.id)
        # anything bound any other way is not a plain binder
        cand -= stored_names(body, for_name_targets=False)
        cand -= set(self.params)

        def reads(node):
            return {n.id for n in ast.walk(node) if isinstance(n, ast.Name) and isinstance(n.ctx, ast.Load)}

        def reads_outside(stmts, bound):
            bad = set()
            for st in stmts:
                if isinstance(st, ast.For):
                    bad |= (reads(st.iter) & cand) - bound
                    b2 = bound | ({st.target.id} if isinstance(st.target, ast.Name) else set())
                    bad |= reads_outside(st.body, b2) | reads_outside(st.orelse, bound)
                elif isinstance(st, (ast.If, ast.While)):
                    bad |= (reads(st.test) & cand) - bound
                    bad |= reads_outside(st.body, bound) | reads_outside(st.orelse, bound)
                elif isinstance(st, ast.Try):
                    for b in sub_blocks(st):
                        bad |= reads_outside(b, bound)
                elif isinstance(st, SCOPES):
                    bad |= reads(st) & cand          # a closure may outlive the loop: keep the variable mutable
                else:
                    bad |= (reads(st) & cand) - bound
            return bad
        return cand - reads_outside(body, set())

    def find_loop_local(self, body):
        depths = {}

        def note(names, d):
            for n in names:
                depths.setdefault(n, set()).add(d)

        def scan(stmts, d):
            for st in stmts:
                if isinstance(st, ast.For):
                    note(P._target_names(st.target), d)
                    scan(st.body, d + 1)
                    scan(st.orelse, d)
                elif isinstance(st, ast.While):
                    scan(st.body, d + 1)
                    scan(st.orelse, d)
                elif sub_blocks(st):
                    for b in sub_blocks(st):
                        scan(b, d)
                else:
                    note(stored_names([st]), d)
        scan(body, 0)
        return {n for n, ds in depths.items() if ds == {1}} - set(self.params)

    def direct_assigned(self, stmts):
        out = set()
        for st in stmts:
            if isinstance(st, (ast.For, ast.While)):
                continue
            if sub_blocks(st):
                for b in sub_blocks(st):
                    out |= self.direct_assigned(b)
            else:
                out |= stored_names([st])
        return out

    # ---------------------------------------------------------------- closures

    def later_stored(self, stmts, node):
        """(found, names that may be stored after `node` has been executed, control may flow out of `stmts`)"""
        for i, st in enumerate(stmts):
            rest = stmts[i + 1:]
            if st is node:
                return True, stored_names(rest), not self.terminates(rest) if rest else True
            blocks = sub_blocks(st)
            for bi, b in enumerate(blocks):
                found, names, flows = self.later_stored(b, node)
                if not found:
                    continue
                if isinstance(st, (ast.For, ast.While)):
                    names |= stored_names([st])
                    flows = True
                if isinstance(st, ast.Try):
                    if bi == 0:
                        names |= stored_names([s for h in st.handlers for s in h.body])
                        flows = flows or not all(self.terminates(h.body) for h in st.handlers)
                    names |= stored_names(st.orelse + st.finalbody)
                if flows:
                    names |= stored_names(rest)
                    flows = not self.terminates(rest) if rest else True
                return True, names, flows
        return False, set(), False

    def captured(self, node, env):
        """[(name, lean term)] of the enclosing function's variables a nested def / class captures"""
        names = sorted(free_names(node) & self.scope_names)
        _, later, _ = self.later_stored(self.body, node)
        bad = sorted(set(names) & later)
        if bad:
            raise Unsupported(f'{node.name}: captured variable(s) {bad} may be assigned after the definition')
        return [(n, self.name(n, env)) for n in names]

    # ---------------------------------------------------------------- statements

    def cannot_raise(self, st):
        def simple(e):
            return isinstance(e, (ast.Name, ast.Constant)) or (isinstance(e, ast.Tuple) and all(simple(x) for x in e.elts))
        if isinstance(st, ast.Pass):
            return True
        if isinstance(st, ast.Return):
            return st.value is None or simple(st.value)
        if isinstance(st, ast.If):
            return isinstance(st.test, ast.Name) and all(self.cannot_raise(s) for s in st.body + st.orelse)
        return False

    def check_try_rollback(self, st):
        inside = {id(n) for s in st.body for n in ast.walk(s)}
        read_elsewhere = {n.id for n in ast.walk(self.fdef)
                          if isinstance(n, ast.Name) and isinstance(n.ctx, ast.Load) and id(n) not in inside}
        for i, s in enumerate(st.body):
            names = stored_names([s]) & read_elsewhere
            if names and not all(self.cannot_raise(t) for t in st.body[i + 1:]):
                raise Unsupported(f'try body assigns {sorted(names)} before a statement that may raise '
                                  '(Lean rolls the assignment back, CPython does not)')

    def assign_target(self, target, term, env, ind, defined):
        if isinstance(target, ast.Attribute):
            if not self.effects:
                raise Unsupported('assignment to an attribute in a function translated without effects')
            x, _ = self.val(target.value, env)
            pre = []
            if '←' in x and '←' in term:
                v = self.fresh('rhs')
                pre = [f'{ind}let {v} := {term}']
                term = v
            return pre + [f'{ind}symSetAttr {x} {lstr(self.mangle(target.attr))} {term}']
        if self.effects and isinstance(target, ast.Subscript) and isinstance(target.value, ast.Name) \
                and not isinstance(target.slice, ast.Tuple):
            x = target.value.id
            xt = self.name(x, env)
            if x not in self.locals and x not in self.params:
                raise Unsupported('item assignment on something that is not a local')
            if isinstance(target.slice, ast.Slice):
                if target.slice.step is not None:
                    raise Unsupported('slice with a step')
                lo = self.val(target.slice.lower, env)[0] if target.slice.lower is not None else 'PyVal.none'
                hi = self.val(target.slice.upper, env)[0] if target.slice.upper is not None else 'PyVal.none'
                key = f'(sliceKey {lo} {hi})'
            else:
                key = self.val(target.slice, env)[0]
            pre = []
            if '←' in key and '←' in term:
                v = self.fresh('rhs')
                pre = [f'{ind}let {v} := {term}']
                term = v
            return pre + [f'{ind}{ident(x)} ← symSetItem {xt} {key} {term}']
        return super().assign_target(target, term, env, ind, defined)

    def pop_call(self, v):
        """`d.pop(k)` with `d` a local name -> (d, k node)"""
        if isinstance(v, ast.Call) and isinstance(v.func, ast.Attribute) and v.func.attr == 'pop' \
                and isinstance(v.func.value, ast.Name) and len(v.args) == 1 and not v.keywords \
                and (v.func.value.id in self.locals or v.func.value.id in self.params):
            return v.func.value.id, v.args[0]
        return None

    def stmt(self, st, env, ind):
        defined = set(env['defined'])
        if isinstance(st, ast.FunctionDef):
            cap = self.captured(st, env)
            k = closure_ordinal(self.fdef, st)
            calls = '[' + ', '.join(lstr(c) for c in calls_summary(st)) + ']'
            caps = '[' + ', '.join(f'({lstr(n)}, {t})' for n, t in cap) + ']'
            defined.add(st.name)
            return [f'{ind}{ident(st.name)} := mkClosure {lstr(st.name)} {k} {calls} {caps}'], defined
        if isinstance(st, ast.ClassDef):
            if st.bases or st.keywords or st.decorator_list:
                raise Unsupported('class with bases / decorators')
            cap = self.captured(st, env)
            caps = '[' + ', '.join(f'({lstr(n)}, {t})' for n, t in cap) + ']'
            defined.add(st.name)
            return [f'{ind}{ident(st.name)} := mkClass {lstr(st.name)} {caps}'], defined
        if isinstance(st, ast.Try):
            if st.orelse or st.finalbody:
                raise Unsupported('try ... else / finally')
            self.check_try_rollback(st)
            body, d_body = self.block(st.body, env, ind + '  ')
            ev = self.fresh('exc')
            out = [f'{ind}try'] + body + [f'{ind}catch {ev} =>']
            ds = [d_body]
            for hi, h in enumerate(st.handlers):
                if h.name is not None:
                    raise Unsupported('except ... as name')
                if h.type is None:
                    raise Unsupported('bare except')
                tys = h.type.elts if isinstance(h.type, ast.Tuple) else [h.type]
                if not all(isinstance(t, ast.Name) and re.fullmatch(r'[A-Za-z_][A-Za-z0-9_]*', t.id) for t in tys):
                    raise Unsupported('except clause with something other than exception class names')
                hb, d_h = self.block(h.body, env, ind + '    ')
                kw = 'if' if hi == 0 else 'else if'
                out.append(f'{ind}  {kw} excMatches {ev}.cls [' + ', '.join(lstr(t.id) for t in tys) + '] then')
                out += hb
                ds.append(d_h)
            out += [f'{ind}  else', f'{ind}    throw {ev}']
            live = [d for d in ds if d is not None]
            if not live:
                return out, None
            r = set(live[0])
            for d in live[1:]:
                r &= d
            return out, r
        if isinstance(st, ast.Expr) and isinstance(st.value, ast.Call) and self.effects:
            c = st.value
            if isinstance(c.func, ast.Attribute) and isinstance(c.func.value, ast.Name) and c.func.attr in ('append', 'extend') \
                    and len(c.args) == 1 and not c.keywords and (c.func.value.id in self.locals or c.func.value.id in self.params):
                x = c.func.value.id
                xt = self.name(x, env)
                a, _ = self.val(c.args[0], env)
                return [f'{ind}{ident(x)} ← sym{c.func.attr.capitalize()} w__ {xt} {a}'], defined
            t, _ = self.val(c, env)
            return [f'{ind}let _ := {t}'], defined
        if isinstance(st, ast.Assign) and self.pop_call(st.value) is not None:
            d, knode = self.pop_call(st.value)
            dt = self.name(d, env)
            kt, _ = self.val(knode, env)
            pp = self.fresh('pp')
            out = [f'{ind}let {pp} ← pyDictPop {dt} {kt}', f'{ind}{ident(d)} := {pp}.2']
            for tg in st.targets:
                out += self.assign_target(tg, f'{pp}.1', dict(env, defined=defined), ind, defined)
            return out, defined
        if isinstance(st, ast.AugAssign) and self.effects and isinstance(st.target, ast.Name) and type(st.op) in BIN2:
            cur = self.name(st.target.id, env)
            v, _ = self.val(st.value, env)
            op = BIN2[type(st.op)]
            av = self.fresh('av')
            if op == 'add':
                term = f'(← (match {cur} with | PyVal.list _ => (pyExtend {cur} {av} : PyM2 PyVal) | _ => symBin "add" {cur} {av}))'
            else:
                term = f'(← symBin {lstr(op)} {cur} {av})'
            return [f'{ind}let {av} := {v}'] + self.assign_name(st.target.id, term, ind), defined
        if isinstance(st, ast.While):
            # as in py2lean.py, but the fuel is a `Std.Range` (consumed lazily: the kernel can run it)
            if st.orelse:
                raise Unsupported('while ... else')
            inner = ind + '  '
            c, _ = self.boolean(st.test, dict(env, loop=True))
            k = self.fresh('fuel')
            out = [f'{ind}for {k} in [0:{P.WHILE_FUEL + 1}] do',
                   f'{inner}if !{c} then',
                   f'{inner}  break',
                   f'{inner}if {k} == {P.WHILE_FUEL} then',
                   f'{inner}  throw (PyErr.mk "FuelExhausted" "while loop")']
            body, _ = self.block(st.body, dict(env, loop=True), inner)
            return out[:1] + self.loop_decls(st.body, inner) + out[1:] + body, defined
        return super().stmt(st, env, ind)

    # ---------------------------------------------------------------- whole function

    def translate(self):
        body = list(self.fdef.body)
        if body and isinstance(body[0], ast.Expr) and isinstance(body[0].value, ast.Constant) and isinstance(body[0].value.value, str):
            body = body[1:]
        self.outer = self.fdef
        # nested defs at the top level that capture nothing and translate as pure functions are helpers
        keep = []
        for s in body:
            if isinstance(s, ast.FunctionDef) and not self.helper and not (free_names(s) & self.scope_names):
                h = self.gen.helper(self, s)
                if h is not None:
                    self.helpers[s.name] = h
                    continue
            keep.append(s)
        body = keep
        self.body = body
        self.class_names = {n.name for n in scope_walk(body) if isinstance(n, ast.ClassDef)}
        self.collect_locals(body)
        self.binder_only = self.find_binder_only(body)
        self.locals -= self.binder_only
        self.loop_local = self.find_loop_local(body) & self.locals
        if len(set(ident(p) for p in self.params)) != len(self.params):
            raise Unsupported('parameter names collide after escaping')
        env = {'defined': set(self.params), 'comp': set(), 'loop': False}
        head = []
        for p in self.params:
            if p in self.locals:
                head.append(f'  let mut {ident(p)} := {ident(p)}')
        for v in sorted(self.locals - set(self.params) - self.loop_local):
            head.append(f'  let mut {ident(v)} : PyVal := PyVal.none')
        lines, d = self.block(body, env, '  ')
        if d is not None:
            lines.append('  return PyVal.none')
        params = ''.join(f' ({ident(p)} : PyVal)' for p in self.params)
        monad = 'PyM2' if self.effects else 'PyM'
        sig = f'def {self.lean_name} (w__ : World){params} : {monad} PyVal := do'
        return '\n'.join([sig] + head + lines)


class Generator2:
    def __init__(self):
        self.modules = {}
        self.consts = {}
        self.defs = {}            # lean name -> dict(text, arity, ok, reason, doc, effects, free_globals, params)
        self.order = []
        self.allow_nested_defs = True

    def module(self, path):
        if path not in self.modules:
            self.modules[path] = Module2(path, self)
        return self.modules[path]

    def constant(self, module, nm):
        lean = f'{module.prefix}_const_{nm}'
        if lean not in self.consts:
            self.consts[lean] = f'/-- `{nm}` of {module.path} -/\ndef {lean} : PyVal := {P.const_val(module.consts[nm])}'
        return lean

    def callee(self, module, f, outer):
        return None

    def helper(self, parent, node):
        """translate a nested def of `parent` as a pure helper; (lean name, arity) or None"""
        lean = f'{parent.lean_name}_{node.name.lstrip("_")}'
        try:
            tr = Fn2(self, parent.module, node, lean, False, parent.cls_name, helper=True)
            if node.args.defaults:
                raise Unsupported('defaults')
            text = tr.translate()
        except Unsupported:
            return None
        self.defs[lean] = dict(text=text, arity=len(tr.params), ok=True, reason='', effects=False, params=tr.params,
                               free_globals=sorted(tr.free_globals), table=False,
                               doc=f'`{parent.fdef.name}.{node.name}` of {parent.module.path} (nested helper)')
        self.order.append(lean)
        return lean, len(tr.params)

    def sentinel(self, lean, arity, effects, reason, doc):
        params = ''.join(f' (a{k} : PyVal)' for k in range(arity))
        monad = 'PyM2' if effects else 'PyM'
        body = f'unsupported {lstr(reason)}'
        if effects:
            body = f'monadLift ({body} : PyM PyVal)'
        text = f'def {lean} (w__ : World){params} : {monad} PyVal := {body}'
        self.defs[lean] = dict(text=text, arity=arity, ok=False, reason=reason, doc=doc, effects=effects, params=[],
                               free_globals=[], table=True)

    def emit(self, lean, path, qual, arity, effects):
        doc = f'`{qual}` of {path}'
        try:
            module = self.module(path)
        except (OSError, SyntaxError) as ex:
            self.sentinel(lean, arity, effects, f'cannot parse {path}: {type(ex).__name__}', doc)
            self.order.append(lean)
            return
        node, cls, outers = module.find2(qual)
        if node is None:
            self.sentinel(lean, arity, effects, f'function {qual} not found in {path} (or not unique)', doc)
            self.order.append(lean)
            return
        n_before = len(self.order)
        try:
            cap = []
            if outers:
                node, cap = with_captured(node, outers)
                doc += f' -- a nested definition; leading parameters = the captured variables {cap}'
            tr = Fn2(self, module, node, lean, effects, cls)
            text = tr.translate()
            if len(tr.params) != arity:
                raise Unsupported(f'takes {len(tr.params)} parameters, {arity} expected')
            self.defs[lean] = dict(text=text, arity=arity, ok=True, reason='', doc=doc, effects=effects, params=tr.params,
                                   free_globals=sorted(tr.free_globals), table=True, captured=cap)
        except Unsupported as ex:
            for h in self.order[n_before:]:
                self.defs.pop(h, None)
            del self.order[n_before:]
            self.sentinel(lean, arity, effects, f'{qual} ({path}:{getattr(node, "lineno", 0)}): {ex}', doc)
        except RecursionError:
            for h in self.order[n_before:]:
                self.defs.pop(h, None)
            del self.order[n_before:]
            self.sentinel(lean, arity, effects, f'{qual}: expression too deep', doc)
        self.order.append(lean)

    def render(self, sentinel_only=()):
        lines = ['import PyamgV.Model.ExtPy2Rt',
                 '/-! GENERATED by harness/py2lean2.py from the working tree of the repository on every run. Do not edit.',
                 'One executable definition per translated Python function (see the docstring of py2lean2.py for the',
                 'subset and what is trusted, and Model/ExtPy2Rt.lean for the event semantics); `tablePure` / `tableEff`',
                 'are what the driver calls. -/',
                 'set_option linter.unusedVariables false',
                 'set_option maxRecDepth 4096',
                 'namespace PyamgV.Generated.PyLogic2',
                 'open PyamgV.ExtPy PyamgV.ExtPy2', '']
        for c in self.consts.values():
            lines += [c, '']
        for lean in self.order:
            d = self.defs[lean]
            if lean in sentinel_only and d['ok']:
                self.sentinel(lean, d['arity'], d['effects'],
                              'the generated definition did not compile (translator defect on this input)', d['doc'])
                self.defs[lean]['table'] = d['table']
                d = self.defs[lean]
            lines += [f'/-- {d["doc"]} -/', d['text'], '']
        tab = [n for n in self.order if self.defs[n]['table']]
        lines.append('/-- (name, translated?, reason when not) -/')
        lines.append('def status : List (String × Bool × String) := [')
        lines.append(',\n'.join(f'  ({lstr(n)}, {"true" if self.defs[n]["ok"] else "false"}, {lstr(self.defs[n]["reason"])})'
                                for n in tab))
        lines.append(']')
        lines.append('')
        for eff, nm, monad in ((False, 'tablePure', 'PyM'), (True, 'tableEff', 'PyM2')):
            lines.append(f'def {nm} : List (String × (World → List PyVal → {monad} PyVal)) := [')
            rows = []
            for n in tab:
                d = self.defs[n]
                if d['effects'] != eff:
                    continue
                ps = ', '.join(f'a{k}' for k in range(d['arity']))
                call = n + ' w' + ''.join(f' a{k}' for k in range(d['arity']))
                bad = 'raise "TypeError" "arity"' if not eff else 'throw ⟨"TypeError", "arity"⟩'
                rows.append(f'  ({lstr(n)}, fun w args => match args with | [{ps}] => {call} | _ => {bad})')
            lines.append(',\n'.join(rows))
            lines.append(']')
            lines.append('')
        lines.append('end PyamgV.Generated.PyLogic2')
        return '\n'.join(lines) + '\n'


def build():
    g = Generator2()
    for lean, path, qual, arity, effects in TARGETS:
        g.emit(lean, path, qual, arity, effects)
    return g


def info():
    """{lean name: dict(ok, reason, params, free_globals, effects)} of the targets, from the working tree"""
    g = build()
    out = {n: {k: g.defs[n].get(k) for k in ('ok', 'reason', 'params', 'free_globals', 'effects', 'captured')} for n, *_ in TARGETS}
    for n, path, qual, *_ in TARGETS:
        out[n].update(path=path, qual=qual)
    return out


def _compiles(text):
    tmp = VERIF / 'build' / 'py2lean'
    tmp.mkdir(parents=True, exist_ok=True)
    f = tmp / 'Candidate2.lean'
    f.write_text(text)
    subprocess.run(['lake', 'build', 'PyamgV.Model.ExtPy2Rt'], cwd=LEAN, capture_output=True, text=True, timeout=1200)
    p = subprocess.run(['lake', 'env', 'lean', str(f)], cwd=LEAN, capture_output=True, text=True, timeout=900)
    out = p.stdout + p.stderr
    lines = {int(m.group(1)) for m in re.finditer(r'Candidate2\.lean:(\d+):\d+: error', out)}
    return p.returncode == 0, lines, out


def generate():
    """write Generated/PyLogic2.lean; returns [(lean name, ok, reason)]"""
    g = build()
    text = g.render()
    target = GEN / 'PyLogic2.lean'
    GEN.mkdir(parents=True, exist_ok=True)
    stamp = VERIF / 'build' / 'py2lean' / 'ok2.sha'
    rt = (LEAN / 'PyamgV' / 'Model' / 'ExtPy2Rt.lean').read_bytes() + (LEAN / 'PyamgV' / 'Model' / 'ExtPyRt.lean').read_bytes()
    digest = hashlib.sha256(text.encode() + rt).hexdigest()
    known_good = stamp.exists() and digest in stamp.read_text().split()
    if not known_good:
        try:
            ok, errlines, out = _compiles(text)
        except Exception:  # noqa: BLE001
            ok, errlines, out = True, set(), ''        # cannot run lean here: leave it to lake build
        if not ok:
            src = text.split('\n')
            bad = set()
            for ln in errlines:
                for k in range(min(ln, len(src)) - 1, -1, -1):
                    m = re.match(r'def (\w+)', src[k])
                    if m:
                        bad.add(m.group(1))
                        break
            bad &= set(g.order)
            # a helper that does not compile takes its target with it
            for n in list(bad):
                for t, *_ in TARGETS:
                    if n.startswith(t + '_'):
                        bad.add(t)
            text2 = g.render(sentinel_only=bad) if bad else None
            if text2 is None or not _compiles(text2)[0]:
                text2 = g.render(sentinel_only=set(g.order))
            text = text2
        else:
            stamp.parent.mkdir(parents=True, exist_ok=True)
            old = stamp.read_text().split()[-20:] if stamp.exists() else []
            stamp.write_text('\n'.join(old + [digest]) + '\n')
    if not target.exists() or target.read_text() != text:
        target.write_text(text)
    return [(n, g.defs[n]['ok'], g.defs[n]['reason']) for n in g.order]


if __name__ == '__main__':
    import sys
    if '--show' in sys.argv:
        print(build().render())
    else:
        for n, ok, why in generate():
            print(('ok   ' if ok else 'UNSUPPORTED ') + n + ('' if ok else ': ' + why))
