"""Python-AST -> Lean translator, second mode, target `MultilevelSolver.__solve` (extension E57; properties C03, C08).

`generate()` (called from `translate.regenerate()`, i.e. on EVERY run of `./check`) reads `MultilevelSolver.__solve`
from the WORKING TREE of the repository and writes `lean/PyamgV/Generated/PyLogic3_cycle.lean` (git-ignored, rewritten
only when its content changes).  Everything is the translation of `py2lean2.py` (read its docstring: subset, event
semantics, what is trusted); this driver only adds, in the subclass `Fn3` of `py2lean2.Fn2`:

recursion  : `self.<the method itself>(a1, ..., an)` (receiver = the first parameter, which must be called `self` and is
             never assigned; positional and keyword arguments; missing arguments = the constant defaults of the `def`) is
             a call of the generated definition itself,

                 def multilevel_cycle (fuel__ : Nat) (w__ : World) (self lvl x b cycle cycles_per_level : PyVal) : PyM2 PyVal

             which is structurally recursive in `fuel__` (the recursion depth still allowed; the driver passes
             `ExtPy3Cyc.recFuel`).  ASSUMPTION (part of the trusted base, exercised by the comparison): the attribute
             `self.__solve` is this very method (not rebound on the instance, not overridden).  As in CPython a callee's
             rebinding of its parameters (`x += ...` on a mock object creates a new object) is not seen by the caller.
tuple index: `x[i, :]`, `x[i, j]` (read) = `getItemT` (Model/ExtPy3CycRt.lean); `x[i, :] = v`, `x[i, j] = v` on a local =
             the `setitem` event with the key `(i, ('<slice>', lo, hi))` / `(i, j)`.
aug-assign : `x[key] op= e` on a local = read the item, evaluate `e`, the operator event, the `setitem` event (CPython's
             order; the key is a tuple / name / constant, evaluated once).

Sentinel behaviour as in py2lean2.py: source outside the subset => `unsupported "<reason>"`, the driver answers
`E:Unsupported`, the theorems about the definition (`Proofs/ExtPy3Cycle*.lean`, restated in `Props/C03.lean`) stop
compiling.
"""
import ast
import hashlib
import re
import subprocess

import py2lean as P
import py2lean2 as L2
from py2lean import Unsupported, lstr, ident

VERIF, LEAN, GEN = P.VERIF, P.LEAN, P.GEN

LEAN_NAME = 'multilevel_cycle'
PATH = 'pyamg/multilevel.py'
QUAL = 'MultilevelSolver.__solve'
ARITY = 6
MODULE = 'PyLogic3_cycle'


class Fn3(L2.Fn2):
    # ---------------------------------------------------------------- tuple subscripts

    def tuple_key(self, sl, env):
        parts = []
        for x in sl.elts:
            if isinstance(x, ast.Slice):
                if x.step is not None:
                    raise Unsupported('slice with a step')
                lo = self.val(x.lower, env)[0] if x.lower is not None else 'PyVal.none'
                hi = self.val(x.upper, env)[0] if x.upper is not None else 'PyVal.none'
                parts.append(f'(sliceKey {lo} {hi})')
            elif isinstance(x, (ast.Name, ast.Constant)):
                parts.append(self.val(x, env)[0])
            else:
                raise Unsupported('component of a tuple subscript that is not a name, a constant or a slice')
        return '(PyVal.tuple [' + ', '.join(parts) + '])'

    def expr(self, e, env):
        if isinstance(e, ast.Subscript) and isinstance(e.slice, ast.Tuple):
            x, _ = self.val(e.value, env)
            return self.act(f'getItemT w__ {x} {self.tuple_key(e.slice, env)}'), 'val', True
        return super().expr(e, env)

    def local_subscript(self, target):
        return (self.effects and isinstance(target, ast.Subscript) and isinstance(target.value, ast.Name)
                and (target.value.id in self.locals or target.value.id in self.params))

    def assign_target(self, target, term, env, ind, defined):
        if self.local_subscript(target) and isinstance(target.slice, ast.Tuple):
            x = target.value.id
            xt = self.name(x, env)
            key = self.tuple_key(target.slice, env)
            return [f'{ind}{ident(x)} ← symSetItem {xt} {key} {term}']
        return super().assign_target(target, term, env, ind, defined)

    def stmt(self, st, env, ind):
        if isinstance(st, ast.AugAssign) and self.local_subscript(st.target) and type(st.op) in L2.BIN2:
            sl = st.target.slice
            x = st.target.value.id
            xt = self.name(x, env)
            if isinstance(sl, ast.Tuple):
                key, get = self.tuple_key(sl, env), 'getItemT'
            elif isinstance(sl, (ast.Name, ast.Constant)):
                key, get = self.val(sl, env)[0], 'getItem2'
            else:
                raise Unsupported('augmented assignment to an item whose index is not a tuple, a name or a constant')
            kk, cur, av = self.fresh('key'), self.fresh('cur'), self.fresh('av')
            v, _ = self.val(st.value, env)
            op = L2.BIN2[type(st.op)]
            return [f'{ind}let {kk} := {key}',
                    f'{ind}let {cur} := (← {get} w__ {xt} {kk})',
                    f'{ind}let {av} := {v}',
                    f'{ind}{ident(x)} ← symSetItem {xt} {kk} (← symBin {lstr(op)} {cur} {av})'], set(env['defined'])
        return super().stmt(st, env, ind)

    # ---------------------------------------------------------------- recursion

    def is_self_call(self, f):
        return (isinstance(f, ast.Attribute) and isinstance(f.value, ast.Name) and f.value.id == 'self'
                and f.attr == self.fdef.name and self.params and self.params[0] == 'self')

    def call(self, e, env):
        if self.is_self_call(e.func):
            if 'self' in self.locals:
                raise Unsupported('recursive call through a `self` that is assigned in the function')
            if any(isinstance(a, ast.Starred) for a in e.args) or any(k.arg is None for k in e.keywords):
                raise Unsupported('recursive call with * / ** arguments')
            own = self.params[1:]
            a = self.fdef.args
            defaults = dict(zip(own[len(own) - len(a.defaults):], a.defaults))
            if len(e.args) > len(own):
                raise Unsupported('recursive call with too many arguments')
            given = {}
            # CPython evaluates positional arguments, then keyword arguments, in source order
            for nm, arg in zip(own, e.args):
                given[nm] = self.val(arg, env)[0]
            for k in e.keywords:
                if k.arg not in own or k.arg in given:
                    raise Unsupported(f'recursive call: keyword {k.arg!r}')
                given[k.arg] = self.val(k.value, env)[0]
            terms = []
            for nm in own:
                if nm in given:
                    terms.append(given[nm])
                elif nm in defaults and isinstance(defaults[nm], ast.Constant):
                    terms.append(self.val(defaults[nm], env)[0])
                else:
                    raise Unsupported(f'recursive call without the argument {nm!r} (no constant default)')
            return self.act(f'{self.lean_name} fuel__ w__ {self.name("self", env)}' + ''.join(' ' + t for t in terms)), 'val', True
        return super().call(e, env)

    def translate(self):
        text = super().translate().split('\n')
        params = ''.join(f' ({ident(p)} : PyVal)' for p in self.params)
        head = [f'def {self.lean_name} (fuel__ : Nat) (w__ : World){params} : PyM2 PyVal :=',
                '  match fuel__ with',
                '  | 0 => throw (PyErr.mk "FuelExhausted" "recursion depth")',
                '  | fuel__ + 1 => do']
        return '\n'.join(head + ['  ' + ln for ln in text[1:]])


def sentinel_text(reason):
    params = ''.join(f' (a{k} : PyVal)' for k in range(ARITY))
    return (f'def {LEAN_NAME} (fuel__ : Nat) (w__ : World){params} : PyM2 PyVal :=\n'
            f'  monadLift (unsupported {lstr(reason)} : PyM PyVal)')


def build():
    """dict(text, ok, reason, params, free_globals, consts) of the target, from the working tree"""
    g = L2.Generator2()
    out = dict(ok=False, reason='', params=[], free_globals=[], consts=[], path=PATH, qual=QUAL)
    try:
        module = g.module(PATH)
    except (OSError, SyntaxError) as ex:
        out.update(reason=f'cannot parse {PATH}: {type(ex).__name__}')
        out['text'] = sentinel_text(out['reason'])
        return out
    node, cls, outers = module.find2(QUAL)
    if node is None or outers:
        out.update(reason=f'function {QUAL} not found in {PATH} (or not unique)')
        out['text'] = sentinel_text(out['reason'])
        return out
    try:
        tr = Fn3(g, module, node, LEAN_NAME, True, cls)
        text = tr.translate()
        if len(tr.params) != ARITY:
            raise Unsupported(f'takes {len(tr.params)} parameters, {ARITY} expected')
        if tr.helpers:
            raise Unsupported('nested helper definitions')
        out.update(ok=True, text=text, params=tr.params, free_globals=sorted(tr.free_globals), consts=list(g.consts.values()))
    except Unsupported as ex:
        out.update(reason=f'{QUAL} ({PATH}:{getattr(node, "lineno", 0)}): {ex}')
        out['text'] = sentinel_text(out['reason'])
    except RecursionError:
        out.update(reason=f'{QUAL}: expression too deep')
        out['text'] = sentinel_text(out['reason'])
    return out


def render(d):
    ps = ', '.join(f'a{k}' for k in range(ARITY))
    call = f'{LEAN_NAME} PyamgV.ExtPy3Cyc.recFuel w' + ''.join(f' a{k}' for k in range(ARITY))
    lines = ['import PyamgV.Model.ExtPy3CycRt',
             '/-! GENERATED by harness/py2lean3_cycle.py from the working tree of the repository on every run. Do not edit.',
             '`MultilevelSolver.__solve` (pyamg/multilevel.py) with the numerical work abstracted as events (see the',
             'docstrings of py2lean3_cycle.py / py2lean2.py and Model/ExtPy2Rt.lean, Model/ExtPy3CycRt.lean). -/',
             'set_option linter.unusedVariables false',
             'set_option maxRecDepth 4096',
             f'namespace PyamgV.Generated.{MODULE}',
             'open PyamgV.ExtPy PyamgV.ExtPy2 PyamgV.ExtPy3Cyc', '']
    for c in d['consts']:
        lines += [c, '']
    lines += [f'/-- `{QUAL}` of {PATH}; `fuel__` = the recursion depth still allowed -/', d['text'], '']
    lines += ['/-- (name, translated?, reason when not) -/',
              f'def status : List (String × Bool × String) := [({lstr(LEAN_NAME)}, {"true" if d["ok"] else "false"}, {lstr(d["reason"])})]',
              '',
              'def tableEff : List (String × (World → List PyVal → PyM2 PyVal)) := [',
              f'  ({lstr(LEAN_NAME)}, fun w args => match args with | [{ps}] => {call} | _ => throw ⟨"TypeError", "arity"⟩)',
              ']', '',
              f'end PyamgV.Generated.{MODULE}']
    return '\n'.join(lines) + '\n'


def info():
    d = build()
    return {LEAN_NAME: {k: d[k] for k in ('ok', 'reason', 'params', 'free_globals', 'path', 'qual')}}


def _compiles(text):
    tmp = VERIF / 'build' / 'py2lean'
    tmp.mkdir(parents=True, exist_ok=True)
    f = tmp / 'Candidate3_cycle.lean'
    f.write_text(text)
    subprocess.run(['lake', 'build', 'PyamgV.Model.ExtPy3CycRt'], cwd=LEAN, capture_output=True, text=True, timeout=1200)
    p = subprocess.run(['lake', 'env', 'lean', str(f)], cwd=LEAN, capture_output=True, text=True, timeout=900)
    return p.returncode == 0, p.stdout + p.stderr


def generate():
    """write Generated/PyLogic3_cycle.lean; returns [(lean name, ok, reason)]"""
    d = build()
    text = render(d)
    target = GEN / f'{MODULE}.lean'
    GEN.mkdir(parents=True, exist_ok=True)
    stamp = VERIF / 'build' / 'py2lean' / 'ok3_cycle.sha'
    rt = b''.join((LEAN / 'PyamgV' / 'Model' / f).read_bytes() for f in ('ExtPy3CycRt.lean', 'ExtPy2Rt.lean', 'ExtPyRt.lean'))
    digest = hashlib.sha256(text.encode() + rt).hexdigest()
    if d['ok'] and not (stamp.exists() and digest in stamp.read_text().split()):
        try:
            ok, _ = _compiles(text)
        except Exception:  # noqa: BLE001
            ok = True                                  # cannot run lean here: leave it to lake build
        if not ok:
            d = dict(d, ok=False, consts=[], reason='the generated definition did not compile (translator defect on this input)')
            d['text'] = sentinel_text(d['reason'])
            text = render(d)
        else:
            stamp.parent.mkdir(parents=True, exist_ok=True)
            old = stamp.read_text().split()[-20:] if stamp.exists() else []
            stamp.write_text('\n'.join(old + [digest]) + '\n')
    if not target.exists() or target.read_text() != text:
        target.write_text(text)
    return [(LEAN_NAME, d['ok'], d['reason'])]


if __name__ == '__main__':
    import sys
    if '--show' in sys.argv:
        print(render(build()))
    else:
        for n, ok, why in generate():
            print(('ok   ' if ok else 'UNSUPPORTED ') + n + ('' if ok else ': ' + why))
