#!/usr/bin/env python3
"""Rebuild pyamg's native kernels from the WORKING-TREE headers without pybind11.

pybind11 is not installed in this sandbox, so the in-tree `pyamg/amg_core/*.so` are stale binaries
that never see an edited header.  The kernels are header-only templates with a rigid convention
(every array parameter `X[]` is followed by `int X_size`).  This module

1. reads the Python-visible interface from the generated `*_bind.cpp` files (wrapper parameter
   lists, `m.def` instantiation lists, argument names) -- they are only *read*;
2. writes one `extern "C"` forwarder per (kernel, instantiation) that calls the template in the
   working-tree header, and compiles one shared object per header (plain, and optionally with
   ASan/UBSan/_GLIBCXX_ASSERTIONS);
3. exposes ctypes-backed module objects with the same function names, argument names/order and
   the same exact-dtype / no-convert overload dispatch as the pybind layer, and registers them as
   `pyamg.amg_core.<name>` in `sys.modules` *before* pyamg is imported.

Builds are cached under /verif/build/core/<hash of headers+bind files+this file> and serialised
with flock, so an edited header is always recompiled and parallel checks are safe.
"""
import ctypes
import fcntl
import hashlib
import json
import os
import re
import subprocess
import sys
import time
import types
from concurrent.futures import ThreadPoolExecutor
from pathlib import Path

import numpy as np

REPO = Path(os.environ.get('VERIF_REPO', '/repo'))
VERIF = Path(__file__).resolve().parent.parent
BUILD = VERIF / 'build' / 'core'
STEMS = ['air', 'evolution_strength', 'graph', 'krylov', 'linalg', 'relaxation', 'ruge_stuben',
         'smoothed_aggregation']

STD = ['vector', 'cmath', 'complex', 'limits', 'algorithm', 'iostream', 'cstdio', 'cassert',
       'map', 'stack', 'numeric', 'cstdlib', 'queue', 'utility', 'iterator', 'functional', 'set']

WRAP = re.compile(r'template\s*<([^>]*)>\s*\n\s*(\w[\w:<> ]*?)\s+_(\w+)\s*\(([^)]*)\)\s*\{', re.S)
DEF = re.compile(r'm\.def\("(\w+)",\s*&_(\w+)<([^;]*?)>\s*,\s*\n\s*((?:py::arg\("\w+"\)(?:\.noconvert\(\))?,?\s*)+)',
                 re.S)
ARG = re.compile(r'py::arg\("(\w+)"\)')

CTYPE = {
    'int': 'i4', 'float': 'f4', 'double': 'f8',
    'std::complex<float>': 'c8', 'std::complex<double>': 'c16',
    'bool': 'b1', 'char': 'ch', 'long': 'i8',
}


def _split_types(s):
    out, depth, cur = [], 0, ''
    for ch in s:
        if ch == '<':
            depth += 1
        if ch == '>':
            depth -= 1
        if ch == ',' and depth == 0:
            out.append(cur.strip())
            cur = ''
        else:
            cur += ch
    if cur.strip():
        out.append(cur.strip())
    return out


def _mangle(name, types):
    t = '_'.join(types)
    t = t.replace('std::complex<float>', 'cfloat').replace('std::complex<double>', 'cdouble')
    return f'{name}__{t}'.replace(' ', '')


def parse_bind(path):
    """-> (wrappers: cname -> (tparams, ret, [(kind, type, name)]), insts: [(pyname, cname, types, argnames)])"""
    src = path.read_text()
    wrappers = {}
    for m in WRAP.finditer(src):
        tparams = [p.strip().split()[-1] for p in m.group(1).split(',')]
        ret, name, params = m.group(2).strip(), m.group(3), m.group(4)
        plist = []
        for p in params.split(','):
            p = p.strip()
            if not p:
                continue
            am = re.match(r'py::array_t<\s*([\w:<> ]+?)\s*>\s*&\s*(\w+)', p)
            if am:
                plist.append(('array', am.group(1), am.group(2)))
            else:
                sm = re.match(r'(?:const\s+)?([\w:<>]+)\s+(\w+)', p)
                plist.append(('scalar', sm.group(1), sm.group(2)))
        wrappers[name] = (tparams, ret, plist)
    insts = []
    for m in DEF.finditer(src):
        insts.append((m.group(1), m.group(2), _split_types(m.group(3)), ARG.findall(m.group(4))))
    return wrappers, insts


def gen_source(header, wrappers, insts):
    """C++ shim source + the JSON-able spec of what it exports."""
    lines = [f'#include <{h}>' for h in STD]
    lines.append(f'#include "{header}"')
    spec = []
    seen = set()
    for pyname, cname, types, argnames in insts:
        if cname not in wrappers:
            raise RuntimeError(f'{header}: m.def refers to unknown wrapper _{cname}')
        tparams, ret, plist = wrappers[cname]
        if len(types) != len(tparams):
            raise RuntimeError(f'{header}: {cname} instantiated with {types}, template has {tparams}')
        key = _mangle(cname, types)
        if key in seen:
            continue
        seen.add(key)
        sub = dict(zip(tparams, types))
        cparams, cargs, pspec = [], [], []
        for kind, ty, nm in plist:
            cty = sub.get(ty, ty)
            code = CTYPE[cty]
            if kind == 'array':
                cparams += [f'{cty}* {nm}', f'int {nm}_size']
                cargs += [nm, f'{nm}_size']
                pspec.append(['array', code, nm])
            elif code in ('c8', 'c16'):
                # complex scalars cross the C boundary by pointer
                cparams.append(f'const {cty}* {nm}')
                cargs.append(f'*{nm}')
                pspec.append(['scalar', code, nm])
            else:
                cparams.append(f'{cty} {nm}')
                cargs.append(nm)
                pspec.append(['scalar', code, nm])
        cret = sub.get(ret, ret)
        call = f'{cname}<{", ".join(types)}>({", ".join(cargs)})'
        if cret == 'void':
            lines.append(f'extern "C" void {key}({", ".join(cparams)}) {{ {call}; }}')
            rcode = None
        elif CTYPE[cret] in ('c8', 'c16'):
            cparams.append(f'{cret}* _ret')
            lines.append(f'extern "C" void {key}({", ".join(cparams)}) {{ *_ret = {call}; }}')
            rcode = CTYPE[cret]
        else:
            lines.append(f'extern "C" {cret} {key}({", ".join(cparams)}) {{ return {call}; }}')
            rcode = CTYPE[cret]
        if argnames and len(argnames) != len(pspec):
            raise RuntimeError(f'{header}: {pyname} has {len(argnames)} py::arg for {len(pspec)} parameters')
        spec.append({'py': pyname, 'sym': key, 'params': pspec, 'ret': rcode})
    return '\n'.join(lines) + '\n', spec


def source_hash():
    core = REPO / 'pyamg' / 'amg_core'
    h = hashlib.sha256()
    for f in sorted(list(core.glob('*.h')) + list(core.glob('*_bind.cpp'))):
        h.update(f.name.encode())
        h.update(f.read_bytes())
    h.update(Path(__file__).read_bytes())
    return h.hexdigest()[:20]


def build(asan=False, verbose=False):
    """Build (or find cached) shims for the current working tree; returns the build directory."""
    key = source_hash()
    out = BUILD / (key + ('-asan' if asan else ''))
    BUILD.mkdir(parents=True, exist_ok=True)
    with open(BUILD / '.lock', 'w') as lock:
        fcntl.flock(lock, fcntl.LOCK_EX)
        if (out / 'spec.json').exists():
            return out
        tmp = BUILD / (out.name + '.tmp')
        if tmp.exists():
            subprocess.run(['rm', '-rf', str(tmp)])
        tmp.mkdir(parents=True)
        core = REPO / 'pyamg' / 'amg_core'
        jobs, full = [], {}
        for stem in STEMS:
            wrappers, insts = parse_bind(core / f'{stem}_bind.cpp')
            src, spec = gen_source(str(core / f'{stem}.h'), wrappers, insts)
            full[stem] = spec
            cpp = tmp / f'{stem}_shim.cpp'
            cpp.write_text(src)
            flags = ['-O1', '-shared', '-fPIC', '-w', '-std=c++14']
            if asan:
                flags += ['-g', '-fno-omit-frame-pointer', '-fsanitize=address,undefined',
                          '-fno-sanitize-recover=undefined', '-D_GLIBCXX_ASSERTIONS']
            jobs.append((stem, ['g++', *flags, str(cpp), '-o', str(tmp / f'{stem}_shim.so')]))
        t0 = time.time()

        def run(job):
            stem, cmd = job
            r = subprocess.run(cmd, capture_output=True, text=True)
            return stem, r.returncode, r.stderr[-3000:]

        errs = []
        with ThreadPoolExecutor(max_workers=8) as ex:
            for stem, rc, err in ex.map(run, jobs):
                if rc:
                    errs.append((stem, err))
        if errs:
            (BUILD / 'last_error.txt').write_text('\n'.join(f'== {s}\n{e}' for s, e in errs))
            raise BuildError(errs)
        (tmp / 'spec.json').write_text(json.dumps(full))
        tmp.rename(out)
        if verbose:
            print(f'corebuild: {sum(len(v) for v in full.values())} instantiations in {time.time()-t0:.1f}s -> {out}')
        # prune old builds (keep the 6 most recent)
        olds = sorted((p for p in BUILD.iterdir() if p.is_dir() and p != out), key=lambda p: p.stat().st_mtime)
        for p in olds[:-6]:
            subprocess.run(['rm', '-rf', str(p)])
        return out


class BuildError(Exception):
    """A working-tree header no longer compiles."""


_NP = {'i8': np.dtype('int64'), 'i4': np.dtype('int32'), 'f4': np.dtype('float32'), 'f8': np.dtype('float64'),
       'c8': np.dtype('complex64'), 'c16': np.dtype('complex128'), 'b1': np.dtype('bool')}
_CT = {'i8': ctypes.c_long, 'i4': ctypes.c_int, 'f4': ctypes.c_float, 'f8': ctypes.c_double, 'b1': ctypes.c_bool,
       'ch': ctypes.c_char}


class _Overload:
    __slots__ = ('fn', 'params', 'ret', 'names')

    def __init__(self, lib, ent):
        self.fn = getattr(lib, ent['sym'])
        self.params = ent['params']
        self.ret = ent['ret']
        self.names = [p[2] for p in self.params]
        argtypes = []
        for kind, code, _ in self.params:
            if kind == 'array':
                argtypes += [ctypes.c_void_p, ctypes.c_int]
            elif code in ('c8', 'c16'):
                argtypes.append(ctypes.c_void_p)
            else:
                argtypes.append(_CT[code])
        if self.ret in ('c8', 'c16'):
            argtypes.append(ctypes.c_void_p)
            self.fn.restype = None
        else:
            self.fn.restype = _CT[self.ret] if self.ret else None
        self.fn.argtypes = argtypes

    def match(self, args):
        """pybind-style overload resolution: arrays must be ndarrays of the exact dtype
        (`.noconvert()`); int parameters reject Python/NumPy floats; returns converted C args or None."""
        cargs, keep = [], []
        for (kind, code, _), a in zip(self.params, args):
            if kind == 'array':
                if not isinstance(a, np.ndarray) or a.dtype != _NP[code]:
                    return None
                if a.ndim == 0:
                    return None
                cargs += [a.ctypes.data, a.shape[0]]
                keep.append(a)
            elif code in ('i4', 'i8'):
                if isinstance(a, (bool, np.bool_)):
                    cargs.append(int(a))
                elif isinstance(a, (int, np.integer)):
                    lim = 2**31 if code == 'i4' else 2**63
                    if not -lim <= int(a) < lim:
                        return None
                    cargs.append(int(a))
                else:
                    return None
            elif code in ('f4', 'f8'):
                if isinstance(a, (int, float, np.integer, np.floating, bool, np.bool_)):
                    cargs.append(float(a))
                else:
                    return None
            elif code in ('c8', 'c16'):
                if isinstance(a, (int, float, complex, np.number, bool, np.bool_)):
                    buf = np.array([a], dtype=_NP[code])
                    keep.append(buf)
                    cargs.append(buf.ctypes.data)
                else:
                    return None
            elif code == 'b1':
                if isinstance(a, (bool, np.bool_)):
                    cargs.append(bool(a))
                elif isinstance(a, (int, np.integer)):
                    cargs.append(bool(a))
                else:
                    return None
            elif code == 'ch':
                if isinstance(a, str) and len(a) == 1:
                    cargs.append(a.encode())
                elif isinstance(a, bytes) and len(a) == 1:
                    cargs.append(a)
                else:
                    return None
        return cargs, keep

    def call(self, cargs):
        if self.ret in ('c8', 'c16'):
            buf = np.zeros(1, dtype=_NP[self.ret])
            self.fn(*cargs, buf.ctypes.data)
            return complex(buf[0])
        r = self.fn(*cargs)
        return r


def _make_function(pyname, overloads):
    names = overloads[0].names

    def f(*args, **kwargs):
        if kwargs:
            args = list(args)
            for nm in names[len(args):]:
                if nm not in kwargs:
                    raise TypeError(f'{pyname}(): incompatible function arguments (missing {nm})')
                args.append(kwargs.pop(nm))
            if kwargs:
                raise TypeError(f'{pyname}(): incompatible function arguments (unexpected {list(kwargs)})')
        if len(args) != len(names):
            raise TypeError(f'{pyname}(): incompatible function arguments. expected {len(names)} got {len(args)}')
        for ov in overloads:
            m = ov.match(args)
            if m is not None:
                return ov.call(m[0])
        desc = ', '.join(f'{type(a).__name__}' + (f'[{a.dtype}]' if isinstance(a, np.ndarray) else '') for a in args)
        raise TypeError(f'{pyname}(): incompatible function arguments. The following argument types are supported: '
                        f'(shim) Invoked with: {desc}')
    f.__name__ = pyname
    f.__qualname__ = pyname
    f.__doc__ = f'{pyname} (ctypes shim over the working-tree header)'
    return f


def load(directory, register=True):
    """Create module objects for the shims in `directory`; optionally register them as
    pyamg.amg_core.<stem> so that a later `import pyamg` uses them."""
    directory = Path(directory)
    spec = json.loads((directory / 'spec.json').read_text())
    mods = {}
    for stem, ents in spec.items():
        lib = ctypes.CDLL(str(directory / f'{stem}_shim.so'))
        mod = types.ModuleType(f'pyamg.amg_core.{stem}')
        mod.__file__ = str(directory / f'{stem}_shim.so')
        mod.__verif_shim__ = True
        byname = {}
        for ent in ents:
            byname.setdefault(ent['py'], []).append(_Overload(lib, ent))
        for pyname, ovs in byname.items():
            setattr(mod, pyname, _make_function(pyname, ovs))
        mods[stem] = mod
        if register:
            if 'pyamg' in sys.modules and not getattr(sys.modules.get(f'pyamg.amg_core.{stem}'), '__verif_shim__', False):
                raise RuntimeError('corebuild.load(register=True) must run before pyamg is imported')
            sys.modules[f'pyamg.amg_core.{stem}'] = mod
    return mods


def activate(asan=False):
    """Build for the current tree and register; the one call the harness makes."""
    d = build(asan=asan)
    return load(d), d


if __name__ == '__main__':
    t0 = time.time()
    d = build(asan='--asan' in sys.argv, verbose=True)
    print(d, f'{time.time()-t0:.1f}s')
