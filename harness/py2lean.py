"""Python-AST -> Lean translator for pure decision logic (extension E31; properties C04 and C05).

`generate()` (called from `translate.regenerate()`, i.e. on EVERY run of `./check`) reads the functions
listed in `TARGETS` from the WORKING TREE of the repository and writes
`lean/PyamgV/Generated/PyLogic.lean` (git-ignored, rewritten only when its content changes).  Each
target becomes one executable Lean definition

    def <lean_name> (p1 ... pn : PyVal) : PyM PyVal := do ...

over the run-time library `lean/PyamgV/Model/ExtPyRt.lean` (`PyVal` = none | bool | int | float (exact
rational) | str | list | tuple | dict (association list, string keys) | obj (opaque, compared by
identity); `PyM = Except PyErr`, `PyErr.cls` = the Python exception class).  `Proofs/ExtPy*.lean` prove
theorems about exactly these generated definitions (restated in `Props/C04.lean` / `Props/C05.lean`),
and the driver op `ext_py_call` (`Driver/ExtE31.lean`) executes them, so that
`harness/props/c04.py` / `c05.py` can compare them with the real functions on generated option values.

The tie this gives
------------------
* a source edit that stays inside the subset regenerates the definition; the theorems are re-checked by
  `lake build` against what the code says NOW.  If they no longer hold the property's proof obligations
  are broken and the check searches the real code for a failing input (`ctx.deep`).
* a source edit that leaves the subset (or removes / renames the function, or changes its arity in a way
  the table below cannot call) does not crash anything: the function is emitted as the sentinel
  `def f ... : PyM PyVal := unsupported "<reason>"`; the file still compiles, the driver still runs (the
  op answers `E:Unsupported`), and every theorem about `f` stops compiling = broken obligation.
* as a last line of defence the candidate file is compiled (`lake env lean`, about 2 s, only when the
  content changed); functions whose generated text does not compile (a translator bug on unusual input)
  are replaced by sentinels, too.

The supported subset (everything else raises `Unsupported` inside the translator)
-------------------------------------------------------------------------------
statements : assignment to a name / a tuple of names / `x[i] = v` on a local; augmented assignment
             `+= -= *=` on a name; `if / elif / else`; `for <name or tuple of names> in <expr>` (no
             `else`), `while` (fuel `WHILE_FUEL` iterations, then the pseudo exception `FuelExhausted`);
             `break`, `continue`, `pass`, `return [expr]`, `raise Cls(msg)` / `raise Cls`; the method
             statements `x.append(e)` / `x.extend(e)` on a LOCAL NAME `x` (translated as a re-binding of
             `x`; the in-place effect on a caller's list object is not modelled); docstrings.
expressions: constants None / True / False / int / float (dyadic) / str; names (locals, parameters,
             module-level constants with literal values, which are emitted as Lean constants); tuples,
             lists, dict displays with string keys; `x[i]`, `x[a:b]` (no step); `== != < <= > >=`
             (chains are split), `in`, `not in`, `is None`, `is not None`, `is True/False`; `and / or /
             not` (short-circuit kept); `a if c else b`; `+ - *`, unary `-`; `len min max range list
             tuple isinstance` (classes str / tuple / list / dict / int / float / bool); calls
             `f(a, ...)` (positional only) of functions that are translated as well (same module
             helpers are pulled in automatically; a nested `def` of the target is reachable as
             `outer.inner`); methods `.get(k[, d]) .items() .keys() .values() .startswith(p)
             .endswith(p)`; list / dict comprehensions with one `for` and optional `if`s.
scoping    : every local is definitely assigned before it is read on every path (otherwise
             `Unsupported: may be unbound`; a loop body starts from what was defined before the loop, and
             nothing assigned in the body counts after the loop); comprehension variables are local to the
             comprehension.  Consequently a local that is assigned only directly inside loop bodies is
             declared inside the body (it carries no value from one iteration to the next), and a `for`
             variable that is read only inside its loop is a plain binder.
shapes     : `if c: x = a` / `else: x = b` is emitted as one conditional binding `x <- if c then a else b`;
             every other statement maps to the `do`-statement of the same name.

Slicing (`Target.slice`)
------------------------
`change_smoothers(ml, pre, post)` is not pure: it installs smoothers on `ml.levels[i]` and leaves its
result in `ml.symmetric_smoothing`.  For such a function the translator first computes the backward
slice of the attribute named in `slice` : `ml.symmetric_smoothing` becomes the local
`ml__symmetric_smoothing` (returned at the end), `ml.levels` becomes the extra parameter `ml__levels`;
a statement is kept iff it is `return / raise / break / continue`, assigns a variable the slice reads
(closure under data and control dependence), or is a compound statement containing a kept one.  Erased
are exactly the statements whose only effect is on variables the slice never reads or on attributes of
heap objects (`ml.levels[i].presmoother = ...`).  The sliced Python text is printed in the doc comment
of the generated definition.  Consequence: the generated function gives the value of the flag whenever
the real function returns normally; exceptions raised by ERASED statements (an unknown smoother name in
`_setup_call`, a keyword a setup function does not take) are not part of it.

What is trusted
---------------
(1) this translator: that the emitted `do`-block means what the Python text means for values of the
`PyVal` universe; (2) `ExtPyRt.lean`: that each operation agrees with CPython on that universe
(exception classes included); (3) for slices, the erasure rule above.  All three are exercised on every
run by the correspondence part of the checks (generated definitions vs the real functions on generated
option values, exact, error classes included).  Not trusted: the hand-written models -- theorems link
the generated definitions to them (`PyamgV.C05.flag`, `PyamgV.C04.levelize`).
"""
import ast
import hashlib
import os
import re
import subprocess
from pathlib import Path

VERIF = Path(__file__).resolve().parent.parent
REPO = Path(os.environ.get('VERIF_REPO', '/repo'))
LEAN = VERIF / 'lean'
GEN = LEAN / 'PyamgV' / 'Generated'
WHILE_FUEL = 100000

# (lean name, file, qualified name, arity the driver table calls it with, slice spec or None)
TARGETS = [
    ('utils_levelize_strength_or_aggregation', 'pyamg/util/utils.py', 'levelize_strength_or_aggregation', 3, None),
    ('utils_levelize_smooth_or_improve_candidates', 'pyamg/util/utils.py', 'levelize_smooth_or_improve_candidates', 2, None),
    ('adaptive_unpack_arg', 'pyamg/aggregation/adaptive.py', 'unpack_arg', 1, None),
    ('sa_unpack_arg', 'pyamg/aggregation/aggregation.py', '_extend_hierarchy.unpack_arg', 1, None),
    ('rootnode_unpack_arg', 'pyamg/aggregation/rootnode.py', '_extend_hierarchy.unpack_arg', 1, None),
    ('pairwise_unpack_arg', 'pyamg/aggregation/pairwise.py', '_extend_hierarchy.unpack_arg', 1, None),
    ('classical_unpack_arg', 'pyamg/classical/classical.py', '_extend_hierarchy.unpack_arg', 1, None),
    ('air_unpack_arg', 'pyamg/classical/air.py', 'extend_hierarchy.unpack_arg', 1, None),
    ('multilevel_unpack_arg', 'pyamg/multilevel.py', 'coarse_grid_solver.unpack_arg', 1, None),
    ('relaxutils_unpack_arg', 'pyamg/relaxation/utils.py', 'relaxation_as_linear_operator.unpack_arg', 1, None),
    ('smoothing_unpack_arg', 'pyamg/relaxation/smoothing.py', '_unpack_arg', 1, None),
    ('smoothing_same_parameters', 'pyamg/relaxation/smoothing.py', '_same_parameters', 2, None),
    ('smoothing_change_smoothers_flag', 'pyamg/relaxation/smoothing.py', 'change_smoothers', 3,
     {'obj': 'ml', 'out': 'symmetric_smoothing', 'inputs': ['levels']}),
]

LEAN_KEYWORDS = set('''abbrev at axiom by calc class def deriving do else end example extends finally for from fun
have if import in infix infixl infixr instance let local macro match mut mutual namespace notation open opaque
partial postfix prefix private protected return section show structure syntax then theorem unsafe universe
using variable where with Type Prop Sort true false none some pure throw try catch unless break continue
forall exists'''.split())

FORBIDDEN = re.compile(r'sorry|admit|axiom|native_decide|bv_decide|implemented_by|unsafe|maxHeartbeats')


class Unsupported(Exception):
    pass


def lstr(s):
    """Lean string literal; words the audit greps for are broken up by an escape"""
    out = []
    for ch in str(s):
        if ch == '\\':
            out.append('\\\\')
        elif ch == '"':
            out.append('\\"')
        elif ch == '\n':
            out.append('\\n')
        elif ch == '\t':
            out.append('\\t')
        elif 32 <= ord(ch) < 127:
            out.append(ch)
        else:
            out.append('\\u{%x}' % ord(ch))
    t = ''.join(out)
    t = FORBIDDEN.sub(lambda m: '\\x%02x' % ord(m.group(0)[0]) + m.group(0)[1:], t)
    return '"' + t + '"'


def ident(name):
    if not re.fullmatch(r'[A-Za-z_][A-Za-z0-9_]*', name):
        raise Unsupported(f'identifier {name!r}')
    if name in LEAN_KEYWORDS or name.startswith('py') or name in ('unsupported', 'raise', 'unpackAt', 'PyVal', 'PyM', 'PyErr'):
        return name + '_'
    return name


def const_val(v):
    """Lean `PyVal` term of a Python literal value"""
    if v is None:
        return 'PyVal.none'
    if v is True:
        return '(PyVal.bool true)'
    if v is False:
        return '(PyVal.bool false)'
    if isinstance(v, int):
        return f'(PyVal.int ({v}))' if v < 0 else f'(PyVal.int {v})'
    if isinstance(v, float):
        if v != v or v in (float('inf'), float('-inf')):
            raise Unsupported('non-finite float constant')
        from fractions import Fraction
        f = Fraction(v)
        return f'(PyVal.float (({f.numerator} : Rat) / {f.denominator}))'
    if isinstance(v, str):
        return f'(PyVal.str {lstr(v)})'
    if isinstance(v, tuple):
        return '(PyVal.tuple [' + ', '.join(const_val(x) for x in v) + '])'
    if isinstance(v, list):
        return '(PyVal.list [' + ', '.join(const_val(x) for x in v) + '])'
    if isinstance(v, dict):
        if not all(isinstance(k, str) for k in v):
            raise Unsupported('dict constant with a key that is not a string')
        return '(PyVal.dict [' + ', '.join(f'({lstr(k)}, {const_val(x)})' for k, x in v.items()) + '])'
    raise Unsupported(f'constant of type {type(v).__name__}')


ISINSTANCE_CLASSES = {'str', 'tuple', 'list', 'dict', 'int', 'float', 'bool'}
CMP = {ast.Lt: 'pyLt', ast.LtE: 'pyLe', ast.Gt: 'pyGt', ast.GtE: 'pyGe'}
BIN = {ast.Add: 'pyAdd', ast.Sub: 'pySub', ast.Mult: 'pyMul'}


# --------------------------------------------------------------------------------------------------
# slicing
# --------------------------------------------------------------------------------------------------

class _AttrRename(ast.NodeTransformer):
    def __init__(self, obj, names):
        self.obj, self.names = obj, names

    def visit_Attribute(self, node):
        self.generic_visit(node)
        if isinstance(node.value, ast.Name) and node.value.id == self.obj and node.attr in self.names:
            return ast.copy_location(ast.Name(id=f'{self.obj}__{node.attr}', ctx=node.ctx), node)
        return node


def _names_read(node):
    return {n.id for n in ast.walk(node) if isinstance(n, ast.Name) and isinstance(n.ctx, ast.Load)}


def _target_names(t):
    if isinstance(t, ast.Name):
        return {t.id}
    if isinstance(t, (ast.Tuple, ast.List)):
        out = set()
        for e in t.elts:
            out |= _target_names(e)
        return out
    if isinstance(t, ast.Subscript) and isinstance(t.value, ast.Name):
        return {t.value.id}
    return set()


def _is_heap_store(t):
    """`<expr>.attr = v` or a store below one: an effect on a heap object"""
    if isinstance(t, ast.Attribute):
        return True
    if isinstance(t, ast.Subscript):
        return not isinstance(t.value, ast.Name)
    return False


def slice_function(fdef, spec):
    """backward slice of `obj.out` (see the module docstring); returns a new FunctionDef"""
    obj, out, inputs = spec['obj'], spec['out'], spec['inputs']
    fdef = _AttrRename(obj, [out] + inputs).visit(ast.parse(ast.unparse(fdef)).body[0])
    outvar = f'{obj}__{out}'
    R = {outvar}

    def kept(st):
        """does the statement belong to the slice (with the current R)?  adds what it reads to R"""
        if isinstance(st, (ast.Return, ast.Raise, ast.Break, ast.Continue)):
            R.update(_names_read(st))
            return True
        if isinstance(st, ast.Assign):
            if all(_is_heap_store(t) for t in st.targets):
                return False
            tn = set()
            for t in st.targets:
                tn |= _target_names(t)
            if tn & R:
                R.update(_names_read(st))
                return True
            return False
        if isinstance(st, ast.AugAssign):
            if _target_names(st.target) & R:
                R.update(_names_read(st))
                return True
            return False
        if isinstance(st, ast.Expr):
            c = st.value
            if (isinstance(c, ast.Call) and isinstance(c.func, ast.Attribute) and isinstance(c.func.value, ast.Name)
                    and c.func.attr in ('append', 'extend') and c.func.value.id in R):
                R.update(_names_read(st))
                return True
            return False
        if isinstance(st, ast.If):
            k = [kept(s) for s in st.body + st.orelse]
            if any(k):
                R.update(_names_read(st.test))
                return True
            return False
        if isinstance(st, (ast.For, ast.While)):
            k = [kept(s) for s in st.body + st.orelse]
            if any(k):
                R.update(_names_read(st.iter if isinstance(st, ast.For) else st.test))
                return True
            return False
        if isinstance(st, ast.Pass):
            return False
        # anything else (try, with, nested def, ...) is kept so that the translator rejects it
        R.update(_names_read(st))
        return True

    for _ in range(100):
        before = set(R)
        for st in fdef.body:
            kept(st)
        if R == before:
            break

    def prune(stmts):
        out_ = []
        for st in stmts:
            if not kept(st):
                continue
            if isinstance(st, ast.If):
                st.body = prune(st.body) or [ast.Pass()]
                st.orelse = prune(st.orelse)
            elif isinstance(st, (ast.For, ast.While)):
                st.body = prune(st.body) or [ast.Pass()]
                st.orelse = prune(st.orelse)
            out_.append(st)
        return out_

    doc = ast.get_docstring(fdef)
    body = fdef.body[1:] if doc is not None else fdef.body
    body = prune(body)
    body.append(ast.Return(value=ast.Name(id=outvar, ctx=ast.Load())))
    args = [a.arg for a in fdef.args.args]
    if obj not in args:
        raise Unsupported(f'slice: no parameter {obj!r}')
    new_args = []
    for a in args:
        if a == obj:
            new_args += [f'{obj}__{i}' for i in inputs]
        else:
            new_args.append(a)
    fdef.args.args = [ast.arg(arg=a) for a in new_args]
    fdef.body = body
    ast.fix_missing_locations(fdef)
    return fdef


# --------------------------------------------------------------------------------------------------
# the translator proper
# --------------------------------------------------------------------------------------------------

class Module:
    """one Python source file: its functions, literal constants, and the Lean names given to them"""

    def __init__(self, path, gen):
        self.path = path
        self.gen = gen
        self.tree = ast.parse((REPO / path).read_text())
        self.prefix = {'pyamg/util/utils.py': 'utils', 'pyamg/relaxation/utils.py': 'relaxutils'}.get(path, Path(path).stem)
        self.consts = {}
        for node in self.tree.body:
            if isinstance(node, ast.Assign) and len(node.targets) == 1 and isinstance(node.targets[0], ast.Name):
                try:
                    self.consts[node.targets[0].id] = ast.literal_eval(node.value)
                except Exception:
                    pass
        self.funcs = {n.name: n for n in self.tree.body if isinstance(n, ast.FunctionDef)}

    def find(self, qualname):
        body = self.tree.body
        node = None
        for p in qualname.split('.'):
            node = next((n for n in body if isinstance(n, ast.FunctionDef) and n.name == p), None)
            if node is None:
                return None
            body = node.body
        return node


class FnTranslator:
    def __init__(self, gen, module, fdef, lean_name):
        self.gen, self.module, self.fdef, self.lean_name = gen, module, fdef, lean_name
        self.tmp = 0
        self.params = [a.arg for a in fdef.args.args]
        a = fdef.args
        if a.vararg or a.kwarg or a.kwonlyargs or a.posonlyargs or a.defaults or a.kw_defaults:
            raise Unsupported('parameters other than plain positional ones')
        self.locals = set()
        self.binder_only = set()
        self.loop_local = set()

    def fresh(self, base='t'):
        self.tmp += 1
        return f'{base}__{self.tmp}'

    # ---------------------------------------------------------------- expressions
    # every method returns (term, kind, eff): kind 'val' (PyVal) | 'bool' (Lean Bool); eff = the term contains
    # lifted actions `(<- ...)` and may only be used inside a do-sequence

    def act(self, call):
        return f'(← {call})'

    def as_val(self, t, kind):
        return t if kind == 'val' else f'(PyVal.bool {t})'

    def as_bool(self, t, kind):
        return t if kind == 'bool' else f'(pyTruthy {t})'

    def val(self, e, env):
        t, k, eff = self.expr(e, env)
        return self.as_val(t, k), eff

    def boolean(self, e, env):
        """the truth value of `e` (an `if` / `while` / `not` / `and` / `or` operand position)"""
        if isinstance(e, ast.BoolOp):
            parts = [self.boolean(v, env) for v in e.values]
            return self.shortcircuit(parts, isinstance(e.op, ast.And)), any(ef for _, ef in parts)
        t, k, eff = self.expr(e, env)
        return self.as_bool(t, k), eff

    def monadic(self, term, eff):
        """a term of type `PyM _` computing `term`"""
        if not eff:
            return f'(pure {term})'
        if term.startswith('(← ') and term.endswith(')'):
            depth = 0
            for k, ch in enumerate(term):
                depth += ch == '('
                depth -= ch == ')'
                if depth == 0:
                    break
            if k == len(term) - 1:
                return f'(do {term[3:-1]})'
        return f'(do pure {term})'

    def name(self, nm, env):
        if nm in env['comp']:
            return ident(nm)
        if nm in self.locals or nm in self.params or nm in self.binder_only:
            if nm not in env['defined']:
                raise Unsupported(f'local {nm!r} may be unbound when it is read')
            return ident(nm)
        if nm in self.module.consts:
            return self.gen.constant(self.module, nm)
        raise Unsupported(f'free name {nm!r}')

    def expr(self, e, env):
        if isinstance(e, ast.Constant):
            if isinstance(e.value, (bool, int, float, str)) or e.value is None:
                if isinstance(e.value, bool):
                    return ('true' if e.value else 'false'), 'bool', False
                return const_val(e.value), 'val', False
            raise Unsupported(f'constant {e.value!r}')
        if isinstance(e, ast.Name):
            return self.name(e.id, env), 'val', False
        if isinstance(e, (ast.Tuple, ast.List)):
            if any(isinstance(x, ast.Starred) for x in e.elts):
                raise Unsupported('starred element')
            parts = [self.val(x, env) for x in e.elts]
            ctor = 'PyVal.tuple' if isinstance(e, ast.Tuple) else 'PyVal.list'
            return f'({ctor} [' + ', '.join(p[0] for p in parts) + '])', 'val', any(p[1] for p in parts)
        if isinstance(e, ast.Dict):
            if any(k is None for k in e.keys):
                raise Unsupported('dict unpacking')
            if all(isinstance(k, ast.Constant) and isinstance(k.value, str) for k in e.keys) and \
                    len({k.value for k in e.keys}) == len(e.keys):
                parts = [self.val(v, env) for v in e.values]
                return ('(PyVal.dict [' + ', '.join(f'({lstr(k.value)}, {p[0]})' for k, p in zip(e.keys, parts)) + '])',
                        'val', any(p[1] for p in parts))
            ks = [self.val(k, env) for k in e.keys]
            vs = [self.val(v, env) for v in e.values]
            return (self.act('pyMkDict [' + ', '.join(f'({k[0]}, {v[0]})' for k, v in zip(ks, vs)) + ']'), 'val', True)
        if isinstance(e, ast.Subscript):
            x, ex = self.val(e.value, env)
            if isinstance(e.slice, ast.Slice):
                if e.slice.step is not None:
                    raise Unsupported('slice with a step')
                lo = hi = 'Option.none'
                if e.slice.lower is not None:
                    t, _ = self.val(e.slice.lower, env)
                    lo = f'(some {t})'
                if e.slice.upper is not None:
                    t, _ = self.val(e.slice.upper, env)
                    hi = f'(some {t})'
                return self.act(f'pySlice {x} {lo} {hi}'), 'val', True
            if isinstance(e.slice, ast.Tuple):
                raise Unsupported('multi-dimensional subscript')
            i, _ = self.val(e.slice, env)
            return self.act(f'pyGetItem {x} {i}'), 'val', True
        if isinstance(e, ast.Compare):
            return self.compare(e, env)
        if isinstance(e, ast.BoolOp):
            return self.boolop(e, env)
        if isinstance(e, ast.UnaryOp):
            if isinstance(e.op, ast.Not):
                t, eff = self.boolean(e.operand, env)
                return f'(!{t})', 'bool', eff
            if isinstance(e.op, ast.USub):
                if isinstance(e.operand, ast.Constant) and isinstance(e.operand.value, (int, float)) \
                        and not isinstance(e.operand.value, bool):
                    return const_val(-e.operand.value), 'val', False
                t, _ = self.val(e.operand, env)
                return self.act(f'pyNeg {t}'), 'val', True
            raise Unsupported(f'unary operator {type(e.op).__name__}')
        if isinstance(e, ast.BinOp):
            if type(e.op) not in BIN:
                raise Unsupported(f'binary operator {type(e.op).__name__}')
            a, _ = self.val(e.left, env)
            b, _ = self.val(e.right, env)
            return self.act(f'{BIN[type(e.op)]} {a} {b}'), 'val', True
        if isinstance(e, ast.IfExp):
            c, ec = self.boolean(e.test, env)
            a, ea = self.val(e.body, env)
            b, eb = self.val(e.orelse, env)
            if not (ea or eb):
                return f'(if {c} then {a} else {b})', 'val', ec
            return self.act(f'(do if {c} then {self.monadic(a, ea)} else {self.monadic(b, eb)})'), 'val', True
        if isinstance(e, ast.Call):
            return self.call(e, env)
        if isinstance(e, ast.ListComp):
            return self.comprehension(e, env, False)
        if isinstance(e, ast.DictComp):
            return self.comprehension(e, env, True)
        raise Unsupported(f'expression {type(e).__name__}')

    def compare(self, e, env):
        terms, eff_all = [], False
        left = e.left
        for op, right in zip(e.ops, e.comparators):
            if isinstance(op, (ast.Is, ast.IsNot)):
                if isinstance(right, ast.Constant) and right.value is None:
                    a, ea = self.val(left, env)
                    t = f'(pyIsNone {a})'
                elif isinstance(right, ast.Constant) and isinstance(right.value, bool):
                    a, ea = self.val(left, env)
                    t = f'(pyIsBool {a} {"true" if right.value else "false"})'
                else:
                    raise Unsupported('`is` with something other than None / True / False')
                if isinstance(op, ast.IsNot):
                    t = f'(!{t})'
                eff = ea
            else:
                a, ea = self.val(left, env)
                b, eb = self.val(right, env)
                eff = ea or eb
                if isinstance(op, ast.Eq):
                    t = f'(pyEq {a} {b})'
                elif isinstance(op, ast.NotEq):
                    t = f'(pyNe {a} {b})'
                elif isinstance(op, ast.In):
                    t, eff = self.act(f'pyIn {a} {b}'), True
                elif isinstance(op, ast.NotIn):
                    t, eff = self.act(f'pyNotIn {a} {b}'), True
                elif type(op) in CMP:
                    t, eff = self.act(f'{CMP[type(op)]} {a} {b}'), True
                else:
                    raise Unsupported(f'comparison {type(op).__name__}')
            terms.append((t, eff))
            eff_all = eff_all or eff
            left = right
        if len(terms) == 1:
            return terms[0][0], 'bool', terms[0][1]
        if len(terms) > 1 and any(not isinstance(c, (ast.Name, ast.Constant)) for c in e.comparators[:-1]):
            raise Unsupported('comparison chain with a middle operand that is not a name or constant')
        return self.shortcircuit([(t, ef) for t, ef in terms], True), 'bool', eff_all

    def shortcircuit(self, parts, is_and):
        """Bool-valued `a and b and ...` / `a or b or ...` keeping Python's evaluation order and laziness"""
        t, eff = parts[-1]
        for a, ea in reversed(parts[:-1]):
            if not eff:
                t = f'({a} && {t})' if is_and else f'({a} || {t})'
                eff = ea
            else:
                if is_and:
                    t = self.act(f'(do if {a} then {self.monadic(t, True)} else pure false)')
                else:
                    t = self.act(f'(do if {a} then pure true else {self.monadic(t, True)})')
                eff = True
        return t

    def boolop(self, e, env):
        is_and = isinstance(e.op, ast.And)
        parts = [self.expr(v, env) for v in e.values]
        if all(k == 'bool' for _, k, _ in parts):
            return self.shortcircuit([(t, ef) for t, _, ef in parts], is_and), 'bool', any(ef for _, _, ef in parts)
        # value semantics: the result is one of the operands
        vals = [(self.as_val(t, k), ef) for t, k, ef in parts]
        t, eff = vals[-1]
        for a, ea in reversed(vals[:-1]):
            v = self.fresh('bo')
            keep = f'pure {v}'
            other = self.monadic(t, eff)
            if is_and:
                t = self.act(f'(do let {v} := {a}; if pyTruthy {v} then {other} else {keep})')
            else:
                t = self.act(f'(do let {v} := {a}; if pyTruthy {v} then {keep} else {other})')
            eff = True
        return t, 'val', True

    def isinstance_classes(self, node):
        if isinstance(node, ast.Name):
            names = [node.id]
        elif isinstance(node, ast.Tuple) and all(isinstance(x, ast.Name) for x in node.elts):
            names = [x.id for x in node.elts]
        else:
            raise Unsupported('isinstance with a class expression that is not a name or a tuple of names')
        for n in names:
            if n not in ISINSTANCE_CLASSES:
                raise Unsupported(f'isinstance with class {n!r}')
        return '[' + ', '.join(lstr(n) for n in names) + ']'

    def call(self, e, env):
        if e.keywords or any(isinstance(a, ast.Starred) for a in e.args):
            raise Unsupported('call with keyword or starred arguments')
        if isinstance(e.func, ast.Attribute):
            recv, _ = self.val(e.func.value, env)
            args = [self.val(a, env)[0] for a in e.args]
            m, n = e.func.attr, len(args)
            if m == 'get' and n in (1, 2):
                return self.act(f'pyDictGet {recv} {args[0]} {args[1] if n == 2 else "PyVal.none"}'), 'val', True
            if m in ('items', 'keys', 'values') and n == 0:
                return self.act(f'py{m.capitalize()} {recv}'), 'val', True
            if m in ('startswith', 'endswith') and n == 1:
                return self.act(f'py{m.capitalize()} {recv} {args[0]}'), 'bool', True
            raise Unsupported(f'method .{m}() with {n} argument(s)')
        if not isinstance(e.func, ast.Name):
            raise Unsupported('call of something that is not a name')
        f = e.func.id
        if f in self.locals or f in self.params:
            raise Unsupported(f'call of the local {f!r}')
        if f == 'isinstance':
            if len(e.args) != 2:
                raise Unsupported('isinstance arity')
            a, ea = self.val(e.args[0], env)
            return f'(pyIsInst {a} {self.isinstance_classes(e.args[1])})', 'bool', ea
        args = [self.val(a, env)[0] for a in e.args]
        if f == 'len' and len(args) == 1:
            return self.act(f'pyLen {args[0]}'), 'val', True
        if f in ('min', 'max') and len(args) >= 1:
            return self.act(f'py{f.capitalize()} [' + ', '.join(args) + ']'), 'val', True
        if f == 'range':
            return '(PyVal.list ' + self.act('pyRange [' + ', '.join(args) + ']') + ')', 'val', True
        if f in ('list', 'tuple') and len(args) == 1:
            return self.act(f'py{f.capitalize()} {args[0]}'), 'val', True
        if f in ('list', 'tuple', 'dict') and len(args) == 0:
            return {'list': '(PyVal.list [])', 'tuple': '(PyVal.tuple [])', 'dict': '(PyVal.dict [])'}[f], 'val', False
        callee = self.gen.callee(self.module, f, getattr(self, 'outer', None))
        if callee is None:
            raise Unsupported(f'call of {f!r}, which is not a translated function')
        lean_name, arity = callee
        if arity != len(args):
            raise Unsupported(f'call of {f!r} with {len(args)} arguments, it takes {arity}')
        return self.act(lean_name + ''.join(' ' + a for a in args)), 'val', True

    def iter_list(self, it, env):
        """`List PyVal` term for the values a `for` visits"""
        if isinstance(it, ast.Call) and isinstance(it.func, ast.Name) and it.func.id == 'range' and not it.keywords \
                and 'range' not in self.locals and 'range' not in self.params:
            args = [self.val(a, env)[0] for a in it.args]
            return self.act('pyRange [' + ', '.join(args) + ']')
        t, _ = self.val(it, env)
        return self.act(f'pyIter {t}')

    def bind_target(self, target, var):
        """(names bound, list of `let` lines binding them from the Lean variable `var`)"""
        if isinstance(target, ast.Name):
            return [target.id], None
        if isinstance(target, (ast.Tuple, ast.List)) and all(isinstance(x, ast.Name) for x in target.elts):
            return [x.id for x in target.elts], len(target.elts)
        raise Unsupported('loop / comprehension target that is not a name or a tuple of names')

    def comprehension(self, e, env, is_dict):
        if len(e.generators) != 1:
            raise Unsupported('comprehension with more than one `for`')
        g = e.generators[0]
        if g.is_async:
            raise Unsupported('async comprehension')
        xs = self.iter_list(g.iter, env)
        names, n = self.bind_target(g.target, None)
        env2 = dict(env, comp=env['comp'] | set(names))
        x = self.fresh('x') if n is not None else ident(names[0])
        pre = ''
        if n is not None:
            u = self.fresh('u')
            pre = f'let {u} ← pyUnpack {x} {n}; ' + ''.join(f'let {ident(nm)} := unpackAt {u} {k}; ' for k, nm in enumerate(names))
        conds = [self.boolean(c, env2) for c in g.ifs]
        if is_dict:
            k, ek = self.val(e.key, env2)
            v, ev = self.val(e.value, env2)
            elt, ee = f'({k}, {v})', ek or ev
        else:
            elt, ee = self.val(e.elt, env2)
        pure_all = n is None and not ee and not any(c[1] for c in conds)
        if pure_all and not is_dict:
            src = xs
            for c, _ in conds:
                src = f'(List.filter (fun {x} => {c}) {src})'
            return f'(PyVal.list (List.map (fun {x} => {elt}) {src}))', 'val', True
        cond = ' && '.join(c[0] for c in conds) if conds else None
        body = f'pure (some {elt})' if cond is None else f'if {cond} then pure (some {elt}) else pure Option.none'
        comp = self.act(f'pyComp {xs} (fun {x} => do {pre}{body})')
        if is_dict:
            return self.act(f'pyMkDict {comp}'), 'val', True
        return f'(PyVal.list {comp})', 'val', True

    # ---------------------------------------------------------------- statements

    def collect_locals(self, stmts):
        for st in ast.walk(ast.Module(body=stmts, type_ignores=[])):
            if isinstance(st, ast.Assign):
                for t in st.targets:
                    self.locals |= _target_names(t)
            elif isinstance(st, ast.AugAssign):
                self.locals |= _target_names(st.target)
            elif isinstance(st, ast.For):
                self.locals |= _target_names(st.target)
            elif isinstance(st, ast.Expr) and isinstance(st.value, ast.Call) and isinstance(st.value.func, ast.Attribute) \
                    and st.value.func.attr in ('append', 'extend') and isinstance(st.value.func.value, ast.Name):
                self.locals.add(st.value.func.value.id)
            elif isinstance(st, (ast.NamedExpr, ast.Global, ast.Nonlocal, ast.Lambda)):
                raise Unsupported(type(st).__name__)

    def terminates(self, stmts):
        """the block always leaves by return / raise"""
        if not stmts:
            return False
        last = stmts[-1]
        if isinstance(last, (ast.Return, ast.Raise)):
            return True
        if isinstance(last, ast.If):
            return bool(last.orelse) and self.terminates(last.body) and self.terminates(last.orelse)
        return False

    def block(self, stmts, env, ind):
        """returns (lines, defined-after or None when the block never falls through)"""
        lines = []
        defined = set(env['defined'])
        for k, st in enumerate(stmts):
            env_k = dict(env, defined=defined)
            ls, defined = self.stmt(st, env_k, ind)
            lines += ls
            if defined is None:
                if k + 1 < len(stmts) and not all(isinstance(s, ast.Pass) for s in stmts[k + 1:]):
                    raise Unsupported('statements after return / raise / break / continue')
                return lines, None
        if not lines:
            lines.append(f'{ind}pure ()')
        return lines, defined

    def assign_name(self, nm, term, ind):
        return [f'{ind}{ident(nm)} := {term}']

    def assign_target(self, target, term, env, ind, defined):
        if isinstance(target, ast.Name):
            defined.add(target.id)
            return self.assign_name(target.id, term, ind)
        if isinstance(target, (ast.Tuple, ast.List)) and all(isinstance(x, ast.Name) for x in target.elts):
            u = self.fresh('u')
            out = [f'{ind}let {u} ← pyUnpack {term} {len(target.elts)}']
            for k, x in enumerate(target.elts):
                out += self.assign_name(x.id, f'unpackAt {u} {k}', ind)
                defined.add(x.id)
            return out
        if isinstance(target, ast.Subscript) and isinstance(target.value, ast.Name) and not isinstance(target.slice, (ast.Slice, ast.Tuple)):
            x = target.value.id
            xt = self.name(x, env)
            if x not in self.locals and x not in self.params:
                raise Unsupported('item assignment on something that is not a local')
            i, _ = self.val(target.slice, env)
            return [f'{ind}{ident(x)} ← pySetItem {xt} {i} {term}']
        raise Unsupported(f'assignment target {type(target).__name__}')

    def stmt(self, st, env, ind):
        defined = set(env['defined'])
        if isinstance(st, ast.Expr):
            if isinstance(st.value, ast.Constant) and isinstance(st.value.value, str):
                return [], defined
            c = st.value
            if isinstance(c, ast.Call) and isinstance(c.func, ast.Attribute) and isinstance(c.func.value, ast.Name) \
                    and c.func.attr in ('append', 'extend') and len(c.args) == 1 and not c.keywords:
                x = c.func.value.id
                if x not in self.locals and x not in self.params:
                    raise Unsupported(f'.{c.func.attr}() on something that is not a local name')
                xt = self.name(x, env)
                a, _ = self.val(c.args[0], env)
                return [f'{ind}{ident(x)} ← py{c.func.attr.capitalize()} {xt} {a}'], defined
            raise Unsupported('expression statement (call for effect)')
        if isinstance(st, ast.Pass):
            return [f'{ind}pure ()'], defined
        if isinstance(st, ast.Assign):
            t, _ = self.val(st.value, env)
            if len(st.targets) == 1:
                return self.assign_target(st.targets[0], t, env, ind, defined), defined
            v = self.fresh('v')
            out = [f'{ind}let {v} := {t}']
            for tg in st.targets:
                out += self.assign_target(tg, v, env, ind, defined)
            return out, defined
        if isinstance(st, ast.AugAssign):
            if not isinstance(st.target, ast.Name) or type(st.op) not in BIN:
                raise Unsupported('augmented assignment other than `name += -= *= expr`')
            cur = self.name(st.target.id, env)
            v, _ = self.val(st.value, env)
            if isinstance(st.op, ast.Add):
                # `x += y` on a list extends it (with any iterable), otherwise it is `x = x + y`
                av = self.fresh('av')
                term = f'(← (match {cur} with | PyVal.list _ => pyExtend {cur} {av} | _ => pyAdd {cur} {av}))'
                return [f'{ind}let {av} := {v}'] + self.assign_name(st.target.id, term, ind), defined
            term = self.act(f'{BIN[type(st.op)]} {cur} {v}')
            return self.assign_name(st.target.id, term, ind), defined
        if isinstance(st, ast.Return):
            if st.value is None:
                return [f'{ind}return PyVal.none'], None
            t, _ = self.val(st.value, env)
            return [f'{ind}return {t}'], None
        if isinstance(st, ast.Raise):
            if st.cause is not None or st.exc is None:
                raise Unsupported('raise ... from / bare raise')
            ex = st.exc
            cls, msg = None, ''
            if isinstance(ex, ast.Name):
                cls = ex.id
            elif isinstance(ex, ast.Call) and isinstance(ex.func, ast.Name) and not ex.keywords:
                cls = ex.func.id
                try:
                    parts = [ast.literal_eval(a) for a in ex.args]
                    msg = ' '.join(str(p) for p in parts)
                except Exception:
                    msg = ast.unparse(ex)[:200]
            if cls is None or not re.fullmatch(r'[A-Za-z_][A-Za-z0-9_]*', cls):
                raise Unsupported('raise of something that is not `Cls` or `Cls(...)`')
            return [f'{ind}throw (PyErr.mk {lstr(cls)} {lstr(msg[:300])})'], None
        if isinstance(st, ast.Break):
            if not env['loop']:
                raise Unsupported('break outside a loop')
            return [f'{ind}break'], None
        if isinstance(st, ast.Continue):
            if not env['loop']:
                raise Unsupported('continue outside a loop')
            return [f'{ind}continue'], None
        if isinstance(st, ast.If):
            c, _ = self.boolean(st.test, env)
            # `if c: x = a` / `else: x = b` (one assignment to the same name on both sides) is a conditional
            # expression bound once: `x <- (do if c then a else b)`
            if len(st.body) == 1 and len(st.orelse) == 1 and all(
                    isinstance(b, ast.Assign) and len(b.targets) == 1 and isinstance(b.targets[0], ast.Name)
                    for b in (st.body[0], st.orelse[0])) and st.body[0].targets[0].id == st.orelse[0].targets[0].id:
                x = st.body[0].targets[0].id
                a, ea = self.val(st.body[0].value, env)
                b, eb = self.val(st.orelse[0].value, env)
                defined.add(x)
                return [f'{ind}{ident(x)} ← (do if {c} then {self.monadic(a, ea)} else {self.monadic(b, eb)})'], defined
            body, d1 = self.block(st.body, env, ind + '  ')
            out = [f'{ind}if {c} then'] + body
            d2 = defined
            if st.orelse:
                if len(st.orelse) == 1 and isinstance(st.orelse[0], ast.If):
                    ls, d2 = self.stmt(st.orelse[0], env, ind)
                    out.append(f'{ind}else ' + ls[0].lstrip())
                    out += ls[1:]
                else:
                    orelse, d2 = self.block(st.orelse, env, ind + '  ')
                    out += [f'{ind}else'] + orelse
            if d1 is None and d2 is None:
                return out, None
            if d1 is None:
                return out, d2
            if d2 is None:
                return out, d1
            return out, d1 & d2
        if isinstance(st, ast.For):
            if st.orelse:
                raise Unsupported('for ... else')
            xs = self.iter_list(st.iter, env)
            names, n = self.bind_target(st.target, None)
            out = []
            xsv = self.fresh('it')
            out.append(f'{ind}let {xsv} := {xs}')
            inner = ind + '  '
            body_defined = set(defined) | set(names)
            if n is None and names[0] in self.binder_only:
                out.append(f'{ind}for {ident(names[0])} in {xsv} do')
                pre = []
            else:
                x = self.fresh('x')
                out.append(f'{ind}for {x} in {xsv} do')
                if n is None:
                    pre = self.assign_name(names[0], x, inner)
                else:
                    u = self.fresh('u')
                    pre = [f'{inner}let {u} ← pyUnpack {x} {n}']
                    for k, nm in enumerate(names):
                        pre += self.assign_name(nm, f'unpackAt {u} {k}', inner)
            body, _ = self.block(st.body, dict(env, defined=body_defined, loop=True), inner)
            return out + self.loop_decls(st.body, inner) + pre + body, defined
        if isinstance(st, ast.While):
            if st.orelse:
                raise Unsupported('while ... else')
            inner = ind + '  '
            c, _ = self.boolean(st.test, dict(env, loop=True))
            k = self.fresh('fuel')
            out = [f'{ind}for {k} in List.range {WHILE_FUEL + 1} do',
                   f'{inner}if !{c} then',
                   f'{inner}  break',
                   f'{inner}if {k} == {WHILE_FUEL} then',
                   f'{inner}  throw (PyErr.mk "FuelExhausted" "while loop")']
            body, _ = self.block(st.body, dict(env, loop=True), inner)
            return out[:1] + self.loop_decls(st.body, inner) + out[1:] + body, defined
        raise Unsupported(f'statement {type(st).__name__}')

    def find_binder_only(self, body):
        """loop variables that are assigned only by `for` statements and read only inside those loops: they can be
        plain Lean binders instead of mutable variables"""
        cand = set()
        other = set()
        for st in ast.walk(ast.Module(body=body, type_ignores=[])):
            if isinstance(st, ast.For) and isinstance(st.target, ast.Name):
                cand.add(st.target.id)
            elif isinstance(st, ast.For):
                other |= _target_names(st.target)
            elif isinstance(st, ast.Assign):
                for t in st.targets:
                    other |= _target_names(t)
            elif isinstance(st, ast.AugAssign):
                other |= _target_names(st.target)
            elif isinstance(st, ast.Expr) and isinstance(st.value, ast.Call) and isinstance(st.value.func, ast.Attribute) \
                    and isinstance(st.value.func.value, ast.Name):
                other.add(st.value.func.value.id)
        cand -= other
        cand -= set(self.params)

        def reads_outside(stmts, bound):
            bad = set()
            for st in stmts:
                if isinstance(st, ast.For):
                    bad |= (_names_read(st.iter) & cand) - bound
                    b2 = bound | ({st.target.id} if isinstance(st.target, ast.Name) else set())
                    bad |= reads_outside(st.body, b2)
                elif isinstance(st, (ast.If, ast.While)):
                    bad |= (_names_read(st.test) & cand) - bound
                    bad |= reads_outside(st.body, bound) | reads_outside(st.orelse, bound)
                else:
                    bad |= (_names_read(st) & cand) - bound
            return bad
        return cand - reads_outside(body, set())

    def find_loop_local(self, body):
        """locals that are assigned only directly inside loop bodies (loop depth exactly 1).  The definite-assignment
        rule of `block` (a loop body starts from what was defined before the loop, and nothing assigned in the body
        counts after the loop) means every read of such a variable is preceded by an assignment in the SAME iteration,
        so it can be declared inside the loop body instead of being part of the loop state."""
        depths = {}

        def note(names, d):
            for n in names:
                depths.setdefault(n, set()).add(d)

        def scan(stmts, d):
            for st in stmts:
                if isinstance(st, ast.Assign):
                    for t in st.targets:
                        note(_target_names(t), d)
                elif isinstance(st, ast.AugAssign):
                    note(_target_names(st.target), d)
                elif isinstance(st, ast.Expr) and isinstance(st.value, ast.Call) and isinstance(st.value.func, ast.Attribute) \
                        and isinstance(st.value.func.value, ast.Name):
                    note({st.value.func.value.id}, d)
                elif isinstance(st, ast.For):
                    note(_target_names(st.target), d)
                    scan(st.body, d + 1)
                    scan(st.orelse, d)
                elif isinstance(st, ast.While):
                    scan(st.body, d + 1)
                    scan(st.orelse, d)
                elif isinstance(st, ast.If):
                    scan(st.body, d)
                    scan(st.orelse, d)
        scan(body, 0)
        return {n for n, ds in depths.items() if ds == {1}} - set(self.params)

    def direct_assigned(self, stmts):
        """names assigned in the statements, not looking into nested loops"""
        out = set()
        for st in stmts:
            if isinstance(st, ast.Assign):
                for t in st.targets:
                    out |= _target_names(t)
            elif isinstance(st, ast.AugAssign):
                out |= _target_names(st.target)
            elif isinstance(st, ast.Expr) and isinstance(st.value, ast.Call) and isinstance(st.value.func, ast.Attribute) \
                    and isinstance(st.value.func.value, ast.Name):
                out.add(st.value.func.value.id)
            elif isinstance(st, ast.If):
                out |= self.direct_assigned(st.body) | self.direct_assigned(st.orelse)
        return out

    def loop_decls(self, body, ind):
        return [f'{ind}let mut {ident(v)} : PyVal := PyVal.none' for v in sorted(self.direct_assigned(body) & self.loop_local)]

    def translate(self):
        body = list(self.fdef.body)
        if body and isinstance(body[0], ast.Expr) and isinstance(body[0].value, ast.Constant) and isinstance(body[0].value.value, str):
            body = body[1:]
        # nested helper definitions are translated separately (callable by their bare name)
        self.outer = self.fdef
        body = [s for s in body if not isinstance(s, ast.FunctionDef)] if self.gen.allow_nested_defs else body
        self.collect_locals(body)
        self.binder_only = self.find_binder_only(body)
        self.locals -= self.binder_only
        self.loop_local = self.find_loop_local(body) & self.locals
        if len(set(ident(p) for p in self.params)) != len(self.params):
            raise Unsupported('parameter names collide after escaping')
        env = {'defined': set(self.params), 'comp': set(), 'loop': False}
        head = []
        for p in self.params:
            if p in self.locals:
                head.append(f'  let mut {ident(p)} := {ident(p)}')
        for v in sorted(self.locals - set(self.params) - self.loop_local):
            head.append(f'  let mut {ident(v)} : PyVal := PyVal.none')
        lines, d = self.block(body, env, '  ')
        if d is not None:
            lines.append('  return PyVal.none')
        params = ' '.join(ident(p) for p in self.params)
        sig = f'def {self.lean_name} ({params} : PyVal) : PyM PyVal := do' if self.params else f'def {self.lean_name} : PyM PyVal := do'
        return '\n'.join([sig] + head + lines)


class Generator:
    def __init__(self):
        self.modules = {}
        self.consts = {}          # lean constant name -> definition text
        self.defs = {}            # lean name -> (text, arity, ok, reason, doc)
        self.order = []
        self.in_progress = set()
        self.by_py = {}           # (path, python qualname) -> lean name
        self.allow_nested_defs = True

    def module(self, path):
        if path not in self.modules:
            self.modules[path] = Module(path, self)
        return self.modules[path]

    def constant(self, module, nm):
        lean = f'{module.prefix}_const_{nm}'
        if lean not in self.consts:
            self.consts[lean] = f'/-- `{nm}` of {module.path} -/\ndef {lean} : PyVal := {const_val(module.consts[nm])}'
        return lean

    def callee(self, module, f, outer):
        """(lean name, arity) of the function the bare name `f` refers to inside `module` (a nested def of the
        calling function's outer function, or a module-level function); translated on demand"""
        for qual in ([f'{outer.name}.{f}'] if outer is not None else []) + [f]:
            key = (module.path, qual)
            if key in self.by_py:
                lean = self.by_py[key]
                if lean in self.in_progress:
                    raise Unsupported(f'recursive call of {f!r}')
                return lean, self.defs[lean][1]
        node = module.funcs.get(f)
        if node is None:
            return None
        lean = f'{module.prefix}_{f.lstrip("_")}'
        if lean in self.defs or lean in self.in_progress:
            lean = f'{module.prefix}_fn_{f}'
        self.emit(lean, module.path, f, None, None)
        return lean, self.defs[lean][1]

    def sentinel(self, lean, arity, reason, doc):
        params = ' '.join(f'a{k}' for k in range(arity))
        sig = f'def {lean} ({params} : PyVal) : PyM PyVal :=' if arity else f'def {lean} : PyM PyVal :='
        text = f'{sig} unsupported {lstr(reason)}'
        self.defs[lean] = (text, arity, False, reason, doc)

    def emit(self, lean, path, qual, arity, spec):
        self.by_py[(path, qual)] = lean
        doc = f'`{qual}` of {path}'
        try:
            module = self.module(path)
        except (OSError, SyntaxError) as ex:
            self.sentinel(lean, arity or 0, f'cannot parse {path}: {type(ex).__name__}', doc)
            self.order.append(lean)
            return
        node = module.find(qual)
        if node is None:
            self.sentinel(lean, arity or 0, f'function {qual} not found in {path}', doc)
            self.order.append(lean)
            return
        self.in_progress.add(lean)
        try:
            src_note = ''
            if spec is not None:
                node = slice_function(node, spec)
                doc += (f' -- backward slice of `{spec["obj"]}.{spec["out"]}`; parameters {[a.arg for a in node.args.args]}; '
                        'sliced Python text:\n```\n' + ast.unparse(node).replace('-/', '- /') + '\n```')
            tr = FnTranslator(self, module, node, lean)
            # provisional entry so that the arity is known to callers
            self.defs[lean] = ('', len(tr.params), True, '', doc)
            text = tr.translate()
            self.defs[lean] = (text + src_note, len(tr.params), True, '', doc)
        except Unsupported as ex:
            n = len(node.args.args) if arity is None else arity
            line = getattr(node, 'lineno', 0)
            self.sentinel(lean, n, f'{qual} ({path}:{line}): {ex}', doc)
        except RecursionError:
            self.sentinel(lean, arity or 0, f'{qual}: expression too deep', doc)
        finally:
            self.in_progress.discard(lean)
        self.order.append(lean)

    def render(self, sentinel_only=()):
        lines = ['import PyamgV.Model.ExtPyRt',
                 '/-! GENERATED by harness/py2lean.py from the working tree of the repository on every run. Do not edit.',
                 'One executable definition per translated Python function (see the docstring of py2lean.py for the',
                 'subset, the slicing rule and what is trusted); `table` is what the driver calls. -/',
                 'set_option linter.unusedVariables false',
                 'namespace PyamgV.Generated.PyLogic',
                 'open PyamgV.ExtPy', '']
        for c in self.consts.values():
            lines += [c, '']
        status = []
        for lean in self.order:
            text, arity, ok, reason, doc = self.defs[lean]
            if lean in sentinel_only and ok:
                reason = 'the generated definition did not compile (translator defect on this input)'
                self.sentinel(lean, arity, reason, doc)
                text, arity, ok, reason, doc = self.defs[lean]
            lines += [f'/-- {doc} -/', text, '']
            status.append((lean, arity, ok, reason))
        lines.append('/-- (name, translated?, reason when not) -/')
        lines.append('def status : List (String × Bool × String) := [')
        lines.append(',\n'.join(f'  ({lstr(n)}, {"true" if ok else "false"}, {lstr(r)})' for n, _, ok, r in status))
        lines.append(']')
        lines.append('')
        lines.append('/-- uniform entry points for the driver: wrong arity is a `TypeError` -/')
        lines.append('def table : List (String × (List PyVal → PyM PyVal)) := [')
        rows = []
        for n, arity, ok, _ in status:
            ps = ', '.join(f'a{k}' for k in range(arity))
            call = n + ''.join(f' a{k}' for k in range(arity))
            rows.append(f'  ({lstr(n)}, fun args => match args with | [{ps}] => {call} | _ => raise "TypeError" "arity")')
        lines.append(',\n'.join(rows))
        lines.append(']')
        lines.append('')
        lines.append('end PyamgV.Generated.PyLogic')
        return '\n'.join(lines) + '\n'


def build():
    g = Generator()
    for lean, path, qual, arity, spec in TARGETS:
        if lean in g.defs:
            continue
        g.emit(lean, path, qual, arity, spec)
    # the arity the driver / the theorems expect is part of the contract
    for lean, path, qual, arity, spec in TARGETS:
        text, n, ok, reason, doc = g.defs[lean]
        if n != arity:
            g.sentinel(lean, arity, f'{qual}: takes {n} parameters, {arity} expected', doc)
    return g


def _compiles(text):
    """(ok, set of 1-based line numbers with errors); needs the .olean of Model/ExtPyRt"""
    tmp = VERIF / 'build' / 'py2lean'
    tmp.mkdir(parents=True, exist_ok=True)
    f = tmp / 'Candidate.lean'
    f.write_text(text)
    # the run-time library must be built (and current) before the candidate can be elaborated against it
    subprocess.run(['lake', 'build', 'PyamgV.Model.ExtPyRt'], cwd=LEAN, capture_output=True, text=True, timeout=1200)
    p = subprocess.run(['lake', 'env', 'lean', str(f)], cwd=LEAN, capture_output=True, text=True, timeout=600)
    out = p.stdout + p.stderr
    lines = {int(m.group(1)) for m in re.finditer(r'Candidate\.lean:(\d+):\d+: error', out)}
    return p.returncode == 0, lines, out


def generate():
    """write Generated/PyLogic.lean; returns the status list [(lean name, ok, reason)]"""
    g = build()
    text = g.render()
    target = GEN / 'PyLogic.lean'
    GEN.mkdir(parents=True, exist_ok=True)
    stamp = VERIF / 'build' / 'py2lean' / 'ok.sha'
    digest = hashlib.sha256(text.encode()).hexdigest()
    known_good = stamp.exists() and digest in stamp.read_text().split()
    if not known_good and not (target.exists() and target.read_text() == text and stamp.exists()):
        try:
            ok, errlines, out = _compiles(text)
        except Exception:
            ok, errlines, out = True, set(), ''        # cannot run lean here: leave it to lake build
        if not ok:
            # map error lines to definitions and replace those by sentinels; everything when that does not help
            src = text.split('\n')
            bad = set()
            for ln in errlines:
                for k in range(min(ln, len(src)) - 1, -1, -1):
                    m = re.match(r'def (\w+)', src[k])
                    if m:
                        bad.add(m.group(1))
                        break
            bad &= set(g.order)
            text2 = g.render(sentinel_only=bad) if bad else None
            if text2 is None or not _compiles(text2)[0]:
                text2 = g.render(sentinel_only=set(g.order))
            text = text2
        else:
            stamp.parent.mkdir(parents=True, exist_ok=True)
            old = stamp.read_text().split()[-20:] if stamp.exists() else []
            stamp.write_text('\n'.join(old + [digest]) + '\n')
    if not target.exists() or target.read_text() != text:
        target.write_text(text)
    return [(n, g.defs[n][2], g.defs[n][3]) for n in g.order]


if __name__ == '__main__':
    import sys
    if '--show' in sys.argv:
        print(build().render())
    else:
        for n, ok, why in generate():
            print(('ok   ' if ok else 'UNSUPPORTED ') + n + ('' if ok else ': ' + why))
