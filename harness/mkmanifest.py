#!/usr/bin/env python3
"""Writes /verif/MANIFEST.json from harness/manifest_entries.json (one entry per claimed property:
text / note / technique / design_ref) + the not_applicable reasons.  A property is claimed iff it has
an entry AND harness/props/cxx.py and lean/PyamgV/Props/Cxx.lean exist."""
import json
from pathlib import Path

V = Path(__file__).resolve().parent.parent
props = [json.loads(l) for l in (V / 'properties.jsonl').read_text().splitlines() if l.strip()]
entries = json.loads((V / 'harness' / 'manifest_entries.json').read_text())

checks, na, claimed = [], [], []
for p in props:
    pid = p['id']
    e = entries.get(pid)
    ok = e and e.get('claim', True) and (V / 'harness' / 'props' / f'{pid.lower()}.py').exists() and (V / 'lean' / 'PyamgV' / 'Props' / f'{pid}.lean').exists()
    if ok:
        claimed.append(pid)
        checks.append({
            'property_id': pid,
            'quick_cmd': f'./check {pid} --tier quick',
            'thorough_cmd': f'./check {pid} --tier thorough',
            'evidence_file': f'/verif/evidence/{pid}.json',
            'replay_cmd_template': f'./check {pid} --replay {{path}}',
            'engine': 'lean4-proof+correspondence',
            'level_claimed': {'category': 'proof', 'text': e['text'], 'design_ref': e.get('design_ref', f'DESIGN.md section 5 {pid}')},
            'level_note': e['note'],
            'technique': e['technique'],
        })
    else:
        na.append({'property_id': pid, 'reason': (e or {}).get('na_reason', 'check not wired yet in this commit (build in progress; design in DESIGN.md section 5)')})

m = {
    'version': 1,
    'setup_cmd': './setup.sh',
    'hooks': {
        'guard': 'PYAMG_VERIF_NO_SOURCE_HOOKS',
        'enable': 'no source hooks are needed: every check registers ctypes shims of the native kernels (recompiled from the '
                  'working-tree headers by harness/corebuild.py) as pyamg.amg_core.* before importing pyamg; Python code is the '
                  'editable working tree; internals are observed by wrapping attributes from outside',
        'baseline_off_cmd': 'cd /repo && /venv/bin/python -m pytest -ra -q -p no:cacheprovider --timeout=900',
        'source_commits': [],
        'add_only': True,
    },
    'engines': [{
        'name': 'lean4-proof+correspondence', 'path': '/verif/lean', 'serves_properties': claimed,
        'kind_free_text': 'Lean 4.33 (+ single Mathlib modules in proof files): executable models in lean/PyamgV/Model, lemmas in '
                          'Proofs, property theorems in Props/Cxx.lean (audited: axioms within propext/Classical.choice/Quot.sound), '
                          'facts regenerated from the source by harness/translate.py and re-proved equal by decide, line-protocol '
                          'driver (lake env lean --run Main.lean); Python harness in /verif/harness runs the correspondence against '
                          'the real code (kernels recompiled from the working tree) and the failing-input search',
    }],
    'checks': checks,
    'not_applicable': na,
    'notes': 'Approach, trusted base, per-property status and which check catches which seeded change: DESIGN.md. Known findings and '
             'repaired defects: KNOWN_FINDINGS.txt. Seeded changes used to test the checks: seeded/.',
}
(V / 'MANIFEST.json').write_text(json.dumps(m, indent=1) + '\n')
print('claimed', claimed)
