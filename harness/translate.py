"""Translator (secondary tie, DESIGN.md section 1): regenerates lean/PyamgV/Generated/Facts.lean from
/repo's working tree on every run.  It extracts facts the hand-written models rely on:

* the native kernel inventory and signatures (name, parameter list with element type, const-ness and
  array/scalar kind) parsed from pyamg/amg_core/*.h -- one table per header;
* the decision tables of pyamg/relaxation/smoothing.py (SYMMETRIC_RELAXATION, KRYLOV_RELAXATION,
  DEFAULT_SWEEP, DEFAULT_NITER) and the smoother registry (names of the `setup_*` functions), read from
  the AST of the working-tree file;
* keyword defaults of MultilevelSolver.solve / aspreconditioner / coarse_grid_solver and of every
  pyamg.krylov solver (AST), as (name, default-source) pairs;
* (harness/py2lean.py, Generated/PyLogic.lean) executable Lean definitions translated from the AST of the
  pure-Python decision logic: `levelize_*`, the `unpack_arg` helpers, `_same_parameters` and the
  `symmetric_smoothing` slice of `change_smoothers`; theorems in Props/C04.lean and Props/C05.lean are about
  these generated definitions.

* (harness/py2lean2.py, Generated/PyLogic2.lean, extension E42) whole functions with the numerical work abstracted as
  events: `coarse_grid_solver` (+ its nested `GenericSolver.__call__` and `solve` closures), `MultilevelSolver.solve`,
  `solver_configuration`; theorems in Props/C16.lean, Props/C08.lean and Props/C01.lean are about these generated
  definitions.

`Model/Facts.lean` holds the same tables as the models assume them (pinned, committed; written with
`translate.py --pin`).  `Props/Cxx.lean` proves `Facts.t = Generated.t` by `decide`, so a silently
changed table, default or signature breaks a proof obligation of exactly the properties that depend
on it, without anything being executed.  Files are rewritten only when their content changes.
"""
import ast
import os
import re
import sys
from pathlib import Path

VERIF = Path(__file__).resolve().parent.parent
REPO = Path(os.environ.get('VERIF_REPO', '/repo'))
GEN = VERIF / 'lean' / 'PyamgV' / 'Generated'
PIN = VERIF / 'lean' / 'PyamgV' / 'Model' / 'Facts.lean'

HEADERS = ['relaxation', 'ruge_stuben', 'smoothed_aggregation', 'graph', 'air', 'linalg',
           'evolution_strength', 'krylov']
KRYLOV = ['_cg', '_cr', '_cgne', '_cgnr', '_bicgstab', '_gmres', '_gmres_mgs', '_gmres_householder',
          '_fgmres', '_minimal_residual', '_steepest_descent']


def lstr(s):
    s = str(s)
    return '"' + s.replace('\\', '\\\\').replace('"', '\\"') + '"'


def llist(xs, f=lstr):
    return '[' + ', '.join(f(x) for x in xs) + ']'


def kernel_sigs(header):
    """[(name, [normalised parameter declarations])] for every function template in the header"""
    src = (REPO / 'pyamg' / 'amg_core' / f'{header}.h').read_text()
    src = re.sub(r'/\*.*?\*/', '', src, flags=re.S)
    src = re.sub(r'//[^\n]*', '', src)
    out = []
    for m in re.finditer(r'template\s*<([^>]*)>\s*(?:inline\s+)?([\w:<> ]+?)\s+(\w+)\s*\(([^)]*)\)\s*\{', src, flags=re.S):
        ret, name, params = m.group(2).strip(), m.group(3), m.group(4)
        ps = [re.sub(r'\s+', ' ', p.strip()) for p in params.split(',') if p.strip()]
        out.append((name, [ret] + ps))
    return out


def _module(path):
    return ast.parse((REPO / path).read_text())


def smoothing_tables():
    mod = _module('pyamg/relaxation/smoothing.py')
    t = {}
    for node in mod.body:
        if isinstance(node, ast.Assign) and len(node.targets) == 1 and isinstance(node.targets[0], ast.Name):
            nm = node.targets[0].id
            if nm in ('SYMMETRIC_RELAXATION', 'KRYLOV_RELAXATION', 'DEFAULT_SWEEP', 'DEFAULT_NITER'):
                t[nm] = ast.literal_eval(node.value)
    reg = sorted(n.name[len('setup_'):] for n in ast.walk(mod) if isinstance(n, ast.FunctionDef) and n.name.startswith('setup_'))
    t['REGISTRY'] = reg
    return t


def fn_defaults(path, qualname):
    """[(argname, default source)] of a function / method"""
    mod = _module(path)
    parts = qualname.split('.')
    body = mod.body
    node = None
    for p in parts:
        node = next((n for n in body if isinstance(n, (ast.FunctionDef, ast.ClassDef)) and n.name == p), None)
        if node is None:
            return [('<missing>', qualname)]
        body = node.body
    a = node.args
    names = [x.arg for x in a.args]
    defaults = [None] * (len(names) - len(a.defaults)) + list(a.defaults)
    out = [(n, '' if d is None else ast.unparse(d)) for n, d in zip(names, defaults)]
    out += [(x.arg, '' if d is None else ast.unparse(d)) for x, d in zip(a.kwonlyargs, a.kw_defaults)]
    return out


def facts():
    f = {}
    for h in HEADERS:
        f[f'kernels_{h}'] = ('sig', kernel_sigs(h))
    st = smoothing_tables()
    f['symmetricRelaxation'] = ('strs', list(st.get('SYMMETRIC_RELAXATION', [])))
    f['krylovRelaxation'] = ('strs', list(st.get('KRYLOV_RELAXATION', [])))
    f['defaultSweep'] = ('str', str(st.get('DEFAULT_SWEEP')))
    f['defaultNiter'] = ('nat', int(st.get('DEFAULT_NITER', 0)))
    f['smootherRegistry'] = ('strs', st['REGISTRY'])
    f['solveDefaults'] = ('pairs', fn_defaults('pyamg/multilevel.py', 'MultilevelSolver.solve'))
    f['aspreconditionerDefaults'] = ('pairs', fn_defaults('pyamg/multilevel.py', 'MultilevelSolver.aspreconditioner'))
    f['coarseGridSolverDefaults'] = ('pairs', fn_defaults('pyamg/multilevel.py', 'coarse_grid_solver'))
    f['blackboxSolveDefaults'] = ('pairs', fn_defaults('pyamg/blackbox.py', 'solve'))
    kd = []
    for k in KRYLOV:
        name = k[1:]
        for a, d in fn_defaults(f'pyamg/krylov/{k}.py', name):
            kd.append((f'{name}.{a}', d))
    f['krylovDefaults'] = ('pairs', kd)
    return f


def render(ns, f, doc):
    lines = [f'/-! {doc} -/', f'namespace PyamgV.{ns}', '']
    for name, (kind, val) in f.items():
        if kind == 'sig':
            lines.append(f'def {name} : List (String × List String) := [')
            lines.append(',\n'.join(f'  ({lstr(n)}, {llist(ps)})' for n, ps in val))
            lines.append(']')
        elif kind == 'strs':
            lines.append(f'def {name} : List String := {llist(val)}')
        elif kind == 'str':
            lines.append(f'def {name} : String := {lstr(val)}')
        elif kind == 'nat':
            lines.append(f'def {name} : Nat := {val}')
        elif kind == 'pairs':
            lines.append(f'def {name} : List (String × String) := [')
            lines.append(',\n'.join(f'  ({lstr(a)}, {lstr(b)})' for a, b in val))
            lines.append(']')
        lines.append('')
    lines.append(f'end PyamgV.{ns}')
    return '\n'.join(lines) + '\n'


def _write(p, text):
    p.parent.mkdir(parents=True, exist_ok=True)
    if not p.exists() or p.read_text() != text:
        p.write_text(text)


def regenerate():
    f = facts()
    _write(GEN / 'Facts.lean', render('Generated', f, f'GENERATED by harness/translate.py from the working tree of the repository on every run. Do not edit.'))
    # pure-Python decision logic (option handling of the hierarchy loop, symmetric-smoothing flag) -> executable Lean
    # definitions, Generated/PyLogic.lean (see py2lean.py)
    import py2lean
    py2lean.generate()
    # extension E42: whole functions with the numerical work abstracted (coarse_grid_solver, MultilevelSolver.solve,
    # solver_configuration) -> Generated/PyLogic2.lean (see py2lean2.py)
    import py2lean2
    py2lean2.generate()
    # extension E59: the Python wrappers of pyamg/aggregation/aggregate.py and the dispatch of
    # classical_strength_of_connection -> Generated/PyLogic3_aggstr.lean (see py2lean3_aggstr.py)
    import py2lean3_aggstr
    py2lean3_aggstr.generate()
    # extension E57: MultilevelSolver.__solve (the V / W / F / AMLI cycle recursion) -> Generated/PyLogic3_cycle.lean
    # (see py2lean3_cycle.py)
    import py2lean3_cycle
    py2lean3_cycle.generate()
    # extension E58: the Python wrappers of pyamg/classical/split.py and pyamg/classical/interpolate.py ->
    # Generated/PyLogic3_classical.lean (see py2lean3_classical.py)
    import py2lean3_classical
    py2lean3_classical.generate()


def pin():
    f = facts()
    _write(PIN, render('Facts', f, 'The interface facts the hand-written models assume (kernel signatures, decision tables, keyword '
                       'defaults), pinned by `harness/translate.py --pin`; `Props/Cxx.lean` proves them equal to the tables '
                       'regenerated from the working tree on every run.'))


if __name__ == '__main__':
    if '--pin' in sys.argv:
        pin()
        import json
        sys.path.insert(0, str(VERIF / 'harness'))
        import common
        common.PINS.write_text(json.dumps(common.source_fingerprints(REPO), indent=0) + '\n')
    regenerate()
