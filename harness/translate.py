"""Translator: regenerates lean/PyamgV/Generated/*.lean from /repo's working tree on every run.
(Files are rewritten only when their content changes, so an unchanged tree keeps `lake build` a no-op.)"""
import ast
import os
import re
from pathlib import Path

VERIF = Path(__file__).resolve().parent.parent
REPO = Path(os.environ.get('VERIF_REPO', '/repo'))
GEN = VERIF / 'lean' / 'PyamgV' / 'Generated'


def _write(name, text):
    GEN.mkdir(parents=True, exist_ok=True)
    p = GEN / name
    if not p.exists() or p.read_text() != text:
        p.write_text(text)


def regenerate():
    _write('Stub.lean', '/-! generated -/\nnamespace PyamgV.Generated\nend PyamgV.Generated\n')


if __name__ == '__main__':
    regenerate()
