"""Self-test of harness/py2lean2.py (extension E42), run by hand: `python harness/py2lean2_selftest.py`.

Copies the translated library files to a scratch directory, applies source edits and checks what the translator
makes of them: edits inside the subset keep the definition (its text changes), edits outside give the sentinel with a
reason, a missing / renamed function gives a sentinel, and in every case the rendered module is well-formed (one table
entry per target).  Nothing in lean/ or in the repository is touched."""
import shutil
import sys
import tempfile
from pathlib import Path

HERE = Path(__file__).resolve().parent
sys.path.insert(0, str(HERE))
import py2lean as P          # noqa: E402
import py2lean2 as Q         # noqa: E402

FILES = sorted({t[1] for t in Q.TARGETS})

EDITS = [
    # (file, old, new, target, expect ok?, what)
    ('pyamg/multilevel.py', "elif solver == 'lu':", "elif solver == 'lu' or solver == 'LU':", 'multilevel_coarse_grid_solver', True, 'extra name (inside the subset)'),
    ('pyamg/multilevel.py', "    solver, kwargs = unpack_arg(solver)\n", "    solver, kwargs = unpack_arg(solver)\n    solver = (lambda s: s)(solver)\n", 'multilevel_coarse_grid_solver', False, 'lambda'),
    ('pyamg/multilevel.py', "def coarse_grid_solver(solver):", "def coarse_grid_solver2(solver):", 'multilevel_coarse_grid_solver', False, 'function renamed'),
    ('pyamg/multilevel.py', "    solver, kwargs = unpack_arg(solver)\n", "    solver, kwargs = unpack_arg(solver)\n    fn = None\n", 'multilevel_coarse_grid_solver', True, 'extra assignment before the closures'),
    ('pyamg/multilevel.py', "    class GenericSolver:", "    kwargs = dict(kwargs)\n\n    class GenericSolver:", 'multilevel_coarse_grid_solver', False, 'captured variable assigned after the closure was created'),
    ('pyamg/multilevel.py', "            kwargs['rtol'] = tol\n", "            kwargs['rtol'] = tol\n            with open('x') as f:\n                pass\n", 'multilevel_solve', False, 'with statement'),
    ('pyamg/multilevel.py', "        # AMLI cycles require hermitian matrix\n", "        maxiter = maxiter if maxiter is not None else 100\n", 'multilevel_solve', True, 'conditional expression'),
    ('pyamg/multilevel.py', "                x, info = accel(A, b, x0=x0, tol=tol, maxiter=maxiter, M=M,", "                x = None\n                x, info = accel(A, b, x0=x0, tol=tol, maxiter=maxiter, M=M,", 'multilevel_solve', False, 'assignment in a try body before a statement that may raise'),
    ('pyamg/blackbox.py', "    config = {}\n", "    config = {}\n    global np\n", 'blackbox_solver_configuration', False, 'global statement'),
    ('pyamg/blackbox.py', "    config['max_levels'] = 15", "    config['max_levels'] = 15 if verb else 16", 'blackbox_solver_configuration', True, 'value change'),
    ('pyamg/multilevel.py', "            if tolname not in kw:", "            if tolname not in kw and len(kw) < 9:", 'multilevel_cgs_solve_krylov', True, 'nested closure edited inside the subset'),
    ('pyamg/multilevel.py', "            if tolname not in kw:", "            if tolname not in kw and (yield):", 'multilevel_cgs_solve_krylov', False, 'nested closure leaves the subset'),
]


def main():
    base = Q.build()
    base_text = {n: base.defs[n]['text'] for n, *_ in Q.TARGETS}
    bad = 0
    for n, *_ in Q.TARGETS:
        if not base.defs[n]['ok']:
            print('NOTE: on the unchanged tree', n, 'is a sentinel:', base.defs[n]['reason'])
    repo0 = P.REPO
    for path, old, new, target, want_ok, what in EDITS:
        with tempfile.TemporaryDirectory() as tmp:
            for f in FILES:
                dst = Path(tmp) / f
                dst.parent.mkdir(parents=True, exist_ok=True)
                shutil.copy(repo0 / f, dst)
            src = (Path(tmp) / path).read_text()
            if old not in src:
                print('SKIP (anchor not in the source):', what)
                continue
            (Path(tmp) / path).write_text(src.replace(old, new, 1))
            P.REPO = Path(tmp)
            try:
                g = Q.build()
                text = g.render()
            finally:
                P.REPO = repo0
            d = g.defs[target]
            ok = d['ok'] == want_ok and text.count('def tablePure') == 1 and all(f'("{n}", fun w args' in text for n, *_ in Q.TARGETS)
            if want_ok and d['ok'] and d['text'] == base_text[target]:
                ok = False          # an edit inside the subset must change the definition
            others = [n for n, *_ in Q.TARGETS if n != target and g.defs[n]['ok'] != base.defs[n]['ok']
                      and not n.startswith(target) and not target.startswith('multilevel_coarse') ]
            print(('ok   ' if ok else 'FAIL ') + f'{what}: {target} -> ' + ('translated' if d['ok'] else 'sentinel: ' + d['reason'][:110]))
            bad += not ok
    print('selftest:', 'passed' if not bad else f'{bad} FAILED')
    return 1 if bad else 0


if __name__ == '__main__':
    sys.exit(main())
