#!/usr/bin/env python3
"""Entry point of every check: ./check Cxx [--tier quick|thorough] [--replay file]."""
import argparse
import os
import sys
import traceback
from pathlib import Path

HERE = Path(__file__).resolve().parent
sys.path.insert(0, str(HERE))


def main():
    ap = argparse.ArgumentParser()
    ap.add_argument('pid')
    ap.add_argument('--tier', default=os.environ.get('VERIF_TIER', 'quick'), choices=['quick', 'thorough'])
    ap.add_argument('--replay', default=None)
    a = ap.parse_args()
    seed = int(os.environ.get('VERIF_SEED', '0') or 0)
    # native kernels print warnings through std::cout: keep them away from our stdout
    saved = os.dup(1)
    os.dup2(os.open(os.devnull, os.O_WRONLY), 1)
    sys.stdout = os.fdopen(saved, 'w', buffering=1)
    import warnings
    warnings.filterwarnings('ignore')
    repo = os.environ.get('VERIF_REPO')
    if repo and os.path.realpath(repo) != '/repo':
        sys.path.insert(0, repo)      # run against a scratch worktree (seed testing); default is /repo itself
    try:
        import corebuild
        try:
            corebuild.activate()
        except corebuild.BuildError as e:
            print('INFRA: a working-tree kernel header does not compile:', str(e)[-1500:])
            return 2
        import common
        return common.run_check(a.pid.upper(), a.tier, seed, replay=a.replay)
    except Exception:
        print('INFRA: check crashed:\n' + traceback.format_exc()[-3000:])
        return 2


if __name__ == '__main__':
    sys.exit(main())
