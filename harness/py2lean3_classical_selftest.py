"""Self-test of harness/py2lean3_classical.py (extension E58), run by hand: `python harness/py2lean3_classical_selftest.py`.

Copies pyamg/classical/split.py and interpolate.py to a scratch directory, applies source edits and checks what the
translator makes of them: edits inside the subset keep the definition (its text changes -- the theorems of
Proofs/ExtPy3Classical{Split,Interp}.lean are then re-checked against the new text), edits outside give the sentinel with
a reason, a renamed function / a changed arity gives a sentinel, and in every case the rendered module is well-formed (one
table entry per target).  Nothing in lean/ or in the repository is touched."""
import shutil
import sys
import tempfile
from pathlib import Path

HERE = Path(__file__).resolve().parent
sys.path.insert(0, str(HERE))
import py2lean as P                  # noqa: E402
import py2lean3_classical as Q       # noqa: E402

FILES = sorted({t[1] for t in Q.TARGETS})
S, I = Q.SPLIT, Q.INTERP

EDITS = [
    # (file, old, new, target, expect ok?, what)
    (S, "S.indices, splitting)", "T.indices, splitting)", 'split_RS', True, 'second pass on T (seed C13-9 style): inside the subset'),
    (S, "def CLJPc(S):", "def CLJPc(S, extra=None):", 'split_CLJPc', False, 'arity change'),
    (S, "def PMIS(S):", "def PMIS2(S):", 'split_PMIS', False, 'function renamed'),
    (S, "    del S, T\n\n    splitting = MIS(G, weights)", "    del S, T\n    T = None\n    splitting = MIS(G, T)", 'split_PMIS', True,
     're-binding after del'),
    (S, "    del S, T\n    return MIS(G, weights)", "    del S, T\n    return MIS(G, T)", 'split_PMISc', False, 'read after del'),
    (S, "    G.data[:] = 1", "    G.data[::2] = 1", 'split_preprocess', False, 'slice with a step'),
    (S, "    mis[:] = -1", "    with open('x'):\n        pass\n    mis[:] = -1", 'split_MIS', False, 'with statement'),
    (I, "        C = C.copy()\n    C.eliminate_zeros()", "        C = csr_array((C.data.copy(), C.indices, C.indptr), shape=C.shape)\n    C.eliminate_zeros()",
     'interp_direct_interpolation', True, 'shared index arrays (seed C11-7 style): inside the subset'),
    (I, "            raise TypeError('Invalid matrix type, must be CSR or BSR.') from e\n\n    P_rowptr",
     "            raise TypeError(str(e)) from e\n\n    P_rowptr", 'interp_injection_interpolation', False, 'handler name used as a value'),
    (I, "    C.data[:] = 1.0\n    C = C.multiply(A)\n\n    P_indptr = np.empty_like(A.indptr)\n    amg_core.rs_classical",
     "    C.data[:] = (lambda: 1.0)()\n    C = C.multiply(A)\n\n    P_indptr = np.empty_like(A.indptr)\n    amg_core.rs_classical",
     'interp_classical_interpolation', False, 'lambda'),
]


def run():
    real = P.REPO
    bad = 0
    base = {n: Q.build().defs[n]['text'] for n, *_ in Q.TARGETS}
    if not all(Q.build().defs[n]['ok'] for n, *_ in Q.TARGETS):
        print('NOTE: some targets are sentinels on the unedited tree')
    for f, old, new, target, want, what in EDITS:
        with tempfile.TemporaryDirectory() as tmp:
            for g in FILES:
                dst = Path(tmp) / g
                dst.parent.mkdir(parents=True, exist_ok=True)
                shutil.copy(real / g, dst)
            src = (Path(tmp) / f).read_text()
            if old not in src:
                print(f'SKIP  {what}: anchor not found in {f}')
                continue
            (Path(tmp) / f).write_text(src.replace(old, new, 1))
            P.REPO = Path(tmp)
            try:
                g3 = Q.build()
                text = g3.render()
            finally:
                P.REPO = real
            d = g3.defs[target]
            ok = d['ok'] == want and text.count(f'("{target}", fun w args') == 1 and (not want or d['text'] != base[target])
            bad += not ok
            print(('ok    ' if ok else 'FAIL  ') + f'{what}: {target} ' + ('translated' if d['ok'] else 'sentinel: ' + d['reason'][:110]))
    print('self-test', 'FAILED' if bad else 'passed')
    return bad


if __name__ == '__main__':
    sys.exit(1 if run() else 0)
