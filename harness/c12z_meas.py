"""C12, extension E56 part 3 -- `lloyd_aggregation` on COMPLEX strength matrices and on stored zeros under measure='inv'
vs the Lean model `C12ZM.lloydAggregationQ` (op `ext_c12z_lloyd_agg`): the measure on Gaussian rationals (`re z`, `|z|`,
`1/|z|` with `1/0 = +inf`, `1`, `re z - min re z`), the `positive measure` ValueError, Lloyd clustering with `+inf` edges
(never relaxed, counted by the boundary test), AggOp assembly.  Exact comparison of the AggOp arrays and the centres,
`numpy.random.permutation` replayed.  The raw measure (`ext_c12z_measure`) is compared with an independent NumPy
evaluation of the documented table.

Exactness: values are Gaussian rationals with rational modulus (real, imaginary, Pythagorean multiples 3+4i, 5+12i, 8+6i
times a power of two) so that np.abs is exact; for 'inv' only powers of two (times 1, i, -1, -i) and stored zeros, so
that 1/|z| and all path sums are dyadic.
"""
import hashlib
import warnings

import numpy as np
import scipy.sparse as sp

from common import enc_ints, enc_rat, enc_crats

_GEN = {
    'real': [1.0, 2.0, 0.5, 3.0, 1.0, 4.0],
    'imag': [1j, 2j, -1j, -0.5j, 4j, 3j],
    'pyth': [3 + 4j, -3 + 4j, 4 - 3j, 5 + 12j, 8 + 6j, 1.5 + 2j, -0.75 - 1j, 6 - 8j],
    'mixed': [1.0, 2j, 3 + 4j, -1.0, -0.5j, 4 - 3j, 2.0, 0.75 + 1j, -2.0, 1j],
    'posre': [1.0, 3 + 4j, 4 - 3j, 0.75 - 1j, 2.0, 1.5 + 2j, 0.5, 12 + 5j],
    'pow2': [1.0, 2.0, 0.5, 1j, -2j, -1.0, 4.0, 0.25j, -0.5],
}


def _key(*a):
    return hashlib.sha1(repr(a).encode()).hexdigest()


def complex_matrix(rng, M, t, measure):
    """(ap, aj, data, kind, sym): complex (or real) values on the off-diagonal pattern of M; symmetric / conjugate /
    nonsymmetric values; stored zeros (under 'inv': +inf edge lengths)"""
    M = np.array(M)
    n = M.shape[0]
    off = (M - np.diag(np.diag(M))) != 0
    cls = ['real', 'imag', 'pyth', 'mixed', 'posre', 'pow2'][t % 6]
    if measure == 'inv':
        cls = 'pow2'
    vals = np.array(_GEN[cls], dtype=complex)
    V = vals[rng.integers(len(vals), size=(n, n))]
    symmode = ['sym', 'conj', 'nonsym'][(t // 6) % 3]
    if symmode == 'sym':
        V = np.triu(V, 1) + np.triu(V, 1).T
    elif symmode == 'conj':
        V = np.triu(V, 1) + np.conj(np.triu(V, 1)).T
    zero = np.zeros((n, n), dtype=bool)
    if t % 4 == 1 or measure == 'inv':
        zero = np.triu(rng.random((n, n)) < (0.35 if measure == 'inv' else 0.15), 1)
        zero = zero | zero.T
    ap, aj, data = [0], [], []
    for i in range(n):
        for j in np.nonzero(off[i])[0]:
            aj.append(int(j))
            data.append(0j if zero[i, j] else complex(V[i, j]))
        ap.append(len(aj))
    real_dtype = ((t // 6) % 2 == 0) and cls in ('real', 'pow2') and not np.iscomplex(np.array(data)).any()
    data = np.array(data, dtype=complex)
    if real_dtype:
        data = np.ascontiguousarray(data.real)
    kind = cls + ':' + symmode + (':stored-zero' if zero[off].any() else '') + (':float64' if real_dtype else ':complex128')
    return np.array(ap, dtype=np.int32), np.array(aj, dtype=np.int32), data, kind, True


def oracle(data, measure):
    """the documented table, independently: (list of floats / inf) or 'ValueError'"""
    z = np.asarray(data, dtype=complex)
    if measure == 'None':
        d = z.real.copy()
    elif measure == 'abs':
        d = np.array([float(np.hypot(v.real, v.imag)) for v in z])
    elif measure == 'inv':
        d = np.array([np.inf if v == 0 else 1.0 / float(np.hypot(v.real, v.imag)) for v in z])
    elif measure == 'unit':
        d = np.ones(len(z))
    else:
        d = z.real - (z.real.min() if len(z) else 0.0)
    return d


def _show(d):
    return ','.join('inf' if np.isinf(v) else enc_rat(float(v)) for v in d) if len(d) else '-'


def part_m(ctx, graphs, defer=None):
    rng = ctx.np_rng
    jobs = []
    for t, (M, gkind) in enumerate(graphs):
        M = np.array(M)
        n = M.shape[0]
        if n < 2:
            continue
        measure = ['None', 'abs', 'inv', 'unit', 'min'][int(rng.integers(5))]
        ap, aj, data, kind, sym = complex_matrix(rng, M, t, measure)
        ratio = float(rng.choice([0.125, 0.25, 0.5, 0.75, 1.0]))
        maxiter = int(rng.integers(0, 5))
        seed = int(rng.integers(2**31))
        jobs.append((n, ap, aj, data, kind, measure, ratio, maxiter, seed))
    run_jobs(ctx, jobs, defer)


def replay_m(ctx, c):
    n = int(c['n'])
    data = np.array(c['re'], dtype=float) + 1j * np.array(c['im'], dtype=float)
    if c.get('dtype') == 'float64':
        data = np.ascontiguousarray(data.real)
    measure = 'None' if c['measure'] is None else c['measure']
    print('replaying lloyd_aggregation on', c.get('dtype'), 'values, measure =', measure, 'ratio =', c['ratio'], 'maxiter =', c['maxiter'])
    run_jobs(ctx, [(n, np.array(c['ap'], dtype=np.int32), np.array(c['aj'], dtype=np.int32), data, 'replay', measure,
                    float(c['ratio']), int(c['maxiter']), int(c['seed']))])


def run_jobs(ctx, jobs, defer=None):
    from pyamg.aggregation import aggregate as AG
    items = []
    for (n, ap, aj, data, kind, measure, ratio, maxiter, seed) in jobs:
        np.random.seed(seed)
        perm = np.random.permutation(n)
        C = sp.csr_array((data.copy(), aj.copy(), ap.copy()), shape=(n, n))
        kw = {'ratio': ratio, 'measure': None if measure == 'None' else measure, 'maxiter': maxiter}
        hdr = f'{n} {enc_ints(ap)} {enc_ints(aj)} {enc_crats(data)}'
        line = f'ext_c12z_lloyd_agg {measure} {enc_rat(ratio)} {hdr} {enc_ints(perm)} {maxiter}'
        case = {'routine': 'lloyd_aggregation_values', 'n': n, 'ap': ap.tolist(), 'aj': aj.tolist(),
                're': [float(np.real(v)) for v in data], 'im': [float(np.imag(v)) for v in data],
                'dtype': str(data.dtype), 'seed': seed, **kw}
        np.random.seed(seed)
        try:
            with warnings.catch_warnings():
                warnings.simplefilter('ignore')
                with np.errstate(all='ignore'):
                    AggOp, ce = AG.lloyd_aggregation(C, **kw)
            AggOp = sp.csr_array(AggOp)
            out = enc_ints(AggOp.indptr) + ';' + enc_ints(AggOp.indices) + ';' + enc_ints(AggOp.data) + ';' + enc_ints(ce)
            res = (AggOp, ce)
        except ValueError as ex:
            out, res = 'ValueError', str(ex)
        except Exception as ex:     # noqa: BLE001
            out, res = f'{type(ex).__name__}', str(ex)
        d = oracle(data, measure)
        finite_edges = [(i, int(aj[jj])) for i in range(n) for jj in range(ap[i], ap[i + 1]) if np.isfinite(d[jj])]
        items.append((line, out, res, case, kind, measure, d, finite_edges, n, maxiter))
        items.append((f'ext_c12z_measure {measure} {enc_crats(data)}', _show(d), None, case, kind, measure, d, None, n, maxiter))
    def finish(outs):
        for (line, out, res, case, kind, measure, d, finite_edges, n, maxiter), o in zip(items, outs):
            raw = finite_edges is None
            ctx.case(key=_key(line), nontrivial=len(d) > 0,
                     sample={'request': line[:240], 'model': o[:120], 'impl': out[:120]} if ctx.evaluations % 97 == 0 else None)
            ctx.feat('meas:' + ('table:' if raw else 'agg:') + measure)
            if not raw:
                ctx.feat('meas:values:' + kind)
                if np.isinf(d).any():
                    ctx.feat('meas:inf-edges')
            if o == 'unmodelled':
                ctx.feat('meas:unmodelled')
                continue
            if o != out:
                ctx.corr(('measure table' if raw else 'lloyd_aggregation (complex / stored zeros)') + ' vs C12ZM model', case, o[:400], out[:400])
            if raw:
                continue
            # the property itself: a valid partition; assigned = reachable from a returned centre along FINITE edges
            neg = bool(len(d)) and float(np.min(d)) < 0
            e = None
            if isinstance(res, str):
                if not (out == 'ValueError' and neg and 'positive measure' in res):
                    e = f'raised {out}: {res}'
            elif neg:
                e = 'a negative edge length was accepted'
            else:
                from props.c12 import check_aggop
                e = check_aggop(res[0], res[1], n, 'lloyd')
                if not e and maxiter >= 1:
                    D = res[0].toarray()
                    seen = np.zeros(n, dtype=bool)
                    todo = [int(c) for c in res[1]]
                    seen[todo] = True
                    adj = {}
                    for (i, j) in finite_edges:
                        adj.setdefault(i, []).append(j)
                    while todo:
                        i = todo.pop()
                        for j in adj.get(i, []):
                            if not seen[j]:
                                seen[j] = True
                                todo.append(j)
                    for i in range(n):
                        if bool(seen[i]) != (D[i].sum() == 1):
                            e = (f'node {i} can{"" if seen[i] else "not"} reach a centre along edges of finite length but is '
                                 f'{"un" if D[i].sum() == 0 else ""}assigned')
                            break
            if e:
                ctx.violation(f'lloyd_aggregation({case["measure"]}, ratio={case["ratio"]}, maxiter={maxiter}) on {kind}: {e}', case)

    _dispatch(ctx, [it[0] for it in items], finish, defer)


def _dispatch(ctx, lines, finish, defer):
    if defer is None:
        finish(ctx.lean(lines) if lines else [])
    else:
        defer.append((lines, finish))
