#!/bin/bash
# seedtest.sh <worktree> <patch> <Cxx> [<Cyy> ...] : apply a seeded change to a SCRATCH WORKTREE of /repo (never /repo
# itself), run the quick checks against that worktree (VERIF_REPO), undo it. Evidence files are not rewritten.
wt="$1"; patch="$2"; shift; shift
cd /verif
[ -d "$wt/pyamg" ] || { echo "no worktree $wt"; exit 3; }
git -C "$wt" checkout -q -- . 
git -C "$wt" apply "$patch" || { echo "patch does not apply"; exit 3; }
for p in "$@"; do
  out=$(VERIF_REPO="$wt" VERIF_NO_EVIDENCE=1 ./check $p --tier ${TIER:-quick} 2>&1); rc=$?
  echo "== $p rc=$rc"; echo "$out" | grep -E "VIOLATION|what:|KNOWN|NOTE|INFRA" | cut -c1-400 | head -6; echo "$out" | tail -1
done
git -C "$wt" checkout -q -- .
