#!/bin/bash
# seedtest.sh <patch> <Cxx> [<Cyy> ...] : apply a seeded change to /repo, run the quick checks, undo it
patch="$1"; shift
cd /verif
if [ -n "$(git -C /repo status --porcelain --untracked-files=no)" ]; then echo "repo not clean"; exit 3; fi
git -C /repo apply "$patch" || { echo "patch does not apply"; exit 3; }
for p in "$@"; do
  out=$(./check $p --tier quick 2>&1); rc=$?
  echo "== $p rc=$rc"; echo "$out" | grep -E "VIOLATION|what:|KNOWN|NOTE|INFRA" | cut -c1-400 | head -6; echo "$out" | tail -1
done
git -C /repo checkout -- .
git -C /repo status --porcelain --untracked-files=no
