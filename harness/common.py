"""Shared machinery of the checks: Lean build + axiom audit, the line-protocol driver, case
bookkeeping, known findings, verdict logic, evidence and replay files.

Verdict logic (DESIGN.md section 1), identical for every property:

    proof obligation broken (lake build / audit of Props.Cxx)  or  correspondence broken
        -> the failing-input search on the REAL code runs with a larger budget
    impl violation found, not in KNOWN_FINDINGS.txt -> exit 1, VIOLATION property=.. replay=<input>
    impl violation found, listed                    -> KNOWN-FINDING line, continue
    nothing found but something broke               -> exit 1, VIOLATION ... no-failing-input-found
    all green                                       -> exit 0
Infrastructure errors and timeouts are exit 2 and never print a VIOLATION line.
"""
import collections
import fcntl
import hashlib
import json
import os
import random
import re
import subprocess
import sys
import time
import traceback
from fractions import Fraction
from pathlib import Path

VERIF = Path(__file__).resolve().parent.parent
REPO = Path(os.environ.get('VERIF_REPO', '/repo'))
LEAN = VERIF / 'lean'
BUILD = VERIF / 'build'
ALLOWED_AXIOMS = {'propext', 'Classical.choice', 'Quot.sound'}
FORBIDDEN = re.compile(r'\bsorry\b|\badmit\b|^\s*axiom\s|native_decide|bv_decide|implemented_by|\bunsafe\s|maxHeartbeats\s+0\b')

TRUSTED_BASE = [
    'Lean 4.33.0 kernel (thorough tier: re-checked with leanchecker)',
    'axioms: subset of {propext, Classical.choice, Quot.sound}; no native_decide / bv_decide / own axioms / sorry (grep + #print axioms audit on every run)',
    'Mathlib v4.33.0 as compiled on the image (single modules imported in proof files only)',
    'hand transcription of the anchored code into lean/PyamgV/Model (validated, not proved, by the correspondence run of this check)',
    'translators harness/translate.py (tables), harness/py2lean.py (pure decision logic), harness/py2lean2.py (event-semantics slices of impure functions) from the working tree to lean/PyamgV/Generated/*.lean, with the runtime libraries Model/ExtPyRt.lean / ExtPy2Rt.lean giving the CPython semantics of the translated subset (self-tested against CPython; the generated definitions are also run against the real functions on every run)',
    'harness/corebuild.py: extern "C" forwarders over the working-tree headers (pointer forwarding only) and g++',
    'harness comparison code; NumPy/SciPy/LAPACK/SuperLU under the contracts named in DESIGN.md section 3',
    'exact-field model: IEEE rounding, overflow and NaN propagation are outside the model',
]


class InfraError(Exception):
    pass


# ----------------------------------------------------------------------------------------------
# Lean: build, audit, driver
# ----------------------------------------------------------------------------------------------

def import_closure(module):
    """the project files a module transitively imports (including itself), by parsing `import PyamgV...` lines"""
    seen, todo = {}, [module]
    while todo:
        m = todo.pop()
        if m in seen:
            continue
        f = LEAN / (m.replace('.', '/') + '.lean')
        if not f.exists():
            continue
        seen[m] = f
        for dep in re.findall(r'^import\s+(PyamgV[\w.]*)', f.read_text(), flags=re.M):
            todo.append(dep)
    return seen


def _lean_source_hash(pid):
    h = hashlib.sha256()
    for m, f in sorted(import_closure(f'PyamgV.Props.{pid}').items()):
        h.update(m.encode())
        h.update(f.read_bytes())
    h.update(pid.encode())
    return h.hexdigest()[:20]


def _run(cmd, cwd=None, timeout=3600, env=None):
    r = subprocess.run(cmd, cwd=cwd, capture_output=True, text=True, timeout=timeout, env=env)
    return r.returncode, r.stdout, r.stderr


def scan_forbidden(pid=None):
    """grep for sorry/admit/axiom/native_decide/... outside comments in every .lean file the property's
    theorems depend on (the import closure of Props/Cxx.lean; the whole project when pid is None)."""
    hits = []
    files = (sorted(f for f in LEAN.rglob('*.lean') if '.lake' not in f.parts) if pid is None
             else sorted(import_closure(f'PyamgV.Props.{pid}').values()))
    for f in files:
        txt = f.read_text()
        # strip block comments (incl. doc comments) and line comments
        txt = re.sub(r'/-.*?-/', lambda m: '\n' * m.group(0).count('\n'), txt, flags=re.S)
        for ln, line in enumerate(txt.split('\n'), 1):
            line = line.split('--')[0]
            if FORBIDDEN.search(line):
                hits.append(f'{f.relative_to(LEAN)}:{ln}: {line.strip()[:120]}')
    return hits


AUDIT_TMPL = '''import PyamgV.Props.{pid}
import Lean
open Lean Elab Command
run_cmd do
  let env ← getEnv
  let ns := `PyamgV.Props.{pid}
  let names := env.constants.fold (init := (#[] : Array Name)) fun acc n ci =>
    match ci with
    | .thmInfo _ => if ns.isPrefixOf n && !n.isInternalDetail then acc.push n else acc
    | _ => acc
  for n in names.qsort (fun a b => a.toString < b.toString) do
    let axs ← Lean.collectAxioms n
    logInfo m!"AUDIT {{n}} {{axs.toList}}"
'''


def lean_prepare(pid, need_audit=True, log=None):
    """Regenerate Generated/, build Props.<pid> and the driver, audit axioms.
    Returns dict(ok, build_ok, driver_ok, obligations, discharged, theorems, broken, wall_s)."""
    t0 = time.time()
    BUILD.mkdir(exist_ok=True)
    res = {'ok': False, 'build_ok': False, 'driver_ok': False, 'obligations': 0, 'discharged': 0,
           'theorems': [], 'broken': [], 'forbidden': []}
    with open(BUILD / '.lean.lock', 'w') as lock:
        fcntl.flock(lock, fcntl.LOCK_EX)
        import translate
        translate.regenerate()
        rc, out, err = _run(['lake', 'build', f'PyamgV.Props.{pid}', 'PyamgV.Driver.Main'], cwd=LEAN)
        if rc != 0:
            res['build_log'] = (out + err)[-6000:]
            bad = re.findall(r'error: (PyamgV/\S+?\.lean):(\d+):\d+: (.*)', out + err)
            res['broken'] = [f'{f}:{ln}: {msg[:200]}' for f, ln, msg in bad][:10] or ['lake build failed (see build_log)']
            rc2, out2, err2 = _run(['lake', 'build', 'PyamgV.Driver.Main'], cwd=LEAN)
            res['driver_ok'] = rc2 == 0
        else:
            res['build_ok'] = True
            res['driver_ok'] = True
        # count obligations from the source in any case
        src = (LEAN / 'PyamgV' / 'Props' / f'{pid}.lean').read_text()
        declared = re.findall(r'^\s*(?:theorem|restate)\s+([\w\'.]+)', src, flags=re.M)
        res['obligations'] = len(declared)
        res['declared'] = declared
        if res['build_ok'] and need_audit:
            key = _lean_source_hash(pid)
            adir = BUILD / 'audit'
            adir.mkdir(exist_ok=True)
            cache = adir / f'{pid}.{key}.json'
            if cache.exists():
                aud = json.loads(cache.read_text())
            else:
                forb = scan_forbidden(pid)
                af = adir / f'Audit{pid}.lean'
                af.write_text(AUDIT_TMPL.format(pid=pid))
                rc, out, err = _run(['lake', 'env', 'lean', str(af)], cwd=LEAN)
                thms = []
                for m in re.finditer(r'AUDIT (\S+) \[(.*?)\]', out + err):
                    axs = [a.strip() for a in m.group(2).split(',') if a.strip()]
                    thms.append([m.group(1), axs])
                aud = {'rc': rc, 'theorems': thms, 'forbidden': forb, 'log': (out + err)[-2000:] if rc else ''}
                if rc == 0:
                    for old in adir.glob(f'{pid}.*.json'):
                        old.unlink()
                    cache.write_text(json.dumps(aud))
            res['theorems'] = aud['theorems']
            res['forbidden'] = aud['forbidden']
            res['obligations'] = max(len(aud['theorems']), len(declared))
            good = [t for t, axs in aud['theorems'] if set(axs) <= ALLOWED_AXIOMS]
            res['discharged'] = len(good)
            for t, axs in aud['theorems']:
                if not set(axs) <= ALLOWED_AXIOMS:
                    res['broken'].append(f'{t}: disallowed axioms {sorted(set(axs) - ALLOWED_AXIOMS)}')
            if aud['rc'] != 0:
                res['broken'].append('axiom audit failed: ' + aud['log'][-300:])
            if len(aud['theorems']) < len(declared):
                res['broken'].append(f'audit saw {len(aud["theorems"])} theorems, source declares {len(declared)}')
            for h in aud['forbidden']:
                res['broken'].append('forbidden token: ' + h)
        res['ok'] = res['build_ok'] and not res['broken']
    res['wall_s'] = round(time.time() - t0, 2)
    return res


def lean_batch(lines, timeout=1800, chunks=1):
    """Run request lines through the Lean driver; returns the list of reply lines."""
    if not lines:
        return []
    for ln in lines:
        if '\n' in ln:
            raise InfraError('newline inside a protocol line')

    def one(part):
        for attempt in range(3):
            p = subprocess.run(['lake', 'env', 'lean', '--run', 'Main.lean'], cwd=LEAN, input='\n'.join(part) + '\n',
                               capture_output=True, text=True, timeout=timeout)
            if p.returncode == 0:
                break
            # a concurrent `lake build` (another check preparing the same project) can replace an .olean while this
            # interpreter loads it: wait for the build lock, make sure the driver is built, and try again
            if attempt < 2:
                with open(BUILD / '.lean.lock', 'w') as lock:
                    fcntl.flock(lock, fcntl.LOCK_EX)
                    _run(['lake', 'build', 'PyamgV.Driver.Main'], cwd=LEAN, timeout=1800)
                time.sleep(1 + attempt)
        if p.returncode != 0:
            raise InfraError(f'lean driver failed rc={p.returncode}: {p.stderr[-800:]} | stdout tail: {p.stdout[-400:]}')
        out = p.stdout.split('\n')
        if out and out[-1] == '':
            out.pop()
        if len(out) != len(part):
            raise InfraError(f'lean driver returned {len(out)} lines for {len(part)} requests: {p.stderr[-400:]}')
        return out

    if chunks <= 1 or len(lines) < 4 * chunks:
        return one(lines)
    from concurrent.futures import ThreadPoolExecutor
    size = (len(lines) + chunks - 1) // chunks
    parts = [lines[i:i + size] for i in range(0, len(lines), size)]
    with ThreadPoolExecutor(max_workers=chunks) as ex:
        outs = list(ex.map(one, parts))
    return [o for part in outs for o in part]


# ----------------------------------------------------------------------------------------------
# protocol encoding helpers (Python side)
# ----------------------------------------------------------------------------------------------

def frac(x):
    """exact Fraction of a Python/NumPy number (floats are dyadic rationals)."""
    if isinstance(x, Fraction):
        return x
    if isinstance(x, (int,)):
        return Fraction(x)
    import numpy as np
    if isinstance(x, (np.integer,)):
        return Fraction(int(x))
    return Fraction(float(x))


def enc_rat(x):
    f = frac(x)
    return str(f.numerator) if f.denominator == 1 else f'{f.numerator}/{f.denominator}'


def enc_crat(z):
    z = complex(z)
    return enc_rat(z.real) + '|' + enc_rat(z.imag)


def enc_list(xs, f=str):
    xs = list(xs)
    return ','.join(f(x) for x in xs) if xs else '-'


def enc_ints(xs):
    return enc_list(xs, lambda v: str(int(v)))


def enc_rats(xs):
    return enc_list(xs, enc_rat)


def enc_crats(xs):
    return enc_list(xs, enc_crat)


def dec_list(s, f=str):
    return [] if s == '-' or s == '' else [f(t) for t in s.split(',')]


def dec_rat(t):
    return Fraction(t)


def dec_crat(t):
    a, b = t.split('|')
    return (Fraction(a), Fraction(b))


def float_bits(x):
    import struct
    return struct.unpack('<Q', struct.pack('<d', float(x)))[0]


# ----------------------------------------------------------------------------------------------
# known findings
# ----------------------------------------------------------------------------------------------

def load_findings():
    known, fixed = collections.defaultdict(dict), collections.defaultdict(list)
    p = VERIF / 'KNOWN_FINDINGS.txt'
    if p.exists():
        for line in p.read_text().split('\n'):
            line = line.strip()
            m = re.match(r'known:\s+property=(C\d+)\s+key=(\S+)\s+(.*)', line)
            if m:
                known[m.group(1)][m.group(2)] = m.group(3)
            m = re.match(r'fixed:\s+property=(C\d+)\s+(\S+)\s+(.*)', line)
            if m:
                fixed[m.group(1)].append((m.group(2), m.group(3)))
    return known, fixed


# ----------------------------------------------------------------------------------------------
# context
# ----------------------------------------------------------------------------------------------

class Ctx:
    def __init__(self, pid, tier, seed):
        self.pid, self.tier, self.seed = pid, tier, seed
        self.rng = random.Random((seed * 1000003) ^ int(pid[1:]))
        import numpy as np
        self.np_rng = np.random.default_rng((seed * 7919 + int(pid[1:])) % (2**32))
        self.t0 = time.time()
        self.evaluations = 0
        self.distinct = set()
        self.features = collections.Counter()
        self.samples = []
        self.corr_fail = []          # correspondence disagreements (model vs implementation)
        self.violations = []         # property violations on the real code
        self.assumptions = []
        self.search_only = []
        self.partial = []
        self.max_rel_err = 0.0
        self.near_skipped = 0
        self.deep = False            # set when a proof obligation or the correspondence broke
        self.budget_s = float(os.environ.get('VERIF_BUDGET_S', '0')) or (100 if tier == 'quick' else 1500)
        self.replay_case = None

    def reseed(self, seed):
        """fresh random streams for an extra round (same derivation as a run with VERIF_SEED=seed)"""
        import numpy as np
        self.rng = random.Random((seed * 1000003) ^ int(self.pid[1:]))
        self.np_rng = np.random.default_rng((seed * 7919 + int(self.pid[1:])) % (2**32))
        self.round_seed = seed

    @property
    def quick(self):
        return self.tier == 'quick'

    def scale(self, quick_n, thorough_n):
        return quick_n if self.quick else thorough_n

    def time_left(self):
        return self.budget_s - (time.time() - self.t0)

    def case(self, key=None, nontrivial=True, sample=None):
        self.evaluations += 1
        if key is not None and nontrivial:
            self.distinct.add(key if isinstance(key, (str, int, tuple)) else json.dumps(key, sort_keys=True, default=str))
        if sample is not None and len(self.samples) < 5:
            self.samples.append(sample)

    def feat(self, name, k=1):
        self.features[name] += k

    def rel_err(self, e):
        if e > self.max_rel_err:
            self.max_rel_err = float(e)

    def corr(self, op, case, model_out, impl_out, note=''):
        """record a disagreement between the Lean model and the implementation"""
        self.corr_fail.append({'op': op, 'case': case, 'model_output': _trunc(model_out), 'impl_output': _trunc(impl_out), 'note': note})

    def violation(self, what, case, fkey=None, detail=None):
        """record a violation of the property by the real code; `fkey` = known-finding key this
        concrete input matches (decided by the caller from the input's shape / call site), or None"""
        self.violations.append({'what': what, 'case': case, 'fkey': fkey, 'detail': _trunc(detail)})

    def lean(self, lines, chunks=None):
        if chunks is None:
            chunks = 8 if len(lines) > 400 else 1
        return lean_batch(lines, chunks=chunks)


def _trunc(x, n=4000):
    if x is None:
        return None
    s = x if isinstance(x, str) else json.dumps(x, default=str)
    return s if len(s) <= n else s[:n] + f'...[{len(s)} chars]'


def jsonable(o):
    import numpy as np
    if isinstance(o, dict):
        return {str(k): jsonable(v) for k, v in o.items()}
    if isinstance(o, (list, tuple)):
        return [jsonable(v) for v in o]
    if isinstance(o, np.ndarray):
        return jsonable(o.tolist())
    if isinstance(o, (np.integer,)):
        return int(o)
    if isinstance(o, (np.floating,)):
        return float(o)
    if isinstance(o, (np.complexfloating, complex)):
        return {'re': float(o.real), 'im': float(o.imag)}
    if isinstance(o, Fraction):
        return str(o)
    if isinstance(o, (str, int, float, bool)) or o is None:
        return o
    return repr(o)


# ----------------------------------------------------------------------------------------------
# source fingerprints: which library files differ from the tree the checks were last validated on
# ----------------------------------------------------------------------------------------------

PINS = VERIF / 'harness' / 'source_pins.json'


def source_fingerprints(repo=None):
    repo = Path(repo or os.environ.get('VERIF_REPO', '/repo'))
    out = {}
    for f in sorted((repo / 'pyamg').rglob('*')):
        if f.suffix not in ('.py', '.h') or not f.is_file():
            continue
        rel = f.relative_to(repo).as_posix()
        if '/tests/' in rel or rel.endswith('version.py') or '_bind.' in rel:
            continue
        out[rel] = hashlib.sha256(f.read_bytes()).hexdigest()[:16]
    return out


def source_drift():
    """library files (pyamg/**/*.py, amg_core/*.h; tests excluded) whose content differs from
    harness/source_pins.json (written by `translate.py --pin` for the tree every check was validated on)"""
    try:
        pins = json.loads(PINS.read_text())
    except (OSError, ValueError):
        return []
    cur = source_fingerprints()
    return sorted(f for f in set(pins) | set(cur) if pins.get(f) != cur.get(f))


# ----------------------------------------------------------------------------------------------
# main entry: run one property check
# ----------------------------------------------------------------------------------------------

def run_check(pid, tier, seed, replay=None):
    import importlib
    t0 = time.time()
    ctx = Ctx(pid, tier, seed)
    known, fixed = load_findings()
    mod = importlib.import_module(f'props.{pid.lower()}')
    meta = getattr(mod, 'META', {})
    lean = lean_prepare(pid)
    if not lean['driver_ok']:
        print(f'INFRA: the Lean driver does not build: {lean.get("build_log", "")[-1500:]}')
        return 2
    if not lean['ok']:
        ctx.deep = True
        print(f'NOTE: proof obligation(s) of {pid} no longer check: {lean["broken"][:3]}')

    if replay:
        data = json.loads(Path(replay).read_text())
        ctx.replay_case = data
        if not hasattr(mod, 'replay'):
            print('this property has no replay function')
            return 2
        mod.replay(ctx, data)
    else:
        # phase 1: corpus + correspondence + cheap search
        mod.run(ctx)
        # phase 1b: the library source differs from the tree this check was validated on -> the change
        # is what has to be judged: spend more rounds (fresh random streams, as VERIF_SEED would give)
        drift = source_drift()
        if drift:
            print(f'NOTE: {len(drift)} library file(s) differ from the pinned tree ({", ".join(drift[:4])}'
                  f'{", ..." if len(drift) > 4 else ""}): extra rounds')
            cap = float(os.environ.get('VERIF_DRIFT_CAP_S', '0')) or (150 if tier == 'quick' else 2400)
            k = 0
            while (not _unlisted(ctx, known) and not ctx.corr_fail and k < (4 if tier == 'quick' else 2)):
                per_round = (time.time() - t0) / (k + 1)
                if time.time() - t0 + per_round > cap:
                    break
                k += 1
                ctx.reseed(seed + 104729 * k)
                mod.run(ctx)
            ctx.features['drift_extra_rounds'] = k
        # phase 2: something broke -> deeper search on the real code
        if (ctx.corr_fail or not lean['ok']) and not _unlisted(ctx, known):
            ctx.deep = True
            if hasattr(mod, 'search'):
                try:
                    mod.search(ctx)
                except InfraError:
                    raise
                except Exception:   # a crashing search must not hide the broken obligation
                    print('NOTE: deep search raised:', traceback.format_exc()[-1500:])

    # verdict
    rdir = VERIF / 'replays'
    rdir.mkdir(exist_ok=True)
    exit_code = 0
    printed_known = set()
    unlisted = _unlisted(ctx, known)
    for v in ctx.violations:
        if v['fkey'] and v['fkey'] in known.get(pid, {}):
            if v['fkey'] not in printed_known:
                printed_known.add(v['fkey'])
                print(f'KNOWN-FINDING: property={pid} {known[pid][v["fkey"]]} [key={v["fkey"]}; e.g. {_trunc(v["what"], 200)}]')
    n_viol = len(unlisted)
    if unlisted:
        v = unlisted[0]
        path = rdir / f'{pid}-{seed}-{int(time.time())}.json'
        path.write_text(json.dumps(jsonable({'property': pid, 'kind': 'impl-violation', 'seed': seed, 'tier': tier,
                                             'what': v['what'], 'case': v['case'], 'detail': v['detail'],
                                             'others': [u['what'] for u in unlisted[1:20]],
                                             'broken_obligations': lean['broken'],
                                             'correspondence_failures': ctx.corr_fail[:5]}), indent=1))
        print(f'VIOLATION property={pid} replay={path}')
        print(f'  what: {_trunc(v["what"], 600)}')
        exit_code = 1
    elif ctx.corr_fail or not lean['ok']:
        path = rdir / f'{pid}-{seed}-{int(time.time())}-nofail.json'
        kind = 'proof' if not lean['ok'] else 'correspondence'
        path.write_text(json.dumps(jsonable({'property': pid, 'kind': kind, 'seed': seed, 'tier': tier,
                                             'theorem_or_obligation': lean['broken'],
                                             'build_log': lean.get('build_log', '')[-3000:],
                                             'correspondence_failures': ctx.corr_fail[:10],
                                             'note': 'no-failing-input-found: the property is no longer shown to hold '
                                                     '(the model/proof no longer matches the code) but the search on the '
                                                     'real code found no input that violates it'}), indent=1))
        what = (lean['broken'][:1] or [f'correspondence {ctx.corr_fail[0]["op"]}'])[0]
        print(f'NOTE: broken without a failing input: {_trunc(what, 300)}')
        print(f'VIOLATION property={pid} replay={path} no-failing-input-found')
        n_viol = 1
        exit_code = 1

    # evidence
    wall = time.time() - t0
    if not replay and not os.environ.get('VERIF_NO_EVIDENCE'):
        ev = {
            'property_id': pid, 'tier': tier, 'seed': seed, 'level': 'proof',
            'coverage': {
                'obligations': lean['obligations'], 'discharged': lean['discharged'],
                'checker_cmd': f'cd /verif/lean && lake build PyamgV.Props.{pid} && lake env lean ../build/audit/Audit{pid}.lean'
                               + (' && lake env leanchecker PyamgV.Props.' + pid if tier == 'thorough' else ''),
                'trusted_base': TRUSTED_BASE + meta.get('trusted_extra', []),
                'theorems': [{'name': t, 'axioms': a} for t, a in lean['theorems']],
                'evaluations': ctx.evaluations,
                'distinct_nontrivial': len(ctx.distinct),
                'rule': meta.get('rule', ''),
                'samples': ctx.samples[:5] or ['(none)'],
                'features': dict(ctx.features),
                'max_rel_error': ctx.max_rel_err,
                'near_threshold_skipped': ctx.near_skipped,
                'correspondence_failures': len(ctx.corr_fail),
                'search_only': meta.get('search_only', []) + ctx.search_only,
                'partial_theorems': meta.get('partial', []) + ctx.partial,
                'known_findings_seen': sorted(printed_known),
                'lean_wall_s': lean['wall_s'],
                'source_drift': source_drift(),
                'exhaustive': False,
            },
            'assumptions': meta.get('assumptions', []) + ctx.assumptions,
            'wall_s': round(wall, 2),
            'violations': n_viol,
        }
        if tier == 'thorough' and lean['ok']:
            ev['coverage']['leanchecker'] = leanchecker(pid)
            if ev['coverage']['leanchecker'].get('rc') != 0:
                print('NOTE: leanchecker did not accept the compiled module:', ev['coverage']['leanchecker'])
        edir = VERIF / 'evidence'
        edir.mkdir(exist_ok=True)
        (edir / f'{pid}.json').write_text(json.dumps(jsonable(ev), indent=1))
    print(f'{pid} {tier} seed={seed}: obligations {lean["discharged"]}/{lean["obligations"]}, '
          f'{ctx.evaluations} cases ({len(ctx.distinct)} distinct non-trivial), '
          f'{len(ctx.corr_fail)} correspondence failures, {len(ctx.violations)} violations '
          f'({len(ctx.violations) - len(unlisted)} known), {wall:.1f}s -> exit {exit_code}')
    return exit_code


def _unlisted(ctx, known):
    return [v for v in ctx.violations if not (v['fkey'] and v['fkey'] in known.get(ctx.pid, {}))]


def leanchecker(pid):
    t0 = time.time()
    try:
        rc, out, err = _run(['lake', 'env', 'leanchecker', f'PyamgV.Props.{pid}'], cwd=LEAN, timeout=1500)
    except subprocess.TimeoutExpired:
        return {'rc': -1, 'note': 'timeout'}
    return {'rc': rc, 'wall_s': round(time.time() - t0, 1), 'tail': (out + err)[-300:]}
