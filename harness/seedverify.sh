#!/bin/bash
# seedverify.sh <Cxx> <k> : confirm seeded change k of property Cxx in its scratch worktree /tmp/wt/Cxx:
#  demo fails with the change, the repo's stable tests pass with it, demo passes without it; then copy to /verif/seeded/Cxx-k
pid="$1"; k="$2"; wt=${SEEDROOT:-/tmp/wt}/$pid; sd=$wt/_seed
cd $wt || exit 3
git checkout -q -- . ; 
cp /repo/pyamg/amg_core/tests/*.so pyamg/amg_core/tests/ 2>/dev/null
rundemo() { if [ -f $sd/run$k.sh ]; then (cd $wt && PYTHONPATH=$wt bash _seed/run$k.sh) ; else (cd $wt && PYTHONPATH=$wt /venv/bin/python _seed/demo$k.py); fi; }
git apply $sd/patch$k.diff || { echo "APPLYFAIL"; exit 3; }
rundemo > $sd/verify$k.with.log 2>&1; rc_with=$?
PYTHONPATH=$wt /venv/bin/python -m pytest -q -p no:cacheprovider --timeout=900 -q --junitxml=$sd/junit$k.xml > $sd/verify$k.tests.log 2>&1
python3 - <<PY > $sd/verify$k.tests.summary
import json,xml.etree.ElementTree as ET
base=set(json.load(open('/root/.vp/BASELINE.json'))['stable_pass'])
ok=set()
for tc in ET.parse('$sd/junit$k.xml').getroot().iter('testcase'):
    if not any(c.tag in ('failure','error','skipped') for c in tc):
        ok.add(tc.get('classname')+'::'+tc.get('name'))
missing=sorted(base-ok)
print(len(base&ok),'of',len(base),'stable tests pass; missing:',missing[:5])
PY
git checkout -q -- .
rundemo > $sd/verify$k.without.log 2>&1; rc_without=$?
echo "$pid-$k demo_with=$rc_with demo_without=$rc_without tests: $(cat $sd/verify$k.tests.summary)"
