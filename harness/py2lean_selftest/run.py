#!/usr/bin/env python3
"""Self-test of harness/py2lean.py + lean/PyamgV/Model/ExtPyRt.lean (not part of ./check; run by hand after touching the
translator):  translates the functions of subset_module.py (one per construct family of the documented subset: while / break /
continue, tuple targets, item assignment, slices, and / or / not / conditional expressions, comparison chains, min / max / range,
comprehensions, dict methods, calls of translated helpers, string methods, nested loops, augmented assignment), runs the generated
Lean definitions and CPython on a few thousand random arguments (ill-typed ones included) and compares the outcomes exactly,
exception classes included.  Also checks that an unbound local and a `with` statement are refused (sentinels).
usage: /venv/bin/python harness/py2lean_selftest/run.py [seed] [n]"""
import importlib.util
import pathlib
import subprocess
import sys
import tempfile
from collections import Counter

import numpy as np

HERE = pathlib.Path(__file__).resolve().parent
sys.path.insert(0, str(HERE.parent))
import extpy      # noqa: E402
import py2lean    # noqa: E402

NAMES = ['f_while', 'f_for_tuple', 'f_slices', 'f_bool', 'f_cmp', 'f_dict', 'f_calls', 'f_nested', 'f_unbound', 'f_unsupported']
ARITY = {'f_while': 1, 'f_for_tuple': 1, 'f_slices': 3, 'f_bool': 3, 'f_cmp': 2, 'f_dict': 2, 'f_calls': 1, 'f_nested': 2,
         'f_unbound': 1, 'f_unsupported': 1}


def main():
    seed = int(sys.argv[1]) if len(sys.argv) > 1 else 1
    n = int(sys.argv[2]) if len(sys.argv) > 2 else 3000
    tmp = pathlib.Path(tempfile.mkdtemp())
    (tmp / 'pkg').mkdir()
    (tmp / 'pkg' / 't.py').write_text((HERE / 'subset_module.py').read_text())
    py2lean.REPO = tmp
    py2lean.TARGETS = [('t_' + f, 'pkg/t.py', f, ARITY[f], None) for f in NAMES]
    g = py2lean.build()
    status = {f: g.defs[f][2] for f in g.order}
    assert not status['t_f_unbound'] and not status['t_f_unsupported'], status
    assert all(ok for f, ok in status.items() if f not in ('t_f_unbound', 't_f_unsupported')), \
        {f: g.defs[f][3] for f in g.order if not g.defs[f][2]}
    text = g.render().replace('PyamgV.Generated.PyLogic', 'PyamgV.Generated.PyLogicT')
    drv = (py2lean.LEAN / 'PyamgV' / 'Driver' / 'ExtE31.lean').read_text()
    drv = drv.replace('import PyamgV.Generated.PyLogic\n', '').replace('import PyamgV.Driver.Util\n', '')
    drv = drv.replace('PyamgV.Generated.PyLogic.', 'PyamgV.Generated.PyLogicT.')
    loop = '''
partial def loop (h : IO.FS.Stream) (out : IO.FS.Stream) : IO Unit := do
  let line ← h.getLine
  if line.isEmpty then return ()
  out.putStrLn ((PyamgV.Drv.ExtE31.handle (line.trimAscii.toString.splitOn " ")).getD "bad-op")
  loop h out
def main : IO Unit := do
  let out ← IO.getStdout
  loop (← IO.getStdin) out
  out.flush
'''
    (tmp / 'TMain.lean').write_text('import PyamgV.Driver.Util\n' + text + drv + loop)
    spec = importlib.util.spec_from_file_location('t', tmp / 'pkg' / 't.py')
    T = importlib.util.module_from_spec(spec)
    spec.loader.exec_module(T)
    rng = np.random.default_rng(seed)

    def small():
        r = rng.random()
        if r < 0.4:
            return int(rng.integers(-2, 8))
        if r < 0.5:
            return None
        if r < 0.6:
            return bool(rng.integers(2))
        if r < 0.75:
            return ['a', 'b', 'xy', 'qz', 'y', ''][int(rng.integers(6))]
        if r < 0.85:
            return [small() for _ in range(int(rng.integers(0, 4)))]
        if r < 0.95:
            return tuple(small() for _ in range(int(rng.integers(0, 4))))
        return {k: small() for k in ['a', 'b', 'k'][:int(rng.integers(0, 4))]}

    cases = []
    for _ in range(n):
        f = NAMES[int(rng.integers(len(NAMES) - 2))]
        if f == 'f_while':
            args = [int(rng.integers(-1, 9))]
        elif f == 'f_for_tuple':
            args = ([[(['a', 'b', 'c'][int(rng.integers(3))], small()) for _ in range(int(rng.integers(0, 5)))]]
                    if rng.random() < 0.8 else [small()])
        elif f == 'f_slices':
            args = [[small() for _ in range(int(rng.integers(0, 6)))] if rng.random() < 0.7 else small(),
                    int(rng.integers(-7, 7)) if rng.random() < 0.9 else None, int(rng.integers(-7, 7))]
        elif f == 'f_nested':
            args = [int(rng.integers(0, 5)), int(rng.integers(0, 5))]
        elif f == 'f_dict':
            args = [{k: small() for k in ['a', 'b', 'k', 'sweep'][:int(rng.integers(0, 5))]} if rng.random() < 0.9 else small(),
                    ['a', 'k', 'zz'][int(rng.integers(3))] if rng.random() < 0.9 else small()]
        elif f == 'f_cmp':
            args = [int(rng.integers(-2, 6)) if rng.random() < 0.9 else small(), int(rng.integers(-2, 6)) if rng.random() < 0.9 else small()]
        else:
            args = [small() for _ in range(ARITY[f])]
        cases.append((f, args))
    lines = [extpy.call_line('t_' + f, a) for f, a in cases]
    p = subprocess.run(['lake', 'env', 'lean', '--run', str(tmp / 'TMain.lean')], cwd=py2lean.LEAN, input='\n'.join(lines) + '\n',
                       capture_output=True, text=True)
    outs = p.stdout.split('\n')[:-1]
    if p.returncode != 0 or len(outs) != len(cases):
        print('the generated file does not run:', (p.stdout + p.stderr)[-3000:])
        return 2
    bad, cnt = 0, Counter()
    for (f, a), o in zip(cases, outs):
        r = extpy.real_outcome(getattr(T, f), a)
        cnt[(f, 'returns' if r[0] == 'R' else r)] += 1
        if o == 'E:Unsupported':      # the run-time library says so itself: a value outside its universe (e.g. a non-string
            cnt[('outside the value universe', '')] += 1          # dictionary key) -- never a silent wrong answer
            continue
        if r != o:
            bad += 1
            if bad < 20:
                print('DIFF', f, a, '\n  python', r, '\n  lean  ', o)
    for k in sorted(cnt):
        print(k, cnt[k])
    print('differences:', bad, 'of', len(cases))
    return 1 if bad else 0


if __name__ == '__main__':
    sys.exit(main())
