LIMIT = 5
NAMES = ['a', 'b', None]


def helper(v):
    if isinstance(v, tuple):
        return v[0], v[1]
    return v, {}


def f_while(n):
    i = 0
    acc = []
    while i < n:
        i += 1
        if i == 2:
            continue
        if i > LIMIT:
            break
        acc.append(i * 2 - 1)
    return acc, i


def f_for_tuple(pairs):
    out = {}
    total = 0
    for k, v in pairs:
        if k in out:
            total += 1
        out[k] = v
    last = None
    for x in pairs:
        last = x
    return out, total, last


def f_slices(xs, a, b):
    return xs[a:b], xs[:b], xs[a:], xs[-1], len(xs[1:-1])


def f_bool(a, b, c):
    r = a or b
    s = a and b
    t = b if c else a
    u = not a
    if a is None or (b is not None and c):
        return r, s, t, u, 1
    elif a == b != c:
        return r, s, t, u, 2
    return r, s, t, u, 0


def f_cmp(a, b):
    if a < b <= 3:
        return 'lt'
    if a >= b:
        return min(a, b), max(a, b, 0)
    return [x for x in range(a, b) if x != 1]


def f_dict(d, k):
    e = {kk: vv for kk, vv in d.items() if kk != k}
    return e, d.get(k), d.get(k, 7), list(d.keys()), list(d.values()), k in d, len(d)


def f_calls(v):
    fn, kw = helper(v)
    if fn in NAMES:
        return fn, kw
    if fn.startswith('x'):
        raise ValueError('starts with x')
    if fn.endswith(('y', 'z')):
        raise TypeError
    return tuple([fn, kw]), list((1, 2))


def f_nested(n, m):
    out = []
    for i in range(n):
        row = []
        for j in range(m):
            if j > i:
                break
            row.append(i - j)
        out.extend(row)
        out += [len(row)]
    return out


def f_unbound(c):
    if c:
        x = 1
    return x


def f_unsupported(c):
    with open(c) as fh:
        return fh
