import PyamgV.Driver.Main
def main : IO Unit := PyamgV.Drv.main
