import PyamgV.Model.ExtC17Ck

/-! PyamgV (C17, extension E7): checked-execution (`Ck`) models of the second interpolation passes of
`ruge_stuben.h`: `rs_direct_interpolation_pass2` and `rs_classical_interpolation_pass2` (both values
of `modified`), loop by loop, including the private `std::vector<I> map(n_nodes)` and the final
renumbering loop `Pj[i] = map[Pj[i]]`.

`Pp` is an *input* of these kernels (the output of the matching first pass); the cursor `nnz` starts
at `Pp[i]` and must stay below `Pp[i+1]`, and the renumbering needs every `Pj[k]`, `k < Pp[n]`, to hold
a node number.  `PpOK` states what the first pass computes (row `i` has one entry if `i` is a C point,
else one per strong C neighbour); the safety theorems assume it.  Extra scalar operations beyond `KOps`
are collected in `IOps`.  Core Lean only. -/
namespace PyamgV.C17
open PyamgV.Ck

variable {α : Type} [Inhabited α]

structure IOps (α : Type) where
  /-- unary minus -/
  neg : α → α
  /-- `a < 0` (also `signof(a) == -1`) -/
  ltZero : α → Bool
  /-- `std::abs(a) > 1e-15*std::abs(b)` -/
  absGtEps : α → α → Bool

/-- state of the row loop: `Pj`, `Px` -/
abbrev PJX (α : Type) := Array Int × Array α

/-! ### what the first pass computes -/

/-- number of `jj` in `[s, s+m)` with `P jj` -/
def cntFrom (P : Int → Bool) (s : Int) : Nat → Nat
  | 0 => 0
  | m+1 => (if P s then 1 else 0) + cntFrom P (s+1) m

/-- entry `jj` of row `i` of `S` is a strong connection to a C point other than `i`
(`splitting[Sj[jj]] == C_NODE && Sj[jj] != i`) -/
def isC (S : Csr α) (splitting : Array Int) (i : Int) (jj : Int) : Bool :=
  decide (splitting.getD (S.aj.getD jj.toNat 0).toNat 0 = 1 ∧ S.aj.getD jj.toNat 0 ≠ i)

/-- `Pp` is a row pointer as `rs_direct_interpolation_pass1` / `rs_classical_interpolation_pass1`
compute it from `S` and `splitting` -/
structure PpOK (S : Csr α) (splitting pp : Array Int) : Prop where
  size : pp.size = S.n + 1
  zero : pp.getD 0 0 = 0
  step : ∀ i, i < S.n → pp.getD (i+1) 0 = pp.getD i 0 +
    (if splitting.getD i 0 = 1 then 1
     else (cntFrom (isC S splitting i) (S.ap.getD i 0) (S.ap.getD (i+1) 0 - S.ap.getD i 0).toNat : Nat))

/-! ### shared pieces -/

/-- C point: `Pj[Pp[i]] = i; Px[Pp[i]] = 1;` -/
def ipCRow (o : KOps α) (pp : Array Int) (i : Int) (st : PJX α) : Ck (PJX α) := do
  let p ← rd pp i
  let pj ← wr st.1 p i
  let px ← wr st.2 p o.one
  pure (pj, px)

/-- `std::vector<I> map(n_nodes); for(i = 0, sum = 0; i < n_nodes; i++){ map[i] = sum; sum += splitting[i]; }` -/
def ipMap (n : Nat) (splitting : Array Int) : Ck (Array Int) := do
  let r ← forRange 0 (n : Int) (Array.replicate n (0 : Int), (0 : Int)) (fun i (st : Array Int × Int) => do
    let m ← wr st.1 i st.2
    let si ← rd splitting i
    pure (m, st.2 + si))
  pure r.1

/-- `for(i = 0; i < Pp[n_nodes]; i++) Pj[i] = map[Pj[i]];` -/
def ipRemap (n : Nat) (pp map pj : Array Int) : Ck (Array Int) := do
  let nn ← rd pp (n : Int)
  forRange 0 nn pj (fun i (pj : Array Int) => do
    let c ← rd pj i
    let m ← rd map c
    wr pj i m)

/-! ### `rs_direct_interpolation_pass2` -/

/-- one row of `rs_direct_interpolation_pass2` -/
def directRow (o : KOps α) (io : IOps α) (A S : Csr α) (splitting pp : Array Int) (i : Int)
    (st : PJX α) : Ck (PJX α) := do
  let si ← rd splitting i
  if si = 1 then ipCRow o pp i st
  else do
    let s ← rd S.ap i
    let e ← rd S.ap (i+1)
    -- `(sum_strong_pos, sum_strong_neg)`
    let ss ← forRange s e (o.zero, o.zero) (fun jj (acc : α × α) => do
      let j ← rd S.aj jj
      let sc ← rd splitting j
      if sc = 1 ∧ j ≠ i then do
        let v ← rd S.ax jj
        if io.ltZero v then pure (acc.1, o.add acc.2 v) else pure (o.add acc.1 v, acc.2)
      else pure acc)
    let as ← rd A.ap i
    let ae ← rd A.ap (i+1)
    -- `(sum_all_pos, sum_all_neg, diag)`
    let sa ← forRange as ae (o.zero, o.zero, o.zero) (fun jj (acc : α × α × α) => do
      let j ← rd A.aj jj
      let v ← rd A.ax jj
      if j = i then pure (acc.1, acc.2.1, o.add acc.2.2 v)
      else if io.ltZero v then pure (acc.1, o.add acc.2.1 v, acc.2.2)
      else pure (o.add acc.1 v, acc.2.1, acc.2.2))
    let alpha := o.div sa.2.1 ss.2
    let beta0 := o.div sa.1 ss.1
    let diag := if o.isZero ss.1 then o.add sa.2.2 sa.1 else sa.2.2
    let beta := if o.isZero ss.1 then o.zero else beta0
    let negc := o.div (io.neg alpha) diag
    let posc := o.div (io.neg beta) diag
    let nnz0 ← rd pp i
    let r ← forRange s e (st.1, st.2, nnz0) (fun jj (acc : Array Int × Array α × Int) => do
      let j ← rd S.aj jj
      let sc ← rd splitting j
      if sc = 1 ∧ j ≠ i then do
        let pj ← wr acc.1 acc.2.2 j
        let v ← rd S.ax jj
        let px ← wr acc.2.1 acc.2.2 (if io.ltZero v then o.mul negc v else o.mul posc v)
        pure (pj, px, acc.2.2 + 1)
      else pure acc)
    pure (r.1, r.2.1)

/-- `rs_direct_interpolation_pass2(n_nodes, Ap, Aj, Ax, Sp, Sj, Sx, splitting, Pp, Pj, Px)` with
`n_nodes = S.n`; returns `(Pj, Px)` -/
def directPass2 (o : KOps α) (io : IOps α) (A S : Csr α) (splitting pp pj : Array Int) (px : Array α) :
    Ck (PJX α) := do
  let r ← forRange 0 (S.n : Int) (pj, px) (directRow o io A S splitting pp)
  let map ← ipMap S.n splitting
  let pj ← ipRemap S.n pp map r.1
  pure (pj, r.2)

/-! ### `rs_classical_interpolation_pass2` -/

/-- `modified`: search row `k` of `A` for `a_kj` and `a_kk` (no `break`); state `(a_kj, a_kk)` -/
def cpSearchMod (o : KOps α) (A : Csr α) (k j : Int) : Ck (α × α) := do
  let s ← rd A.ap k
  let e ← rd A.ap (k+1)
  forRange s e (o.zero, o.zero) (fun si (acc : α × α) => do
    let c ← rd A.aj si
    if c = j then do
      let v ← rd A.ax si
      pure (v, acc.2)
    else if c = k then do
      let v ← rd A.ax si
      pure (acc.1, v)
    else pure acc)

/-- not `modified`: first `a_kj` in row `k` of `A`, then `break`; state `(a_kj, broke)` -/
def cpSearch (o : KOps α) (A : Csr α) (k j : Int) : Ck α := do
  let s ← rd A.ap k
  let e ← rd A.ap (k+1)
  let r ← forRange s e (o.zero, false) (fun si (acc : α × Bool) =>
    if acc.2 then pure acc
    else do
      let c ← rd A.aj si
      if c = j then do
        let v ← rd A.ax si
        pure (v, true)
      else pure acc)
  pure r.1

/-- `inner_denominator`: sum over the strong C points `l` of row `i` of the first `a_kl` in row `k` of `A`
(for `modified` only if its sign differs from that of `a_kk`) -/
def cpInnerDen (o : KOps α) (io : IOps α) (modified : Bool) (A S : Csr α) (splitting : Array Int)
    (s e : Int) (k : Int) (akk : α) : Ck α :=
  forRange s e o.zero (fun ll (den : α) => do
    let l ← rd S.aj ll
    let sl ← rd splitting l
    if sl = 1 then do
      let ks ← rd A.ap k
      let ke ← rd A.ap (k+1)
      let r ← forRange ks ke (den, false) (fun si (acc : α × Bool) =>
        if acc.2 then pure acc
        else do
          let c ← rd A.aj si
          if c = l then do
            let akl ← rd A.ax si
            if !modified || (io.ltZero akl != io.ltZero akk) then pure (o.add acc.1 akl, true)
            else pure (acc.1, true)
          else pure acc)
      pure r.1
    else pure den)

/-- the numerator of `w_ij`: `a_ij + sum over strong F points k ≠ i of a_ik*a_kj/inner_denominator` -/
def cpNumer (o : KOps α) (io : IOps α) (modified : Bool) (A S : Csr α) (splitting : Array Int)
    (i s e : Int) (j : Int) (aij : α) : Ck α :=
  forRange s e aij (fun kk (num : α) => do
    let k ← rd S.aj kk
    let sk ← rd splitting k
    if sk = 0 ∧ k ≠ i then do
      let aik ← rd S.ax kk
      let kj ← (if modified then cpSearchMod o A k j
                else do
                  let v ← cpSearch o A k j
                  pure (v, o.zero))
      -- `if (modified && signof(a_kj) == signof(a_kk)) a_kj = 0;`
      let akj := if modified && (io.ltZero kj.1 == io.ltZero kj.2) then o.zero else kj.1
      if io.absGtEps akj aik then do
        let den ← cpInnerDen o io modified A S splitting s e k kj.2
        pure (o.add num (o.div (o.mul aik akj) den))
      else pure num
    else pure num)

/-- one row of `rs_classical_interpolation_pass2` -/
def classicalRow (o : KOps α) (io : IOps α) (modified : Bool) (A S : Csr α) (splitting pp : Array Int)
    (i : Int) (st : PJX α) : Ck (PJX α) := do
  let si ← rd splitting i
  if si = 1 then ipCRow o pp i st
  else do
    let as ← rd A.ap i
    let ae ← rd A.ap (i+1)
    let den ← forRange as ae o.zero (fun mm (d : α) => do
      let v ← rd A.ax mm
      pure (o.add d v))
    let s ← rd S.ap i
    let e ← rd S.ap (i+1)
    let den ← forRange s e den (fun mm (d : α) => do
      let j ← rd S.aj mm
      if j ≠ i then do
        let v ← rd S.ax mm
        pure (o.sub d v)
      else pure d)
    let nnz0 ← rd pp i
    let r ← forRange s e (st.1, st.2, nnz0) (fun jj (acc : Array Int × Array α × Int) => do
      let j ← rd S.aj jj
      let sc ← rd splitting j
      if sc = 1 then do
        let pj ← wr acc.1 acc.2.2 j
        let v ← rd S.ax jj
        let num ← cpNumer o io modified A S splitting i s e j v
        let px ← wr acc.2.1 acc.2.2 (o.div (io.neg num) den)
        pure (pj, px, acc.2.2 + 1)
      else pure acc)
    pure (r.1, r.2.1)

/-- `rs_classical_interpolation_pass2(n_nodes, Ap, Aj, Ax, Sp, Sj, Sx, splitting, Pp, Pj, Px, modified)` -/
def classicalPass2 (o : KOps α) (io : IOps α) (modified : Bool) (A S : Csr α)
    (splitting pp pj : Array Int) (px : Array α) : Ck (PJX α) := do
  let r ← forRange 0 (S.n : Int) (pj, px) (classicalRow o io modified A S splitting pp)
  let map ← ipMap S.n splitting
  let pj ← ipRemap S.n pp map r.1
  pure (pj, r.2)

end PyamgV.C17
