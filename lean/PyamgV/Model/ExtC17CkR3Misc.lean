import PyamgV.Model.ExtC17Ck

/-! PyamgV (C17, extension E19, round 3): checked-execution (`Ck`) models of the three Krylov helpers of
`krylov.h` -- `apply_householders`, `householder_hornerscheme`, `apply_givens` -- with `dot_prod` / `axpy`
(linalg.h) inlined as loops over (array, offset) pairs, and of `floyd_warshall` (graph.h).  The running
indices (`index`, `ind1..ind4`) are loop state.  `alpha *= -2` uses `-2 = (0 - 1) - 1` of the abstract
scalars (exact in every instantiated type).  Core Lean only. -/
namespace PyamgV.C17
open PyamgV.Ck

variable {α : Type} [Inhabited α]

/-- `-2` -/
def negTwo (o : KOps α) : α := o.sub (o.sub o.zero o.one) o.one

/-- `dot_prod(&B[off], z, n)`: `sum += conjugate(B[off+i])*z[i]` -/
def dotAt (o : KOps α) (B : Array α) (off : Int) (z : Array α) (n : Int) : Ck α :=
  forRange 0 n o.zero (fun i (sum : α) => do
    let b ← rd B (off + i)
    let zi ← rd z i
    pure (o.add sum (o.mul (o.conj b) zi)))

/-- `axpy(z, &B[off], alpha, n)`: `z[i] += alpha*B[off+i]` -/
def axpyAt (o : KOps α) (z : Array α) (B : Array α) (off : Int) (alpha : α) (n : Int) : Ck (Array α) :=
  forRange 0 n z (fun i (z : Array α) => do
    let zi ← rd z i
    let b ← rd B (off + i)
    wr z i (o.add zi (o.mul alpha b)))

/-- one Householder reflection `z -= 2 <B_i, z> B_i` with `B_i = &B[index]`, then `index += index_step`;
state `(z, index)` -/
def hhStep (o : KOps α) (B : Array α) (n step : Int) (st : Array α × Int) : Ck (Array α × Int) := do
  let alpha ← dotAt o B st.2 st.1 n
  let z ← axpyAt o st.1 B st.2 (o.mul alpha (negTwo o)) n
  pure (z, st.2 + step * n)

/-- `apply_householders(z, B, n, start, stop, step)`; returns `(z, index)` -/
def applyHouseholders (o : KOps α) (B : Array α) (n start stop step : Int) (fuel : Nat) (z : Array α) :
    Option (Ck (Array α × Int)) :=
  forStride stop step (fun _ st => hhStep o B n step st) fuel start (pure (z, start * n))

/-- one step of `householder_hornerscheme`: `z[i] += y[i]`, then the reflection -/
def hornerStep (o : KOps α) (B y : Array α) (n step : Int) (i : Int) (st : Array α × Int) : Ck (Array α × Int) := do
  let zi ← rd st.1 i
  let yi ← rd y i
  let z ← wr st.1 i (o.add zi yi)
  hhStep o B n step (z, st.2)

/-- `householder_hornerscheme(z, B, y, n, start, stop, step)`; returns `(z, index)` -/
def hornerScheme (o : KOps α) (B y : Array α) (n start stop step : Int) (fuel : Nat) (z : Array α) :
    Option (Ck (Array α × Int)) :=
  forStride stop step (hornerStep o B y n step) fuel start (pure (z, start * n))

/-- `apply_givens(B, x, n, nrot)`; state `(x, ind1, ind2, ind3, ind4)` -/
def applyGivens (o : KOps α) (B : Array α) (nrot : Int) (x : Array α) : Ck (Array α) := do
  let r ← forRange 0 nrot (x, (0 : Int), (1 : Int), (2 : Int), (3 : Int))
    (fun rot (st : Array α × Int × Int × Int × Int) => do
      let xt ← rd st.1 rot
      let b1 ← rd B st.2.1
      let b2 ← rd B st.2.2.1
      let x1 ← rd st.1 (rot+1)
      let x ← wr st.1 rot (o.add (o.mul b1 xt) (o.mul b2 x1))
      let b3 ← rd B st.2.2.2.1
      let b4 ← rd B st.2.2.2.2
      let x1 ← rd x (rot+1)
      let x ← wr x (rot+1) (o.add (o.mul b3 xt) (o.mul b4 x1))
      pure (x, st.2.1 + 4, st.2.2.1 + 4, st.2.2.2.1 + 4, st.2.2.2.2 + 4))
  pure r.1

/-! ### graph.h: `floyd_warshall` -/

/-- state: `D`, `P` -/
abbrev FW (α : Type) := Array α × Array Int

/-- `floyd_warshall(num_nodes, Ap, Aj, Ax, D, P, C, L, m, a, N)`; `gt x y` is `x > y`, `tol` the constant
`1e-14`; returns `(D, P)` -/
def floydWarshall (o : KOps α) (gt : α → α → Bool) (tol : α) (G : Csr α) (C L m : Array Int) (a N : Int)
    (D : Array α) (P : Array Int) : Ck (FW α) := do
  -- the edges inside cluster `a`
  let st ← forRange 0 N (D, P) (fun _i (st : FW α) => do
    let i ← rd C _i
    let s ← rd G.ap i
    let e ← rd G.ap (i+1)
    forRange s e st (fun jj (st : FW α) => do
      let j ← rd G.aj jj
      let _j ← rd L j
      let mj ← rd m j
      if mj = a then do
        let w ← rd G.ax jj
        let d ← wr st.1 (_i * N + _j) w
        let p ← wr st.2 (_i * N + _j) i
        pure (d, p)
      else pure st))
  -- the diagonal
  let st ← forRange 0 N st (fun _i (st : FW α) => do
    let i ← rd C _i
    let d ← wr st.1 (_i * N + _i) o.zero
    let p ← wr st.2 (_i * N + _i) i
    pure (d, p))
  forRange 0 N st (fun k (st : FW α) =>
    forRange 0 N st (fun i (st : FW α) =>
      forRange 0 N st (fun j (st : FW α) => do
        let dij ← rd st.1 (i * N + j)
        let dik ← rd st.1 (i * N + k)
        let dkj ← rd st.1 (k * N + j)
        if gt dij (o.add (o.add dik dkj) tol) then do
          let d ← wr st.1 (i * N + j) (o.add dik dkj)
          let pkj ← rd st.2 (k * N + j)
          let p ← wr st.2 (i * N + j) pkj
          pure (d, p)
        else pure st)))

end PyamgV.C17
