/-! PyamgV: executable model of `cljp_naive_splitting` (ruge_stuben.h:578), loop by loop.
Polymorphic in the weight type `W` (order, `+1`, `-1`, the constant `1`): `Float` for bit-faithful
execution against the real kernel (which computes `rand()/RAND_MAX + count` in doubles), any
ordered structure for the proofs. Import-free. -/
namespace PyamgV.KCljp

@[inline] def rdN (a : Array Nat) (i : Nat) : Nat := a.getD i 0
@[inline] def rdI (a : Array Int) (i : Nat) : Int := a.getD i 0
@[inline] def wrI (a : Array Int) (i : Nat) (v : Int) : Array Int := a.setIfInBounds i v

abbrev FN : Int := 0
abbrev CN : Int := 1
abbrev UN : Int := 2

structure Csr where
  n : Nat
  ap : Array Nat
  aj : Array Nat

/-- (position in the index array, column) pairs of row `i` -/
def Csr.rowPos (G : Csr) (i : Nat) : List (Nat × Nat) :=
  (List.range' (rdN G.ap i) (rdN G.ap (i+1) - rdN G.ap i)).map (fun jj => (jj, rdN G.aj jj))

structure WOps (W : Type) where
  lt : W → W → Bool
  inc : W → W
  dec : W → W
  one : W

structure St (W : Type) where
  split : Array Int
  mark : Array Int        -- edgemark, indexed like Sj
  wt : Array W
  cache : Array Int       -- c_dep_cache
  unassigned : Int

variable {W : Type} [Inhabited W]

@[inline] def rdW (a : Array W) (i : Nat) : W := a.getD i default
@[inline] def wrW (a : Array W) (i : Nat) (v : W) : Array W := a.setIfInBounds i v

/-- `weight[j]++` for every off-diagonal entry `(i, j)` of `S` -/
def initWeights (o : WOps W) (S : Csr) (w0 : Array W) : Array W :=
  (List.range S.n).foldl (fun w i =>
    (S.rowPos i).foldl (fun w pj => if i ≠ pj.2 then wrW w pj.2 (o.inc (rdW w pj.2)) else w) w) w0

/-- scan with `break`: is some unassigned neighbour heavier than `i`? -/
def heavier (o : WOps W) (s : St W) (i : Nat) (cols : List Nat) : Bool :=
  cols.any (fun j => rdI s.split j == UN && o.lt (rdW s.wt i) (rdW s.wt j))

/-- `weight[k]--; if(weight[k] < 1){ splitting[k] = F; unassigned--; }` with the edge removed -/
def removeEdge (o : WOps W) (s : St W) (pos k : Nat) : St W :=
  let w := o.dec (rdW s.wt k)
  let s := { s with mark := wrI s.mark pos 0, wt := wrW s.wt k w }
  if o.lt w o.one then { s with split := wrI s.split k FN, unassigned := s.unassigned - 1 } else s

/-- guarded edge removal: the body shared by P5 and P6 (`e = (row, position, column)`) -/
def guardedRemove (o : WOps W) (guard : St W → Nat × Nat × Nat → Bool) (s : St W)
    (e : Nat × Nat × Nat) : St W :=
  if guard s e then removeEdge o s e.2.1 e.2.2 else s

def g5 (s : St W) (e : Nat × Nat × Nat) : Bool :=
  rdI s.split e.2.2 == UN && rdI s.mark e.2.1 != 0

def g6 (c : Nat) (s : St W) (e : Nat × Nat × Nat) : Bool :=
  rdI s.split e.2.2 == UN && rdI s.mark e.2.1 != 0 && rdI s.cache e.2.2 == (c : Int)

/-- entries of row `i` as `(row, position, column)` -/
def Csr.rowE (G : Csr) (i : Nat) : List (Nat × Nat × Nat) :=
  (G.rowPos i).map (fun pm => (i, pm.1, pm.2))

/-- P5 for one new C-point: "nbrs that influence C points are not good C points" -/
def p5 (o : WOps W) (S : Csr) (s : St W) (c : Nat) : St W :=
  (S.rowE c).foldl (guardedRemove o g5) s

def p6Cache (T : Csr) (s : St W) (c : Nat) : St W :=
  (T.rowPos c).foldl (fun s pj =>
    if rdI s.split pj.2 == UN then { s with cache := wrI s.cache pj.2 c } else s) s

/-- P6 for one new C-point `c`: for `j` depending on `c`, entries `(j, k)` with `k` depending on `c` -/
def p6 (o : WOps W) (S T : Csr) (s : St W) (c : Nat) : St W :=
  (T.rowPos c).foldl (fun s pj => (S.rowE pj.2).foldl (guardedRemove o (g6 c)) s) (p6Cache T s c)

def select (o : WOps W) (S T : Csr) (s : St W) : List Nat :=
  (List.range S.n).filter (fun i =>
    rdI s.split i == UN &&
      !(heavier o s i ((S.rowPos i).map (·.2))) && !(heavier o s i ((T.rowPos i).map (·.2))))

def markC (s : St W) (dlist : List Nat) : St W :=
  dlist.foldl (fun s i => { s with split := wrI s.split i CN })
    { s with unassigned := s.unassigned - dlist.length }

def pass (o : WOps W) (S T : Csr) (s : St W) : St W :=
  let dlist := select o S T s
  let s := markC s dlist
  let s := dlist.foldl (p5 o S) s
  dlist.foldl (p6 o S T) s

def run (o : WOps W) (S T : Csr) (w0 : Array W) (fuel : Nat) : Array Int × Bool :=
  let rec go (fuel : Nat) (s : St W) : St W × Bool :=
    match fuel with
    | 0 => (s, decide (s.unassigned ≤ 0))
    | f+1 => if s.unassigned > 0 then go f (pass o S T s) else (s, true)
  let s0 : St W := { split := Array.replicate S.n UN, mark := Array.replicate (rdN S.ap S.n) 1,
                     wt := initWeights o S w0, cache := Array.replicate S.n (-1),
                     unassigned := S.n }
  let r := go fuel s0
  (r.1.split.map (fun v => if v = UN then FN else v), r.2)

def floatOps : WOps Float := ⟨fun a b => a < b, fun a => a + 1.0, fun a => a - 1.0, 1.0⟩

end PyamgV.KCljp
