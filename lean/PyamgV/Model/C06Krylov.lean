import PyamgV.Model.CRat
/-! PyamgV (C06): executable models of the seven recurrence solvers of `pyamg/krylov`
(`_cg.py`, `_cr.py`, `_cgne.py`, `_cgnr.py`, `_bicgstab.py`, `_steepest_descent.py`,
`_minimal_residual.py`) with preconditioner, every documented stopping criterion and the complete
bookkeeping (status, residual history, callback log, breakdown exits, periodic residual
recomputation, the `maxiter` clamp of cgne/cgnr, the `n == 1` shortcut of bicgstab), generic in the
scalar type (run on `Rat` and on Gaussian rationals `CRat`), plus the control model of the GMRES
family (`_gmres_mgs.py`, `_gmres_householder.py`, `_fgmres.py`: inner/outer/restart counters,
early inner exit, explicit residual at the end of a cycle, stagnation exit, `n == 1` shortcut).

Norm comparisons are done on squares so that everything stays rational.  Every solver is an
instance `Alg` of one control skeleton `run`; the theorems of `Proofs/C06Loop.lean` and
`Proofs/C06Resid.lean` are about exactly these definitions.  Core Lean only. -/
namespace PyamgV.C06

/-- the non-arithmetic scalar operations: conjugate and real part -/
class Scal (K : Type) where
  conj : K → K
  re : K → Rat
instance : Scal Rat := ⟨id, id⟩
instance : Scal CRat := ⟨CRat.conj, CRat.re⟩

section generic
variable {K : Type} [Add K] [Sub K] [Mul K] [Div K] [OfNat K 0] [DecidableEq K] [Scal K]

abbrev Vec (K : Type) := List K
abbrev Mat (K : Type) := List (List K)

/-- `Σ aᵢ bᵢ` (no conjugation) -/
def dotu : Vec K → Vec K → K
  | a :: as, b :: bs => a * b + dotu as bs
  | _, _ => 0
/-- `np.inner(a.conjugate(), b)` -/
def dotc (a b : Vec K) : K := dotu (a.map Scal.conj) b
def mv (A : Mat K) (x : Vec K) : Vec K := A.map (fun row => dotu row x)
/-- `α u + v` -/
def axpy (α : K) (u v : Vec K) : Vec K := List.zipWith (fun ui vi => α * ui + vi) u v
/-- `v − α u` -/
def axmy (α : K) (u v : Vec K) : Vec K := List.zipWith (fun ui vi => vi - α * ui) u v
def vsub (a b : Vec K) : Vec K := List.zipWith (fun ai bi => ai - bi) a b
/-- squared 2-norm -/
def nrm2 (v : Vec K) : Rat := Scal.re (dotc v v)
/-- conjugate transpose of an `n × n` matrix -/
def ctrans (n : Nat) (A : Mat K) : Mat K :=
  (List.range n).map (fun j => A.map (fun row => Scal.conj (row.getD j 0)))
/-- the true residual `b − A x` -/
def resid (A : Mat K) (b x : Vec K) : Vec K := vsub b (mv A x)

/-! ### stopping criteria -/
inductive Crit where
  | rr | rrp | MrMr | rMr
deriving DecidableEq, Repr

/-- constants of the test: `tol²`, `‖b‖²` (1 when `b = 0`), `‖A‖_F²`, `‖M b‖²` (1 when `M b = 0`) -/
structure Thr where
  tol2 : Rat
  nb2 : Rat
  nA2 : Rat
  nMb2 : Rat

/-- decides `√R2 < tol (√P + √Q)` for non-negative rationals (`tol2 = tol²`) -/
def ltSum (R2 tol2 P Q : Rat) : Bool :=
  if tol2 = 0 then false else
  let L := R2 / tol2 - P - Q
  if L < 0 then true else decide (L * L < 4 * P * Q)

/-- the test `normr < rtol` of the code for criterion `c`, from the iterate `x`, the residual `r`,
the preconditioned residual `z` and the scalar `rz = ⟨r, z⟩` -/
def test (c : Crit) (t : Thr) (x r z : Vec K) (rz : K) : Bool :=
  match c with
  | .rr => decide (nrm2 r < t.tol2 * t.nb2)
  | .rrp => ltSum (nrm2 r) t.tol2 (t.nA2 * nrm2 x) t.nb2
  | .MrMr => decide (nrm2 z < t.tol2 * t.nMb2)
  | .rMr => decide (0 ≤ Scal.re rz) && decide (Scal.re rz < t.tol2)

def frob2 (A : Mat K) : Rat := (A.map nrm2).foldl (· + ·) 0
def mkThr (A M : Mat K) (b : Vec K) (tol2 : Rat) : Thr :=
  let nb2 := nrm2 b
  let nMb2 := nrm2 (mv M b)
  ⟨tol2, if nb2 = 0 then 1 else nb2, frob2 A, if nMb2 = 0 then 1 else nMb2⟩

/-! ### the control skeleton -/
/-- exit codes: `brk1` = status `-1` (the documented breakdown exits), `brkDiv` = status `-98`
(a division by zero: the code continues with NaN/Inf; the check judges those runs by the search
oracle only) -/
abbrev brk1 : Nat := 0
abbrev brkDiv : Nat := 97
inductive Step (σ K : Type) where
  | brk (x : List K) (k : Nat)      -- abort: `x` is returned with status `-(k+1)`, nothing is recorded
  | fin (s : σ)                      -- record `s` and return status 0 (bicgstab's half step)
  | next (s : σ)

structure Res (K : Type) where
  x : List K
  status : Int
  res2 : List Rat          -- squares of the entries of the residual history
  log : List (List K)      -- callback arguments
deriving Repr

structure Alg (σ K : Type) where
  step : σ → Step σ K
  conv : σ → Bool
  post : σ → Option Nat    -- exits (status `-(k+1)`) tested after the criterion and before the `maxiter` test
  hist : σ → Rat
  getx : σ → List K

def loop {σ : Type} (a : Alg σ K) (maxiter : Nat) :
    Nat → Nat → σ → List Rat → List (List K) → Res K
  | 0, _, s, res, log => ⟨a.getx s, Int.negSucc 98, res, log⟩     -- unreachable (fuel = maxiter)
  | fuel+1, it, s, res, log =>
    match a.step s with
    | .brk x k => ⟨x, Int.negSucc k, res, log⟩
    | .fin s' => ⟨a.getx s', 0, res ++ [a.hist s'], log ++ [a.getx s']⟩
    | .next s' =>
      if a.conv s' then ⟨a.getx s', 0, res ++ [a.hist s'], log ++ [a.getx s']⟩
      else match a.post s' with
        | some k => ⟨a.getx s', Int.negSucc k, res ++ [a.hist s'], log ++ [a.getx s']⟩
        | none =>
          if it + 1 = maxiter then ⟨a.getx s', ((it + 1 : Nat) : Int), res ++ [a.hist s'], log ++ [a.getx s']⟩
          else loop a maxiter fuel (it + 1) s' (res ++ [a.hist s']) (log ++ [a.getx s'])

/-- `short`: value returned with status 0 right after the initial test failed (the one-dimensional
shortcut of bicgstab), nothing recorded -/
def run {σ : Type} (a : Alg σ K) (maxiter : Nat) (s0 : σ) (short : Option (List K) := none) : Res K :=
  if a.conv s0 then ⟨a.getx s0, 0, [a.hist s0], []⟩
  else match short with
    | some x => ⟨x, 0, [a.hist s0], []⟩
    | none => loop a maxiter maxiter 0 s0 [a.hist s0] []

/-- `r` is updated recursively unless `it % every = 0` or `it = 0` (`np.mod(it, every) and it > 0`) -/
def recur (it every : Nat) : Bool := it % every ≠ 0 && it > 0

/-! ### CG (`_cg.py`) -/
structure CgSt (K : Type) where
  x : Vec K
  r : Vec K
  z : Vec K
  p : Vec K
  rz : K
  it : Nat

def cgInit (A M : Mat K) (b x0 : Vec K) : CgSt K :=
  let r := resid A b x0
  let z := mv M r
  ⟨x0, r, z, z, dotc r z, 0⟩

def cgStep (A M : Mat K) (b : Vec K) (s : CgSt K) : Step (CgSt K) K :=
  let Ap := mv A s.p
  let pAp := dotc Ap s.p
  if Scal.re pAp < 0 then .brk s.x brk1 else
  if pAp = 0 then .brk s.x brk1 else            -- vanishing search direction: documented breakdown exit (-1)
  let α := s.rz / pAp
  let x := axpy α s.p s.x
  let r := if recur s.it 8 then axmy α Ap s.r else resid A b x
  let z := mv M r
  let rz := dotc r z
  if Scal.re rz < 0 then .brk x brk1 else
  if s.rz = 0 then .brk x brkDiv else
  let β := rz / s.rz
  .next ⟨x, r, z, axpy β s.p z, rz, s.it + 1⟩

def cgAlg (A M : Mat K) (b : Vec K) (c : Crit) (t : Thr) : Alg (CgSt K) K :=
  ⟨cgStep A M b, fun s => test c t s.x s.r s.z s.rz, fun _ => none, fun s => nrm2 s.r, fun s => s.x⟩

def cg (A M : Mat K) (b x0 : Vec K) (c : Crit) (tol2 : Rat) (maxiter : Nat) : Res K :=
  run (cgAlg A M b c (mkThr A M b tol2)) maxiter (cgInit A M b x0)

/-! ### CR (`_cr.py`; criteria rr, rr+, MrMr) -/
structure CrSt (K : Type) where
  x : Vec K
  r : Vec K
  z : Vec K
  p : Vec K
  Ap : Vec K
  rAz : K
  it : Nat

def crInit (A M : Mat K) (b x0 : Vec K) : CrSt K :=
  let r := resid A b x0
  let z := mv M r
  ⟨x0, r, z, z, mv A z, dotc r (mv A z), 0⟩

def crStep (A M : Mat K) (b : Vec K) (s : CrSt K) : Step (CrSt K) K :=
  let d := dotc s.Ap s.Ap
  if d = 0 then .brk s.x brkDiv else
  let α := s.rAz / d
  let x := axpy α s.p s.x
  let r := if recur s.it 8 then axmy α s.Ap s.r else resid A b x
  let z := mv M r
  let Az := mv A z
  let rAz := dotc r Az
  if s.rAz = 0 then .brk x brkDiv else
  let β := rAz / s.rAz
  .next ⟨x, r, z, axpy β s.p z, axpy β s.Ap Az, rAz, s.it + 1⟩

def crAlg (A M : Mat K) (b : Vec K) (c : Crit) (t : Thr) : Alg (CrSt K) K :=
  ⟨crStep A M b, fun s => test c t s.x s.r s.z 0,
   fun s => if dotc s.z s.z = 0 then some brk1 else none, fun s => nrm2 s.r, fun s => s.x⟩

def cr (A M : Mat K) (b x0 : Vec K) (c : Crit) (tol2 : Rat) (maxiter : Nat) : Res K :=
  run (crAlg A M b c (mkThr A M b tol2)) maxiter (crInit A M b x0)

/-- cgne/cgnr: `maxiter > 1.3 n` is replaced by `ceil(1.3 n) + 2` -/
def clampNE (n maxiter : Nat) : Nat := if 10 * maxiter > 13 * n then (13 * n + 9) / 10 + 2 else maxiter

/-! ### CGNE (`_cgne.py`) -/
structure NeSt (K : Type) where
  x : Vec K
  r : Vec K
  z : Vec K
  p : Vec K
  zr : K
  it : Nat

def cgneInit (A AH M : Mat K) (b x0 : Vec K) : NeSt K :=
  let r := resid A b x0
  let z := mv M r
  ⟨x0, r, z, mv AH z, dotc z r, 0⟩

def cgneStep (A AH M : Mat K) (b : Vec K) (s : NeSt K) : Step (NeSt K) K :=
  let d := dotc s.p s.p
  if d = 0 then .brk s.x brk1 else              -- vanishing search direction: breakdown exit (-1)
  let α := s.zr / d
  let x := axpy α s.p s.x
  let r := if recur s.it 8 then axmy α (mv A s.p) s.r else resid A b x
  let z := mv M r
  let zr := dotc z r
  if s.zr = 0 then .brk x brkDiv else
  let β := zr / s.zr
  .next ⟨x, r, z, axpy β s.p (mv AH z), zr, s.it + 1⟩

def cgneAlg (A AH M : Mat K) (b : Vec K) (c : Crit) (t : Thr) : Alg (NeSt K) K :=
  ⟨cgneStep A AH M b, fun s => test c t s.x s.r s.z s.zr, fun _ => none, fun s => nrm2 s.r, fun s => s.x⟩

def cgne (A M : Mat K) (b x0 : Vec K) (c : Crit) (tol2 : Rat) (maxiter : Nat) : Res K :=
  let AH := ctrans b.length A
  run (cgneAlg A AH M b c (mkThr A M b tol2)) (clampNE b.length maxiter) (cgneInit A AH M b x0)

/-! ### CGNR (`_cgnr.py`): `z = M Aᴴ r`, the tests 'MrMr' and 'rMr' use this `z` -/
structure NrSt (K : Type) where
  x : Vec K
  r : Vec K
  rhat : Vec K
  z : Vec K
  p : Vec K
  zr : K
  it : Nat

def cgnrInit (A AH M : Mat K) (b x0 : Vec K) : NrSt K :=
  let r := resid A b x0
  let rhat := mv AH r
  let z := mv M rhat
  ⟨x0, r, rhat, z, z, dotc z rhat, 0⟩

def cgnrStep (A AH M : Mat K) (b : Vec K) (s : NrSt K) : Step (NrSt K) K :=
  let w := mv A s.p
  let d := dotc w w
  if d = 0 then .brk s.x brk1 else              -- vanishing search direction: breakdown exit (-1)
  let α := s.zr / d
  let x := axpy α s.p s.x
  let r := if recur s.it 8 then axmy α w s.r else resid A b x
  let rhat := mv AH r
  let z := mv M rhat
  let zr := dotc z rhat
  if s.zr = 0 then .brk x brkDiv else
  let β := zr / s.zr
  .next ⟨x, r, rhat, z, axpy β s.p z, zr, s.it + 1⟩

def cgnrAlg (A AH M : Mat K) (b : Vec K) (c : Crit) (t : Thr) : Alg (NrSt K) K :=
  ⟨cgnrStep A AH M b, fun s => test c t s.x s.r s.z s.zr, fun _ => none, fun s => nrm2 s.r, fun s => s.x⟩

def cgnr (A M : Mat K) (b x0 : Vec K) (c : Crit) (tol2 : Rat) (maxiter : Nat) : Res K :=
  let AH := ctrans b.length A
  run (cgnrAlg A AH M b c (mkThr A M b tol2)) (clampNE b.length maxiter) (cgnrInit A AH M b x0)

/-! ### BiCGStab (`_bicgstab.py`; criteria rr, rr+; right preconditioning) -/
structure BiSt (K : Type) where
  x : Vec K
  r : Vec K
  p : Vec K
  rstar : Vec K
  rr : K

def biInit (A : Mat K) (b x0 : Vec K) : BiSt K :=
  let r := resid A b x0
  ⟨x0, r, r, r, dotc r r⟩

def biStep (A M : Mat K) (c : Crit) (t : Thr) (s : BiSt K) : Step (BiSt K) K :=
  let Mp := mv M s.p
  let AMp := mv A Mp
  let d := dotc s.rstar AMp
  if s.rr = 0 ∨ d = 0 then .brk s.x brk1 else    -- (r, r*) = 0 or (A M p, r*) = 0: breakdown exit (-1)
  let α := s.rr / d
  let sv := axmy α AMp s.r
  -- the half step `x + α M p` is tested against its own threshold
  let xh := axpy α Mp s.x
  if test c t xh sv sv 0 then .fin ⟨xh, sv, s.p, s.rstar, s.rr⟩ else
  let Ms := mv M sv
  let AMs := mv A Ms
  let d2 := dotc AMs AMs
  if d2 = 0 then .brk s.x brkDiv else
  let ω := dotc AMs sv / d2
  if ω = 0 then .brk s.x brk1 else                 -- s ⟂ A M s: breakdown exit (-1) with the current iterate
  let x := axpy ω Ms (axpy α Mp s.x)
  let r := axmy ω AMs sv
  let rrNew := dotc s.rstar r
  let β := (rrNew / s.rr) * (α / ω)
  .next ⟨x, r, axpy β (axmy ω AMp s.p) r, s.rstar, rrNew⟩

def biAlg (A M : Mat K) (c : Crit) (t : Thr) : Alg (BiSt K) K :=
  ⟨biStep A M c t, fun s => test c t s.x s.r s.r 0, fun _ => none, fun s => nrm2 s.r, fun s => s.x⟩

def bicgstab (A M : Mat K) (b x0 : Vec K) (c : Crit) (tol2 : Rat) (maxiter : Nat) : Res K :=
  let short : Option (List K) :=
    match A, b with
    | [[a]], [b0] => some [b0 / a]
    | _, _ => none
  run (biAlg A M c (mkThr A M b tol2)) maxiter (biInit A b x0) short

/-! ### steepest descent (`_steepest_descent.py`) -/
structure SdSt (K : Type) where
  x : Vec K
  r : Vec K
  z : Vec K
  rz : K
  it : Nat

def sdInit (A M : Mat K) (b x0 : Vec K) : SdSt K :=
  let r := resid A b x0
  let z := mv M r
  ⟨x0, r, z, dotc r z, 0⟩

def sdStep (A M : Mat K) (b : Vec K) (s : SdSt K) : Step (SdSt K) K :=
  let q := mv A s.z
  let zAz := dotc s.z q
  if Scal.re zAz < 0 then .brk s.x brk1 else
  if zAz = 0 then .brk s.x brkDiv else
  let α := s.rz / zAz
  let x := axpy α s.z s.x
  let it := s.it + 1
  let r := if recur it 50 then resid A b x else axmy α q s.r
  let z := mv M r
  let rz := dotc r z
  if Scal.re rz < 0 then .brk x brk1 else
  .next ⟨x, r, z, rz, it⟩

def sdAlg (A M : Mat K) (b : Vec K) (c : Crit) (t : Thr) : Alg (SdSt K) K :=
  ⟨sdStep A M b, fun s => test c t s.x s.r s.z s.rz,
   fun s => if s.rz = 0 then some brk1 else none, fun s => nrm2 s.r, fun s => s.x⟩

def steepestDescent (A M : Mat K) (b x0 : Vec K) (c : Crit) (tol2 : Rat) (maxiter : Nat) : Res K :=
  run (sdAlg A M b c (mkThr A M b tol2)) maxiter (sdInit A M b x0)

/-! ### minimal residual (`_minimal_residual.py`): one criterion `‖M r‖ < tol ‖M b‖`
(`‖M b‖ := 1` when `b = 0`), preconditioned residual history -/
structure MrSt (K : Type) where
  x : Vec K
  z : Vec K
  it : Nat

def mrInit (A M : Mat K) (b x0 : Vec K) : MrSt K := ⟨x0, mv M (resid A b x0), 0⟩

def mrStep (A M : Mat K) (b : Vec K) (s : MrSt K) : Step (MrSt K) K :=
  let p := mv M (mv A s.z)
  let pz := dotc p s.z
  if Scal.re pz < 0 then .brk s.x brk1 else
  let pp := dotc p p
  if pp = 0 then .brk s.x brkDiv else
  let α := pz / pp
  let x := axpy α s.z s.x
  let it := s.it + 1
  let z := if recur it 50 then mv M (resid A b x) else axmy α p s.z
  .next ⟨x, z, it⟩

def mrThr2 (M : Mat K) (b : Vec K) (tol2 : Rat) : Rat :=
  tol2 * (if nrm2 b = 0 then 1 else (let v := nrm2 (mv M b); if v = 0 then 1 else v))

def mrAlg (A M : Mat K) (b : Vec K) (thr2 : Rat) : Alg (MrSt K) K :=
  ⟨mrStep A M b, fun s => decide (nrm2 s.z < thr2), fun _ => none, fun s => nrm2 s.z, fun s => s.x⟩

def minimalResidual (A M : Mat K) (b x0 : Vec K) (tol2 : Rat) (maxiter : Nat) : Res K :=
  run (mrAlg A M b (mrThr2 M b tol2)) maxiter (mrInit A M b x0)

/-! ### the documented quantities as functions of the iterate -/
/-- `‖b − A x‖²` -/
def trueRes2 (A : Mat K) (b x : Vec K) : Rat := nrm2 (resid A b x)
/-- `‖M (b − A x)‖²` -/
def truePRes2 (A M : Mat K) (b x : Vec K) : Rat := nrm2 (mv M (resid A b x))
/-- the documented criterion `c` evaluated from `x` alone: `r := b − A x`, `z := M r` -/
def critOf (c : Crit) (t : Thr) (A M : Mat K) (b x : Vec K) : Bool :=
  test c t x (resid A b x) (mv M (resid A b x)) (dotc (resid A b x) (mv M (resid A b x)))
/-- what `_cgnr.py` tests: `z := M Aᴴ r` -/
def critNR (c : Crit) (t : Thr) (A AH M : Mat K) (b x : Vec K) : Bool :=
  test c t x (resid A b x) (mv M (mv AH (resid A b x)))
    (dotc (mv M (mv AH (resid A b x))) (mv AH (resid A b x)))

/-- `_cr.py`: no `⟨r, z⟩` is tested (criteria rr, rr+, MrMr) -/
def critCR (c : Crit) (t : Thr) (A M : Mat K) (b x : Vec K) : Bool :=
  test c t x (resid A b x) (mv M (resid A b x)) 0
/-- `_cgne.py`: 'rMr' uses `⟨z, r⟩` -/
def critNE (c : Crit) (t : Thr) (A M : Mat K) (b x : Vec K) : Bool :=
  test c t x (resid A b x) (mv M (resid A b x)) (dotc (mv M (resid A b x)) (resid A b x))
/-- `_minimal_residual.py`: `‖M r‖² < thr2` -/
def critMR (thr2 : Rat) (A M : Mat K) (b x : Vec K) : Bool := decide (truePRes2 A M b x < thr2)
/-- `_bicgstab.py`: criteria rr, rr+ on the unpreconditioned residual -/
def critBi (c : Crit) (t : Thr) (A : Mat K) (b x : Vec K) : Bool :=
  test c t x (resid A b x) (resid A b x) 0

/-- the conclusion shared by the solver theorems: the C06 clauses for an output `o` started from
`x0` with iteration limit `maxiter`, history function `H` and criterion `C` -/
def Truthful (o : Res K) (x0 : Vec K) (maxiter : Nat) (H : Vec K → Rat) (C : Vec K → Bool) : Prop :=
  o.res2 = (x0 :: o.log).map H ∧
  o.log.length ≤ maxiter ∧
  (o.status = 0 ∨ o.status < 0 ∨ o.status = maxiter) ∧
  (o.status = 0 → C o.x = true) ∧
  (0 < o.status → o.status = maxiter ∧ o.log.length = maxiter ∧ C o.x = false) ∧
  (0 ≤ o.status → o.x = (x0 :: o.log).getLast (List.cons_ne_nil _ _)) ∧
  (C x0 = true → o = ⟨x0, 0, [H x0], []⟩)

end generic

/-! ### control model of the GMRES family

`restart`, `maxiter` as passed by the caller (`none` = not given / falsy).  The arithmetic is
abstracted into two oracles: `gtest k` = "after the `k`-th inner iteration overall (1-based) the
Givens estimate `|g|` is below the threshold", `rtest k` = "the explicitly recomputed residual of
the iterate after `k` inner iterations is below the threshold"; `stag k` = the stagnation exit
(relative update below `1e-12`).  `late` = `niter` is incremented after the early `break`
instead of before it (`_fgmres.py` before its repair 925d7a0; all three files now run with `late = false`). -/
structure GDims where
  maxInner : Nat
  maxOuter : Nat
deriving Repr, DecidableEq

def gmresDims (n : Nat) (restart maxiter : Option Nat) : GDims :=
  match restart with
  | some (r+1) =>     -- `if restart:` (a positive int)
    let outer := match maxiter with | some (m+1) => m + 1 | _ => 1
    ⟨if r + 1 > n then n else r + 1, outer⟩
  | _ =>
    let m := match maxiter with | none => min n 40 | some m => if m > n then n else m
    ⟨m, 1⟩

structure GRes where
  status : Int
  niter : Nat     -- the counter `niter` of the code
  ncb : Nat       -- callback invocations = residual entries appended
deriving Repr, DecidableEq

/-- one cycle: returns (inner iterations performed in this cycle, value added to `niter`) -/
def gInner (late : Bool) (gtest : Nat → Bool) (maxInner : Nat) (base : Nat) : Nat → Nat → Nat × Nat
  | 0, inner => (inner, inner)
  | fuel+1, inner =>
    if inner = maxInner then (inner, inner)
    else if inner < maxInner - 1 ∧ gtest (base + inner + 1) then
      (inner + 1, if late then inner else inner + 1)     -- `break`
    else gInner late gtest maxInner base fuel (inner + 1)

def gOuter (late : Bool) (gtest rtest stag : Nat → Bool) (d : GDims) : Nat → Nat → Nat → GRes
  | 0, niter, done => ⟨niter, niter, done⟩
  | fuel+1, niter, done =>
    let (k, dn) := gInner late gtest d.maxInner done d.maxInner 0
    let done := done + k
    let niter := niter + dn
    if stag done then ⟨-1, niter, done⟩
    else if rtest done then ⟨0, niter, done⟩
    else gOuter late gtest rtest stag d fuel niter done

/-- `n == 1`: status 0 with nothing recorded (not even the initial residual) -/
def gmresCtl (late : Bool) (n : Nat) (restart maxiter : Option Nat) (conv0 : Bool)
    (gtest rtest stag : Nat → Bool) : Option GRes :=
  if n = 1 then none
  else if conv0 then some ⟨0, 0, 0⟩
  else
    let d := gmresDims n restart maxiter
    some (gOuter late gtest rtest stag d d.maxOuter 0 0)

end PyamgV.C06
