import PyamgV.Model.ExtPy2Rt
/-! PyamgV (extension E58, properties C13 / C11): run-time additions of the translator driver
`harness/py2lean3_classical.py` (output `Generated/PyLogic3_classical.lean`) on top of `Model/ExtPy2Rt.lean` (read its
header: opaque objects, `World`, events, scripts, trace).  Core Lean only, executable, total.  The Python wrappers of
`pyamg/classical/split.py` and `pyamg/classical/interpolate.py` need one thing beyond E42:

* `e.a[k] = v` / `e.a[lo:hi] = v` (item assignment through an attribute expression: `C.data[:] = 1.0`) is the
  `setitem` event of E42 on the opaque object `e.a` evaluates to.  On a built-in value the in-place effect on the
  shared list object is not modelled: the pseudo exception `Unsupported`;
* `n * [e]` (a list display times a value): list repetition when `n` is an `int` (`symMulSeq`).

(`del x, y` of local names and `except C as e: raise D(...) from e` are handled by the translator alone: the first
produces no code -- the names become undefined for the definite-assignment analysis --, the second is `raise D(...)`:
the cause changes neither the exception class nor the events.)

The functions below classify the events of a trace; the theorems of `Proofs/ExtPy3Classical{Split,Interp}.lean` use them to state
which objects a wrapper mutates in place and what each native kernel receives. -/
namespace PyamgV.ExtPy3Classical
open PyamgV.ExtPy PyamgV.ExtPy2

/-- `e.a[key] = v` -/
def symSetItemExpr (x key v : PyVal) : PyM2 Unit :=
  match x with
  | .obj _ => emit (.tuple [.str "setitem", x, key, v])
  | .none => throw ⟨"TypeError", "'NoneType' object does not support item assignment"⟩
  | _ => throw ⟨"Unsupported", "item assignment through an expression on a built-in value"⟩

/-- `a * b` where one operand is a list display (`n * [np.identity(b)]`): repetition of the list for an `int` count
(no event), `symBin "mul"` otherwise -/
def symMulSeq (a b : PyVal) : PyM2 PyVal :=
  match a, b with
  | .int k, .list xs => pure (.list (List.flatten (List.replicate k.toNat xs)))
  | .list xs, .int k => pure (.list (List.flatten (List.replicate k.toNat xs)))
  | _, _ => symBin "mul" a b

/-! ### reading a trace -/

/-- the event `f(*args, **kw)` -/
def callEv (f : String) (args : List PyVal) (kw : List (String × PyVal)) : PyVal :=
  .tuple [.str "call", .obj f, .list args, .dict kw]

/-- the event `x[:] = v` -/
def fillEv (x : String) (v : PyVal) : PyVal :=
  .tuple [.str "setitem", .obj x, sliceKey .none .none, v]

/-- `p` is the object `root` or something reached from it by attribute / item look-ups (`root.data`, `root.shape[0]`) -/
def derivedFrom (root p : String) : Bool :=
  p == root || (root ++ ".").isPrefixOf p || (root ++ "[").isPrefixOf p

/-- the SciPy / NumPy methods that change their receiver in place -/
def inplaceMethods : List String :=
  ["eliminate_zeros", "sort_indices", "sum_duplicates", "prune", "setdiag", "resize", "sort", "fill", "put", "itemset",
   "setfield", "setflags", "partition", "byteswap_inplace", "clear", "append", "extend", "pop", "update", "remove", "insert"]

/-- the characters after the last `.` (kernel-friendly: structural recursion on the character list) -/
def lastSeg (cs : List Char) : List Char := cs.foldl (fun acc c => if c == '.' then [] else acc ++ [c]) []

/-- the last component of an object path `a.b.c` -/
def lastAttr (p : String) : String := String.ofList (lastSeg p.toList)

/-- the receiver path of a method object path `a.b.c` (`a.b`) -/
def recvOf (p : String) : String := String.ofList (((p.toList.reverse.dropWhile (· != '.')).drop 1).reverse)

/-- the objects an event changes IN PLACE, as far as Python-level operations go: the target of an item / attribute
assignment and the receiver of an in-place method (what the native kernels receive is stated per kernel, see
`kernelCalls` / `kernelsAvoid`) -/
def mutated : PyVal → List String
  | .tuple [.str "setitem", .obj p, _, _] => [p]
  | .tuple [.str "setattr", .obj p, _, _] => [p]
  | .tuple [.str "call", .obj f, .list _, _] => if inplaceMethods.contains (lastAttr f) then [recvOf f] else []
  | _ => []

/-- no event of the trace changes `root` (or a part of it) in place -/
def neverMutates (root : String) (trace : List PyVal) : Bool :=
  trace.all (fun e => (mutated e).all (fun p => !derivedFrom root p))

/-- the calls of native kernels in a trace: (kernel name, arguments) in order -/
def kernelCalls (trace : List PyVal) : List (String × List PyVal) :=
  trace.filterMap (fun e => match e with
    | .tuple [.str "call", .obj f, .list args, _] =>
      if "amg_core.".isPrefixOf f then some ((f.drop 9).toString, args) else Option.none
    | _ => Option.none)

/-- no native kernel receives `root` or a part of it (`root.indptr`, `root.data`, ...) -/
def kernelsAvoid (root : String) (trace : List PyVal) : Bool :=
  (kernelCalls trace).all (fun c => c.2.all (fun a => match a with | .obj p => !derivedFrom root p | _ => true))

/-- the callee names of the call events of a trace, in order -/
def callees (trace : List PyVal) : List String :=
  trace.filterMap (fun e => match e with
    | .tuple [.str "call", .obj f, _, _] => some f
    | _ => Option.none)

end PyamgV.ExtPy3Classical
