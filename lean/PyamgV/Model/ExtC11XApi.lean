import PyamgV.Model.C11
import PyamgV.Model.ExtSpmm
/-! PyamgV (C11, extension E49): the public wrappers `injection_interpolation` and
`one_point_interpolation` (pyamg/classical/interpolate.py:175-322) on every input format they accept.

Head of both wrappers: BSR input → `blocksize = A.blocksize[0]`, `n = A.shape[0] / blocksize`; CSR input →
`blocksize = 1`; anything else → `A = A.tocsr()` (`Spmm.cscToCsr` for CSC), `blocksize = 1`.  The kernel
(`C11M.onePoint`) / the index arithmetic (`C11M.injection`) then run on the `n` block rows, and for
`blocksize > 1` the result is a BSR matrix whose stored blocks are identity blocks.  The result is
returned as the arrays SciPy holds after construction (`Spmm.Bsr` with `br = bc = blocksize`; for
`blocksize = 1` these are the CSR arrays).  Core Lean only. -/
namespace PyamgV.C11XA
open PyamgV PyamgV.N PyamgV.C11M

/-- the matrix argument `A` of the wrappers -/
inductive AIn where
  | csr (A : Spmm.Csr Rat)
  | csc (X : Spmm.Csc Rat)
  | bsr (X : Spmm.Bsr Rat)

/-- `(n, blocksize, the index/data arrays a kernel call with by_val would get)` -/
def AIn.dispatch : AIn → Nat × Nat × Spmm.Csr Rat
  | .csr A => (A.rows, 1, A)
  | .csc X => ((Spmm.cscToCsr X).rows, 1, Spmm.cscToCsr X)
  | .bsr X => (X.rows / X.br, X.br, ⟨X.rows / X.br, X.cols / X.bc, X.ap, X.aj, X.ax⟩)

def toN (A : Spmm.Csr Rat) : N.Csr := ⟨A.rows, A.ap, A.aj, A.ax⟩

/-- `np.tile(np.identity(bs), (k, 1, 1)).ravel()`; `np.ones(k)` for `bs = 1` -/
def identBlocks (bs k : Nat) : Array Rat :=
  ((List.range k).flatMap (fun _ =>
    (List.range (bs * bs)).map (fun t => if t / bs = t % bs then (1 : Rat) else 0))).toArray

/-- `injection_interpolation(A, splitting)` -/
def apiInjection (a : AIn) (split : Array Int) : Spmm.Bsr Rat :=
  let n := a.dispatch.1
  let bs := a.dispatch.2.1
  let rc := injection n split
  let nc := (rc.1.getD n 0).toNat
  ⟨n * bs, nc * bs, bs, bs, rc.1.map Int.toNat, rc.2.map Int.toNat, identBlocks bs nc⟩

/-- `np.sum(splitting)` -/
def nCoarse (n : Nat) (split : Array Int) : Nat :=
  ((List.range n).foldl (fun (s : Int) i => s + rdI split i) 0).toNat

/-- `one_point_interpolation(A, C, splitting, by_val)`: for `blocksize = 1` and `by_val` the kernel runs on
`A`'s own arrays and its values are kept; otherwise it runs on `C` and the data are replaced by ones /
identity blocks (SciPy prunes the arrays to `Pp[n]` entries) -/
def apiOnePoint (a : AIn) (C : N.Csr) (split : Array Int) (byVal : Bool) : Spmm.Bsr Rat :=
  let n := a.dispatch.1
  let bs := a.dispatch.2.1
  let nc := nCoarse n split
  if bs = 1 ∧ byVal = true then
    let k := onePoint n (toN a.dispatch.2.2) split
    ⟨n, nc, 1, 1, k.1, k.2.1.map Int.toNat, k.2.2⟩
  else
    let k := onePoint n C split
    ⟨n * bs, nc * bs, bs, bs, k.1, k.2.1.map Int.toNat, identBlocks bs k.2.1.size⟩

end PyamgV.C11XA
