/-! The interface facts the hand-written models assume (kernel signatures, decision tables, keyword defaults), pinned by `harness/translate.py --pin`; `Props/Cxx.lean` proves them equal to the tables regenerated from the working tree on every run. -/
namespace PyamgV.Facts

def kernels_relaxation : List (String × List String) := [
  ("gauss_seidel", ["void", "const I Ap[]", "const int Ap_size", "const I Aj[]", "const int Aj_size", "const T Ax[]", "const int Ax_size", "T x[]", "const int x_size", "const T b[]", "const int b_size", "const I row_start", "const I row_stop", "const I row_step"]),
  ("sor_gauss_seidel", ["void", "const I Ap[]", "const int Ap_size", "const I Aj[]", "const int Aj_size", "const T Ax[]", "const int Ax_size", "T x[]", "const int x_size", "const T b[]", "const int b_size", "const I row_start", "const I row_stop", "const I row_step", "const F omega"]),
  ("bsr_gauss_seidel", ["void", "const I Ap[]", "const int Ap_size", "const I Aj[]", "const int Aj_size", "const T Ax[]", "const int Ax_size", "T x[]", "const int x_size", "const T b[]", "const int b_size", "const I row_start", "const I row_stop", "const I row_step", "const I blocksize"]),
  ("jacobi", ["void", "const I Ap[]", "const int Ap_size", "const I Aj[]", "const int Aj_size", "const T Ax[]", "const int Ax_size", "T x[]", "const int x_size", "const T b[]", "const int b_size", "T temp[]", "const int temp_size", "const I row_start", "const I row_stop", "const I row_step", "const T omega[]", "const int omega_size"]),
  ("jacobi_indexed", ["void", "const I Ap[]", "const int Ap_size", "const I Aj[]", "const int Aj_size", "const T Ax[]", "const int Ax_size", "T x[]", "const int x_size", "const T b[]", "const int b_size", "const I indices[]", "const int indices_size", "const T omega[]", "const int omega_size"]),
  ("bsr_jacobi", ["void", "const I Ap[]", "const int Ap_size", "const I Aj[]", "const int Aj_size", "const T Ax[]", "const int Ax_size", "T x[]", "const int x_size", "const T b[]", "const int b_size", "T temp[]", "const int temp_size", "const I row_start", "const I row_stop", "const I row_step", "const I blocksize", "const T omega[]", "const int omega_size"]),
  ("bsr_jacobi_indexed", ["void", "const I Ap[]", "const int Ap_size", "const I Aj[]", "const int Aj_size", "const T Ax[]", "const int Ax_size", "T x[]", "const int x_size", "const T b[]", "const int b_size", "const I indices[]", "const int indices_size", "const I blocksize", "const T omega[]", "const int omega_size"]),
  ("gauss_seidel_indexed", ["void", "const I Ap[]", "const int Ap_size", "const I Aj[]", "const int Aj_size", "const T Ax[]", "const int Ax_size", "T x[]", "const int x_size", "const T b[]", "const int b_size", "const I Id[]", "const int Id_size", "const I row_start", "const I row_stop", "const I row_step"]),
  ("jacobi_ne", ["void", "const I Ap[]", "const int Ap_size", "const I Aj[]", "const int Aj_size", "const T Ax[]", "const int Ax_size", "T x[]", "const int x_size", "const T b[]", "const int b_size", "const T Tx[]", "const int Tx_size", "T temp[]", "const int temp_size", "const I row_start", "const I row_stop", "const I row_step", "const T omega[]", "const int omega_size"]),
  ("gauss_seidel_ne", ["void", "const I Ap[]", "const int Ap_size", "const I Aj[]", "const int Aj_size", "const T Ax[]", "const int Ax_size", "T x[]", "const int x_size", "const T b[]", "const int b_size", "const I row_start", "const I row_stop", "const I row_step", "const T Tx[]", "const int Tx_size", "const F omega"]),
  ("gauss_seidel_nr", ["void", "const I Ap[]", "const int Ap_size", "const I Aj[]", "const int Aj_size", "const T Ax[]", "const int Ax_size", "T x[]", "const int x_size", "T z[]", "const int z_size", "const I col_start", "const I col_stop", "const I col_step", "const T Tx[]", "const int Tx_size", "const F omega"]),
  ("block_jacobi", ["void", "const I Ap[]", "const int Ap_size", "const I Aj[]", "const int Aj_size", "const T Ax[]", "const int Ax_size", "T x[]", "const int x_size", "const T b[]", "const int b_size", "const T Tx[]", "const int Tx_size", "T temp[]", "const int temp_size", "const I row_start", "const I row_stop", "const I row_step", "const T omega[]", "const int omega_size", "const I blocksize"]),
  ("block_jacobi_indexed", ["void", "const I Ap[]", "const int Ap_size", "const I Aj[]", "const int Aj_size", "const T Ax[]", "const int Ax_size", "T x[]", "const int x_size", "const T b[]", "const int b_size", "const T Tx[]", "const int Tx_size", "const I indices[]", "const int indices_size", "const T omega[]", "const int omega_size", "const I blocksize"]),
  ("block_gauss_seidel", ["void", "const I Ap[]", "const int Ap_size", "const I Aj[]", "const int Aj_size", "const T Ax[]", "const int Ax_size", "T x[]", "const int x_size", "const T b[]", "const int b_size", "const T Tx[]", "const int Tx_size", "const I row_start", "const I row_stop", "const I row_step", "const I blocksize"]),
  ("extract_subblocks", ["void", "const I Ap[]", "const int Ap_size", "const I Aj[]", "const int Aj_size", "const T Ax[]", "const int Ax_size", "T Tx[]", "const int Tx_size", "const I Tp[]", "const int Tp_size", "const I Sj[]", "const int Sj_size", "const I Sp[]", "const int Sp_size", "const I nsdomains", "const I nrows"]),
  ("overlapping_schwarz_csr", ["void", "const I Ap[]", "const int Ap_size", "const I Aj[]", "const int Aj_size", "const T Ax[]", "const int Ax_size", "T x[]", "const int x_size", "const T b[]", "const int b_size", "const T Tx[]", "const int Tx_size", "const I Tp[]", "const int Tp_size", "const I Sj[]", "const int Sj_size", "const I Sp[]", "const int Sp_size", "I nsdomains", "I nrows", "I row_start", "I row_stop", "I row_step"])
]

def kernels_ruge_stuben : List (String × List String) := [
  ("classical_strength_of_connection_abs", ["void", "const I n_row", "const F theta", "const I Ap[]", "const int Ap_size", "const I Aj[]", "const int Aj_size", "const T Ax[]", "const int Ax_size", "I Sp[]", "const int Sp_size", "I Sj[]", "const int Sj_size", "T Sx[]", "const int Sx_size"]),
  ("classical_strength_of_connection_min", ["void", "const I n_row", "const T theta", "const I Ap[]", "const int Ap_size", "const I Aj[]", "const int Aj_size", "const T Ax[]", "const int Ax_size", "I Sp[]", "const int Sp_size", "I Sj[]", "const int Sj_size", "T Sx[]", "const int Sx_size"]),
  ("maximum_row_value", ["void", "const I n_row", "T x[]", "const int x_size", "const I Ap[]", "const int Ap_size", "const I Aj[]", "const int Aj_size", "const T Ax[]", "const int Ax_size"]),
  ("rs_cf_splitting", ["void", "const I n_nodes", "const I Sp[]", "const int Sp_size", "const I Sj[]", "const int Sj_size", "const I Tp[]", "const int Tp_size", "const I Tj[]", "const int Tj_size", "const I influence[]", "const int influence_size", "I splitting[]", "const int splitting_size"]),
  ("rs_cf_splitting_pass2", ["void", "const I n_nodes", "const I Sp[]", "const int Sp_size", "const I Sj[]", "const int Sj_size", "I splitting[]", "const int splitting_size"]),
  ("cljp_naive_splitting", ["void", "const I n", "const I Sp[]", "const int Sp_size", "const I Sj[]", "const int Sj_size", "const I Tp[]", "const int Tp_size", "const I Tj[]", "const int Tj_size", "I splitting[]", "const int splitting_size", "const I colorflag"]),
  ("rs_direct_interpolation_pass1", ["void", "const I n_nodes", "const I Sp[]", "const int Sp_size", "const I Sj[]", "const int Sj_size", "const I splitting[]", "const int splitting_size", "I Pp[]", "const int Pp_size"]),
  ("rs_direct_interpolation_pass2", ["void", "const I n_nodes", "const I Ap[]", "const int Ap_size", "const I Aj[]", "const int Aj_size", "const T Ax[]", "const int Ax_size", "const I Sp[]", "const int Sp_size", "const I Sj[]", "const int Sj_size", "const T Sx[]", "const int Sx_size", "const I splitting[]", "const int splitting_size", "const I Pp[]", "const int Pp_size", "I Pj[]", "const int Pj_size", "T Px[]", "const int Px_size"]),
  ("cr_helper", ["void", "const I Ap[]", "const int Ap_size", "const I Aj[]", "const int Aj_size", "const T B[]", "const int B_size", "T e[]", "const int e_size", "I indices[]", "const int indices_size", "I splitting[]", "const int splitting_size", "T gamma[]", "const int gamma_size", "const T thetacs"]),
  ("rs_classical_interpolation_pass1", ["void", "const I n_nodes", "const I Sp[]", "const int Sp_size", "const I Sj[]", "const int Sj_size", "const I splitting[]", "const int splitting_size", "I Pp[]", "const int Pp_size"]),
  ("remove_strong_FF_connections", ["void", "const I n_nodes", "const I Sp[]", "const int Sp_size", "const I Sj[]", "const int Sj_size", "T Sx[]", "const int Sx_size", "const I splitting[]", "const int splitting_size"]),
  ("rs_classical_interpolation_pass2", ["void", "const I n_nodes", "const I Ap[]", "const int Ap_size", "const I Aj[]", "const int Aj_size", "const T Ax[]", "const int Ax_size", "const I Sp[]", "const int Sp_size", "const I Sj[]", "const int Sj_size", "const T Sx[]", "const int Sx_size", "const I splitting[]", "const int splitting_size", "const I Pp[]", "const int Pp_size", "I Pj[]", "const int Pj_size", "T Px[]", "const int Px_size", "const bool modified"])
]

def kernels_smoothed_aggregation : List (String × List String) := [
  ("symmetric_strength_of_connection", ["void", "const I n_row", "const F theta", "const I Ap[]", "const int Ap_size", "const I Aj[]", "const int Aj_size", "const T Ax[]", "const int Ax_size", "I Sp[]", "const int Sp_size", "I Sj[]", "const int Sj_size", "T Sx[]", "const int Sx_size"]),
  ("standard_aggregation", ["I", "const I n_row", "const I Ap[]", "const int Ap_size", "const I Aj[]", "const int Aj_size", "I x[]", "const int x_size", "I y[]", "const int y_size"]),
  ("naive_aggregation", ["I", "const I n_row", "const I Ap[]", "const int Ap_size", "const I Aj[]", "const int Aj_size", "I x[]", "const int x_size", "I y[]", "const int y_size"]),
  ("pairwise_aggregation", ["I", "const I n_row", "const I Sp[]", "const int Sp_size", "const I Sj[]", "const int Sj_size", "const T Sx[]", "const int Sx_size", "I x[]", "const int x_size", "I y[]", "const int y_size"]),
  ("fit_candidates_common", ["void", "const I n_row", "const I n_col", "const I K1", "const I K2", "const I Ap[]", "const I Ai[]", "T Ax[]", "const T B[]", "T R[]", "const S tol", "const DOT& dot", "const NORM& norm"]),
  ("fit_candidates_real", ["void", "const I n_row", "const I n_col", "const I K1", "const I K2", "const I Ap[]", "const int Ap_size", "const I Ai[]", "const int Ai_size", "T Ax[]", "const int Ax_size", "const T B[]", "const int B_size", "T R[]", "const int R_size", "const T tol"]),
  ("fit_candidates_complex", ["void", "const I n_row", "const I n_col", "const I K1", "const I K2", "const I Ap[]", "const int Ap_size", "const I Ai[]", "const int Ai_size", "T Ax[]", "const int Ax_size", "const T B[]", "const int B_size", "T R[]", "const int R_size", "const S tol"]),
  ("satisfy_constraints_helper", ["void", "const I rows_per_block", "const I cols_per_block", "const I num_block_rows", "const I NullDim", "const T x[]", "const int x_size", "const T y[]", "const int y_size", "const T z[]", "const int z_size", "const I Sp[]", "const int Sp_size", "const I Sj[]", "const int Sj_size", "T Sx[]", "const int Sx_size"]),
  ("calc_BtB", ["void", "const I NullDim", "const I Nnodes", "const I cols_per_block", "const T b[]", "const int b_size", "const I BsqCols", "T x[]", "const int x_size", "const I Sp[]", "const int Sp_size", "const I Sj[]", "const int Sj_size"]),
  ("incomplete_mat_mult_bsr", ["void", "const I Ap[]", "const int Ap_size", "const I Aj[]", "const int Aj_size", "const T Ax[]", "const int Ax_size", "const I Bp[]", "const int Bp_size", "const I Bj[]", "const int Bj_size", "const T Bx[]", "const int Bx_size", "const I Sp[]", "const int Sp_size", "const I Sj[]", "const int Sj_size", "T Sx[]", "const int Sx_size", "const I n_brow", "const I n_bcol", "const I brow_A", "const I bcol_A", "const I bcol_B"]),
  ("swap", ["void", "T x[]", "I y[]", "I i", "I j"]),
  ("qsort_twoarrays", ["void", "T x[]", "I y[]", "I left", "I right"]),
  ("truncate_rows_csr", ["void", "const I n_row", "const I k", "const I Sp[]", "const int Sp_size", "I Sj[]", "const int Sj_size", "T Sx[]", "const int Sx_size"])
]

def kernels_graph : List (String × List String) := [
  ("printv", ["void", "T *v", "int n", "char* name"]),
  ("maximal_independent_set_serial", ["I", "const I num_rows", "const I Ap[]", "const int Ap_size", "const I Aj[]", "const int Aj_size", "const T active", "const T C", "const T F", "T x[]", "const int x_size"]),
  ("maximal_independent_set_parallel", ["I", "const I num_rows", "const I Ap[]", "const int Ap_size", "const I Aj[]", "const int Aj_size", "const T active", "const T C", "const T F", "T x[]", "const int x_size", "const R y[]", "const int y_size", "const I max_iters"]),
  ("vertex_coloring_mis", ["T", "const I num_rows", "const I Ap[]", "const int Ap_size", "const I Aj[]", "const int Aj_size", "T x[]", "const int x_size"]),
  ("vertex_coloring_first_fit", ["void", "const I num_rows", "const I Ap[]", "const int Ap_size", "const I Aj[]", "const int Aj_size", "T x[]", "const int x_size", "const T K"]),
  ("vertex_coloring_jones_plassmann", ["T", "const I num_rows", "const I Ap[]", "const int Ap_size", "const I Aj[]", "const int Aj_size", "T x[]", "const int x_size", "R z[]", "const int z_size"]),
  ("vertex_coloring_LDF", ["T", "const I num_rows", "const I Ap[]", "const int Ap_size", "const I Aj[]", "const int Aj_size", "T x[]", "const int x_size", "const R y[]", "const int y_size"]),
  ("floyd_warshall", ["void", "const I num_nodes", "const I Ap[]", "const int Ap_size", "const I Aj[]", "const int Aj_size", "const T Ax[]", "const int Ax_size", "T D[]", "const int D_size", "I P[]", "const int P_size", "const I C[]", "const int C_size", "const I L[]", "const int L_size", "const I m[]", "const int m_size", "const I a", "const I N"]),
  ("center_nodes", ["bool", "const I num_nodes", "const I Ap[]", "const int Ap_size", "const I Aj[]", "const int Aj_size", "const T Ax[]", "const int Ax_size", "I Cptr[]", "const int Cptr_size", "T D[]", "const int D_size", "I P[]", "const int P_size", "I C[]", "const int C_size", "I L[]", "const int L_size", "T q[]", "const int q_size", "I c[]", "const int c_size", "T d[]", "const int d_size", "I m[]", "const int m_size", "I p[]", "const int p_size", "I pc[]", "const int pc_size", "I s[]", "const int s_size"]),
  ("bellman_ford", ["void", "const I num_nodes", "const I Ap[]", "const int Ap_size", "const I Aj[]", "const int Aj_size", "const T Ax[]", "const int Ax_size", "const I c[]", "const int c_size", "T d[]", "const int d_size", "I m[]", "const int m_size", "I p[]", "const int p_size"]),
  ("bellman_ford_balanced", ["bool", "const I num_nodes", "const I Ap[]", "const int Ap_size", "const I Aj[]", "const int Aj_size", "const T Ax[]", "const int Ax_size", "const I c[]", "const int c_size", "T d[]", "const int d_size", "I m[]", "const int m_size", "I p[]", "const int p_size", "I pc[]", "const int pc_size", "I s[]", "const int s_size", "const bool tiebreaking"]),
  ("most_interior_nodes", ["bool", "const I num_nodes", "const I Ap[]", "const int Ap_size", "const I Aj[]", "const int Aj_size", "const T Ax[]", "const int Ax_size", "I c[]", "const int c_size", "T d[]", "const int d_size", "I m[]", "const int m_size", "I p[]", "const int p_size"]),
  ("csr_propagate_max", ["void", "const IndexType num_rows", "const IndexType Ap[]", "const IndexType Aj[]", "const IndexType i_keys[]", "IndexType o_keys[]", "const ValueType i_vals[]", "ValueType o_vals[]"]),
  ("maximal_independent_set_k_parallel", ["void", "const I num_rows", "const I Ap[]", "const int Ap_size", "const I Aj[]", "const int Aj_size", "const I k", "T x[]", "const int x_size", "const R y[]", "const int y_size", "const I max_iters"]),
  ("breadth_first_search", ["void", "const I Ap[]", "const int Ap_size", "const I Aj[]", "const int Aj_size", "const I seed", "I order[]", "const int order_size", "I level[]", "const int level_size"]),
  ("connected_components", ["I", "const I num_nodes", "const I Ap[]", "const int Ap_size", "const I Aj[]", "const int Aj_size", "I components[]", "const int components_size"])
]

def kernels_air : List (String × List String) := [
  ("one_point_interpolation", ["void", "I Pp[]", "const int Pp_size", "I Pj[]", "const int Pj_size", "T Px[]", "const int Px_size", "const I Cp[]", "const int Cp_size", "const I Cj[]", "const int Cj_size", "const T Cx[]", "const int Cx_size", "const I splitting[]", "const int splitting_size"]),
  ("approx_ideal_restriction_pass1", ["void", "I Rp[]", "const int Rp_size", "const I Cp[]", "const int Cp_size", "const I Cj[]", "const int Cj_size", "const I Cpts[]", "const int Cpts_size", "const I splitting[]", "const int splitting_size", "const I distance = 2"]),
  ("approx_ideal_restriction_pass2", ["void", "const I Rp[]", "const int Rp_size", "I Rj[]", "const int Rj_size", "T Rx[]", "const int Rx_size", "const I Ap[]", "const int Ap_size", "const I Aj[]", "const int Aj_size", "const T Ax[]", "const int Ax_size", "const I Cp[]", "const int Cp_size", "const I Cj[]", "const int Cj_size", "const T Cx[]", "const int Cx_size", "const I Cpts[]", "const int Cpts_size", "const I splitting[]", "const int splitting_size", "const I distance = 2", "const I use_gmres = 0", "const I maxiter = 10", "const I precondition = 1"]),
  ("block_approx_ideal_restriction_pass2", ["void", "const I Rp[]", "const int Rp_size", "I Rj[]", "const int Rj_size", "T Rx[]", "const int Rx_size", "const I Ap[]", "const int Ap_size", "const I Aj[]", "const int Aj_size", "const T Ax[]", "const int Ax_size", "const I Cp[]", "const int Cp_size", "const I Cj[]", "const int Cj_size", "const T Cx[]", "const int Cx_size", "const I Cpts[]", "const int Cpts_size", "const I splitting[]", "const int splitting_size", "const I blocksize", "const I distance = 2", "const I use_gmres = 0", "const I maxiter = 10", "const I precondition = 1"])
]

def kernels_linalg : List (String × List String) := [
  ("row_major", ["I", "const I row", "const I col", "const I num_cols"]),
  ("col_major", ["I", "const I row", "const I col", "const I num_rows"]),
  ("dot_prod", ["T", "const T x[]", "const T y[]", "const I n"]),
  ("norm", ["void", "const T x[]", "const I n", "F &normx"]),
  ("norm", ["T", "const T x[]", "const I n"]),
  ("axpy", ["void", "T x[]", "const T y[]", "const T alpha", "const I n"]),
  ("transpose", ["void", "const T Ax[]", "T Bx[]", "const I m", "const I n"]),
  ("gemm", ["void", "const T Ax[]", "const I Arows", "const I Acols", "const char Atrans", "const T Bx[]", "const I Brows", "const I Bcols", "const char Btrans", "T Sx[]", "const I Srows", "const I Scols", "const char Strans", "const char overwrite"]),
  ("svd_jacobi", ["I", "const T Ax[]", "T Tx[]", "T Bx[]", "F Sx[]", "const I m", "const I n"]),
  ("svd_solve", ["void", "T Ax[]", "I m", "I n", "T b[]", "F sing_vals[]", "T work[]", "I work_size"]),
  ("pinv_array", ["void", "T AA[]", "const int AA_size", "const I m", "const I n", "const char TransA"]),
  ("csc_scale_columns", ["void", "const I n_row", "const I n_col", "const I Ap[]", "const int Ap_size", "const I Aj[]", "const int Aj_size", "T Ax[]", "const int Ax_size", "const T Xx[]", "const int Xx_size"]),
  ("csc_scale_rows", ["void", "const I n_row", "const I n_col", "const I Ap[]", "const int Ap_size", "const I Aj[]", "const int Aj_size", "T Ax[]", "const int Ax_size", "const T Xx[]", "const int Xx_size"]),
  ("filter_matrix_rows", ["void", "const I n_row", "const F theta", "const I Ap[]", "const int Ap_size", "const I Aj[]", "const int Aj_size", "T Ax[]", "const int Ax_size", "const bool lump"]),
  ("QR", ["std::vector<T>", "T A[]", "const I &m", "const I &n", "const I is_col_major"]),
  ("upper_tri_solve", ["void", "const T R[]", "const T rhs[]", "T x[]", "const I m", "const I n", "const I is_col_major"]),
  ("lower_tri_solve", ["void", "const T L[]", "const T rhs[]", "T x[]", "const I &m", "const I &n", "const I is_col_major"]),
  ("least_squares", ["void", "T A[]", "T b[]", "T x[]", "const I &m", "const I &n", "const I is_col_major=0"])
]

def kernels_evolution_strength : List (String × List String) := [
  ("apply_absolute_distance_filter", ["void", "const I n_row", "const T epsilon", "const I Sp[]", "const int Sp_size", "const I Sj[]", "const int Sj_size", "T Sx[]", "const int Sx_size"]),
  ("apply_distance_filter", ["void", "const I n_row", "const T epsilon", "const I Sp[]", "const int Sp_size", "const I Sj[]", "const int Sj_size", "T Sx[]", "const int Sx_size"]),
  ("min_blocks", ["void", "const I n_blocks", "const I blocksize", "const T Sx[]", "const int Sx_size", "T Tx[]", "const int Tx_size"]),
  ("evolution_strength_helper", ["void", "T Sx[]", "const int Sx_size", "const I Sp[]", "const int Sp_size", "const I Sj[]", "const int Sj_size", "const I nrows", "const T x[]", "const int x_size", "const T y[]", "const int y_size", "const T b[]", "const int b_size", "const I BDBCols", "const I NullDim", "const F tol"]),
  ("my_inner", ["T", "const I Ap[]", "const I Aj[]", "const T Ax[]", "const I Bp[]", "const I Bj[]", "const T Bx[]", "const I row", "const I col"]),
  ("incomplete_mat_mult_csr", ["void", "const I Ap[]", "const int Ap_size", "const I Aj[]", "const int Aj_size", "const T Ax[]", "const int Ax_size", "const I Bp[]", "const int Bp_size", "const I Bj[]", "const int Bj_size", "const T Bx[]", "const int Bx_size", "const I Sp[]", "const int Sp_size", "const I Sj[]", "const int Sj_size", "T Sx[]", "const int Sx_size", "const I num_rows"])
]

def kernels_krylov : List (String × List String) := [
  ("apply_householders", ["void", "T z[]", "const int z_size", "const T B[]", "const int B_size", "const I n", "const I start", "const I stop", "const I step"]),
  ("householder_hornerscheme", ["void", "T z[]", "const int z_size", "const T B[]", "const int B_size", "const T y[]", "const int y_size", "const I n", "const I start", "const I stop", "const I step"]),
  ("apply_givens", ["void", "const T B[]", "const int B_size", "T x[]", "const int x_size", "const I n", "const I nrot"]),
  ("dense_GMRES", ["void", "T A[]", "T b[]", "T x[]", "const I n", "const I is_col_major", "I maxiter = 10", "I precondition = 1"])
]

def symmetricRelaxation : List String := ["jacobi", "richardson", "block_jacobi", "jacobi_ne", "chebyshev", "None"]

def krylovRelaxation : List String := ["cg", "cgne", "cgnr", "gmres"]

def defaultSweep : String := "forward"

def defaultNiter : Nat := 1

def smootherRegistry : List String := ["block_gauss_seidel", "block_jacobi", "cf_block_jacobi", "cf_jacobi", "cg", "cgne", "cgnr", "chebyshev", "fc_block_jacobi", "fc_jacobi", "gauss_seidel", "gauss_seidel_ne", "gauss_seidel_nr", "gmres", "jacobi", "jacobi_ne", "none", "richardson", "schwarz", "sor", "strength_based_schwarz"]

def solveDefaults : List (String × String) := [
  ("self", ""),
  ("b", ""),
  ("x0", "None"),
  ("tol", "1e-05"),
  ("maxiter", "100"),
  ("cycle", "'V'"),
  ("accel", "None"),
  ("callback", "None"),
  ("residuals", "None"),
  ("cycles_per_level", "1"),
  ("return_info", "False")
]

def aspreconditionerDefaults : List (String × String) := [
  ("self", ""),
  ("cycle", "'V'")
]

def coarseGridSolverDefaults : List (String × String) := [
  ("solver", "")
]

def blackboxSolveDefaults : List (String × String) := [
  ("A", ""),
  ("b", ""),
  ("x0", "None"),
  ("tol", "1e-05"),
  ("maxiter", "400"),
  ("return_solver", "False"),
  ("existing_solver", "None"),
  ("verb", "True"),
  ("residuals", "None")
]

def krylovDefaults : List (String × String) := [
  ("cg.A", ""),
  ("cg.b", ""),
  ("cg.x0", "None"),
  ("cg.tol", "1e-05"),
  ("cg.criteria", "'rr'"),
  ("cg.maxiter", "None"),
  ("cg.M", "None"),
  ("cg.callback", "None"),
  ("cg.residuals", "None"),
  ("cr.A", ""),
  ("cr.b", ""),
  ("cr.x0", "None"),
  ("cr.tol", "1e-05"),
  ("cr.criteria", "'rr'"),
  ("cr.maxiter", "None"),
  ("cr.M", "None"),
  ("cr.callback", "None"),
  ("cr.residuals", "None"),
  ("cgne.A", ""),
  ("cgne.b", ""),
  ("cgne.x0", "None"),
  ("cgne.tol", "1e-05"),
  ("cgne.criteria", "'rr'"),
  ("cgne.maxiter", "None"),
  ("cgne.M", "None"),
  ("cgne.callback", "None"),
  ("cgne.residuals", "None"),
  ("cgnr.A", ""),
  ("cgnr.b", ""),
  ("cgnr.x0", "None"),
  ("cgnr.tol", "1e-05"),
  ("cgnr.criteria", "'rr'"),
  ("cgnr.maxiter", "None"),
  ("cgnr.M", "None"),
  ("cgnr.callback", "None"),
  ("cgnr.residuals", "None"),
  ("bicgstab.A", ""),
  ("bicgstab.b", ""),
  ("bicgstab.x0", "None"),
  ("bicgstab.tol", "1e-05"),
  ("bicgstab.criteria", "'rr'"),
  ("bicgstab.maxiter", "None"),
  ("bicgstab.M", "None"),
  ("bicgstab.callback", "None"),
  ("bicgstab.residuals", "None"),
  ("gmres.A", ""),
  ("gmres.b", ""),
  ("gmres.x0", "None"),
  ("gmres.tol", "1e-05"),
  ("gmres.restart", "None"),
  ("gmres.maxiter", "None"),
  ("gmres.M", "None"),
  ("gmres.callback", "None"),
  ("gmres.residuals", "None"),
  ("gmres.orthog", "'householder'"),
  ("gmres.restrt", "None"),
  ("gmres_mgs.A", ""),
  ("gmres_mgs.b", ""),
  ("gmres_mgs.x0", "None"),
  ("gmres_mgs.tol", "1e-05"),
  ("gmres_mgs.restart", "None"),
  ("gmres_mgs.maxiter", "None"),
  ("gmres_mgs.M", "None"),
  ("gmres_mgs.callback", "None"),
  ("gmres_mgs.residuals", "None"),
  ("gmres_mgs.reorth", "False"),
  ("gmres_mgs.restrt", "None"),
  ("gmres_householder.A", ""),
  ("gmres_householder.b", ""),
  ("gmres_householder.x0", "None"),
  ("gmres_householder.tol", "1e-05"),
  ("gmres_householder.restart", "None"),
  ("gmres_householder.maxiter", "None"),
  ("gmres_householder.M", "None"),
  ("gmres_householder.callback", "None"),
  ("gmres_householder.residuals", "None"),
  ("gmres_householder.restrt", "None"),
  ("fgmres.A", ""),
  ("fgmres.b", ""),
  ("fgmres.x0", "None"),
  ("fgmres.tol", "1e-05"),
  ("fgmres.restart", "None"),
  ("fgmres.maxiter", "None"),
  ("fgmres.M", "None"),
  ("fgmres.callback", "None"),
  ("fgmres.residuals", "None"),
  ("fgmres.restrt", "None"),
  ("minimal_residual.A", ""),
  ("minimal_residual.b", ""),
  ("minimal_residual.x0", "None"),
  ("minimal_residual.tol", "1e-05"),
  ("minimal_residual.maxiter", "None"),
  ("minimal_residual.M", "None"),
  ("minimal_residual.callback", "None"),
  ("minimal_residual.residuals", "None"),
  ("steepest_descent.A", ""),
  ("steepest_descent.b", ""),
  ("steepest_descent.x0", "None"),
  ("steepest_descent.tol", "1e-05"),
  ("steepest_descent.criteria", "'rr'"),
  ("steepest_descent.maxiter", "None"),
  ("steepest_descent.M", "None"),
  ("steepest_descent.callback", "None"),
  ("steepest_descent.residuals", "None")
]

end PyamgV.Facts
