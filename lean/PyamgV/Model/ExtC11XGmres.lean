import PyamgV.Model.C07Gmres
/-! PyamgV (C11, extension E49): executable model of `dense_GMRES` (krylov.h:213-367), the local solver of
`approx_ideal_restriction_pass2` / `block_approx_ideal_restriction_pass2` with `use_gmres = 1`.

The Krylov part (`dgCore`) is written over the abstract vector operations `Ops K V` of `Model/C07Krylov.lean`
and reuses `C07.orthO` (the modified Gram-Schmidt inner loop), `C07.rotL` (one Givens rotation on two
entries of a column) and `C07.combO` (`x += y_k v_k`):

* `arnStep` — one pass of the Arnoldi loop: `w = A v_j`, orthogonalise against `v_0 … v_j` recording
  `H[0..j, j]`, the test `normb < 1e-12` (`rank = j+1`, `H[j+1, j] = 0`, `break`), otherwise
  `H[j+1, j] = normb`, `v_{j+1} = w / normb` unless `j = maxiter-1`;
* `givStep` — the Givens sweep done *after* the loop on the whole `(maxiter+1) x maxiter` array: skipped
  when `H[j, j-1] == 0`, `C1 = 1/sqrt(h11² + h21²)`, `S1 = h21 C1`, `C1 *= h11`, applied to `g` and to
  the columns `k ≥ j-1`, then `H[j, j-1] = 0`;
* `utSolve` — `upper_tri_solve` (back substitution, `x_i = 0` when `|R_ii| < 1e-12`);
* `x = Σ_{k < rank} y_k v_k`.

`denseGmres` adds what happens on the matrix entries: `maxiter = min(maxiter, n)` (`n` for `0`), the direct
division for `n = 1`, the diagonal scaling (`precondition`; rows with `|d_i| < 1e-12` skipped), the zero
solution when `‖b‖ < 1e-12`.  Parameters: `sqrt`, `absK`, `small x := x < 1e-12`, `isZero x := x == 0`; the
driver runs it on `Vector Float n`, the theorems are about a field with an exact square root.  Real
arithmetic only.  Core Lean only. -/
namespace PyamgV.C11XG
open PyamgV.C07

section
variable {K V : Type} [Add K] [Sub K] [Mul K] [Div K] [Neg K] [OfNat K 0] [OfNat K 1]

/-- state of the Arnoldi loop -/
structure ArnSt (K V : Type) where
  vs : List V            -- `V[0 .. ]`, the vectors written so far
  cols : List (List K)   -- processed columns of `H`: column `j` holds `H[0..j, j]` and `H[j+1, j]`
  stop : Bool            -- `break` taken
  rank : Nat

/-- one pass of `for (j = 0; j < maxiter; j++)`; `m = maxiter`, `d` = any vector (never used: `vs ≠ []`);
`sdiv v a` = the vector `v[i] / a` (the C++ divides; over a field `(1/a) • v`) -/
def arnStep (o : Ops K V) (sdiv : V → K → V) (sqrt : K → K) (small : K → Bool) (m : Nat) (d : V) (s : ArnSt K V) :
    ArnSt K V :=
  if s.stop then s else
    let j := s.cols.length
    let r := orthO o s.vs (o.A (s.vs.getLast?.getD d))
    let nrm := sqrt (o.dot r.1 r.1)
    if small nrm then ⟨s.vs, s.cols ++ [r.2 ++ [0]], true, j + 1⟩
    else if j + 1 < m then ⟨s.vs ++ [sdiv r.1 nrm], s.cols ++ [r.2 ++ [nrm]], false, s.rank⟩
    else ⟨s.vs, s.cols ++ [r.2 ++ [0]], false, s.rank⟩

/-- entry `(i, j)` of the array `H` after the loop (zero initialised, columns stored by `arnStep`) -/
def hent (cols : List (List K)) (i j : Nat) : K := (cols.getD j []).getD i 0

/-- the `(m+1) x m` array `H` as a list of columns -/
def padCols (m : Nat) (cols : List (List K)) : List (List K) :=
  (List.range m).map (fun j => (List.range (m + 1)).map (fun i => hent cols i j))

/-- rotation number `p + 1` of the sweep (`j = p + 1` in the C++): acts on rows `p`, `p + 1` -/
def givStep (sqrt : K → K) (isZero : K → Bool) (st : List (List K) × List K) (p : Nat) :
    List (List K) × List K :=
  let h11 := hent st.1 p p
  let h21 := hent st.1 (p + 1) p
  if isZero h21 then st else
    let c0 := 1 / sqrt (h11 * h11 + h21 * h21)
    let s1 := h21 * c0
    let c1 := c0 * h11
    let H := st.1.mapIdx (fun k col => if p ≤ k then rotL p c1 s1 col else col)
    (H.set p ((H.getD p []).set (p + 1) 0), rotL p c1 s1 st.2)

/-- `upper_tri_solve`, rows `i-1, …, 0`; `acc = x_i … x_{m-1}` -/
def utSolve (absK : K → K) (small : K → Bool) (H : List (List K)) (g : List K) : Nat → List K → List K
  | 0, acc => acc
  | i+1, acc =>
    let temp := (List.range acc.length).foldl (fun t d => t - hent H i (i + 1 + d) * acc.getD d 0) (g.getD i 0)
    let rii := hent H i i
    utSolve absK small H g i ((if small (absK rii) then 0 else temp / rii) :: acc)

/-- everything after `V[0] = b / normb`, `g[0] = normb`: returns `x` -/
def dgCore (o : Ops K V) (sdiv : V → K → V) (sqrt absK : K → K) (small isZero : K → Bool) (n m : Nat) (b : V)
    (normb : K) : V :=
  let v0 := sdiv b normb
  let a := iter (arnStep o sdiv sqrt small m b) m (⟨[v0], [], false, m⟩ : ArnSt K V)
  let hg := (List.range m).foldl (givStep sqrt isZero) (padCols m a.cols, normb :: List.replicate n 0)
  let y := utSolve absK small hg.1 hg.2 m []
  combO o (o.smul 0 b) (y.take a.rank) a.vs
end

section
variable {K : Type} [Add K] [Sub K] [Mul K] [Div K] [Neg K] [OfNat K 0] [OfNat K 1] {n : Nat}

/-- the diagonal scaling: row `i` of `A` and `b[i]` are multiplied by `1 / A[i,i]` unless `|A[i,i]| < 1e-12` -/
def scaleRows (absK : K → K) (small : K → Bool) (A : Vector (Vector K n) n) (b : Vector K n) :
    Vector (Vector K n) n × Vector K n :=
  (Vector.ofFn (fun i : Fin n =>
      let d := A[i][i]
      if small (absK d) then A[i] else A[i].map ((1 / d) * ·)),
   Vector.ofFn (fun i : Fin n =>
      let d := A[i][i]
      if small (absK d) then b[i] else b[i] * (1 / d)))

/-- the system the iteration runs on -/
def dgSystem (absK : K → K) (small : K → Bool) (A : Vector (Vector K n) n) (b : Vector K n) (precondition : Bool) :
    Vector (Vector K n) n × Vector K n :=
  if precondition then scaleRows absK small A b else (A, b)

/-- `dense_GMRES(A, b, x, n, is_col_major, maxiter, precondition)`; `A[i][j]` = the entry the C++ reads
as `A[get_ind(i, j, n)]` -/
def denseGmres (sqrt absK : K → K) (small isZero : K → Bool) (A : Vector (Vector K n) n) (b : Vector K n)
    (maxiter : Nat) (precondition : Bool) : Vector K n :=
  let m := if maxiter = 0 then n else min maxiter n
  if n = 1 then Vector.ofFn (fun i : Fin n => b[i] / A[i][i])
  else
    let Ab := dgSystem absK small A b precondition
    let o := vecOps (fun a => a) Ab.1 Ab.1
    let normb := sqrt (o.dot Ab.2 Ab.2)
    if small normb then Vector.ofFn (fun _ => 0)
    else dgCore o (fun v a => v.map (· / a)) sqrt absK small isZero n m Ab.2 normb
end

/-- diagnostics of a run: the stored subdiagonal entries `H[j+1, j]` (`0` for the pass that took the `break`
and for the last pass); a tiny non-zero entry marks a Krylov space exhausted up to rounding -/
def denseGmresTrace {K : Type} [Add K] [Sub K] [Mul K] [Div K] [Neg K] [OfNat K 0] [OfNat K 1] {n : Nat}
    (sqrt absK : K → K) (small : K → Bool) (A : Vector (Vector K n) n) (b : Vector K n)
    (maxiter : Nat) (precondition : Bool) : List K :=
  let m := if maxiter = 0 then n else min maxiter n
  if n = 1 then []
  else
    let Ab := dgSystem absK small A b precondition
    let o := vecOps (fun a => a) Ab.1 Ab.1
    let normb := sqrt (o.dot Ab.2 Ab.2)
    if small normb then []
    else ((iter (arnStep o (fun v a => v.map (· / a)) sqrt small m Ab.2) m
      (⟨[Ab.2.map (· / normb)], [], false, m⟩ : ArnSt K (Vector K n))).cols).map (fun c => c.getLast?.getD 0)

/-- the `Float` instance the driver runs (`A` by rows as the C++ indexes it) -/
def denseGmresFloat (A : List (List Float)) (b : List Float) (maxiter : Nat) (precondition : Bool) :
    Option (List Float) :=
  let n := b.length
  match toMat? n A, toVec? n b with
  | some A, some b =>
    some (denseGmres Float.sqrt Float.abs (fun a => a < 1e-12) (fun a => a == 0) A b maxiter precondition).toList
  | _, _ => none

def denseGmresTraceFloat (A : List (List Float)) (b : List Float) (maxiter : Nat) (precondition : Bool) : List Float :=
  let n := b.length
  match toMat? n A, toVec? n b with
  | some A, some b => denseGmresTrace Float.sqrt Float.abs (fun a => a < 1e-12) A b maxiter precondition
  | _, _ => []

end PyamgV.C11XG
