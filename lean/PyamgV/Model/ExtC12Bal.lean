import PyamgV.Model.ExtC18Bal
import PyamgV.Model.ExtC12Lloyd
/-! PyamgV (C12, extension E34): executable model of balanced Lloyd clustering / aggregation.

* `fwRun`          — `amg_core/graph.h: floyd_warshall` on a freshly filled `D` (`+inf`) / `P` (`-1`) pair:
                     the edges inside cluster `a`, the diagonal, the triple loop with the tolerance test
                     `D[ij] > D[ik] + D[kj] + tol`;
* `centerNodes`    — `amg_core/graph.h: center_nodes`, loop by loop: the prefix sums `Cptr`, the bucket fill of
                     `C`, the local indices `L`, per cluster Floyd–Warshall, `q[i] = sum_j D[ij]^2`, the
                     selection `q[_j] < q[L[i]] - tol`, the update of `d, p, pc` when the centre moves;
* `Bal.kernel`     — the exact model of `bellman_ford_balanced` (Model/ExtC18Bal.lean);
* `innerLoop`      — `while (changed1 or changed2) and it < maxiter` with the three `ValueError` checks;
* `elimPenalty`, `splitImprove`, `rebalance` — `pyamg/graph.py: _elimination_penalty, _split_improvement,
                     _rebalance`; the two `np.argsort` results are *recorded* inputs (NumPy's default sort is
                     not stable); the model checks that a recorded order is a sorted permutation and uses a
                     stable sort when no record is supplied;
* `outer`, `cluster` — `balanced_lloyd_cluster` with explicit centres: re-initialisation of every rebalance
                     round, predecessor-count check, the distance tables, rebalancing, the exits;
* `aggregation`    — `pyamg/aggregation/aggregate.py: balanced_lloyd_aggregation` (measure, `naggs`, the
                     replayed `permutation(n)[:naggs]`, clustering, AggOp assembly `ExtLloyd.aggOp`).

Distances are `Option Rat` (`none` = `+inf`), compared with IEEE semantics for `+inf`.  The work arrays
`CC`, `L` are `np.empty`: entries are `Option Nat`, reading `none` (uninitialised) is a `fault`, as is every
out-of-bounds index.  Not modelled (explicit refusal `unmodelled…`): `maxiter = 0` together with a
rebalance round (the code then reads the uninitialised `Cptr`), duplicate entries in a row (`A[k, j]` sums
them while the kernels do not), coinciding centres after a rebalance step.  Core Lean only. -/
namespace PyamgV.BalLloyd
open PyamgV.Bal

abbrev OArr := Array (Option Nat)
@[inline] def rdU (a : OArr) (i : Nat) : Option Nat := a.getD i none

/-! ### IEEE arithmetic on `Rat ∪ {+inf}` -/

def addO : Option Rat → Option Rat → Option Rat
  | some a, some b => some (a + b)
  | _, _ => none

def sqO : Option Rat → Option Rat
  | some a => some (a * a)
  | none => none

/-- `x > y + tol` -/
def gtTol (tol : Rat) : Option Rat → Option Rat → Bool
  | some a, some b => decide (a > b + tol)
  | none, some _ => true
  | _, none => false

/-- `x < y - tol` -/
def ltTol (tol : Rat) : Option Rat → Option Rat → Bool
  | some a, some b => decide (a < b - tol)
  | some _, none => true
  | none, _ => false

/-- `x < y` -/
def ltO : Option Rat → Option Rat → Bool
  | some a, some b => decide (a < b)
  | some _, none => true
  | none, _ => false

/-! ### `floyd_warshall` -/

structure FW where
  D : Array (Option Rat)
  P : Array Int

/-- one stored entry `(i, Aj[jj])` of the first loop; `_i` local index of `i` -/
def fwEdge (A : Csr) (l : OArr) (m : Array Int) (a : Int) (N _i i : Nat) (fw : FW) (jj : Nat) : Option FW :=
  let j := rdN A.aj jj
  if rdI m j = a then
    match rdU l j with
    | none => none
    | some _j =>
      if _i * N + _j < fw.D.size ∧ _i * N + _j < fw.P.size then
        some ⟨wrO fw.D (_i * N + _j) (some (rdQ A.ax jj)), wrI fw.P (_i * N + _j) (Int.ofNat i)⟩
      else none
  else some fw

/-- first loop: `D[_i, L[j]] = A_ij`, `P[_i, L[j]] = i` for the stored entries inside cluster `a` -/
def fwEdges (A : Csr) (glob : Nat → Option Nat) (l : OArr) (m : Array Int) (a : Int) (N : Nat) (fw : FW) :
    Option FW :=
  (List.range N).foldlM (fun fw _i =>
    match glob _i with
    | none => none
    | some i => if i < A.n then (A.jjs i).foldlM (fwEdge A l m a N _i i) fw else none) fw

/-- second loop: `D[_i, _i] = 0`, `P[_i, _i] = i` -/
def fwDiag (glob : Nat → Option Nat) (N : Nat) (fw : FW) : Option FW :=
  (List.range N).foldlM (fun fw _i =>
    match glob _i with
    | none => none
    | some i =>
      if _i * N + _i < fw.D.size ∧ _i * N + _i < fw.P.size then
        some ⟨wrO fw.D (_i * N + _i) (some 0), wrI fw.P (_i * N + _i) (Int.ofNat i)⟩
      else none) fw

/-- body of the triple loop -/
def fwRelax (tol : Rat) (N k i : Nat) (fw : FW) (j : Nat) : FW :=
  let s := addO (rdO fw.D (i * N + k)) (rdO fw.D (k * N + j))
  if gtTol tol (rdO fw.D (i * N + j)) s then
    ⟨wrO fw.D (i * N + j) s, wrI fw.P (i * N + j) (rdI fw.P (k * N + j))⟩
  else fw

def fwMain (tol : Rat) (N : Nat) (fw : FW) : FW :=
  (List.range N).foldl (fun fw k =>
    (List.range N).foldl (fun fw i =>
      (List.range N).foldl (fwRelax tol N k i) fw) fw) fw

/-- `floyd_warshall(n, Ap, Aj, Ax, D, P, C, L, m, a, N)` after `fill(D, inf)`, `fill(P, -1)` on arrays of
`maxsize * maxsize` entries; `glob _i = C[_i]` -/
def fwRun (tol : Rat) (A : Csr) (glob : Nat → Option Nat) (l : OArr) (m : Array Int) (a : Int)
    (N maxsize : Nat) : Option FW :=
  if N * N ≤ maxsize * maxsize then
    match fwEdges A glob l m a N ⟨Array.replicate (maxsize * maxsize) none, Array.replicate (maxsize * maxsize) (-1)⟩ with
    | none => none
    | some fw1 =>
      match fwDiag glob N fw1 with
      | none => none
      | some fw2 => some (fwMain tol N fw2)
  else none

/-! ### `center_nodes` -/

/-- the state `balanced_lloyd_cluster` keeps between kernel calls -/
structure LSt where
  st : St
  c : Array Nat
  cptr : Array Int
  cc : OArr
  l : OArr

/-- `Clast = 0; for a: Cptr[a] = Clast; Clast += s[a]` -/
def prefixSums (s : Array Int) : Array Int :=
  ((List.range s.size).foldl (fun (acc : Array Int × Int) a => (acc.1.push acc.2, acc.2 + rdI s a))
    (#[], 0)).1

/-- `a = m[i]; C[Cptr[a]] = i; Cptr[a]++` -/
def fillStep (m : Array Int) (acc : Array Int × OArr) (i : Nat) : Option (Array Int × OArr) :=
  match idx (rdI m i) acc.1.size with
  | none => none
  | some a =>
    match idx (rdI acc.1 a) acc.2.size with
    | none => none
    | some pos => some (wrI acc.1 a (rdI acc.1 a + 1), acc.2.setIfInBounds pos (some i))

def fill (n : Nat) (m : Array Int) (cptr : Array Int) (cc : OArr) : Option (Array Int × OArr) :=
  (List.range n).foldlM (fillStep m) (cptr, cc)

/-- `C[Cptr[a] + _i]` -/
def globOf (cptr : Array Int) (cc : OArr) (a : Nat) (_i : Nat) : Option Nat :=
  match idx (rdI cptr a + (_i : Int)) cc.size with
  | none => none
  | some pos => rdU cc pos

/-- `for a: for _j < s[a]: L[C[Cptr[a] + _j]] = _j` -/
def setL (cptr s : Array Int) (cc : OArr) (l : OArr) : Option OArr :=
  (List.range s.size).foldlM (fun l a =>
    (List.range (rdI s a).toNat).foldlM (fun (l : OArr) _j =>
      match globOf cptr cc a _j with
      | none => none
      | some g => if g < l.size then some (l.setIfInBounds g (some _j)) else none) l) l

/-- `q[_i] = sum_j D[_i, _j]^2` -/
def qOf (D : Array (Option Rat)) (N _i : Nat) : Option Rat :=
  (List.range N).foldl (fun acc _j => addO acc (sqO (rdO D (_i * N + _j)))) (some 0)

/-- `i = c[a]; for _j: if (q[_j] < q[L[i]] - tol) i = C[Cptr[a] + _j]` -/
def select (tol : Rat) (q : Nat → Option Rat) (glob : Nat → Option Nat) (l : OArr) (N c0 : Nat) : Option Nat :=
  (List.range N).foldlM (fun i _j =>
    match rdU l i with
    | none => none
    | some li =>
      if li < N then (if ltTol tol (q _j) (q li) then glob _j else some i) else none) c0

/-- `d[j] = D[_i, _j]; pc[p[j]]--; p[j] = P[_i, _j]; pc[p[j]]++` for one node of the cluster -/
def moveStep (fw : FW) (glob : Nat → Option Nat) (N _i : Nat) (st : St) (_j : Nat) : Option St :=
  match glob _j with
  | none => none
  | some j =>
    if j < st.d.size ∧ j < st.p.size then
      match idx (rdI st.p j) st.pc.size with
      | none => none
      | some kp =>
        let pc1 := wrI st.pc kp (rdI st.pc kp - 1)
        let pn := rdI fw.P (_i * N + _j)
        match idx pn pc1.size with
        | none => none
        | some kn =>
          some { st with d := wrO st.d j (rdO fw.D (_i * N + _j)), p := wrI st.p j pn,
                         pc := wrI pc1 kn (rdI pc1 kn + 1) }
    else none

def moveCentre (fw : FW) (glob : Nat → Option Nat) (N _i : Nat) (st : St) : Option St :=
  (List.range N).foldlM (moveStep fw glob N _i) st

/-- the body of `for a in 0..num_clusters` -/
def clusterStep (tol : Rat) (A : Csr) (maxsize : Nat) (cptr : Array Int) (cc l : OArr)
    (acc : St × Array Nat × Bool) (a : Nat) : Option (St × Array Nat × Bool) :=
  let st := acc.1
  let N := (rdI st.s a).toNat
  let glob := globOf cptr cc a
  match fwRun tol A glob l st.m (Int.ofNat a) N maxsize with
  | none => none
  | some fw =>
    match select tol (qOf fw.D N) glob l N (rdN acc.2.1 a) with
    | none => none
    | some i =>
      if i = rdN acc.2.1 a then some acc
      else
        match rdU l i with
        | none => none
        | some _i =>
          match moveCentre fw glob N _i st with
          | none => none
          | some st' => some (st', acc.2.1.setIfInBounds a i, decide (0 < N) || acc.2.2)

/-- `center_nodes(n, Ap, Aj, Ax, Cptr, D, P, C, L, q, c, d, m, p, pc, s)`; `none` = out-of-bounds access or
read of an uninitialised entry -/
def centerNodes (tol : Rat) (A : Csr) (maxsize : Nat) (x : LSt) : Option (LSt × Bool) :=
  if x.st.s.size = x.c.size then
    let cptr0 := prefixSums x.st.s
    match fill A.n x.st.m cptr0 x.cc with
    | none => none
    | some f =>
      match setL cptr0 x.st.s f.2 x.l with
      | none => none
      | some l =>
        match (List.range x.c.size).foldlM (clusterStep tol A maxsize cptr0 f.2 l) (x.st, x.c, false) with
        | none => none
        | some r => some ({ st := r.1, c := r.2.1, cptr := cptr0, cc := f.2, l := l }, r.2.2)
  else none

/-! ### the Lloyd loop of one rebalance round -/

def initP (n : Nat) (cs : List Nat) : Array Int :=
  cs.foldl (fun p c => wrI p c (Int.ofNat c)) (Array.replicate n (-1))

def initPc (n : Nat) (cs : List Nat) : Array Int :=
  cs.foldl (fun p c => wrI p c 1) (Array.replicate n 0)

/-- the re-initialisation at the top of every rebalance round -/
def reinit (n : Nat) (cs : List Nat) : St :=
  { d := initD n cs, m := initM n cs, p := initP n cs, pc := initPc n cs,
    s := Array.replicate cs.length 1 }

/-- `while (changed1 or changed2) and it < maxiter`; the fuel is `maxiter - it` -/
def innerLoop (tol : Rat) (tb : Bool) (A : Csr) (maxsize : Nat) : Nat → LSt → Bool → Except String LSt
  | 0, x, _ => .ok x
  | f+1, x, ch =>
    if !ch then .ok x else
    match kernel tol tb A x.st with
    | .fault => .error "fault"
    | .tooMany => .error "too-many-iterations"
    | .ok st1 ch1 =>
      if st1.s.any (fun v => decide ((maxsize : Int) < v)) then .error "ValueError:maxsize"
      else if st1.m.any (fun v => decide (v < 0)) ||
          st1.d.any (fun v => match v with | some x => decide (x < 0) | none => false) then
        .error "ValueError:disconnected"
      else
        match centerNodes tol A maxsize { x with st := st1 } with
        | none => .error "fault"
        | some (x2, ch2) => innerLoop tol tb A maxsize f x2 (ch1 || ch2)

/-- `truepc = bincount(p[p > -1], minlength=n); count_nonzero(truepc - pc) == 0` -/
def pcCheck (n : Nat) (st : St) : Bool :=
  (List.range n).all (fun v =>
    rdI st.pc v == Int.ofNat ((List.range n).filter (fun j => rdI st.p j == Int.ofNat v)).length) &&
  (List.range n).all (fun j => decide (rdI st.p j < (n : Int)))

/-! ### rebalancing -/

/-- values of `S`: `-inf`, finite, and of `E`: finite, `+inf` -/
inductive Ext where
  | ninf : Ext
  | fin : Rat → Ext
  | pinf : Ext

def Ext.le : Ext → Ext → Bool
  | .ninf, _ => true
  | _, .pinf => true
  | .fin a, .fin b => decide (a ≤ b)
  | _, _ => false

/-- `x > y` -/
def Ext.gt (x y : Ext) : Bool := !(Ext.le x y)

def ofO : Option Rat → Ext
  | some a => .fin a
  | none => .pinf

def members (n : Nat) (m : Array Int) (a : Nat) : List Nat :=
  (List.range n).filter (fun j => rdI m j == Int.ofNat a)

def minO (x y : Option Rat) : Option Rat := if ltO x y then x else y

/-- `np.sum(d[Va]**2)` (`none` = some distance is `inf`) -/
def sumSq (d : Array (Option Rat)) (Va : List Nat) : Option Rat :=
  Va.foldl (fun acc j => addO acc (sqO (rdO d j))) (some 0)

/-- `_elimination_penalty` for cluster `a`; `dist` = `dist_all[a, :]` -/
def elimPenalty (A : Csr) (st : St) (dist : Array (Option Rat)) (a : Nat) : Option Ext :=
  let Va := members A.n st.m a
  let N := Va.length
  let tot := (List.range N).foldl (fun acc iloc =>
    let dmin := Va.zipIdx.foldl (fun dm (jj : Nat × Nat) =>
      A.entries.foldl (fun dm e =>
        if e.2.1 = jj.1 ∧ rdI st.m e.1 ≠ rdI st.m jj.1 then
          minO (addO (addO (rdO st.d e.1) (some e.2.2)) (rdO dist (jj.2 * N + iloc))) dm
        else dm) dm) none
    addO acc (sqO dmin)) (some 0)
  match sumSq st.d Va with
  | none => none
  | some sd => some (match tot with | some t => .fin (t - sd) | none => .pinf)

/-- `_split_improvement` for cluster `a`: `(S[a], I[a], J[a])` -/
def splitImprove (n : Nat) (st : St) (dist : Array (Option Rat)) (a : Nat) : Option (Ext × Option (Nat × Nat)) :=
  let Va := members n st.m a
  let N := Va.length
  let r := Va.zipIdx.foldl (fun (acc : Option Rat × Option (Nat × Nat)) (ii : Nat × Nat) =>
    Va.zipIdx.foldl (fun (acc : Option Rat × Option (Nat × Nat)) (jj : Nat × Nat) =>
      let snew := (List.range N).foldl (fun s kloc =>
        let x := rdO dist (ii.2 * N + kloc)
        let y := rdO dist (jj.2 * N + kloc)
        addO s (sqO (if ltO x y then x else y))) (some 0)
      if ltO snew acc.1 then (snew, some (ii.1, jj.1)) else acc) acc) (none, none)
  match sumSq st.d Va with
  | none => none
  | some sd => some ((match r.1 with | some t => .fin (sd - t) | none => .ninf), r.2)

/-- a recorded `np.argsort` result must be a permutation of `0..k-1` listing the values in ascending order -/
def validOrder (v : Array Ext) (o : Array Nat) : Bool :=
  decide (o.size = v.size) &&
  (List.range v.size).all (fun a => o.toList.count a == 1) &&
  (List.range (v.size - 1)).all (fun t => Ext.le (v.getD (rdN o t) .pinf) (v.getD (rdN o (t+1)) .pinf))

def stableOrder (v : Array Ext) : Array Nat :=
  ((List.range v.size).mergeSort (fun a b => Ext.le (v.getD a .pinf) (v.getD b .pinf))).toArray

/-- `Agg2Agg[[a], :].indices` as a set: the clusters `b` with a stored entry from cluster `a` into `b` -/
def aggNbrs (A : Csr) (m : Array Int) (a : Nat) : List Int :=
  (A.entries.filter (fun e => rdI m e.1 == Int.ofNat a)).map (fun e => rdI m e.2.1)

def clearAll (M : Array Bool) (bs : List Int) : Array Bool :=
  bs.foldl (fun M b => if 0 ≤ b then M.setIfInBounds b.toNat false else M) M

structure RB where
  newc : Array Nat
  M : Array Bool
  iE : Nat
  iS : Nat          -- `i_s + 1`
  changed : Bool

/-- the `while i_e <= num_clusters-1 and i_s >= 0` loop of `_rebalance`; `none` = fuel exhausted (the loop
does not terminate) -/
def rbLoop (A : Csr) (m : Array Int) (E S : Array Ext) (IJ : Array (Option (Nat × Nat)))
    (eo so : Array Nat) (k : Nat) : Nat → RB → Option (Except String RB)
  | 0, _ => none
  | f+1, r =>
    if r.iE < k ∧ 0 < r.iS then
      let aE := rdN eo r.iE
      let aS := rdN so (r.iS - 1)
      if r.M.getD aE false = false ∨ aE = aS then rbLoop A m E S IJ eo so k f { r with iE := r.iE + 1 }
      else if r.M.getD aS false = false then rbLoop A m E S IJ eo so k f { r with iS := r.iS - 1 }
      else if Ext.gt (E.getD aE .pinf) (S.getD aS .ninf) then some (.ok r)
      else
        match IJ.getD aS none with
        | none => some (.error "unmodelled:centre -1")
        | some ij =>
          let M1 := clearAll (clearAll r.M (aggNbrs A m aE)) (aggNbrs A m aS)
          rbLoop A m E S IJ eo so k f
            { r with M := M1, newc := (r.newc.setIfInBounds aE ij.1).setIfInBounds aS ij.2, changed := true }
    else some (.ok r)

/-- the swap loop of `_rebalance` on given measures and sort orders -/
def rbRun (A : Csr) (m : Array Int) (c : Array Nat) (E S : Array Ext) (IJ : Array (Option (Nat × Nat)))
    (eo so : Array Nat) : Except String (Array Nat × Bool) :=
  if validOrder E eo && validOrder S so then
    match rbLoop A m E S IJ eo so c.size (4 * c.size + 4) ⟨c, Array.replicate c.size true, 0, c.size, false⟩ with
    | none => .error "hang"
    | some (.error e) => .error e
    | some (.ok r) => .ok (r.newc, r.changed)
  else .error "bad-oracle"

/-- `_rebalance(G, c, m, d, dist_all, num_clusters)`; `ord` = the recorded `(Esortidx, Ssortidx)` -/
def rebalance (A : Csr) (st : St) (c : Array Nat) (dist : Array (Array (Option Rat)))
    (ord : Option (Array Nat × Array Nat)) : Except String (Array Nat × Bool) :=
  match (List.range c.size).mapM (fun a => elimPenalty A st (dist.getD a #[]) a),
        (List.range c.size).mapM (fun a => splitImprove A.n st (dist.getD a #[]) a) with
  | some Es, some SIJ =>
    let E := Es.toArray
    let S := (SIJ.map Prod.fst).toArray
    rbRun A st.m c E S (SIJ.map Prod.snd).toArray
      (match ord with | some o => o.1 | none => stableOrder E)
      (match ord with | some o => o.2 | none => stableOrder S)
  | _, _ => .error "unmodelled:inf distance"

/-- `dist_all[a, :]` for every cluster (`floyd_warshall` with `N = s[a]`, `C = CC[Cptr[a]:]`) -/
def distAll (tol : Rat) (A : Csr) (maxsize : Nat) (x : LSt) : Option (Array (Array (Option Rat))) :=
  ((List.range x.c.size).mapM (fun a =>
    match fwRun tol A (globOf x.cptr x.cc a) x.l x.st.m (Int.ofNat a) (rdI x.st.s a).toNat maxsize with
    | none => none
    | some fw => some fw.D)).map List.toArray

/-! ### `balanced_lloyd_cluster` -/

/-- `for riter in range(rebalance_iters + 1)`; `r = rebalance_iters - riter` -/
def outer (tol : Rat) (tb : Bool) (A : Csr) (maxiter maxsize : Nat) :
    Nat → LSt → List (Array Nat × Array Nat) → Except String (Array Int × Array Nat)
  | r, x, ords =>
    match innerLoop tol tb A maxsize maxiter { x with st := reinit A.n x.c.toList } true with
    | .error e => .error e
    | .ok x1 =>
      if !pcCheck A.n x1.st then .error "ValueError:pc" else
      match r with
      | 0 => .ok (x1.st.m, x1.c)
      | r'+1 =>
        if x1.c.size < 2 then .ok (x1.st.m, x1.c)
        else if maxiter = 0 then .error "unmodelled:maxiter=0 with rebalancing"
        else
          match distAll tol A maxsize x1 with
          | none => .error "fault"
          | some dist =>
            match rebalance A x1.st x1.c dist ords.head? with
            | .error e => .error e
            | .ok (newc, ch) =>
              if ch then
                -- two swaps of one `_rebalance` call can in principle produce coinciding centres (a split
                -- of a single-node cluster); the next round would then read uninitialised work arrays
                if newc.size = x1.c.size ∧ newc.toList.Nodup ∧ newc.all (fun v => decide (v < A.n)) then
                  outer tol tb A maxiter maxsize r' { x1 with c := newc } ords.tail
                else .error "unmodelled:degenerate centres after rebalancing"
              else .ok (x1.st.m, newc)

/-- rows without repeated column indices (`A[k, j]` in `_elimination_penalty` would add duplicates up) -/
def noDup (A : Csr) : Bool :=
  (List.range A.n).all (fun i => ((A.jjs i).map (fun jj => rdN A.aj jj)).Nodup)

/-- `int(12 * ceil(n / num_clusters))` -/
def maxsizeOf (n k : Nat) : Nat := 12 * ((n + k - 1) / k)

/-- `balanced_lloyd_cluster(G, centers, maxiter, rebalance_iters, tiebreaking)` with an explicit centre
array; `ords` = the recorded `np.argsort` results of the successive `_rebalance` calls -/
def cluster (tol : Rat) (tb : Bool) (A : Csr) (centers : Array Int) (maxiter reb : Nat)
    (ords : List (Array Nat × Array Nat)) : Except String (Array Int × Array Nat) :=
  if !A.wf then .error "fault"
  else if A.ax.any (fun v => decide (v ≤ 0)) then .error "ValueError"
  else if centers.size < 1 then .error "ValueError"
  else if centers.any (fun v => decide (v < 0 ∨ (A.n : Int) ≤ v)) then .error "ValueError"
  else if !noDup A then .error "unmodelled:duplicate entries"
  else
    let c := centers.map Int.toNat
    outer tol tb A maxiter (maxsizeOf A.n c.size) reb
      { st := reinit A.n c.toList, c := c, cptr := #[], cc := Array.replicate A.n none,
        l := Array.replicate A.n none } ords

/-- `balanced_lloyd_aggregation(C, ratio, measure, maxiter, rebalance_iters)` (`pad=None`) where `perm` is
the permutation `numpy.random.permutation(n)` drawn by `balanced_lloyd_cluster` -/
def aggregation (tol : Rat) (A : Csr) (measure : String) (ratio : Rat) (perm : Array Int) (maxiter reb : Nat)
    (ords : List (Array Nat × Array Nat)) :
    Except String ((Array Nat × Array Nat × Array Int) × Array Nat) :=
  if ratio ≤ 0 ∨ 1 < ratio then .error "ValueError" else
  match ExtLloyd.applyMeasure measure A.ax with
  | none => .error "unmodelled"
  | some x =>
    if x.toList.any (fun v => decide (v < 0)) then .error "ValueError" else
    match cluster tol true { A with ax := x } (perm.extract 0 (ExtLloyd.naggs ratio A.n)) maxiter reb ords with
    | .error e => .error e
    | .ok (cl, ce) => .ok (ExtLloyd.aggOp cl, ce)

end PyamgV.BalLloyd
