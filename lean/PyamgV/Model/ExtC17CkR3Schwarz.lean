import PyamgV.Model.ExtC17Ck

/-! PyamgV (C17, extension E19, round 3): checked-execution (`Ck`) models of the Schwarz kernels of
`relaxation.h`, written loop by loop after the C++:

* `gemm` in mode `('F','F','F')` *without* overwrite (`'F'`: no `std::fill`, accumulate into `S`), the
  only mode `overlapping_schwarz_csr` uses; dimensions are `I` values (`Int`),
* `extract_subblocks`: the `while(placeholder < Sp[i+1])` search with its two `break`s runs on fuel
  `Sp[i+1] - placeholder` and is embedded with `orFault` (fuel exhausted = fault),
* `overlapping_schwarz_csr`, with the work arrays `rsum`, `Dinv_rsum` sized by
  `max(nrows, max_d (Sp[d+1]-Sp[d]))` as in the working tree.

A C pointer into an array is (array, offset).  Core Lean only. -/
namespace PyamgV.C17
open PyamgV.Ck

variable {α : Type} [Inhabited α]

/-! ### linalg.h: `gemm`, mode `('F','F','F','F')` -/

/-- `gemm(&Ax[ao], arows, acols, 'F', &Bx[bo], brows, bcols, 'F', &Sx[so], _, _, 'F', 'F')`; returns the
array holding `S` (`Srows`, `Scols` are not used by this branch) -/
def gemmFFacc (o : KOps α) (ax : Array α) (ao : Int) (arows acols : Int) (bx : Array α) (bo : Int)
    (brows bcols : Int) (sx : Array α) (so : Int) : Ck (Array α) := do
  -- state of the `i` loop: `(Sx, s_counter, a_start)`
  let r ← forRange 0 arows (sx, (0 : Int), (0 : Int)) (fun _ (st : Array α × Int × Int) => do
    -- state of the `j` loop: `(Sx, s_counter, b_counter)`, `b_counter = 0`
    let r ← forRange 0 bcols (st.1, st.2.1, (0 : Int)) (fun _ (st2 : Array α × Int × Int) => do
      -- state of the `k` loop: `(Sx, a_counter, b_counter)`, `a_counter = a_start`
      let r ← forRange 0 brows (st2.1, st.2.2, st2.2.2) (fun _ (st3 : Array α × Int × Int) => do
        let s ← rd st3.1 (so + st2.2.1)
        let a ← rd ax (ao + st3.2.1)
        let b ← rd bx (bo + st3.2.2)
        let sx ← wr st3.1 (so + st2.2.1) (o.add s (o.mul a b))
        pure (sx, st3.2.1 + 1, st3.2.2 + 1))
      pure (r.1, st2.2.1 + 1, r.2.2))
    pure (r.1, r.2.1, st.2.2 + acols))
  pure r.1

/-! ### `extract_subblocks` -/

/-- state of the search: `(Tx, local_col, placeholder)` -/
abbrev ES (α : Type) := Array α × Int × Int

/-- one iteration of the body of `while(placeholder < Sp[i+1])`; the `Bool` says whether the loop goes on
(`false` = one of the two `break`s) -/
def esStep (G : Csr α) (sj : Array Int) (toff k col : Int) (st : ES α) : Ck (ES α × Bool) := do
  let p ← rd sj st.2.2
  if p = col then do
    -- `Tx[Tx_offset + local_col] = Ax[k]; local_col++; placeholder++; break;`
    let a ← rd G.ax k
    let tx ← wr st.1 (toff + st.2.1) a
    pure ((tx, st.2.1 + 1, st.2.2 + 1), false)
  else if p > col then pure (st, false)
  else pure ((st.1, st.2.1 + 1, st.2.2 + 1), true)

/-- the `while` loop with fuel; `none` = fuel exhausted -/
def esWhile (G : Csr α) (sj : Array Int) (s1 toff k col : Int) : Nat → Ck (ES α) → Option (Ck (ES α))
  | 0, st => if st.val.2.2 < s1 then none else some st
  | f+1, st =>
    if st.val.2.2 < s1 then
      let r := st >>= esStep G sj toff k col
      if r.val.2 then esWhile G sj s1 toff k col f (r >>= fun x => pure x.1)
      else some (r >>= fun x => pure x.1)
    else some st

/-- one row `Sj[j]` of subdomain `i`: the `k` loop over the row of `A`; state `(Tx, local_col, placeholder)` -/
def esRow (G : Csr α) (sj : Array Int) (s0 s1 lower upper toff : Int) (row : Int) (tx : Array α) :
    Ck (ES α) := do
  let start ← rd G.ap row
  let stop ← rd G.ap (row+1)
  forRange start stop (tx, (0 : Int), s0) (fun k (st : ES α) => do
    let col ← rd G.aj k
    if lower ≤ col ∧ col ≤ upper then
      orFault (esWhile G sj s1 toff k col (s1 - st.2.2).toNat (pure st))
    else pure st)

/-- `extract_subblocks(Ap, Aj, Ax, Tx, Tp, Sj, Sp, nsdomains, nrows)`; returns `Tx` -/
def extractSubblocks (o : KOps α) (G : Csr α) (tx : Array α) (tp sj sp : Array Int) (nsd : Nat) :
    Ck (Array α) := do
  -- `std::fill(&(Tx[0]), &(Tx[Tp[nsdomains]]), zero)`
  let tend ← rd tp (nsd : Int)
  let tx ← forRange 0 tend tx (fun t (tx : Array α) => wr tx t o.zero)
  forRange 0 (nsd : Int) tx (fun i (tx : Array α) => do
    let s1 ← rd sp (i+1)
    let s0 ← rd sp i
    if s1 = s0 then pure tx
    else do
      let lower ← rd sj s0
      let upper ← rd sj (s1 - 1)
      let toff ← rd tp i
      -- state of the `j` loop: `(Tx, Tx_offset)`
      let r ← forRange s0 s1 (tx, toff) (fun j (st : Array α × Int) => do
        let row ← rd sj j
        let r ← esRow G sj s0 s1 lower upper st.2 row st.1
        pure (r.1, st.2 + (s1 - s0)))
      pure r.1)

/-! ### `overlapping_schwarz_csr` -/

/-- state: `x`, `rsum`, `Dinv_rsum` -/
abbrev SwSt (α : Type) := Array α × Array α × Array α

/-- `max_size = nrows; for(d..) if(Sp[d+1]-Sp[d] > max_size) max_size = Sp[d+1]-Sp[d];` -/
def swMaxSize (sp : Array Int) (nsd : Nat) (nrows : Int) : Ck Int :=
  forRange 0 (nsd : Int) nrows (fun d (ms : Int) => do
    let a ← rd sp (d+1)
    let b ← rd sp d
    if a - b > ms then pure (a - b) else pure ms)

/-- `for(k = 0; k < len; k++){ rsum[k] = 0.0; Dinv_rsum[k] = 0.0; }` -/
def swZero (o : KOps α) (len : Int) (rsum dinv : Array α) : Ck (Array α × Array α) :=
  forRange 0 len (rsum, dinv) (fun k (st : Array α × Array α) => do
    let r ← wr st.1 k o.zero
    let d ← wr st.2 k o.zero
    pure (r, d))

/-- the block residual of subdomain `Sj[s0..s1)`; state `(rsum, counter)` -/
def swResid (o : KOps α) (G : Csr α) (x b : Array α) (sj : Array Int) (s0 s1 : Int) (rsum : Array α) :
    Ck (Array α × Int) :=
  forRange s0 s1 (rsum, (0 : Int)) (fun j (st : Array α × Int) => do
    let row ← rd sj j
    let start ← rd G.ap row
    let stop ← rd G.ap (row+1)
    let rs ← forRange start stop st.1 (fun jj (rs : Array α) => do
      -- `rsum[counter] -= Ax[jj]*x[Aj[jj]]`
      let r ← rd rs st.2
      let a ← rd G.ax jj
      let c ← rd G.aj jj
      let xc ← rd x c
      wr rs st.2 (o.sub r (o.mul a xc)))
    -- `rsum[counter] += b[row]; counter++;`
    let r ← rd rs st.2
    let br ← rd b row
    let rs ← wr rs st.2 (o.add r br)
    pure (rs, st.2 + 1))

/-- `for(j = Sp[d]; j < Sp[d+1]; j++){ x[Sj[j]] += Dinv_rsum[counter]; counter++; }`; state `(x, counter)` -/
def swAdd (o : KOps α) (sj : Array Int) (s0 s1 : Int) (dinv : Array α) (x : Array α) : Ck (Array α × Int) :=
  forRange s0 s1 (x, (0 : Int)) (fun j (st : Array α × Int) => do
    let row ← rd sj j
    let xr ← rd st.1 row
    let d ← rd dinv st.2
    let x ← wr st.1 row (o.add xr d)
    pure (x, st.2 + 1))

/-- one subdomain `domptr` -/
def swDomain (o : KOps α) (G : Csr α) (b tx : Array α) (tp sj sp : Array Int) (d : Int) (st : SwSt α) :
    Ck (SwSt α) := do
  -- `size_domain = Sp[domptr+1] - Sp[domptr]`
  let s1 ← rd sp (d+1)
  let s0 ← rd sp d
  let size := s1 - s0
  let r ← swResid o G st.1 b sj s0 s1 st.2.1
  let t0 ← rd tp d
  let dinv ← gemmFFacc o tx t0 size size r.1 0 size 1 st.2.2 0
  let xr ← swAdd o sj s0 s1 dinv st.1
  let z ← swZero o size r.1 dinv
  pure (xr.1, z.1, z.2)

/-- `overlapping_schwarz_csr(Ap, Aj, Ax, x, b, Tx, Tp, Sj, Sp, nsdomains, nrows, row_start, row_stop, row_step)`;
returns `(x, rsum, Dinv_rsum)` -/
def schwarz (o : KOps α) (G : Csr α) (b tx : Array α) (tp sj sp : Array Int) (nsd : Nat) (nrows : Int)
    (start stop step : Int) (fuel : Nat) (x : Array α) : Option (Ck (SwSt α)) :=
  let init : Ck (SwSt α) := do
    let ms ← swMaxSize sp nsd nrows
    let z ← swZero o ms (Array.replicate ms.toNat default) (Array.replicate ms.toNat default)
    pure (x, z.1, z.2)
  forStride stop step (swDomain o G b tx tp sj sp) fuel start init

end PyamgV.C17
