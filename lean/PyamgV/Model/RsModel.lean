/-! PyamgV: executable, bucket-faithful model of `rs_cf_splitting` (ruge_stuben.h:284-470).
Core Lean only. State = the C++ arrays. -/
namespace PyamgV.RS

abbrev U : Int := 2
abbrev F : Int := 0
abbrev C : Int := 1
abbrev PF : Int := 3

@[inline] def rdN (a : Array Nat) (i : Nat) : Nat := a.getD i 0
@[inline] def wrN (a : Array Nat) (i : Nat) (v : Nat) : Array Nat := a.setIfInBounds i v
@[inline] def rdI (a : Array Int) (i : Nat) : Int := a.getD i 0
@[inline] def wrI (a : Array Int) (i : Nat) (v : Int) : Array Int := a.setIfInBounds i v

structure Csr where
  n : Nat
  ap : Array Nat
  aj : Array Nat

def Csr.row (G : Csr) (i : Nat) : List Nat :=
  (List.range' (rdN G.ap i) (rdN G.ap (i+1) - rdN G.ap i)).map (rdN G.aj)

structure St where
  lam : Array Nat
  iptr : Array Nat
  icnt : Array Nat
  i2n : Array Nat
  n2i : Array Nat
  sp : Array Int
deriving Repr

/-- "move k to the end of its interval and increment lambda_k" -/
def incr (n : Nat) (s : St) (k : Nat) : St :=
  if rdI s.sp k ≠ U then s else
  if rdN s.lam k ≥ n - 1 then s else
  let lk := rdN s.lam k
  let old := rdN s.n2i k
  let new := rdN s.iptr lk + rdN s.icnt lk - 1
  let a := rdN s.i2n old
  let b := rdN s.i2n new
  let n2i := wrN (wrN s.n2i a new) b old
  let i2n := wrN (wrN s.i2n old b) new a
  let icnt := wrN s.icnt lk (rdN s.icnt lk - 1)
  let icnt := wrN icnt (lk+1) (rdN icnt (lk+1) + 1)
  let iptr := wrN s.iptr (lk+1) new
  { s with n2i, i2n, icnt, iptr, lam := wrN s.lam k (lk+1) }

/-- "move j to the beginning of its interval and decrement lambda_j" -/
def decr (s : St) (j : Nat) : St :=
  if rdI s.sp j ≠ U then s else
  if rdN s.lam j = 0 then s else
  let lj := rdN s.lam j
  let old := rdN s.n2i j
  let new := rdN s.iptr lj
  let a := rdN s.i2n old
  let b := rdN s.i2n new
  let n2i := wrN (wrN s.n2i a new) b old
  let i2n := wrN (wrN s.i2n old b) new a
  let icnt := wrN s.icnt lj (rdN s.icnt lj - 1)
  let icnt := wrN icnt (lj-1) (rdN icnt (lj-1) + 1)
  let iptr := wrN s.iptr lj (rdN s.iptr lj + 1)
  let iptr := wrN iptr (lj-1) (rdN iptr lj - rdN icnt (lj-1))
  { s with n2i, i2n, icnt, iptr, lam := wrN s.lam j (lj-1) }

/-- body of the main loop for position `top`; `none` = `break` -/
def step (S T : Csr) (s : St) (top : Nat) : Option St :=
  let i := rdN s.i2n top
  let li := rdN s.lam i
  let s := { s with icnt := wrN s.icnt li (rdN s.icnt li - 1) }
  if rdN s.lam i = 0 then none else
  if rdI s.sp i ≠ U then some s else
  let s := { s with sp := wrI s.sp i C }
  -- mark U dependants as PRE_F
  let s := (T.row i).foldl (fun s j => if rdI s.sp j = U then { s with sp := wrI s.sp j PF } else s) s
  -- turn PRE_F into F and bump lambda of what they depend on
  let s := (T.row i).foldl (fun s j =>
      if rdI s.sp j = PF then
        let s := { s with sp := wrI s.sp j F }
        (S.row j).foldl (incr S.n) s
      else s) s
  -- decrement lambda of what i depends on
  some ((S.row i).foldl decr s)

def init (S T : Csr) : St :=
  let n := S.n
  let lam := (Array.range n).map (fun i => rdN T.ap (i+1) - rdN T.ap i)
  let lmax := max (2 * lam.foldl max 0) (n+1)
  let icnt0 := lam.foldl (fun c l => wrN c l (rdN c l + 1)) (Array.replicate lmax 0)
  -- prefix sums
  let (iptr, _) := (List.range lmax).foldl (fun (acc : Array Nat × Nat) v =>
      (wrN acc.1 v acc.2, acc.2 + rdN icnt0 v)) (Array.replicate lmax 0, 0)
  let (i2n, n2i, icnt) := (List.range n).foldl (fun (acc : Array Nat × Array Nat × Array Nat) i =>
      let l := rdN lam i
      let idx := rdN iptr l + rdN acc.2.2 l
      (wrN acc.1 idx i, wrN acc.2.1 i idx, wrN acc.2.2 l (rdN acc.2.2 l + 1)))
      (Array.replicate n 0, Array.replicate n 0, Array.replicate lmax 0)
  let sp := (Array.range n).map (fun i =>
      if rdN lam i = 0 ∨ (rdN lam i = 1 ∧ rdN T.aj (rdN T.ap i) = i) then F else U)
  { lam, iptr, icnt, i2n, n2i, sp }

def run (S T : Csr) : Array Int :=
  let rec go (fuel : Nat) (top : Nat) (s : St) : St :=
    match fuel with
    | 0 => s
    | fuel+1 =>
      match step S T s top with
      | none => s
      | some s' => if top = 0 then s' else go fuel (top-1) s'
  let s := if S.n = 0 then init S T else go S.n (S.n - 1) (init S T)
  s.sp.map (fun v => if v = U then F else v)

-- path 0-1-2-3 (symmetric): expected by the real kernel: see DESIGN probes
def path4 : Csr := ⟨4, #[0,1,3,5,6], #[1,0,2,1,3,2]⟩
#eval run path4 path4
-- star with centre 0
def star5 : Csr := ⟨5, #[0,4,5,6,7,8], #[1,2,3,4,0,0,0,0]⟩
#eval run star5 star5

end PyamgV.RS
