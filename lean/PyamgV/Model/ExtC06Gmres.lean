import PyamgV.Model.C06Krylov
import PyamgV.Model.ExtC07Hh
/-! PyamgV (C06, extension E16): executable models of the *complete* functions `gmres_mgs`, `gmres_householder`
and `fgmres` of `pyamg/krylov` -- what they return, what they append to `residuals` and what they hand to
`callback` -- assembled from the inner-iteration models of C07 (`gmresStep`, `ghStep`, `fgStep` of
`Model/C07Gmres.lean`, `Model/ExtC07Hh.lean`; Arnoldi, Givens rotations, back substitution) and the control flow of
the three files, which is the same in all of them:

```
normr = ‖r‖ ; residuals[:] = [normr] ; if normr < thr: return x, 0
for outer in range(max_outer):
    start a cycle from r (= M(b − A x), fgmres: b − A x)
    for inner in range(max_inner):
        one inner iteration                      -- `step`
        niter += 1
        if inner < max_inner − 1:
            normr = |g[inner+1]|                 -- the running estimate, `est`
            if normr < thr: break
            residuals.append(normr) ; callback(x + update)
    x = x + update ; r = recomputed ; normr = ‖r‖ ; callback(x) ; residuals.append(normr)
    if stagnated: return x, −1
    if normr < thr: return x, 0
return x, niter
```

`GEng` collects what differs (start of a cycle, inner iteration, the estimate `g[inner+1]`, the iterate that goes
with the current state, the explicitly computed residual norm); `gRun` is the control flow.  The driver runs the
three instances in binary64 (`ext_c06_gmres`), `Proofs/ExtC06Gmres*.lean` are about the same definitions over a
`K`-module with an exact square root.  Core Lean only. -/
namespace PyamgV.ExtC06
open PyamgV.C07

/-- what the three solvers differ in -/
structure GEng (K V S : Type) where
  start : V → S        -- state at the start of a cycle whose first iterate is `x`
  step : V → S → S     -- one inner iteration of the cycle started at `x`
  est : S → K          -- `g[inner+1]` after the inner iteration
  cur : V → S → V      -- the iterate `x + update` belonging to the state
  resn : V → K         -- the explicitly computed (preconditioned) residual norm of an iterate

/-- what one cycle did -/
structure GCyc (K V S : Type) where
  s : S            -- the state after the last inner iteration performed
  k : Nat          -- number of inner iterations performed
  hist : List K    -- the estimates appended to `residuals` in this cycle
  log : List V     -- the iterates handed to `callback` in this cycle (inside the inner loop)

structure GOut (K V : Type) where
  x : V
  status : Int
  hist : List K
  log : List V
  niter : Nat

section
variable {K V S : Type}

/-- the inner loop -/
def gInner (eng : GEng K V S) (lt : K → K → Bool) (abs : K → K) (thr : K) (maxInner : Nat) (x : V) :
    Nat → Nat → S → List K → List V → GCyc K V S
  | 0, inner, s, hist, log => ⟨s, inner, hist, log⟩
  | fuel+1, inner, s, hist, log =>
    let s' := eng.step x s
    if inner + 1 < maxInner then
      let nr := abs (eng.est s')
      if lt nr thr then ⟨s', inner + 1, hist, log⟩     -- `break`
      else gInner eng lt abs thr maxInner x fuel (inner + 1) s' (hist ++ [nr]) (log ++ [eng.cur x s'])
    else ⟨s', inner + 1, hist, log⟩

/-- one cycle started at `x` -/
def gCycle (eng : GEng K V S) (lt : K → K → Bool) (abs : K → K) (thr : K) (maxInner : Nat) (x : V) : GCyc K V S :=
  gInner eng lt abs thr maxInner x maxInner 0 (eng.start x) [] []

/-- the outer loop (every inner iteration performed is counted, also the one left by `break`) -/
def gOuter (eng : GEng K V S) (lt : K → K → Bool) (abs : K → K) (thr : K) (stag : V → V → Bool)
    (maxInner : Nat) : Nat → V → List K → List V → Nat → GOut K V
  | 0, x, hist, log, niter => ⟨x, (niter : Int), hist, log, niter⟩
  | fuel+1, x, hist, log, niter =>
    let c := gCycle eng lt abs thr maxInner x
    let x' := eng.cur x c.s
    let nr := eng.resn x'
    let hist' := hist ++ c.hist ++ [nr]
    let log' := log ++ c.log ++ [x']
    let niter' := niter + c.k
    if stag x x' then ⟨x', -1, hist', log', niter'⟩
    else if lt nr thr then ⟨x', 0, hist', log', niter'⟩
    else gOuter eng lt abs thr stag maxInner fuel x' hist' log' niter'

/-- the whole function after the `n == 1` shortcut -/
def gRun (eng : GEng K V S) (lt : K → K → Bool) (abs : K → K) (thr : K) (stag : V → V → Bool)
    (d : C06.GDims) (x0 : V) : GOut K V :=
  if lt (eng.resn x0) thr then ⟨x0, 0, [eng.resn x0], [], 0⟩
  else gOuter eng lt abs thr stag d.maxInner d.maxOuter x0 [eng.resn x0] [] 0

/-- the C06 clauses for an output `o` of a run started from `x0`, history function `H`, criterion `C`:
history = `H` of `x0` and of every callback iterate, in order; the returned `x` is the last callback argument (`x0`
when there was none); at most `maxOuter · maxInner` callbacks; status `-1` (stagnation exit), or `0` with `C x`, or
the iteration counter with `¬ C x`; the counter is the number of callbacks;
`C x0` ⇒ `x0` comes back unchanged with status `0`, one history entry, no callback; otherwise at least one
iteration is performed (so status `0` with counter `0` only for a converged `x0`). -/
structure GTruthful (o : GOut K V) (x0 : V) (H : V → K) (C : V → Bool) (d : C06.GDims) : Prop where
  hist : o.hist = (x0 :: o.log).map H
  last : (x0 :: o.log).getLast? = some o.x
  len : o.log.length ≤ d.maxOuter * d.maxInner
  stat : o.status = -1 ∨ (o.status = 0 ∧ C o.x = true) ∨ (o.status = (o.niter : Int) ∧ C o.x = false)
  zero : o.status = 0 → C o.x = true
  pos : 0 < o.status → C o.x = false ∧ o.status = (o.niter : Int)
  count : o.niter = o.log.length
  conv0 : C x0 = true → o = ⟨x0, 0, [H x0], [], 0⟩
  iter1 : C x0 = false → 1 ≤ o.log.length
end

section engines
variable {K V : Type} [Add K] [Sub K] [Mul K] [Div K] [Neg K] [OfNat K 0] [OfNat K 1]

/-- `_gmres_mgs.py` -/
def mgsEng (o : Ops K V) (sqrt : K → K) (pos nz : K → Bool) (n : Nat) (b : V) : GEng K V (GmSt K V) :=
  { start := fun x => gmresInit o sqrt b x
    step := fun x s => gmresStep o sqrt pos nz n x s
    est := fun s => s.g.getD s.cols.length 0
    cur := fun x s => s.xs.getLast?.getD x
    resn := fun x => sqrt (o.dot (o.M (o.sub b (o.A x))) (o.M (o.sub b (o.A x)))) }

variable [OfNat K 2]

/-- `_gmres_householder.py` -/
def hhEng (h : HOps K V) (sqrt sgn : K → K) (nz : K → Bool) (n : Nat) (b : V) : GEng K V (HhSt K V) :=
  { start := fun x => hhInit h sqrt sgn (h.o.M (h.o.sub b (h.o.A x)))
    step := fun x s => ghStep h sqrt sgn nz n x s
    est := fun s => s.g.getD s.cols.length 0
    cur := fun x s => s.xs.getLast?.getD x
    resn := fun x => sqrt (h.o.dot (h.o.M (h.o.sub b (h.o.A x))) (h.o.M (h.o.sub b (h.o.A x)))) }

/-- `_fgmres.py`; `pre j` is the preconditioner applied in inner iteration `j` of a cycle -/
def fgEng (h : HOps K V) (sqrt sgn : K → K) (nz : K → Bool) (n : Nat) (pre : Nat → V → V) (b : V) :
    GEng K V (HhSt K V) :=
  { start := fun x => hhInit h sqrt sgn (h.o.sub b (h.o.A x))
    step := fun x s => fgStep h sqrt sgn nz n pre x s
    est := fun s => s.g.getD s.cols.length 0
    cur := fun x s => s.xs.getLast?.getD x
    resn := fun x => sqrt (h.o.dot (h.o.sub b (h.o.A x)) (h.o.sub b (h.o.A x))) }
end engines

/-! ### the binary64 instances the driver runs -/

/-- `change = max |update[i] / x[i]|` over `x[i] != 0`, `change < 1e-12` (the update is recovered as `x' − x`) -/
def stagFloat {n : Nat} (x x' : Vector Float n) : Bool :=
  let r := (List.range n).foldl (fun (acc : Bool × Float) i =>
    let xi := x'[i]?.getD 0
    if xi != 0 then
      let c := ((xi - x[i]?.getD 0) / xi).abs
      (true, if acc.1 then (if c > acc.2 then c else acc.2) else c)
    else acc) (false, 0)
  r.1 && r.2 < 1e-12

def showOut {n : Nat} (o : GOut Float (Vector Float n)) : Int × Nat × List Float × List Float × List (List Float) :=
  (o.status, o.niter, o.hist, o.x.toList, o.log.map (·.toList))

/-- `kind` = `mgs` | `hh` | `fg`; `none`: the `n == 1` shortcut (nothing is recorded) or bad sizes / kind -/
def gmresFullFloat (kind : String) (A M : List (List Float)) (b x0 : List Float) (tol : Float)
    (restart maxiter : Option Nat) : Option (Int × Nat × List Float × List Float × List (List Float)) :=
  let n := b.length
  if n = 1 then none else
  match toMat? n A, toMat? n M, toVec? n b, toVec? n x0 with
  | some A, some M, some b, some x0 =>
    let d := C06.gmresDims n restart maxiter
    if d.maxInner = 0 then none else
    let h := hopsVec (fun a => a) A M
    let lt := fun (a c : Float) => decide (a < c)
    let nz := fun (a : Float) => a != 0
    let nb := Float.sqrt (h.o.dot b b)
    if kind = "mgs" then
      let thr := tol * (if nb == 0 then 1 else Float.sqrt (h.o.dot (h.o.M b) (h.o.M b)))
      some (showOut (gRun (mgsEng h.o Float.sqrt (fun a => a > 0) nz n b) lt Float.abs thr stagFloat d x0))
    else if kind = "hh" then
      let thr := tol * (if nb == 0 then 1 else Float.sqrt (h.o.dot (h.o.M b) (h.o.M b)))
      some (showOut (gRun (hhEng h Float.sqrt mysignFloat nz n b) lt Float.abs thr stagFloat d x0))
    else if kind = "fg" then
      let thr := tol * (if nb == 0 then 1 else nb)
      some (showOut (gRun (fgEng h Float.sqrt mysignFloat nz n (fun _ v => h.o.M v) b) lt Float.abs thr stagFloat d x0))
    else none
  | _, _, _, _ => none

end PyamgV.ExtC06
