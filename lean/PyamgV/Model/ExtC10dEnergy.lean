import PyamgV.Model.C10
import PyamgV.Model.C19Utils
import PyamgV.Model.ExtC10bGmres
/-! PyamgV (extension E53, property C10): executable model of the whole of
`smooth.energy_prolongation_smoother` -- the selection of the sparsity pattern (`degree`, `prefilter`,
root-node rows), the optional `filter_operator` pass, the Krylov loop, the `postfilter` and the second
pass it triggers -- composed from the existing models:

* `C19.filterRowsMax` (`utils.filter_matrix_rows` through `classical_strength_of_connection_abs`) and
  `C19.truncateRows` (`utils.truncate_rows` through `truncate_rows_csr` / `qsort_twoarrays`),
* `C10M.filterOperator`, `C10M.resetRoots`, `C10M.mkPrecond`,
* `C10M.energyCG` (cg / cgnr) and `C10bM.energyGmres` (gmres).

Core Lean only.  Sparse matrices are lists of rows of stored `(column, value)` pairs in storage order
(`C19.Rows`); block patterns are `C10M.Pat` (block row -> block columns, ascending).

What is SciPy's and what is pyamg's: `spmmRow` is the row loop of SciPy's `csr_matmat` (linked list of
the columns seen, emitted newest first, exact zeros dropped); `bsrRows` is `bsr_tocsr`; `patOf` is what
`tobsr` / `unamal` + `sort_indices` make of a set of stored entries; sums / unions of patterns are taken
as sets (`csr_plus_csr`, `bsr + bsr`: no entry of the operands cancels since both carry the same
value).  The order of the stored entries only matters for ties in `truncate_rows`. -/
namespace PyamgV.C10dM
open PyamgV.C10M (Mat Pat)
open PyamgV.C19 (RowOf Rows)

section generic
variable {α : Type} [Add α] [Sub α] [Mul α] [Div α] [OfNat α 0] [OfNat α 1] [DecidableEq α]

/-! ### the sparse product that expands the pattern -/

/-- `sums[j] += v`; a column seen for the first time becomes the head of the linked list -/
def accAdd (acc : RowOf α) (j : Nat) (v : α) : RowOf α :=
  if acc.any (fun cv => cv.1 == j) then acc.map (fun cv => if cv.1 = j then (cv.1, cv.2 + v) else cv)
  else (j, v) :: acc

/-- one row of `csr_matmat(A, B)`: the row `r` of `A` against the rows of `B` -/
def spmmRow (b : Rows α) (r : RowOf α) : RowOf α :=
  (r.foldl (fun acc ka => (b.getD ka.1 []).foldl (fun acc jb => accAdd acc jb.1 (ka.2 * jb.2)) acc) []).filter
    (fun cv => cv.2 ≠ 0)

def spmm (a b : Rows α) : Rows α := a.map (spmmRow b)

/-- `for _ in range(degree): pattern = Atilde @ pattern` -/
def spmmPow (a : Rows α) : Nat → Rows α → Rows α
  | 0, p => p
  | d + 1, p => spmmPow a d (spmm a p)

/-! ### the filters -/

/-- `eliminate_zeros` -/
def dropZeros (rows : Rows α) : Rows α := rows.map fun r => r.filter fun cv => cv.2 ≠ 0

/-- `filter_matrix_rows(A, theta)` for `theta > 0`: the kernel starts its row maximum at
`numeric_limits::min() > 0`, so an explicitly stored zero never passes the test `|a| >= theta * max`;
`C19.filterRowsMax` (maximum started at `0`) keeps the zeros of an all-zero row, which are removed here -/
def thetaRows (nsq : α → Rat) (θ : Rat) (rows : Rows α) : Rows α :=
  dropZeros (PyamgV.C19.filterRowsMax nsq θ rows)

/-- `truncate_rows(A, k)`: the kernel, then `eliminate_zeros` -/
def truncRows (nsq : α → Rat) (k : Nat) (rows : Rows α) : Rows α :=
  dropZeros (PyamgV.C19.truncateRows nsq k rows)

/-- the `prefilter` / `postfilter` dictionaries: keys `theta` and `k` -/
structure Filt where
  theta : Option Rat
  k : Option Nat
deriving Repr, DecidableEq

/-- `if 'theta' in filter and filter['theta'] == 0: filter.pop('theta')` -/
def Filt.thetaEff (f : Filt) : Option Rat :=
  match f.theta with
  | some t => if t = 0 then none else some t
  | none => none

def Filt.isEmpty (f : Filt) : Bool := f.thetaEff.isNone && f.k.isNone

/-- union of two matrices with the same number of rows, as sets of stored entries -/
def unionRows (a b : Rows α) : Rows α := List.zipWith (fun x y => x ++ y) a b

/-- the four branches of the filter selection (`theta` and `k`: union of the two patterns) -/
def applyFilt (nsq : α → Rat) (f : Filt) (rows : Rows α) : Rows α :=
  match f.thetaEff, f.k with
  | some θ, some k => unionRows (truncRows nsq k rows) (thetaRows nsq θ rows)
  | none, some k => truncRows nsq k rows
  | some θ, none => thetaRows nsq θ rows
  | none, none => rows

/-! ### stored entries <-> block patterns -/

/-- scalar rows of a BSR matrix with stored block columns `tpat` and values `T` (`bsr_tocsr`: blocks in
storage order, all `cpb` entries of the block row, zeros included) -/
def bsrRows (rpb cpb : Nat) (tpat : Pat) (T : Mat α) : Rows α :=
  (List.range (tpat.size * rpb)).map fun i =>
    (tpat.getD (i / rpb) #[]).toList.flatMap fun J => (List.range cpb).map fun bj => (J * cpb + bj, T.get i (J * cpb + bj))

/-- the pattern `csr_array((ones, T.indices, T.indptr))` after `T.sort_indices()` -/
def onesRows (tpat : Pat) : Rows α :=
  tpat.toList.map fun J => (J.toList.mergeSort (fun a b => decide (a ≤ b))).map fun j => (j, (1 : α))

/-- block pattern (`nbr x ncb` blocks of `rpb x cpb`) of a set of stored scalar entries: block `(I, J)` is
present iff some stored entry lies in it; block columns ascending -/
def patOf (nbr ncb rpb cpb : Nat) (rows : Rows α) : Pat :=
  (Array.range nbr).map fun I => ((List.range ncb).filter fun J =>
    (List.range rpb).any fun bi => (rows.getD (I * rpb + bi) []).any fun cv => cv.1 / cpb == J).toArray

/-- blocks of a dense matrix with a non-zero entry (the stored blocks after `eliminate_zeros`) -/
def nzPat (nbr ncb rpb cpb : Nat) (T : Mat α) : Pat :=
  (Array.range nbr).map fun I => ((List.range ncb).filter fun J =>
    (List.range rpb).any fun bi => (List.range cpb).any fun bj => T.get (I * rpb + bi) (J * cpb + bj) ≠ 0).toArray

/-- `pattern = I_F @ pattern; pattern = P_I + pattern`: the block rows all of whose dofs are root dofs lose
their blocks, block `(Cpts[k] / rpb, k / cpb)` is added for every root dof -/
def rootPat (ncb rpb cpb : Nat) (cpts : Array Nat) (pat : Pat) : Pat :=
  (Array.range pat.size).map fun I =>
    let own := if (List.range rpb).all (fun bi => cpts.contains (I * rpb + bi)) then #[] else pat.getD I #[]
    ((List.range ncb).filter fun J =>
      own.contains J || (List.range cpts.size).any fun k => cpts.getD k 0 / rpb == I && k / cpb == J).toArray

/-- dense matrix of a list of rows (first stored entry of a column) -/
def rowsToDense (n m : Nat) (rows : Rows α) : Mat α :=
  Mat.ofFn n m fun i j => match (rows.getD i []).find? (fun cv => cv.1 == j) with
    | some cv => cv.2
    | none => 0

/-! ### the pattern of the first pass -/

/-- the allowed pattern handed to `compute_BtBinv` (node level): `degree > 0`: `Atilde^degree` times the
block pattern of `T`, filtered, `unamal`; `degree = 0`: `T` itself filtered entry by entry, then the blocks
that keep an entry; root nodes: identity rows -/
def energyPattern (nsq : α → Rat) (degree : Nat) (pre : Filt) (root : Bool) (n m rpb cpb : Nat) (atilde : Rows α)
    (tpat : Pat) (T : Mat α) (cpts : Array Nat) : Pat :=
  let nbr := n / rpb
  let ncb := m / cpb
  let pat0 :=
    if degree = 0 then patOf nbr ncb rpb cpb (applyFilt nsq pre (bsrRows rpb cpb tpat T))
    else patOf nbr ncb 1 1 (applyFilt nsq pre (spmmPow atilde degree (onesRows tpat)))
  if root then rootPat ncb rpb cpb cpts pat0 else pat0

/-! ### the post-filter -/

/-- `T_filter` of the post-filter: `k` or `theta` alone filter entry by entry; both together keep the
*blocks* of the union of the two patterns (`T_theta.data[:] = 1.0` fills whole blocks) -/
def postFilter (nsq : α → Rat) (post : Filt) (n m rpb cpb : Nat) (T : Mat α) : Mat α :=
  let nbr := n / rpb
  let ncb := m / cpb
  let rows := bsrRows rpb cpb (nzPat nbr ncb rpb cpb T) T
  match post.thetaEff, post.k with
  | some θ, some k =>
    PyamgV.C10M.maskDense rpb cpb (patOf nbr ncb rpb cpb (unionRows (thetaRows nsq θ rows) (truncRows nsq k rows))) T
  | none, some k => rowsToDense n m (truncRows nsq k rows)
  | some θ, none => rowsToDense n m (thetaRows nsq θ rows)
  | none, none => T

/-! ### the whole function -/

structure Opts where
  degree : Nat
  pre : Filt
  post : Filt
  root : Bool
  maxiter : Nat
deriving Repr

/-- everything the function computes on the way (`ι` = diagnostics of a Krylov run) -/
structure Out (α ι : Type) where
  /-- the pattern of the first pass -/
  pat1 : Pat
  /-- `filter_operator` was applied before the first Krylov run -/
  fitted : Bool
  /-- the prolongator the first Krylov run starts from -/
  T1 : Mat α
  /-- its result -/
  P1 : Mat α
  info1 : ι
  /-- a post-filter pass was made -/
  second : Bool
  Tf : Mat α
  pat2 : Pat
  T2 : Mat α
  info2 : Option ι
  /-- the returned prolongator -/
  P : Mat α

/-- the pattern of the Krylov run that produced `P` -/
def Out.pat {ι : Type} (o : Out α ι) : Pat := if o.second then o.pat2 else o.pat1

/-- `energy_prolongation_smoother(A, T, Atilde, B, Bf, Cpt_params, krylov, maxiter, tol, degree, weighting,
prefilter, postfilter)` after the input tests, with the Krylov loop `kry pattern T maxiter tol` as a
parameter (`none`: a local Gram matrix is singular).  `tpat` = stored block columns of `T`, `cpts` = root
dofs in coarse order (empty without root nodes), `tol2` = the literal `1e-8` of the second pass.
Errors: `empty` (`T.nnz == 0`: the source returns `T`), `singular` (`filter_operator` meets a singular local
Gram matrix: the source uses a pseudo-inverse), `krylov` -/
def energyFull {ι : Type} (nsq : α → Rat) (conj : α → α)
    (kry : Pat → Mat α → Nat → α → Option (Mat α × ι)) (o : Opts) (n m nd rpb cpb : Nat)
    (atilde : Rows α) (tpat : Pat) (T B Bf : Mat α) (cpts : Array Nat) (tol tol2 : α) : Except String (Out α ι) :=
  if tpat.foldl (fun acc J => acc + J.size) 0 = 0 then .error "empty" else
  let pat1 := energyPattern nsq o.degree o.pre o.root n m rpb cpb atilde tpat T cpts
  -- `if (Cpt_params[0] and B.shape[1] > A.blocksize[0]) or 'secondpass' in postfilter`
  let fitted := o.root && decide (nd > rpb)
  let T1? : Option (Mat α) :=
    if fitted then (PyamgV.C10M.filterOperator conj rpb cpb nd pat1 T B Bf).map (PyamgV.C10M.resetRoots cpts)
    else some T
  match T1? with
  | none => .error "singular"
  | some T1 =>
    match kry pat1 T1 o.maxiter tol with
    | none => .error "krylov"
    | some (P1, i1) =>
      if !o.root || o.post.isEmpty then
        .ok { pat1 := pat1, fitted := fitted, T1 := T1, P1 := P1, info1 := i1, second := false, Tf := P1, pat2 := pat1,
              T2 := P1, info2 := none, P := P1 }
      else
        let Tf := postFilter nsq o.post n m rpb cpb P1
        let pat2 := rootPat (m / cpb) rpb cpb cpts (nzPat (n / rpb) (m / cpb) rpb cpb Tf)
        match (PyamgV.C10M.filterOperator conj rpb cpb nd pat2 Tf B Bf).map (PyamgV.C10M.resetRoots cpts) with
        | none => .error "singular"
        | some T2 =>
          match kry pat2 T2 1 tol2 with
          | none => .error "krylov"
          | some (P, i2) =>
            .ok { pat1 := pat1, fitted := fitted, T1 := T1, P1 := P1, info1 := i1, second := true, Tf := Tf, pat2 := pat2,
                  T2 := T2, info2 := some i2, P := P }

/-! ### the Krylov loops as parameters of `energyFull` -/

/-- `weighting == 'block' and A.blocksize[0] == 1`: `weighting = 'diagonal'` (codes of `C10M.mkPrecond`) -/
def effWt (wt bsA : Nat) : Nat := if wt = 3 ∧ bsA = 1 then 0 else wt

def kryCG (conj : α → α) (lt : α → α → Bool) (cgnr : Bool) (rpb cpb nd : Nat) (A : Mat α)
    (pre : PyamgV.C10M.Precond α) (B : Mat α) (cpts : Array Nat) :
    Pat → Mat α → Nat → α → Option (Mat α × PyamgV.C10M.EnergyOut α) :=
  fun pat T it tol =>
    let o := PyamgV.C10M.energyCG conj lt cgnr rpb cpb nd pat A pre T B it tol cpts
    if o.ok then some (o.T, o) else none

def kryGmres (sc : PyamgV.C10bM.SOps α) (rpb cpb nd : Nat) (A : Mat α) (pre : PyamgV.C10M.Precond α) (B : Mat α)
    (cpts : Array Nat) : Pat → Mat α → Nat → α → Option (Mat α × Option (PyamgV.C10bM.EnergyGmresOut α)) :=
  fun pat T it tol =>
    if (pat.foldl (fun acc J => acc + J.size) 0) * rpb * cpb = 0 then some (T, none) else
    (PyamgV.C10bM.energyGmres sc rpb cpb nd pat A pre T B it tol cpts).map fun o => (o.T, some o)

/-- the function with `krylov = 'cg'` (`cgnr = false`) or `'cgnr'`: the input test
`T.blocksize[0] != A.blocksize[0]` (`ValueError`), then `Dinv` from `A` with `A`'s block size `bsA`
(`get_block_diag(A, blocksize=A.blocksize[0], inv_flag=True)` for `'block'`) -/
def energyFullCG (nsq : α → Rat) (conj : α → α) (lt : α → α → Bool) (cgnr : Bool) (wt bsA : Nat) (aux : Array α)
    (o : Opts) (n m nd rpb cpb : Nat) (atilde : Rows α) (tpat : Pat) (A T B Bf : Mat α) (cpts : Array Nat)
    (tol tol2 : α) : Except String (Out α (PyamgV.C10M.EnergyOut α)) :=
  if rpb ≠ bsA then .error "blocksize" else
  match PyamgV.C10M.mkPrecond (effWt wt bsA) bsA A aux with
  | none => .error "precond"
  | some pre =>
    energyFull nsq conj (kryCG conj lt cgnr rpb cpb nd A pre B cpts) o n m nd rpb cpb atilde tpat T B Bf cpts tol tol2

/-- the function with `krylov = 'gmres'` -/
def energyFullGmres (nsq : α → Rat) (sc : PyamgV.C10bM.SOps α) (wt bsA : Nat) (aux : Array α)
    (o : Opts) (n m nd rpb cpb : Nat) (atilde : Rows α) (tpat : Pat) (A T B Bf : Mat α) (cpts : Array Nat)
    (tol tol2 : α) : Except String (Out α (Option (PyamgV.C10bM.EnergyGmresOut α))) :=
  if rpb ≠ bsA then .error "blocksize" else
  match PyamgV.C10M.mkPrecond (effWt wt bsA) bsA A aux with
  | none => .error "precond"
  | some pre =>
    energyFull nsq sc.conj (kryGmres sc rpb cpb nd A pre B cpts) o n m nd rpb cpb atilde tpat T B Bf cpts tol tol2

end generic
end PyamgV.C10dM
