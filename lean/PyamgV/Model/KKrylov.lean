/-! PyamgV: executable models of `_cg.py`, `_steepest_descent.py`, `_minimal_residual.py`
(criteria 'rr', M = I) over `Rat`, including the bookkeeping (status, #residuals, callbacks).
Norm comparisons are done on squares so everything stays rational. -/
namespace PyamgV.Kry

abbrev Vec := Array Rat
def dot (a b : Vec) : Rat := (Array.zipWith (· * ·) a b).foldl (· + ·) 0
def axpy (α : Rat) (x y : Vec) : Vec := Array.zipWith (fun xi yi => α * xi + yi) x y   -- α x + y
def sub (a b : Vec) : Vec := Array.zipWith (· - ·) a b
def matvec (A : Array Vec) (x : Vec) : Vec := A.map (fun row => dot row x)

structure Res where
  x : Vec
  status : Int
  nres : Nat            -- length of the residual history
  iterates : List Vec   -- callback log
deriving Repr

/-- `_cg.py`, criteria='rr', no preconditioner. `tol2 = tol²` -/
def cg (A : Array Vec) (b x0 : Vec) (tol2 : Rat) (maxiter : Nat) : Res :=
  let r0 := sub b (matvec A x0)
  let nb2 := let t := dot b b; if t = 0 then 1 else t
  let thr2 := tol2 * nb2
  if dot r0 r0 < thr2 then ⟨x0, 0, 1, []⟩ else
  let rec go (fuel it : Nat) (x r p : Vec) (rz : Rat) (nres : Nat) (log : List Vec) : Res :=
    match fuel with
    | 0 => ⟨x, -99, nres, log⟩
    | fuel+1 =>
      let Ap := matvec A p
      let pAp := dot Ap p
      if pAp < 0 then ⟨x, -1, nres, log⟩ else
      if pAp = 0 then ⟨x, -1, nres, log⟩ else       -- vanishing search direction: breakdown exit
      let α := rz / pAp
      let x := axpy α p x
      let r := if it % 8 ≠ 0 ∧ it > 0 then axpy (-α) Ap r else sub b (matvec A x)
      let rz' := dot r r
      if rz' < 0 then ⟨x, -1, nres, log⟩ else
      let β := rz' / rz
      let p := axpy β p r
      let it := it + 1
      let nres := nres + 1
      let log := log ++ [x]
      if rz' < thr2 then ⟨x, 0, nres, log⟩
      else if it = maxiter then ⟨x, it, nres, log⟩
      else go fuel it x r p rz' nres log
  go maxiter 0 x0 r0 r0 (dot r0 r0) 1 []

/-- `_steepest_descent.py`, criteria='rr', no preconditioner (note: no initial-residual exit) -/
def steepestDescent (A : Array Vec) (b x0 : Vec) (tol2 : Rat) (maxiter : Nat) : Res :=
  let r0 := sub b (matvec A x0)
  let nb2 := let t := dot b b; if t = 0 then 1 else t
  let thr2 := tol2 * nb2
  let rec go (fuel it : Nat) (x r : Vec) (rz : Rat) (nres : Nat) (log : List Vec) : Res :=
    match fuel with
    | 0 => ⟨x, -99, nres, log⟩
    | fuel+1 =>
      let q := matvec A r
      let zAz := dot r q
      if zAz < 0 then ⟨x, -1, nres, log⟩ else
      if zAz = 0 then ⟨x, -98, nres, log⟩ else      -- division by zero (NaN in the implementation)
      let α := rz / zAz
      let x := axpy α r x
      let it := it + 1
      let r := if it % 50 ≠ 0 ∧ it > 0 then sub b (matvec A x) else axpy (-α) q r
      let rz' := dot r r
      let nres := nres + 1
      let log := log ++ [x]
      if rz' < thr2 then ⟨x, 0, nres, log⟩
      else if rz' = 0 then ⟨x, -1, nres, log⟩
      else if it = maxiter then ⟨x, it, nres, log⟩
      else go fuel it x r rz' nres log
  go maxiter 0 x0 r0 (dot r0 r0) 1 []

/-- `_minimal_residual.py`, no preconditioner -/
def minimalResidual (A : Array Vec) (b x0 : Vec) (tol2 : Rat) (maxiter : Nat) : Res :=
  let z0 := sub b (matvec A x0)
  let nb2 := let t := dot b b; if t = 0 then 1 else t
  let thr2 := tol2 * nb2
  if dot z0 z0 < thr2 then ⟨x0, 0, 1, []⟩ else
  let rec go (fuel it : Nat) (x z : Vec) (nres : Nat) (log : List Vec) : Res :=
    match fuel with
    | 0 => ⟨x, -99, nres, log⟩
    | fuel+1 =>
      let p := matvec A z
      let pz := dot p z
      if pz < 0 then ⟨x, -1, nres, log⟩ else
      let pp := dot p p
      if pp = 0 then ⟨x, -98, nres, log⟩ else
      let α := pz / pp
      let x := axpy α z x
      let it := it + 1
      let z := if it % 50 ≠ 0 ∧ it > 0 then sub b (matvec A x) else axpy (-α) p z
      let nres := nres + 1
      let log := log ++ [x]
      if dot z z < thr2 then ⟨x, 0, nres, log⟩
      else if it = maxiter then ⟨x, it, nres, log⟩
      else go fuel it x z nres log
  go maxiter 0 x0 z0 1 []

end PyamgV.Kry
