import PyamgV.Model.C07Gmres
/-! PyamgV (C07, extension E11): executable models of one cycle of `pyamg/krylov/_fgmres.py` (flexible GMRES,
right preconditioning `z_j = M_j v_j` with a preconditioner that may change from step to step) and of
`pyamg/krylov/_gmres_householder.py` (left preconditioning).  Both files orthogonalise with *Householder
reflections* (kernels `apply_householders`, `householder_hornerscheme` of `amg_core/krylov.h`), then do the same
Givens bookkeeping as `_gmres_mgs.py` (`givensUpdate`, `backSub` of `Model/C07Gmres.lean`).

Statement by statement (real arithmetic; `w_j` = row `j` of `W`):
* start: `w = r; beta = sign(w[0])·‖r‖; w[0] += beta; w /= ‖w‖; g[0] = -beta` (`hhInit`);
* `v = -2 w[inner]·w; v[inner] += 1; apply_householders(v, W, inner-1 … 0)`   (`v = P_0 ⋯ P_inner e_inner`);
* fgmres: `v = M v; Z[:, inner] = v; v = A v`     — gmres_householder: `v = M (A v)`;
* `apply_householders(v, W, 0 … inner)`;  unless `inner = n-1`: `alpha = ‖v[inner+1:]‖`, when non-zero the next
  reflector `w[inner+1:] = v[inner+1:]; w[inner+1] += sign·alpha; w /= ‖w‖` and `v[inner+1] = -alpha,
  v[inner+2:] = 0` (`hhArnoldi`);
* previous rotations, new rotation, rotation of `g` (`givensUpdate`), `y = solve(H, g)` (`backSub`; `H` is upper
  triangular), fgmres: `x + Z y` — gmres_householder: the Horner scheme `update = P_0 (y_0 e_0 + P_1 (y_1 e_1 + …))`.

The models are written over abstract vector operations `HOps K V` (`Ops` plus coordinate access); the driver runs
them on `Vector Float n` (`hopsVec`), `Proofs/ExtC07Fgm.lean` is about the same definitions over a `K`-module
with an orthonormal family `E_0 … E_{n-1}` and an exact square root.

Not mirrored: when a rotation is skipped before the last inner iteration (`v[inner+1] = 0`, exact breakdown)
the code leaves a zero block in `Q`, the model an identity rotation; the harness never asks for iterates past a
breakdown.  Core Lean only. -/
namespace PyamgV.C07

/-- vector operations plus coordinates: `get v i = v[i]`, `basis i = e_i`, `tail i v` = `v` with the entries
`0 … i-1` replaced by zero (`v[i:]` as a vector of full length) -/
structure HOps (K V : Type) where
  o : Ops K V
  get : V → Nat → K
  basis : Nat → V
  tail : Nat → V → V

section
variable {K V : Type} [Add K] [Sub K] [Mul K] [Div K] [Neg K] [OfNat K 0] [OfNat K 1] [OfNat K 2]

/-- body of the loop of `apply_householders`: `alpha = <w, z>; alpha *= -2; z += alpha w` -/
def reflO (o : Ops K V) (w z : V) : V := o.add z (o.smul (o.dot w z * (-2)) w)

/-- `apply_householders(z, W, …)` with the reflectors in the order they are applied -/
def applyHH (o : Ops K V) (ws : List V) (z : V) : V := ws.foldl (fun z w => reflO o w z) z

/-- the reflector that maps `t` (zero before entry `i`, norm `nrm`) to a multiple of `e_i`:
`alpha = sign(t[i])·nrm; w = t; w[i] += alpha; w /= ‖w‖`; returns `(w, alpha)` -/
def newReflO (h : HOps K V) (sqrt sgn : K → K) (i : Nat) (t : V) (nrm : K) : V × K :=
  let alpha := sgn (h.get t i) * nrm
  let u := h.o.add t (h.o.smul alpha (h.basis i))
  (h.o.smul (1 / sqrt (h.o.dot u u)) u, alpha)

/-- result of the Householder--Arnoldi part of one inner iteration -/
structure HhArn (K V : Type) where
  z : V            -- the direction `pre (P_0 ⋯ P_inner e_inner)` (`Z[:, inner]` of fgmres)
  w : V            -- the next reflector (zero vector when none is built)
  col : List K     -- the new Hessenberg column, `inner + 2` entries

/-- `v = -2 w[inner]·w; v[inner] += 1; apply_householders(v, W, inner-1 … 0)`, then the preconditioner:
the direction `pre (P_0 ⋯ P_inner e_inner)` (`ws = w_0 … w_inner`) -/
def hhDir (h : HOps K V) (pre : V → V) (ws : List V) (inner : Nat) (x0 : V) : V :=
  let w := ws.getLast?.getD x0
  pre (applyHH h.o (ws.take inner).reverse (h.o.add (h.o.smul (-2 * h.get w inner) w) (h.basis inner)))

/-- from `v = P_inner ⋯ P_0 (op z)`: the next reflector (zero vector when none is built: last inner iteration
of a full cycle, or `‖v[inner+1:]‖ = 0`) and the new Hessenberg column `v[0 … inner], -alpha` -/
def hhCol (h : HOps K V) (sqrt sgn : K → K) (nz : K → Bool) (n inner : Nat) (v : V) : V × List K :=
  let lastFull := inner + 1 == n
  let t := h.tail (inner + 1) v
  let a0 := sqrt (h.o.dot t t)
  let rf := newReflO h sqrt sgn (inner + 1) t a0
  let live := !lastFull && nz a0
  (if live then rf.1 else h.o.smul 0 t,
   (List.range (inner + 1)).map (h.get v) ++
     [if live then -rf.2 else if lastFull then 0 else h.get v (inner + 1)])

/-- the Householder--Arnoldi part of inner iteration `inner` (`ws = w_0 … w_inner`); `pre` is applied before,
`op` is the operator whose Krylov space is built (fgmres: `pre = M_inner`, `op = A`; gmres_householder:
`pre = id`, `op = M A`) -/
def hhArnoldi (h : HOps K V) (sqrt sgn : K → K) (nz : K → Bool) (n : Nat) (pre op : V → V)
    (ws : List V) (inner : Nat) (x0 : V) : HhArn K V :=
  let z := hhDir h pre ws inner x0
  let r := hhCol h sqrt sgn nz n inner (applyHH h.o ws (op z))
  ⟨z, r.1, r.2⟩

structure HhSt (K V : Type) where
  ws : List V            -- Householder vectors w_0 … w_j
  zs : List V            -- directions z_0 … z_{j-1}
  cols : List (List K)   -- Hessenberg columns as computed (unrotated), column i has i+2 entries
  rcols : List (List K)  -- the same columns after all rotations applied so far
  cs : List K
  sn : List K
  g : List K             -- rotated right-hand side, j+1 entries
  xs : List V            -- iterates x_1 … x_j

/-- start of a cycle from the (possibly preconditioned) residual `r` -/
def hhInit (h : HOps K V) (sqrt sgn : K → K) (r : V) : HhSt K V :=
  let rf := newReflO h sqrt sgn 0 r (sqrt (h.o.dot r r))
  ⟨[rf.1], [], [], [], [], [], [-rf.2], []⟩

/-! ### `_fgmres.py` -/

/-- one inner iteration of `_fgmres.py`; `pre j` is the preconditioner applied in inner iteration `j` -/
def fgStep (h : HOps K V) (sqrt sgn : K → K) (nz : K → Bool) (n : Nat) (pre : Nat → V → V) (x0 : V)
    (s : HhSt K V) : HhSt K V :=
  let inner := s.cols.length
  let a := hhArnoldi h sqrt sgn nz n (pre inner) h.o.A s.ws inner x0
  let u := givensUpdate sqrt nz (inner + 1 == n) inner s.cs s.sn s.g a.col
  let rcols := s.rcols ++ [u.rc]
  let zs := s.zs ++ [a.z]
  let y := backSub rcols u.g (inner + 1) []
  ⟨s.ws ++ [a.w], zs, s.cols ++ [a.col], rcols, s.cs ++ [u.c], s.sn ++ [u.s], u.g,
   s.xs ++ [combO h.o x0 y zs]⟩

/-- the iterates `x_1 … x_k` of one FGMRES cycle -/
def fgmresHh (h : HOps K V) (sqrt sgn : K → K) (nz : K → Bool) (n : Nat) (pre : Nat → V → V) (b x0 : V)
    (k : Nat) : List V :=
  (iter (fgStep h sqrt sgn nz n pre x0) k (hhInit h sqrt sgn (h.o.sub b (h.o.A x0)))).xs

/-! ### `_gmres_householder.py` -/

/-- `householder_hornerscheme(update, W, y, n, inner, -1, -1)` from `update = zero`:
`for j = inner … 0: update[j] += y[j]; update = P_j update`, i.e. `P_0 (y_0 e_0 + P_1 (y_1 e_1 + …))` -/
def hornerO (h : HOps K V) (zero : V) : Nat → List V → List K → V
  | j, w :: ws, y :: ys =>
    reflO h.o w (h.o.add (hornerO h zero (j + 1) ws ys) (h.o.smul y (h.basis j)))
  | _, _, _ => zero

/-- one inner iteration of `_gmres_householder.py` -/
def ghStep (h : HOps K V) (sqrt sgn : K → K) (nz : K → Bool) (n : Nat) (x0 : V) (s : HhSt K V) : HhSt K V :=
  let inner := s.cols.length
  let a := hhArnoldi h sqrt sgn nz n (fun v => v) (fun v => h.o.M (h.o.A v)) s.ws inner x0
  let u := givensUpdate sqrt nz (inner + 1 == n) inner s.cs s.sn s.g a.col
  let rcols := s.rcols ++ [u.rc]
  let y := backSub rcols u.g (inner + 1) []
  ⟨s.ws ++ [a.w], s.zs ++ [a.z], s.cols ++ [a.col], rcols, s.cs ++ [u.c], s.sn ++ [u.s], u.g,
   s.xs ++ [h.o.add x0 (hornerO h (h.o.smul 0 x0) 0 s.ws y)]⟩

/-- the iterates `x_1 … x_k` of one cycle of GMRES with Householder orthogonalisation -/
def gmresHh (h : HOps K V) (sqrt sgn : K → K) (nz : K → Bool) (n : Nat) (b x0 : V) (k : Nat) : List V :=
  (iter (ghStep h sqrt sgn nz n x0) k (hhInit h sqrt sgn (h.o.M (h.o.sub b (h.o.A x0))))).xs
end

/-! ### the instance the driver runs -/
section vectors
variable {K : Type} [Add K] [Sub K] [Mul K] [OfNat K 0] [OfNat K 1] {n : Nat}

def hopsVec (conj : K → K) (A M : Vector (Vector K n) n) : HOps K (Vector K n) :=
  { o := vecOps conj A M
    get := fun v i => v[i]?.getD 0
    basis := fun i => Vector.ofFn (fun l : Fin n => if l.val = i then 1 else 0)
    tail := fun i v => Vector.ofFn (fun l : Fin n => if l.val < i then 0 else v[l]) }
end vectors

/-- `_mysign` (real): `1` at zero, `x / |x|` otherwise -/
def mysignFloat (x : Float) : Float := if x == 0 then 1 else x / x.abs

/-- FGMRES in binary64; `Ms` are the preconditioners, used cyclically (`M_j = Ms[j mod |Ms|]`) -/
def fgmresFloat (A : List (List Float)) (Ms : List (List (List Float))) (b x0 : List Float) (k : Nat) :
    Option (List (List Float)) :=
  let n := b.length
  match toMat? n A, Ms.mapM (toMat? n), toVec? n b, toVec? n x0 with
  | some A, some Ms, some b, some x0 =>
    if Ms.isEmpty then none else
    let h := hopsVec (fun a => a) A A
    let pre := fun (j : Nat) (v : Vector Float n) => vmv (Ms.getD (j % Ms.length) A) v
    some ((fgmresHh h Float.sqrt mysignFloat (fun a => a != 0) n pre b x0 k).map (·.toList))
  | _, _, _, _ => none

/-- GMRES (Householder) in binary64 -/
def gmresHhFloat (A M : List (List Float)) (b x0 : List Float) (k : Nat) : Option (List (List Float)) :=
  let n := b.length
  match toMat? n A, toMat? n M, toVec? n b, toVec? n x0 with
  | some A, some M, some b, some x0 =>
    let h := hopsVec (fun a => a) A M
    some ((gmresHh h Float.sqrt mysignFloat (fun a => a != 0) n b x0 k).map (·.toList))
  | _, _, _, _ => none

end PyamgV.C07
