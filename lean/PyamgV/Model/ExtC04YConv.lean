import PyamgV.Model.ExtSpmm
/-! PyamgV (extension E54, property C15), executable, core only: the two input formats `Model/ExtSpmm.lean` left out.
The constructors bring every input that is not CSR / BSR to CSR by `csr_array(A)`, i.e. by the format's own `tocsr()`.

* LIL (`scipy.sparse.lil_array`): per row a list of column indices (`rows[i]`, kept sorted by SciPy) and a list of
  values (`data[i]`); `lil.tocsr()` (`lil_get_lengths`, cumulative sum, `lil_flatten_to_array` of both) concatenates
  the rows as they are: `lilToCsr`;
* DIA (`scipy.sparse.dia_array`): `offsets[k]` and a data array of shape `(len(offsets), L)` with
  `data[k, j] = A[j - offsets[k], j]`; entries of `data` whose row `j - offsets[k]` or column `j` lies outside the
  matrix are padding and ignored (`L` may be smaller or larger than the number of columns); the constructor rejects
  duplicate offsets.  `dia.tocsr()` (SciPy >= 1.15: kernel `dia_tocsr` on `order = argsort(offsets)`) walks the rows,
  inside a row the diagonals by increasing offset, i.e. by increasing column, and drops exact zeros: `diaToCsr`.

`InputX` = the inputs of `Spmm.Input` plus these two.  `Proofs/ExtC04YConv.lean`: both conversions preserve the dense
meaning, return well-formed CSR; DIA always returns the canonical form without stored zeros, LIL iff its index lists
are strictly sorted. -/
namespace PyamgV.ConvX
open PyamgV.Spmm

variable {α : Type}

/-! ### LIL -/

structure Lil (α : Type) where
  rows : Nat
  cols : Nat
  idx : Array (List Nat)
  dat : Array (List α)
deriving Repr

/-- stored entries `(column, value)` of row `i` -/
def Lil.rowOf (X : Lil α) (i : Nat) : List (Nat × α) := (X.idx.getD i []).zip (X.dat.getD i [])

def Lil.wf (X : Lil α) : Bool :=
  X.idx.size == X.rows && X.dat.size == X.rows &&
  (List.range X.rows).all fun i =>
    (X.idx.getD i []).length == (X.dat.getD i []).length && (X.idx.getD i []).all fun j => decide (j < X.cols)

/-- dense meaning: the sum of the values stored under column `j` in row `i` -/
def Lil.val [Add α] [OfNat α 0] (X : Lil α) (i j : Nat) : α := if i < X.rows then rowVal (X.rowOf i) j else 0

/-- `lil.tocsr()` -/
def lilToCsr (X : Lil α) : Csr α := ofRows X.rows X.cols ((List.range X.rows).map X.rowOf)

/-! ### DIA -/

structure Dia (α : Type) where
  rows : Nat
  cols : Nat
  L : Nat
  offsets : Array Int
  data : Array α
deriving Repr

def Dia.off (X : Dia α) (k : Nat) : Int := X.offsets.getD k 0

/-- `data[k, j]` -/
def Dia.at [OfNat α 0] (X : Dia α) (k j : Nat) : α := rd X.data (k * X.L + j)

/-- what the `dia_array` constructor checks: `data.shape == (len(offsets), L)`, no duplicate offsets -/
def Dia.wf (X : Dia α) : Bool :=
  X.data.size == X.offsets.size * X.L && decide (X.offsets.toList.Nodup)

/-- dense meaning: the sum over the diagonals `k` with `i + offsets[k] = j` of `data[k, j]`; nothing outside the
matrix, nothing beyond column `L` -/
def Dia.val [Add α] [OfNat α 0] (X : Dia α) (i j : Nat) : α :=
  if i < X.rows ∧ j < X.cols ∧ j < X.L then
    (List.range X.offsets.size).foldl (fun s k => if (i : Int) + X.off k = (j : Int) then s + X.at k j else s) 0
  else 0

/-- insert diagonal `k` into a list of diagonals sorted by offset (before the ones with an equal offset) -/
def insOff (off : Nat → Int) (k : Nat) : List Nat → List Nat
  | [] => [k]
  | a :: l => if off k ≤ off a then k :: a :: l else a :: insOff off k l

/-- stable insertion sort by offset -/
def sortOff (off : Nat → Int) (l : List Nat) : List Nat := l.foldr (insOff off) []

/-- `np.argsort(offsets)` (offsets are distinct: the sorted order is unique) -/
def Dia.order (X : Dia α) : List Nat := sortOff X.off (List.range X.offsets.size)

/-- row `i` of `dia_tocsr`: `for n: k = order[n]; j = i + offsets[k]; if (j < 0 or j >= min(n_cols, L)) continue;
x = data[k, j]; if (x != 0) emit (j, x)` -/
def Dia.rowOf [OfNat α 0] [DecidableEq α] (X : Dia α) (i : Nat) : List (Nat × α) :=
  X.order.filterMap fun k =>
    if 0 ≤ (i : Int) + X.off k ∧ (i : Int) + X.off k < ((min X.cols X.L : Nat) : Int) then
      if X.at k ((i : Int) + X.off k).toNat = 0 then none
      else some (((i : Int) + X.off k).toNat, X.at k ((i : Int) + X.off k).toNat)
    else none

/-- `dia.tocsr()` -/
def diaToCsr [OfNat α 0] [DecidableEq α] (X : Dia α) : Csr α :=
  ofRows X.rows X.cols ((List.range X.rows).map X.rowOf)

/-! ### every input format the constructors accept -/

inductive InputX (α : Type) where
  | base (X : Input α)
  | lil (X : Lil α)
  | dia (X : Dia α)

def InputX.rows : InputX α → Nat
  | .base X => X.rows | .lil X => X.rows | .dia X => X.rows
def InputX.cols : InputX α → Nat
  | .base X => X.cols | .lil X => X.cols | .dia X => X.cols
def InputX.wf : InputX α → Bool
  | .base X => X.wf | .lil X => X.wf | .dia X => X.wf
def InputX.val [Add α] [OfNat α 0] : InputX α → Nat → Nat → α
  | .base X => X.val | .lil X => X.val | .dia X => X.val
/-- `csr_array(A)` -/
def InputX.toCsr [Add α] [OfNat α 0] [DecidableEq α] : InputX α → Csr α
  | .base X => X.toCsr | .lil X => lilToCsr X | .dia X => diaToCsr X

/-! ### the instance the driver runs -/
def toCsrXC (X : InputX CRat) : Csr CRat := X.toCsr

end PyamgV.ConvX
