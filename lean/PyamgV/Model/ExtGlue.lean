import PyamgV.Model.KNum
import PyamgV.Model.C11
/-! PyamgV (extension E30, properties C11 / C13): executable models over `Rat` of the **SciPy glue**
the Python wrappers put between two kernels (scipy/sparse/sparsetools/csr.h, `_compressed.py`):

* `eliminateZeros`    — `csr_eliminate_zeros` + `prune` (order preserving compaction),
* `sortIndices`       — `csr_sort_indices` (`std::sort` by column of every row; modelled as the stable
                        insertion sort libstdc++ runs on rows of at most 16 entries),
* `sumDuplicates`     — `sort_indices` + `csr_sum_duplicates` + `prune` (adjacent equal columns are
                        added left to right, zero sums are kept),
* `setOnes`           — `C.data[:] = 1`,
* `absData`, `scaleRowsByLargest` — `np.abs(S.data)`, `scale_rows_by_largest_entry`
                        (`maximum_row_value` started at `tiny`, reciprocal where non-zero, `csr_scale_rows`),
* `multiply`          — `C.multiply(A)` = `csr_elmul_csr`: `csr_binop_csr_canonical` (two-pointer merge)
                        when both operands are canonical, else `csr_binop_csr_general` (linked list of
                        the columns seen, duplicates summed), then `prune`,

and the composed API paths of `pyamg/classical/interpolate.py` (theta = None):
`apiStrength` (copy, eliminate_zeros, [remove_strong_FF_connections], eliminate_zeros, data = 1,
multiply(A)), `apiClassical` (= `c11_api_classical`: … pass 1, pass 2) and `apiDirect`.

Every output matrix is built row by row with `ofRows` (push the row, then `Ap[i+1] = nnz`), the way
all of these loops write their result.  The models read row `i` as the slice `Ap[i] .. Ap[i+1]-1`
(`csr_eliminate_zeros` / `csr_sum_duplicates` start a row where the previous one ended, which is the
same on a row pointer with `Ap[0] = 0`).  Core Lean only. -/
namespace PyamgV.Glue
open PyamgV.N

/-- row `i` as (column, value) pairs in storage order -/
def row (A : Csr) (i : Nat) : List (Nat × Rat) := (A.jjs i).map (fun jj => (rdN A.aj jj, rdQ A.ax jj))

def ofRowsStep (rows : Nat → List (Nat × Rat)) (acc : Array Nat × Array Nat × Array Rat) (i : Nat) :
    Array Nat × Array Nat × Array Rat :=
  let aj := acc.2.1 ++ ((rows i).map Prod.fst).toArray
  let ax := acc.2.2 ++ ((rows i).map Prod.snd).toArray
  (acc.1.push aj.size, aj, ax)

/-- the CSR matrix with `n` rows whose row `i` is `rows i` (rows appended one after the other) -/
def ofRows (n : Nat) (rows : Nat → List (Nat × Rat)) : Csr :=
  let t := (List.range n).foldl (ofRowsStep rows) (#[0], #[], #[])
  ⟨n, t.1, t.2.1, t.2.2⟩

/-! ### eliminate_zeros, data[:] = 1, abs, scale_rows_by_largest_entry -/

def nz (cv : Nat × Rat) : Bool := decide (cv.2 ≠ 0)

/-- `C.eliminate_zeros()` -/
def eliminateZeros (C : Csr) : Csr := ofRows C.n (fun i => (row C i).filter nz)

/-- `C.data[:] = 1` -/
def setOnes (C : Csr) : Csr := ofRows C.n (fun i => (row C i).map (fun cv => (cv.1, (1 : Rat))))

/-- `S.data = np.abs(S.data)` -/
def absData (C : Csr) : Csr := ofRows C.n (fun i => (row C i).map (fun cv => (cv.1, absQ cv.2)))

/-- `maximum_row_value`: running maximum of the magnitudes, started at `tiny` -/
def maxRowValue (tiny : Rat) (r : List (Nat × Rat)) : Rat := r.foldl (fun m cv => max m (absQ cv.2)) tiny

/-- the scaling factor of `scale_rows_by_largest_entry`: reciprocal where non-zero -/
def rowScale (tiny : Rat) (r : List (Nat × Rat)) : Rat :=
  if maxRowValue tiny r ≠ 0 then 1 / maxRowValue tiny r else 0

/-- `scale_rows_by_largest_entry(S)` -/
def scaleRowsByLargest (tiny : Rat) (C : Csr) : Csr :=
  ofRows C.n (fun i => (row C i).map (fun cv => (cv.1, cv.2 * rowScale tiny (row C i))))

/-- the tail of `classical_strength_of_connection`: `abs`, `scale_rows_by_largest_entry`,
`eliminate_zeros` on the kernel's output -/
def strengthTail (tiny : Rat) (n : Nat) (o : Out) : Csr :=
  eliminateZeros (scaleRowsByLargest tiny (absData ⟨n, o.sp, o.sj, o.sx⟩))

/-! ### sort_indices, sum_duplicates -/

/-- insert behind every entry whose column is not larger (stable) -/
def insertCol (a : Nat × Rat) : List (Nat × Rat) → List (Nat × Rat)
  | [] => [a]
  | b :: l => if a.1 < b.1 then a :: b :: l else b :: insertCol a l

/-- stable insertion sort by column -/
def sortRow (r : List (Nat × Rat)) : List (Nat × Rat) := r.foldl (fun acc a => insertCol a acc) []

/-- `C.sort_indices()` -/
def sortIndices (C : Csr) : Csr := ofRows C.n (fun i => sortRow (row C i))

/-- the inner `while` of `csr_sum_duplicates`: `(j, x)` is the pending entry -/
def sumAdjGo (j : Nat) (x : Rat) : List (Nat × Rat) → List (Nat × Rat)
  | [] => [(j, x)]
  | b :: l => if b.1 = j then sumAdjGo j (x + b.2) l else (j, x) :: sumAdjGo b.1 b.2 l

/-- adjacent entries with equal columns are added up (left to right) -/
def sumAdj : List (Nat × Rat) → List (Nat × Rat)
  | [] => []
  | a :: l => sumAdjGo a.1 a.2 l

/-- `C.sum_duplicates()` (on canonical input SciPy returns early; the model is the identity there) -/
def sumDuplicates (C : Csr) : Csr := ofRows C.n (fun i => sumAdj (sortRow (row C i)))

/-! ### canonical format, multiply -/

/-- strictly increasing (the adjacent comparison of `csr_has_canonical_format`) -/
def incr : List Nat → Bool
  | [] => true
  | [_] => true
  | a :: b :: l => decide (a < b) && incr (b :: l)

/-- `csr_has_canonical_format` -/
def isCanonical (A : Csr) : Bool :=
  (List.range A.n).all (fun i => decide (rdN A.ap i ≤ rdN A.ap (i + 1)) && incr ((row A i).map Prod.fst))

def emit (j : Nat) (v : Rat) : List (Nat × Rat) := if v ≠ 0 then [(j, v)] else []

/-- one row of `csr_binop_csr_canonical` with `op = *`: two-pointer merge; an entry present in one
operand only gives `op(x, 0) = 0`, which is not stored (so the two tail loops store nothing).
`fuel` bounds the number of loop iterations (`|ra| + |rb|` suffice). -/
def mulRowCanon : Nat → List (Nat × Rat) → List (Nat × Rat) → List (Nat × Rat)
  | 0, _, _ => []
  | _ + 1, [], _ => []
  | _ + 1, _, [] => []
  | fuel + 1, a :: ra, b :: rb =>
    if a.1 = b.1 then emit a.1 (a.2 * b.2) ++ mulRowCanon fuel ra rb
    else if a.1 < b.1 then emit a.1 (a.2 * 0) ++ mulRowCanon fuel ra (b :: rb)
    else emit b.1 (0 * b.2) ++ mulRowCanon fuel (a :: ra) rb

/-- sum of the stored entries of column `j` (what the row means as a dense row) -/
def dval (r : List (Nat × Rat)) (j : Nat) : Rat := ((r.filter (fun cv => cv.1 == j)).map Prod.snd).sum

/-- the linked list `head -> next[head] -> …` of `csr_binop_csr_general`: every column is put in front
when it is seen for the first time -/
def seen (cols : List Nat) : List Nat := cols.foldl (fun acc j => if acc.contains j then acc else j :: acc) []

/-- one row of `csr_binop_csr_general` with `op = *` -/
def mulRowGeneral (ra rb : List (Nat × Rat)) : List (Nat × Rat) :=
  (seen (ra.map Prod.fst ++ rb.map Prod.fst)).flatMap (fun j => emit j (dval ra j * dval rb j))

/-- `C.multiply(A)` for two CSR matrices of the same shape -/
def multiply (C A : Csr) : Csr :=
  if isCanonical C && isCanonical A then
    ofRows C.n (fun i => mulRowCanon ((row C i).length + (row A i).length) (row C i) (row A i))
  else ofRows C.n (fun i => mulRowGeneral (row C i) (row A i))

/-! ### the API paths of `pyamg/classical/interpolate.py` (theta = None) -/

/-- `C = C.copy(); C.eliminate_zeros(); [remove_strong_FF_connections(C)]; C.eliminate_zeros();
C.data[:] = 1; C = C.multiply(A)` — the strength matrix handed to pass 1 / pass 2 -/
def apiStrength (modified : Bool) (A C : Csr) (split : Array Int) : Csr :=
  let C1 := eliminateZeros C
  let C2 : Csr := if modified then ⟨C1.n, C1.ap, C1.aj, C11M.removeFF C1 split⟩ else C1
  let C3 := eliminateZeros C2
  multiply (setOnes C3) A

/-- `classical_interpolation(A, C, splitting, theta=None, modified=…)`: `(Pp, Pj, Px)` -/
def apiClassical (eps : Rat) (modified : Bool) (A C : Csr) (split : Array Int) :
    Array Nat × Array Int × Array (Option Rat) :=
  let S := apiStrength modified A C split
  let pp := C11M.classicalPass1 A.n S split
  let r := C11M.classicalPass2 eps modified A S split pp
  (pp, r.1, r.2)

/-- `direct_interpolation(A, C, splitting, theta=None)`: copy, eliminate_zeros, data = 1, multiply(A),
pass 1 / pass 2 -/
def apiDirect (A C : Csr) (split : Array Int) : Array Nat × Array Nat × Array (Option Rat) :=
  N.directInterp A (multiply (setOnes (eliminateZeros C)) A) split

/-! ### the same paths with `theta` given: the strength matrix is recomputed -/

/-- `classical_strength_of_connection(A, theta, norm)` on CSR input (`norm = 'abs'` / `'min'`): kernel
(`tiny = numeric_limits::min()`), `abs`, `scale_rows_by_largest_entry`, `eliminate_zeros` -/
def apiSoc (tiny θ : Rat) (normAbs : Bool) (A : Csr) : Csr :=
  strengthTail tiny A.n (if normAbs then classicalAbs tiny θ A else classicalMin θ A)

/-- `C = classical_strength_of_connection(…); [remove_strong_FF_connections(C)]; C.eliminate_zeros();
C.data[:] = 1; C = C.multiply(A)` -/
def apiStrengthTheta (modified : Bool) (tiny θ : Rat) (normAbs : Bool) (A : Csr) (split : Array Int) : Csr :=
  let C1 := apiSoc tiny θ normAbs A
  let C2 : Csr := if modified then ⟨C1.n, C1.ap, C1.aj, C11M.removeFF C1 split⟩ else C1
  multiply (setOnes (eliminateZeros C2)) A

/-- `classical_interpolation(A, C, splitting, theta=θ, norm=…, modified=…)` (`C` is ignored) -/
def apiClassicalTheta (eps : Rat) (modified : Bool) (tiny θ : Rat) (normAbs : Bool) (A : Csr)
    (split : Array Int) : Array Nat × Array Int × Array (Option Rat) :=
  let S := apiStrengthTheta modified tiny θ normAbs A split
  let pp := C11M.classicalPass1 A.n S split
  let r := C11M.classicalPass2 eps modified A S split pp
  (pp, r.1, r.2)

/-- `direct_interpolation(A, C, splitting, theta=θ, norm=…)` -/
def apiDirectTheta (tiny θ : Rat) (normAbs : Bool) (A : Csr) (split : Array Int) :
    Array Nat × Array Nat × Array (Option Rat) :=
  N.directInterp A (multiply (setOnes (eliminateZeros (apiSoc tiny θ normAbs A))) A) split

end PyamgV.Glue
