import PyamgV.Model.C14
/-! PyamgV (C14, extension E28): executable model of the WHOLE of `energy_based_strength_of_connection`
(strength.py:358-503) for canonical CSR input, real scalars.

Inputs that are not recomputed: `ω = 1 / approximate_spectral_radius(D⁻¹A)` (recorded from the real call) and the
square root: the model is parametric in `sq : Rat → Rat`; the driver instantiates it with `sqrtApprox 80`
(relative error `2^-80`), every theorem holds for every `sq`.

Mirrors the code step by step:
* `enDinv`          : `Dinv = 1.0 / D; Dinv[D == 0] = 0.0`
* `enS … (k+1)`     : `for _i in range(k + 1): S = S + omega * (Dinv @ (Id - A @ S))` from `S = 0`
* `enVal`           : `v = S[:, i]`, `denom = sqrt(<v, A v>)`, entry `j` zeroed, `val = sqrt(<v_j, A v_j>) / denom - 1`,
                      `abs(val) if val > -0.01 else 0` (a NaN -- negative radicand -- compares false: `0`)
* tail              : `energyTailRow` of `Model/C14.lean` (classical drop rule with `theta`, `eliminate_zeros`, `+ I`,
                      `scale_rows_by_largest_entry`).
`enDefined` is false when a positive number is divided by a vanishing denominator `<v, A v>` (the code stores `inf`
there): the driver then answers `undefined`.  Core Lean only. -/
namespace PyamgV.C14
open PyamgV PyamgV.N

/-- dense matrices, row major -/
abbrev Mat := Array (Array Rat)

def mget (M : Mat) (i j : Nat) : Rat := (M.getD i #[]).getD j 0
def mkMat (n : Nat) (f : Nat → Nat → Rat) : Mat :=
  ((List.range n).map fun i => ((List.range n).map fun j => f i j).toArray).toArray
def sumR (n : Nat) (f : Nat → Rat) : Rat := (List.range n).foldl (fun s k => s + f k) 0

/-- the matrix of canonical CSR rows -/
def dense (n : Nat) (rows : List Row) : Mat := mkMat n fun i j => entry rows i j

/-- `floor(sqrt q)` to relative precision `2^-p`: `sqrt(num/den) = sqrt(num*den)/den` -/
def sqrtApprox (p : Nat) (q : Rat) : Rat :=
  if q ≤ 0 then 0 else
  (((q.num.toNat * q.den * 4 ^ p).sqrt : Nat) : Rat) / ((q.den * 2 ^ p : Nat) : Rat)

def enDinv (A : Mat) (i : Nat) : Rat := if mget A i i = 0 then 0 else 1 / mget A i i

/-- one weighted-Jacobi update of the approximate inverse: `S + ω D⁻¹ (I - A S)` -/
def enStep (n : Nat) (ω : Rat) (A S : Mat) : Mat :=
  mkMat n fun i j => mget S i j + ω * (enDinv A i * ((if i = j then 1 else 0) - sumR n fun k => mget A i k * mget S k j))

def enS (n : Nat) (ω : Rat) (A : Mat) : Nat → Mat
  | 0 => mkMat n fun _ _ => 0
  | t + 1 => enStep n ω A (enS n ω A t)

/-- `<v, A v>` -/
def enQuad (n : Nat) (A : Mat) (v : Nat → Rat) : Rat :=
  sumR n fun r => v r * sumR n fun c => mget A r c * v c

/-- column `i` of `S`, optionally with entry `j` zeroed -/
def enCol (S : Mat) (i : Nat) (zero : Option Nat) (r : Nat) : Rat := if zero = some r then 0 else mget S r i

/-- the strength value written to position `(i, j)`; `neg` is the double `-0.01` -/
def enVal (sq : Rat → Rat) (neg : Rat) (n : Nat) (A S : Mat) (i j : Nat) : Rat :=
  let den := enQuad n A (enCol S i none)
  let num := enQuad n A (enCol S i (some j))
  -- `sqrt` of a negative number is NaN, `0/0` is NaN, and `NaN > -0.01` is false
  if den < 0 ∨ num < 0 ∨ (den = 0 ∧ num = 0) then 0 else
  let val := sq num / sq den - 1
  if val > neg then absQ val else 0

/-- the energy measure on the stored pattern of `A` (explicit zeros included: `Atilde = A.copy()`) -/
def enMeasure (sq : Rat → Rat) (neg : Rat) (n : Nat) (A S : Mat) (rows : List Row) : List Row :=
  mapRows (fun i row => row.map fun cv => (cv.1, enVal sq neg n A S i cv.1)) rows

/-- no `x / 0` with `x > 0` (the code would store `inf`): wherever `<v, A v> = 0`, every `<v_j, A v_j>` is `≤ 0` -/
def enDefined (n : Nat) (A S : Mat) (rows : List Row) : Bool :=
  (rows.zipIdx).all fun (r, i) =>
    decide (enQuad n A (enCol S i none) ≠ 0) || r.all fun cv => decide (enQuad n A (enCol S i (some cv.1)) ≤ 0)

/-- `energy_based_strength_of_connection(A, theta, k)` for canonical CSR `A` given as its rows -/
def energyFull (sq : Rat → Rat) (ω neg tiny θ : Rat) (k : Nat) (rows : List Row) : List Row :=
  let n := rows.length
  let A := dense n rows
  let S := enS n ω A (k + 1)
  mapRows (energyTailRow tiny θ) (enMeasure sq neg n A S rows)

end PyamgV.C14
