/-! PyamgV (C08): decision model of the `accel` branch of `MultilevelSolver.solve`
(pyamg/multilevel.py) and of the dispatch of `pyamg.blackbox.solve` (pyamg/blackbox.py), as the code
is now (after commit c1b6f25: `atol` is passed only to accelerators whose signature has it).
Import-free (core Lean only).

`plan T r` describes everything `solve(b, x0, tol, maxiter, cycle, accel, callback, residuals,
return_info)` does with its arguments when `accel is not None`, branch by branch:

* `cycle = str(cycle).upper()`; `AMLI` with an `A.symmetry` attribute different from `'hermitian'`
  raises `ValueError`;
* `accel == 'cg' and not self.symmetric_smoothing` warns;
* `accel != 'fgmres' and cycle == 'AMLI'` raises `ValueError` (a callable is never equal to a string);
* a string is looked up in `pyamg.krylov` first, then in `scipy.sparse.linalg` (`AttributeError` when
  neither has it);
* `M = self.aspreconditioner(cycle=cycle)`;
* first call, PyAMG convention: `accel(A, b, x0=x0, tol=tol, maxiter=maxiter, M=M, callback=callback,
  residuals=residuals)`;
* when that raises `TypeError` (SciPy convention: no `tol`/`residuals` keywords): if a list was given,
  `residuals[:] = [‖b − A x‖]` and the callback becomes the recording wrapper, otherwise the caller's
  callback is passed on; `rtol = tol`; `atol = 0` iff the signature has `atol` or cannot be inspected;
  second call `accel(A, b, x0=x0, maxiter=maxiter, M=M, callback=…, rtol=…, [atol=0])`;
* `(x, info)` is returned when `return_info`, else `x`.

`Tables` holds the two name spaces (facts about the installed packages; compared with `hasattr` /
`inspect.signature` on the real modules by the check on every run). -/
namespace PyamgV.C08

/-- calling convention of an accelerator function -/
inductive Conv where
  /-- accepts `tol=` and `residuals=` (pyamg.krylov style): the first call goes through -/
  | pyamg
  /-- raises `TypeError` on the first call; `atol`: the signature has an `atol` parameter
  (`none` = `inspect.signature` fails, the code then assumes it has) -/
  | scipy (atol : Option Bool)
deriving DecidableEq, Repr

/-- the `accel` argument -/
inductive Accel where
  | name (s : String)
  | fn (c : Conv)
deriving DecidableEq, Repr

structure Tables where
  /-- solver functions that are attributes of `pyamg.krylov` -/
  krylov : List String
  /-- solver functions of `scipy.sparse.linalg` taking `(A, b, x0, rtol, …, maxiter, M, callback)`,
  with "signature has `atol`" -/
  scipy : List (String × Bool)
deriving Repr

def tables : Tables where
  krylov := ["gmres", "gmres_householder", "gmres_mgs", "fgmres", "cg", "cr", "cgnr", "cgne", "bicgstab",
             "steepest_descent", "minimal_residual"]
  scipy := [("cg", true), ("gmres", true), ("bicgstab", true), ("bicg", true), ("cgs", true), ("tfqmr", true),
            ("gcrotmk", true), ("lgmres", true), ("minres", false)]

inductive Target where
  | krylov (s : String)
  | scipy (s : String)
  | user
deriving DecidableEq, Repr

/-- what is passed as `callback=` -/
inductive Cb where
  | none
  | user
  | wrapper
deriving DecidableEq, Repr

/-- the arguments of one accelerated `solve` call (`b` and the hierarchy are implicit) -/
structure Req where
  cycle : String
  /-- `A.symmetry` of the finest matrix when it has that attribute -/
  symmetry : Option String
  symSmoothing : Bool
  accel : Accel
  tol : Rat
  maxiter : Int
  x0 : Bool
  callback : Bool
  residuals : Bool
  returnInfo : Bool
deriving Repr

/-- one call of the accelerator as `solve` issues it -/
structure Call where
  target : Target
  pyamgStyle : Bool
  /-- `x0=` is the caller's `x0` (`false`: `None`, as the caller left it) -/
  x0 : Bool
  tol : Option Rat
  rtol : Option Rat
  atol : Option Rat
  maxiter : Int
  /-- cycle of the preconditioner `M` -/
  precond : String
  callback : Cb
  /-- `residuals=` keyword: absent (`none`), the caller's list (`some true`) or `None` (`some false`) -/
  residualsKw : Option Bool
deriving DecidableEq, Repr

inductive Outcome where
  | raise (warn : Bool) (exc : String)
  /-- `preinit`: the caller's list is reset to `[‖b − A x‖]` before the second call;
  `tuple`: `(x, info)` is returned instead of `x` -/
  | run (warn : Bool) (calls : List Call) (preinit : Bool) (tuple : Bool)
deriving DecidableEq, Repr

/-- `str.upper()` (ASCII letters; the cycle names are ASCII) -/
def upper (s : String) : String := String.ofList (s.toList.map Char.toUpper)

/-- name lookup: `pyamg.krylov` first, then `scipy.sparse.linalg` -/
def resolve (T : Tables) : Accel → Option (Target × Conv)
  | .name s =>
    if s ∈ T.krylov then some (.krylov s, .pyamg)
    else match T.scipy.lookup s with
      | some a => some (.scipy s, .scipy (some a))
      | none => none
  | .fn c => some (.user, c)

def amliBadSymmetry : Option String → Bool
  | some s => s != "hermitian"
  | none => false

def firstCall (r : Req) (t : Target) (cyc : String) : Call where
  target := t
  pyamgStyle := true
  x0 := r.x0
  tol := some r.tol
  rtol := none
  atol := none
  maxiter := r.maxiter
  precond := cyc
  callback := if r.callback then .user else .none
  residualsKw := some r.residuals

def secondCall (r : Req) (t : Target) (cyc : String) (a : Option Bool) : Call where
  target := t
  pyamgStyle := false
  x0 := r.x0
  tol := none
  rtol := some r.tol
  atol := if a.getD true then some 0 else none
  maxiter := r.maxiter
  precond := cyc
  callback := if r.residuals then .wrapper else if r.callback then .user else .none
  residualsKw := none

def plan (T : Tables) (r : Req) : Outcome :=
  let cyc := upper r.cycle
  if cyc = "AMLI" ∧ amliBadSymmetry r.symmetry = true then .raise false "ValueError:amli-symmetry"
  else
    let warn := decide (r.accel = .name "cg") && !r.symSmoothing
    if r.accel ≠ .name "fgmres" ∧ cyc = "AMLI" then .raise warn "ValueError:amli-accel"
    else match resolve T r.accel with
      | none => .raise warn "AttributeError"
      | some (t, .pyamg) => .run warn [firstCall r t cyc] false r.returnInfo
      | some (t, .scipy a) => .run warn [firstCall r t cyc, secondCall r t cyc a] r.residuals r.returnInfo

/-! ### the recording wrapper of the SciPy convention -/

/-- what an accelerator hands to its callback: an iterate, or a scalar (SciPy's legacy GMRES) -/
inductive Ev (X R : Type) where
  | vec (x : X)
  | scal (q : R)
deriving Repr

/-- `callback_wrapper`: the entry appended for one callback invocation -/
def entry {X R : Type} (nrm : X → R) : Ev X R → R
  | .vec x => nrm x
  | .scal q => q

/-- content of the caller's list after a SciPy-convention run that started from `start` (`x0`, or the
zero vector) and invoked the callback with `evs`; `nrm x = ‖b − A x‖` -/
def scipyHistory {X R : Type} (nrm : X → R) (start : X) (evs : List (Ev X R)) : List R :=
  nrm start :: evs.map (entry nrm)

/-- arguments the caller's own callback sees during that run -/
def userSees {X R : Type} (r : Req) (evs : List (Ev X R)) : List (Ev X R) :=
  if r.callback then evs else []

/-! ### what the caller sees of one accelerated solve -/

/-- behaviour of the accelerator function once it is called: the pair it returns and, PyAMG convention,
the history it writes into the list it is given and the iterates it hands to the callback; SciPy
convention, the sequence of callback invocations -/
inductive Beh (X R : Type) where
  | native (x : X) (info : Int) (residuals : List R) (iterates : List X)
  | scipy (x : X) (info : Int) (events : List (Ev X R))

/-- the caller's observables: returned vector, `info` when `(x, info)` is returned, final content of the
caller's list (when one was given), arguments seen by the caller's callback -/
structure Visible (X R : Type) where
  x : X
  info : Option Int
  residuals : Option (List R)
  userCb : List (Ev X R)

/-- the accelerated `solve` seen from outside: `plan` decides which convention is used; a behaviour of
the other convention is not a run of this call (`none`) -/
def accelRun {X R : Type} (T : Tables) (r : Req) (nrm : X → R) (start : X) (beh : Beh X R) :
    Option (Visible X R) :=
  match plan T r with
  | .raise _ _ => none
  | .run _ cs _ t =>
    match beh with
    | .native x info res its =>
      if cs.length = 1 then
        some { x := x, info := if t then some info else none,
               residuals := if r.residuals then some res else none,
               userCb := if r.callback then its.map .vec else [] }
      else none
    | .scipy x info evs =>
      if cs.length = 2 then
        some { x := x, info := if t then some info else none,
               residuals := if r.residuals then some (scipyHistory nrm start evs) else none,
               userCb := userSees r evs }
      else none

/-! ### `pyamg.blackbox.solve` -/

structure BBReq where
  /-- `existing_solver`: size of its finest matrix and that matrix' `symmetry` attribute -/
  existing : Option (Nat × Option String)
  n : Nat
  /-- `ishermitian(A, fast_check=True)` of the converted matrix -/
  hermitian : Bool
  /-- `symmetric_smoothing` of the solver that is used -/
  symSmoothing : Bool
  tol : Rat
  maxiter : Int
  x0 : Bool
  verb : Bool
  residuals : Bool
  returnSolver : Bool
  bShape : List Nat
deriving Repr

inductive BBOutcome where
  | raise (exc : String)
  /-- `setup`: symmetry handed to `smoothed_aggregation_solver` when a new solver is built (`none`: the
  existing one is used); `inner`: the call `existing_solver.solve(b, x0=x0, accel=…, tol=tol,
  maxiter=maxiter, callback=…, residuals=residuals)`; `randomX0`: the start vector is
  `np.random.rand(n)`; the result is reshaped to `shape`; `tuple`: `(x, ml)` is returned -/
  | run (setup : Option String) (inner : Req) (randomX0 : Bool) (shape : List Nat) (tuple : Bool)
deriving Repr

def bbAccel (symmetry : String) : String := if symmetry = "hermitian" then "cg" else "gmres"

def bbInner (r : BBReq) (symmetry : String) : Req where
  cycle := "V"
  symmetry := some symmetry
  symSmoothing := r.symSmoothing
  accel := .name (bbAccel symmetry)
  tol := r.tol
  maxiter := r.maxiter
  x0 := true
  callback := r.verb
  residuals := r.residuals
  returnInfo := false

def bbPlan (r : BBReq) : BBOutcome :=
  match r.existing with
  | none =>
    let s := if r.hermitian then "hermitian" else "nonsymmetric"
    .run (some s) (bbInner r s) (!r.x0) r.bShape r.returnSolver
  | some (m, sym) =>
    if m ≠ r.n then .raise "TypeError:size"
    else match sym with
      | none => .raise "AttributeError"
      | some s => .run none (bbInner r s) (!r.x0) r.bShape r.returnSolver

end PyamgV.C08
