import PyamgV.Model.ExtSpmm
import PyamgV.Model.ExtC04Steps
import PyamgV.Model.ExtC04XModel
import PyamgV.Proofs.Coarsen
/-! PyamgV (extension E54, property C04), executable, core only: the loop of the constructors on SPARSE levels.

The three models that existed side by side are composed here:

* the loop `Coarsen.build` with the step guards of E13 (`ExtC04.step`: degenerate splitting, matrix filtered to a
  diagonal, `P.shape[1] >= P.shape[0]`; proved decreasing),
* the sparse Galerkin product of E27 (`Spmm.galerkin R A P` = `R @ A @ P` as `csr_matmat` computes it),
* for `air_solver(filter_operator=(lump, theta))` the row filter of E50 / C19 (`C19.filterRowDiag` =
  `amg_core.filter_matrix_rows`, followed by `eliminate_zeros()`), applied to the STORED rows: `filterCsr`.

A level of the loop state (`SLv`) carries what the guards look at (`ExtC04.Lv`: index, rows, block size), the level
matrix as it was produced (the user's matrix, or the Galerkin product of the parent) and the transfer operators that
produced it (`via` = `levels[idx-1].P`, `levels[idx-1].R`).  The numerical part of a step (strength, splitting /
aggregation, interpolation, restriction, smoothing) is a PARAMETER `num`: any function from the level descriptor and
the matrix the step works with to the numbers the guard reads and a pair `P`, `R`.  `extendG work num` is one call of
`_extend_hierarchy`: `Aw = work(levels[-1].A)` (`work = id`, or the filter), guard, `A_c = R @ Aw @ P`.

`hier` / `hierF` read the hierarchy `A_l, P_l, R_l` off the final state (dense meanings, finest first) in the form the
proved checkers `C04.checkHier` / `C04X.checkHierF` take.  With filtering the real loop filters every coarse level a
step is attempted on IN PLACE, and level 0 through a deep copy: the stored matrix of level `l >= 1` is `filter(A_l)`
exactly when `extendG` was called on it, i.e. for every level but the last, and for the last one iff the `while`
condition held once more (`attempted`; the step then stalled).

`Proofs/ExtC04YCompose.lean`: for EVERY `num` that returns well-formed `P`, `R` of the right shapes the hierarchy
satisfies the specifications `HierOK` / `HierOKF` the checkers decide. -/
namespace PyamgV.C04Y
open PyamgV PyamgV.Spmm PyamgV.ExtC04 PyamgV.C04

/-- a level of the loop state -/
structure SLv where
  lv : Lv
  A : Csr CRat
  via : Option (Csr CRat × Csr CRat)

/-- what the numerical part of a step hands back: the numbers the guard reads, `P`, `R` -/
structure NumOut where
  guard : StepIn
  P : Csr CRat
  R : Csr CRat

/-- one call of `_extend_hierarchy` -/
def extendG (work : Csr CRat → Csr CRat) (num : Lv → Csr CRat → NumOut) (l : SLv) : Option SLv :=
  match step l.lv (num l.lv (work l.A)).guard with
  | .proceed r b =>
    some ⟨⟨l.lv.idx + 1, r, b⟩, galerkin (num l.lv (work l.A)).R (work l.A) (num l.lv (work l.A)).P,
      some ((num l.lv (work l.A)).P, (num l.lv (work l.A)).R)⟩
  | _ => none

/-- the size the `while` condition compares with `max_coarse` -/
def sizeS (bw : Bool) (l : SLv) : Nat := nodes bw l.lv

def start (A0 : Csr CRat) (bs0 : Nat) : SLv := ⟨⟨0, A0.rows, bs0⟩, A0, none⟩

/-- the loop (levels coarsest first) -/
def buildG (work : Csr CRat → Csr CRat) (num : Lv → Csr CRat → NumOut) (bw : Bool) (ml mc fuel : Nat)
    (A0 : Csr CRat) (bs0 : Nat) : List SLv :=
  Coarsen.build (sizeS bw) (extendG work num) ml mc fuel [start A0 bs0]

/-- the guard-level shadow of the state: what E13's loop `ExtC04.buildC` works on -/
def shadow (lvs : List SLv) : List Lv := lvs.map (·.lv)

/-! ### the row filter on stored rows -/

/-- `filter_matrix_rows(A, theta, diagonal=True, lump)` on a CSR matrix: the kernel on every stored row, then
`eliminate_zeros()` -/
def filterCsr (θ : Rat) (lump : Bool) (A : Csr CRat) : Csr CRat :=
  ofRows A.rows A.cols ((List.range A.rows).map fun i =>
    (C19.filterRowDiag CRat.normSq θ lump i (A.row i)).filter fun e => e.2 ≠ 0)

/-! ### reading the hierarchy off the state -/

/-- dense meaning as a matrix of the checker -/
def toMat (A : Csr CRat) : Mat := ⟨A.rows, A.cols, toDenseC A⟩
def matE : Mat := ⟨0, 0, #[]⟩
def viaP (s : SLv) : Mat := match s.via with | some pr => toMat pr.1 | none => matE
def viaR (s : SLv) : Mat := match s.via with | some pr => toMat pr.2 | none => matE

/-- finest first: level `l` gets the `P`, `R` that produced level `l + 1` -/
def chain : List SLv → List Lvl
  | [] => []
  | [s] => [⟨toMat s.A, matE, matE⟩]
  | s :: t :: rest => ⟨toMat s.A, viaP t, viaR t⟩ :: chain (t :: rest)

/-- the hierarchy of a run without filtering -/
def hier (lvs : List SLv) : List Lvl := chain lvs.reverse

/-- with filtering: the first level carries the filtered copy the step on level 0 works with; `att` = a step was
attempted on the last level -/
def chainF (work : Csr CRat → Csr CRat) (att : Bool) : Bool → List SLv → List (Lvl × Bool)
  | _, [] => []
  | first, [s] =>
    if first then [(⟨toMat (work s.A), matE, matE⟩, false)]
    else [(⟨toMat (if att then work s.A else s.A), matE, matE⟩, att)]
  | first, s :: t :: rest => (⟨toMat (work s.A), viaP t, viaR t⟩, !first) :: chainF work att false (t :: rest)

/-- the `while` condition holds for the final state: one more step was attempted (and stalled) -/
def attempted (bw : Bool) (ml mc : Nat) : List SLv → Bool
  | [] => false
  | h :: rest => decide ((h :: rest).length < ml ∧ sizeS bw h > mc)

def hierF (work : Csr CRat → Csr CRat) (bw : Bool) (ml mc : Nat) (lvs : List SLv) : List (Lvl × Bool) :=
  chainF work (attempted bw ml mc lvs) true lvs.reverse

/-! ### the numerical parts observed on a real run -/

/-- one entry per call of the step; beyond the table the step has nothing to go on -/
def tableNum (tbl : Array NumOut) (l : Lv) (_ : Csr CRat) : NumOut :=
  tbl.getD l.idx ⟨.pw 0 0, ⟨0, 0, #[0], #[], #[]⟩, ⟨0, 0, #[0], #[], #[]⟩⟩

end PyamgV.C04Y
