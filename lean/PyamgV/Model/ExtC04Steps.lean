/-! PyamgV (C04 extension E13): the step guards of the five constructors' `_extend_hierarchy`,
executable, core only.

A level is described by what the loops and the guards look at: its index `len(levels) - 1`, the
number of rows of `A` and the block size of `A` (`1` for CSR).  Everything numerical a step
computes before its guard (strength, splitting / aggregation, tentative prolongator, smoothing)
enters as a `StepIn`: the numbers the guard reads.

* `ruge_stuben_solver` (classical.py:171-175): `num_fpts = np.sum(splitting)`; stall when
  `num_fpts == len(splitting)` or `num_fpts == 0`; otherwise `P` has one column per C-point.
* `air_solver` (air.py:163-165, 206-209): stall when the (filtered) matrix has `nnz == shape[0]`,
  then the same splitting guard; on BSR levels the splitting is over block rows and `P` has
  `blocksize` columns per C-point.
* `smoothed_aggregation_solver` (aggregation.py:422-424): `P` has `AggOp.shape[1] * B.shape[1]`
  columns; stall when `P.shape[1] >= P.shape[0]`; the coarse matrix has blocks of `B.shape[1]`.
* `rootnode_solver` (rootnode.py:403, 451-453): `T` is fitted to `B[:, 0:blocksize]`, so `P` has
  `AggOp.shape[1] * blocksize` columns; same guard; the coarse matrix keeps the block size.
* `pairwise_solver` (pairwise.py:139-147): `P = pairwise_aggregation(A, compute_P=True)[0]`;
  stall when `P.shape[1] >= P.shape[0]`; the coarse matrix keeps the block size.

What the real code cannot continue with is rejected (`error`): a block size that does not divide
the number of rows (SciPy refuses to build such a BSR matrix), a splitting whose length is not the
number of (block) rows, a `P` whose number of rows is not that of `A` (`R @ A @ P` raises). -/
namespace PyamgV.ExtC04

/-- what the loop and the guards see of `levels[idx]` -/
structure Lv where
  idx : Nat
  rows : Nat
  bs : Nat
deriving Repr, DecidableEq

/-- the numbers a step's guard reads, produced by the numerical part of the step -/
inductive StepIn
  | rs (splitting : List Bool)
  | air (nnz : Nat) (splitting : List Bool)
  | sa (nagg ncand : Nat)
  | rn (nagg : Nat)
  | pw (pRows pCols : Nat)
deriving Repr

inductive Outcome
  | error (msg : String)
  | stall
  | proceed (rows bs : Nat)
deriving Repr, DecidableEq

/-- `np.sum(splitting)`: the number of C-points -/
def numC (s : List Bool) : Nat := s.countP (fun b => b)

/-- SciPy's invariant of a (CSR = 1 x 1 blocks, or BSR) level -/
def Lv.ok (l : Lv) : Bool := decide (0 < l.bs) && decide (l.rows % l.bs = 0)

def stepRS (l : Lv) (s : List Bool) : Outcome :=
  if l.bs ≠ 1 then .error "ruge_stuben levels are CSR"
  else if s.length ≠ l.rows then .error "len(splitting) != rows"
  else if numC s = s.length ∨ numC s = 0 then .stall
  else .proceed (numC s) 1

def stepAIR (l : Lv) (nnz : Nat) (s : List Bool) : Outcome :=
  if l.ok = false then .error "blocksize does not divide rows"
  else if nnz = l.rows then .stall
  else if s.length * l.bs ≠ l.rows then .error "len(splitting) != block rows"
  else if numC s = s.length ∨ numC s = 0 then .stall
  else .proceed (numC s * l.bs) l.bs

def stepSA (l : Lv) (nagg ncand : Nat) : Outcome :=
  if l.ok = false then .error "blocksize does not divide rows"
  else if nagg * ncand ≥ l.rows then .stall
  else .proceed (nagg * ncand) ncand

def stepRN (l : Lv) (nagg : Nat) : Outcome :=
  if l.ok = false then .error "blocksize does not divide rows"
  else if nagg * l.bs ≥ l.rows then .stall
  else .proceed (nagg * l.bs) l.bs

def stepPW (l : Lv) (pRows pCols : Nat) : Outcome :=
  if l.ok = false then .error "blocksize does not divide rows"
  else if pRows ≠ l.rows then .error "P.shape[0] != A.shape[0]"
  else if pCols ≥ pRows then .stall
  else .proceed pCols l.bs

def step (l : Lv) : StepIn → Outcome
  | .rs s => stepRS l s
  | .air nnz s => stepAIR l nnz s
  | .sa nagg ncand => stepSA l nagg ncand
  | .rn nagg => stepRN l nagg
  | .pw r c => stepPW l r c

/-- one call of `_extend_hierarchy`: `none` = no level was appended (the step stalled, or the real
code raised); `oracle` stands for the numerical part of the step -/
def extend (oracle : Lv → StepIn) (l : Lv) : Option Lv :=
  match step l (oracle l) with
  | .proceed r b => some ⟨l.idx + 1, r, b⟩
  | _ => none

/-- the size the `while` condition compares with `max_coarse`: `int(A.shape[0] / blocksize)` for the
aggregation-type constructors (`blockwise`), `A.shape[0]` for `ruge_stuben_solver` / `air_solver` -/
def nodes (blockwise : Bool) (l : Lv) : Nat := if blockwise then l.rows / l.bs else l.rows

/-- the numerical parts observed on a real run, one entry per call of the step; beyond the table the
step has nothing to go on (`P` with no rows: rejected or stalled) -/
def tableOracle (tbl : Array StepIn) (l : Lv) : StepIn := tbl.getD l.idx (.pw 0 0)

end PyamgV.ExtC04
