import PyamgV.Model.ExtC12Bal
/-! PyamgV (C12, extension E56), executable, core only: the hypotheses of `C12ZB.every_pass_final` / `cluster_final`
(`Proofs/ExtC12ZBalLoop.lean`) in Boolean form, run by the driver on the inputs of the check. -/
namespace PyamgV.C12ZB
open PyamgV.Bal

/-- the sparsity pattern is symmetric -/
def symEB (A : Csr) : Bool :=
  A.entries.all fun e => A.entries.any fun e' => decide (e'.1 = e.2.1 ∧ e'.2.1 = e.1)

/-- `0 < tol`, `2 tol < h`, every weight is a positive integer multiple of `h` and `>= tol` -/
def gridB (A : Csr) (h tol : Rat) : Bool :=
  decide (0 < tol ∧ 2 * tol < h) &&
  A.entries.all fun e => decide (tol ≤ e.2.2) && decide ((e.2.2 / h).den = 1 ∧ 0 < e.2.2 / h)

end PyamgV.C12ZB
