import PyamgV.Model.ExtC17R4Graph
/-! PyamgV (C17, extension E46): the weight operations the driver ops `c17r5_*` run the checked models of
`maximal_independent_set_parallel` / `maximal_independent_set_k_parallel` with: exact rationals (the values of the doubles
the kernels compare).  Core Lean only. -/
namespace PyamgV.C17R5

/-- `a > b`, `a == b`, `a + (R) int`, `(R) int` over ℚ -/
def ratW : C17R4.WOps Rat :=
  ⟨fun a b => decide (b < a), fun a b => decide (a = b), fun a i => a + (i : Rat), fun i => (i : Rat)⟩

end PyamgV.C17R5
