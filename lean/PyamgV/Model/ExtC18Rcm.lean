import PyamgV.Model.KGraph
/-! PyamgV (C18 extension E20): executable model of `pyamg.graph.symmetric_rcm` and
`pseudo_peripheral_node` (graph.py).  Core Lean only; the breadth-first traversal is the validated
kernel model `G.bfs` (op `bfs`).

`symmetric_rcm(A)`:
* `pseudo_peripheral_node(A)`: start `x = int(np.random.rand()*n)` (an *input* `x0` of the model; the
  check replays NumPy's generator), `delta = 0`; repeat: BFS from `x`; `y` = first node of the last
  level with minimal valence `np.diff(A.indptr)`; if `level[y] > delta` restart from `y`, else return
  `(x, order, level)`;
* keep `order[:count_nonzero(level >= 0)]`; while fewer than `n` nodes are listed: BFS from the first
  unreached node, append the reached prefix of its order (the component loop);
* `p = order[::-1]`, result `A[p, :][:, p]`.  The model returns `p`.

Refusals (`none`): `n = 0` (the kernel writes `order[0]` of an empty array), start outside the
graph, `IndexError` of `np.where(~reached)[0][0]`, exhausted fuel (`Proofs/ExtC18Rcm.lean` shows that
none of these happens for `x0 < n`, `n ≥ 1` on a symmetric graph). -/
namespace PyamgV.Rcm
open PyamgV.G

/-- `np.count_nonzero(level >= 0)` -/
def reachedCount (level : Array Int) : Nat := level.toList.countP (fun v => decide (0 ≤ v))

/-- `order[:np.count_nonzero(level >= 0)]` -/
def reachedPrefix (order level : Array Int) : List Int := order.toList.take (reachedCount level)

/-- `np.diff(A.indptr)[i]` -/
def valence (G : Graph) (i : Nat) : Int := (rdN G.ap (i+1) : Int) - (rdN G.ap i : Int)

/-- `level.max()` -/
def maxLevel (level : Array Int) : Int := level.toList.foldl max (rdI level 0)

/-- nodes of the last level -/
def lastNodes (G : Graph) (level : Array Int) : List Nat :=
  (List.range G.n).filter (fun v => decide (rdI level v = maxLevel level))

/-- `lastnodesvalence.min()` -/
def minValence (G : Graph) (l : List Nat) : Option Int :=
  match l with
  | [] => none
  | v :: vs => some (vs.foldl (fun mn w => min mn (valence G w)) (valence G v))

/-- the node `y` picked by one round -/
def pick (G : Graph) (level : Array Int) : Option Nat :=
  match minValence G (lastNodes G level) with
  | none => none
  | some mv => (lastNodes G level).find? (fun v => decide (valence G v = mv))

/-- `pseudo_peripheral_node`, `while True` with fuel -/
def ppn (G : Graph) : Nat → Nat → Int → Option (Nat × Array Int × Array Int)
  | 0, _, _ => none
  | f+1, x, delta =>
    match pick G (bfs G x).2 with
    | none => none
    | some y =>
      if rdI (bfs G x).2 y > delta then ppn G f y (rdI (bfs G x).2 y)
      else some (x, (bfs G x).1, (bfs G x).2)

/-- `reached |= comp_level >= 0` -/
def orReached (reached : Array Bool) (level : Array Int) : Array Bool :=
  ((List.range reached.size).map (fun v => reached.getD v false || decide (0 ≤ rdI level v))).toArray

/-- the component loop `while len(order) < n` -/
def compLoop (G : Graph) : Nat → List Int → Array Bool → Option (List Int)
  | 0, _, _ => none
  | f+1, ord, reached =>
    if G.n ≤ ord.length then some ord else
    match (List.range G.n).find? (fun v => !(reached.getD v false)) with
    | none => none
    | some seed =>
      compLoop G f (ord ++ reachedPrefix (bfs G seed).1 (bfs G seed).2) (orReached reached (bfs G seed).2)

/-- the permutation `p` of `symmetric_rcm` for the start node `x0` -/
def rcmPerm (G : Graph) (x0 : Nat) : Option (List Int) :=
  if G.n = 0 ∨ G.n ≤ x0 then none else
  match ppn G (G.n + 3) x0 0 with
  | none => none
  | some r =>
    match compLoop G (G.n + 1) (reachedPrefix r.2.1 r.2.2)
        ((List.range G.n).map (fun v => decide (0 ≤ rdI r.2.2 v))).toArray with
    | none => none
    | some ord => some ord.reverse

end PyamgV.Rcm
