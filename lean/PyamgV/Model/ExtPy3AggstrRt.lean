import PyamgV.Model.ExtPy2Rt
/-! PyamgV (extension E59, properties C12 / C14): run-time additions of the translator driver
`harness/py2lean3_aggstr.py` (output `Generated/PyLogic3_aggstr.lean`) on top of `Model/ExtPy2Rt.lean` (read its
header: opaque objects, `World`, events, scripts, trace).  Core Lean only, executable, total.  What the array-handling
wrappers of `pyamg/aggregation/aggregate.py` and `classical_strength_of_connection` (pyamg/strength.py) need beyond E42:

* comparisons with an opaque operand are EVENTS `(binop, lt|le|gt|ge|eq|ne, a, b)` (element-wise comparison of an
  array; the answer is the next scripted value of `<op>` or a fresh object).  When only the RIGHT operand is opaque the
  reflected operation is recorded, as CPython does (`0 < x` calls `x.__gt__(0)`).  `==` / `!=` between TWO opaque
  objects is identity (no event: `C.dtype == complex`);
* `x[key]` on an opaque object with a key that is not an `int` / `str` (a slice, a mask, an index array) is the event
  `(getitem, x, key)`; an `int` / `str` key stays the pure look-up of E42;
* `abs(x)` on an opaque object is the event `(unop, abs, x)`;
* `x += y` on an opaque `x` is the event `(binop, iadd, x, y)` -- distinct from `add`: it MUTATES `x`;
* `e.a[k] = v` (item assignment through an expression) is the `setitem` event of E42 on the object `e.a`.

The events that mutate their first operand are therefore exactly `setitem`, `setattr` and `binop iadd`
(`mutTarget`).  `harness/extpy3_aggstr.py` implements the same semantics with mock objects. -/
namespace PyamgV.ExtPy3Aggstr
open PyamgV.ExtPy PyamgV.ExtPy2

/-- record an event and take its answer from the script entry `label` -/
def event (ev : PyVal) (label : String) : PyM2 PyVal := do
  let k := (← get).trace.length
  emit ev
  nextResult label k

/-- the operation recorded when only the right operand is opaque -/
def reflectOp (op : String) : String :=
  if op == "lt" then "gt" else if op == "gt" then "lt" else if op == "le" then "ge" else if op == "ge" then "le" else op

def plainCmp (op : String) (a b : PyVal) : PyM Bool :=
  if op == "eq" then pure (pyEq a b)
  else if op == "ne" then pure (pyNe a b)
  else if op == "lt" then pyLt a b
  else if op == "le" then pyLe a b
  else if op == "gt" then pyGt a b
  else if op == "ge" then pyGe a b
  else raise "Unsupported" "comparison operator"

/-- `a op b`, op one of eq ne lt le gt ge -/
def symCmp (op : String) (a b : PyVal) : PyM2 PyVal :=
  if isObj a && isObj b && (op == "eq" || op == "ne") then
    pure (.bool (if op == "eq" then pyEq a b else pyNe a b))
  else if isObj a then event (.tuple [.str "binop", .str op, a, b]) ("<" ++ op ++ ">")
  else if isObj b then event (.tuple [.str "binop", .str (reflectOp op), b, a]) ("<" ++ reflectOp op ++ ">")
  else do
    let r ← (plainCmp op a b : PyM Bool)
    pure (.bool r)

def sliceOpt : PyVal → Option PyVal
  | .none => Option.none
  | v => some v

/-- `x[key]` (`key` = `sliceKey lo hi` for `x[lo:hi]`) -/
def symGetItem (w : World) (x key : PyVal) : PyM2 PyVal :=
  match x with
  | .obj _ =>
    match key with
    | .int _ => (getItem2 w x key : PyM PyVal)
    | .str _ => (getItem2 w x key : PyM PyVal)
    | _ => event (.tuple [.str "getitem", x, key]) "<getitem>"
  | _ =>
    match key with
    | .tuple [.str "<slice>", lo, hi] => (pySlice x (sliceOpt lo) (sliceOpt hi) : PyM PyVal)
    | _ => (pyGetItem x key : PyM PyVal)

/-- `abs(x)` -/
def symAbs (x : PyVal) : PyM2 PyVal :=
  match x with
  | .obj _ => event (.tuple [.str "unop", .str "abs", x]) "<abs>"
  | .int i => pure (.int (if i < 0 then -i else i))
  | .bool b => pure (.int (if b then 1 else 0))
  | .float q => pure (.float (if q < 0 then -q else q))
  | _ => throw ⟨"TypeError", "bad operand type for abs()"⟩

/-- `x += y` as the new value of `x` -/
def symIAdd (x y : PyVal) : PyM2 PyVal :=
  match x with
  | .obj _ => event (.tuple [.str "binop", .str "iadd", x, y]) "<iadd>"
  | .list _ => (pyExtend x y : PyM PyVal)
  | _ => symBin "add" x y

/-- `e[key] = v` where `e` is an expression (not a local name): only on opaque objects -/
def symSetItemExpr (x key v : PyVal) : PyM2 Unit :=
  match x with
  | .obj _ => emit (.tuple [.str "setitem", x, key, v])
  | _ => throw ⟨"Unsupported", "item assignment through an expression on a built-in value"⟩

/-! ### reading traces (used by the theorems) -/

/-- the object an event mutates: the target of `setitem` / `setattr` / `binop iadd` -/
def mutTarget : PyVal → Option String
  | .tuple [.str "setitem", .obj p, _, _] => some p
  | .tuple [.str "setattr", .obj p, _, _] => some p
  | .tuple [.str "binop", .str "iadd", .obj p, _] => some p
  | _ => Option.none

/-- `p` is the object `root` or reached from it by attribute / item access -/
def reachedFrom (root p : String) : Bool :=
  p == root || (root ++ ".").isPrefixOf p || (root ++ "[").isPrefixOf p

/-- no event of the trace mutates an object reached from one of the roots -/
def noMutationOf (roots : List String) (trace : List PyVal) : Bool :=
  trace.all fun ev => match mutTarget ev with
    | some p => !(roots.any fun r => reachedFrom r p)
    | Option.none => true

end PyamgV.ExtPy3Aggstr
