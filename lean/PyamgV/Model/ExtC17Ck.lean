import PyamgV.Model.C17Ck

/-! PyamgV (C17, extension E7): checked-execution (`Ck`) models of further native kernels, written
loop by loop after the C++:

* `filter_matrix_rows` (linalg.h; both branches of `lump`, the diagonal search with its `break`),
* `remove_strong_FF_connections` (ruge_stuben.h; four nested loops, `break` on `dependence`),
* `incomplete_mat_mult_csr` with its helper `my_inner` (evolution_strength.h; the two-pointer
  `while` loop runs on fuel `(A_end - A_pos) + (B_end - B_pos)`; running out of fuel clears the flag).

Conventions as in `Model/C17Ck.lean`: every array access is `Ck.rd` / `Ck.wr`, a `break` is a flag in
the loop state that turns the remaining iterations into no-ops, loop bounds that the C++ re-reads on
every iteration (`Sp[row+1]`) are read once (they are `const` arrays).  A nested loop that may not
terminate (`Option`) is embedded with `orFault`: not terminating within the fuel counts as a fault,
so `ok = true` also says that the loop terminated.  Core Lean only. -/
namespace PyamgV.C17
open PyamgV.Ck

variable {α : Type} [Inhabited α]

/-- embed a loop with fuel into `Ck`: fuel exhausted = flag cleared -/
def orFault {σ : Type} [Inhabited σ] : Option (Ck σ) → Ck σ
  | some r => r
  | none => ⟨default, false⟩

/-! ### linalg.h: `filter_matrix_rows` -/

/-- the diagonal search `for(jj ..){ if(Aj[jj] == i){ diag_ind = jj; diagonal = mynorm(Ax[jj]); break; } }`;
state `(diag_ind, diagonal, broke)` started at `(-1, 0, false)` -/
def fmDiag (o : KOps α) (G : Csr α) (ax : Array α) (i s e : Int) : Ck (Int × α × Bool) :=
  forRange s e ((-1 : Int), o.zero, false) (fun jj (acc : Int × α × Bool) =>
    if acc.2.2 then pure acc
    else do
      let j ← rd G.aj jj
      if j = i then do
        let a ← rd ax jj
        pure (jj, o.norm a, true)
      else pure acc)

/-- one row of `filter_matrix_rows` -/
def fmRow (o : KOps α) (lt : α → α → Bool) (theta : α) (lump : Bool) (G : Csr α) (i : Int)
    (ax : Array α) : Ck (Array α) := do
  let s ← rd G.ap i
  let e ← rd G.ap (i+1)
  let d ← fmDiag o G ax i s e
  let thr := o.mul theta d.2.1
  forRange s e ax (fun jj (ax : Array α) => do
    let a ← rd ax jj
    if lt (o.norm a) thr then
      if lump then do
        -- `norm_jj < threshold && Aj[jj] != i`
        let j ← rd G.aj jj
        if j ≠ i then do
          -- `Ax[diag_ind] += Ax[jj]; Ax[jj] = 0.0;`
          let dv ← rd ax d.1
          let ax ← wr ax d.1 (o.add dv a)
          wr ax jj o.zero
        else pure ax
      else wr ax jj o.zero
    else pure ax)

/-- `filter_matrix_rows(n_row, theta, Ap, Aj, Ax, lump)`; returns `Ax` -/
def filterRows (o : KOps α) (lt : α → α → Bool) (theta : α) (lump : Bool) (G : Csr α) : Ck (Array α) :=
  forRange 0 (G.n : Int) G.ax (fun i (ax : Array α) => fmRow o lt theta lump G i ax)

/-! ### ruge_stuben.h: `remove_strong_FF_connections` -/

/-- the dependence test of `row` and `j`: `for ii in S_row { if C(Sj[ii]) { for kk in S_j { if Sj[kk] == Sj[ii] dependence = true } } if dependence break }` -/
def ffDep (S : Csr α) (splitting : Array Int) (s e : Int) (j : Int) : Ck Bool :=
  forRange s e false (fun ii (dep : Bool) =>
    if dep then pure dep
    else do
      let ri ← rd S.aj ii
      let sri ← rd splitting ri
      if sri = 1 then do
        let js ← rd S.ap j
        let je ← rd S.ap (j+1)
        forRange js je dep (fun kk (dep : Bool) => do
          let c ← rd S.aj kk
          if c = ri then pure true else pure dep)
      else pure dep)

/-- `remove_strong_FF_connections(n_nodes, Sp, Sj, Sx, splitting)`; returns `Sx` -/
def removeFF (o : KOps α) (S : Csr α) (splitting : Array Int) : Ck (Array α) :=
  forRange 0 (S.n : Int) S.ax (fun row (sx : Array α) => do
    let sr ← rd splitting row
    if sr = 0 then do
      let s ← rd S.ap row
      let e ← rd S.ap (row+1)
      forRange s e sx (fun jj (sx : Array α) => do
        let j ← rd S.aj jj
        let sj ← rd splitting j
        if sj = 0 then do
          let dep ← ffDep S splitting s e j
          if dep then pure sx else wr sx jj o.zero
        else pure sx)
    else pure sx)

/-! ### evolution_strength.h: `incomplete_mat_mult_csr` -/

/-- state of the `while` loop of `my_inner`: `(sum, A_pos, B_pos)` -/
abbrev IM (α : Type) := α × Int × Int

/-- one iteration of the body of `while(A_pos < A_end && B_pos < B_end)` -/
def imStep (o : KOps α) (A B : Csr α) (st : IM α) : Ck (IM α) := do
  let aj ← rd A.aj st.2.1
  let bj ← rd B.aj st.2.2
  if aj = bj then do
    let a ← rd A.ax st.2.1
    let b ← rd B.ax st.2.2
    pure (o.add st.1 (o.mul a b), st.2.1 + 1, st.2.2 + 1)
  else if aj < bj then pure (st.1, st.2.1 + 1, st.2.2)
  else pure (st.1, st.2.1, st.2.2 + 1)

/-- the `while` loop with fuel; `none` = fuel exhausted -/
def imWhile (o : KOps α) (A B : Csr α) (aend bend : Int) : Nat → Ck (IM α) → Option (Ck (IM α))
  | 0, st => if st.val.2.1 < aend ∧ st.val.2.2 < bend then none else some st
  | f+1, st =>
    if st.val.2.1 < aend ∧ st.val.2.2 < bend then imWhile o A B aend bend f (st >>= imStep o A B)
    else some st

/-- `my_inner(Ap, Aj, Ax, Bp, Bj, Bx, row, col)` -/
def imInner (o : KOps α) (A B : Csr α) (row col : Int) : Ck α := do
  let a0 ← rd A.ap row
  let a1 ← rd A.ap (row+1)
  let b0 ← rd B.ap col
  let b1 ← rd B.ap (col+1)
  let r ← orFault (imWhile o A B a1 b1 ((a1 - a0).toNat + (b1 - b0).toNat) (pure (o.zero, a0, b0)))
  pure r.1

/-- `incomplete_mat_mult_csr(Ap, Aj, Ax, Bp, Bj, Bx, Sp, Sj, Sx, num_rows)`: `A` in CSR, `B` in CSC,
`S` the pattern to fill (`S.n = num_rows`); returns `Sx` -/
def incompleteMatMult (o : KOps α) (A B S : Csr α) : Ck (Array α) :=
  forRange 0 (S.n : Int) S.ax (fun row (sx : Array α) => do
    let s ← rd S.ap row
    let e ← rd S.ap (row+1)
    forRange s e sx (fun ptr (sx : Array α) => do
      let col ← rd S.aj ptr
      let v ← imInner o A B row col
      wr sx ptr v))

end PyamgV.C17
