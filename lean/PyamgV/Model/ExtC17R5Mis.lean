import PyamgV.Model.C13Wrap
/-! PyamgV (C13, extension E46): the public routine `pyamg/classical/split.py: MIS(G, weights, maxiter)`.

`MIS` removes the diagonal of the caller's matrix and hands the remaining pattern (NOT symmetrised) to
`maximal_independent_set_parallel(n, Ap, Aj, -1, 1, 0, mis, weights, max_iters)` with `mis[:] = -1`;
`maxiter = None` is `max_iters = -1`.  The kernel model is the validated array model `G.misParallel`
(`Model/KGraph.lean`) that `PMIS`/`PMISc` use.  Core Lean only. -/
namespace PyamgV.C17R5

variable {W : Type} [LT W] [DecidableRel (α := W) (· < ·)] [DecidableEq W] [Inhabited W]

/-- `MIS(G, weights, maxiter)`; `maxiter = none` is `None` -/
def misSplit (S : C13.Pat) (w : Array W) (maxiter : Option Nat) : Array Int :=
  (G.misParallel (C13.toG (C13.prepS S)) (-1) 1 0 w maxiter (Array.replicate S.n (-1))).1

end PyamgV.C17R5
