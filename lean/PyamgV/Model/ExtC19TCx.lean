import PyamgV.Model.ExtC19SArnoldi
/-! PyamgV (C19, extension E52): complex scalars as pairs, the restart loop of `approximate_spectral_radius`,
`condest` and the singular-value certificate behind `cond` (`pyamg/util/linalg.py:154-478`).

* `Cx F` -- pairs `(re, im)` over any scalar type `F` with the arithmetic of `numpy.complex128` in exact arithmetic
  (`a / b = a conj(b) / |b|^2`), `sqrtC` (`np.sqrt(np.inner(x.conj(), x).real)`: the square root of the real part, a real
  number), `ltC` (NumPy orders complex numbers lexicographically: `H[j+1, j] < breakdown`), `absC` (`np.abs`).
  The Krylov model `C19S.approxEig` of E39 is generic in the scalars: `approxEigVecG conj ...` instantiates it with the
  conjugated inner product `np.dot(np.conjugate(v), w)` (`approxEigCx`: pairs over `F`; `approxEigCFloat`: binary64 pairs,
  what the driver runs; real input is embedded with zero imaginary parts, on which pair arithmetic is bit-identical to
  real arithmetic).
* `asrCycle` / `asrLoop` / `asr` -- `approximate_spectral_radius`: `symmetric = False`; `for j in range(restart+1)`:
  one Krylov process from `v0` (normalised inside `_approximate_eigenvalues`), `max_index = abs(ev).argmax()`,
  `error = H[nvecs, nvecs-1] * evect[-1, max_index]`, `v0 = hstack(V[:-1]) @ evect[:, max_index]`, stop when
  `abs(error)/abs(ev[max_index]) < tol`, or on breakdown; result `abs(ev[max_index])` of the last cycle and the restart
  vector.  The eigen-decomposition of the small Hessenberg matrix is LAPACK's: it is an *oracle input* (eigenvalues and
  eigenvectors of every cycle recorded from the real run) which the model verifies before use: every recorded pair must
  satisfy `|H y - theta y|^2 <= vtolSq |y|^2` and `|y|^2 > 0` (`eigOk`), otherwise the model refuses (`oracle-residual`).
  `max_index` is the first maximiser of `|ev|`; for ties (complex-conjugate pairs, where NumPy's `abs` is not bit-symmetric)
  the oracle may name the index the run used, accepted iff it is a maximiser up to `tieTol` (`pickIdx`).
  `asrVec` adds the argument checks of the function (`maxiter < 1`, `restart < 0`, shape of `initial_guess`, the cast of
  the guess to the dtype of `A`).
* `condestO` -- `condest`: the Krylov process on `A^H A` (`symmetric = False`, `power = 0.5`) resp. on `A` (`symmetric = True`:
  the Lanczos branch, `power = 1`), `(max |ev| / min |ev|) ** power` over the verified oracle eigenvalues.
* `svdCert` / `condCert` -- `cond`: `max(Sigma)/min(Sigma)` for recorded singular triples `(U, Sigma, Vh)` that are verified:
  `A v_i = sigma_i u_i`, `U^H U = I`, `V^H V = I`, `V V^H = I`, `sigma_i` real, within a tolerance.
Core Lean only. -/
namespace PyamgV.C19T
open PyamgV.C07 PyamgV.C19S

/-- complex numbers as pairs over `F` -/
structure Cx (F : Type) where
  re : F
  im : F
deriving DecidableEq, Repr, Inhabited

namespace Cx
section
variable {F : Type}
instance instAdd [Add F] : Add (Cx F) := ⟨fun a b => ⟨a.re + b.re, a.im + b.im⟩⟩
instance instSub [Sub F] : Sub (Cx F) := ⟨fun a b => ⟨a.re - b.re, a.im - b.im⟩⟩
instance instNeg [Neg F] : Neg (Cx F) := ⟨fun a => ⟨-a.re, -a.im⟩⟩
instance instMul [Add F] [Sub F] [Mul F] : Mul (Cx F) := ⟨fun a b => ⟨a.re * b.re - a.im * b.im, a.re * b.im + a.im * b.re⟩⟩
def conj [Neg F] (a : Cx F) : Cx F := ⟨a.re, -a.im⟩
def normSq [Add F] [Mul F] (a : Cx F) : F := a.re * a.re + a.im * a.im
/-- `a * conj b / |b|^2` -/
instance instDiv [Add F] [Sub F] [Mul F] [Div F] : Div (Cx F) :=
  ⟨fun a b => let d := normSq b; ⟨(a.re * b.re + a.im * b.im) / d, (a.im * b.re - a.re * b.im) / d⟩⟩
instance [OfNat F 0] : OfNat (Cx F) 0 := ⟨⟨0, 0⟩⟩
instance [OfNat F 0] [OfNat F 1] : OfNat (Cx F) 1 := ⟨⟨1, 0⟩⟩
def ofRe [OfNat F 0] (a : F) : Cx F := ⟨a, 0⟩
/-- `np.sqrt(z.real)` as a complex number -/
def sqrtC [OfNat F 0] (sqrt : F → F) (z : Cx F) : Cx F := ⟨sqrt z.re, 0⟩
/-- `np.abs(z)` as a complex number -/
def absC [Add F] [Mul F] [OfNat F 0] (sqrt : F → F) (z : Cx F) : Cx F := ⟨sqrt (normSq z), 0⟩
/-- NumPy's order on complex numbers: real parts first, imaginary parts on a tie -/
def ltC (lt : F → F → Bool) (a b : Cx F) : Bool := lt a.re b.re || (!lt b.re a.re && lt a.im b.im)
def iszC (isz : F → Bool) (a : Cx F) : Bool := isz a.re && isz a.im
end
end Cx

/-! ### the Krylov process with a conjugated inner product -/
section
variable {K : Type} [Add K] [Sub K] [Mul K] [Div K] [OfNat K 0] [OfNat K 1]

/-- `C19S.approxEigVec` with the inner product `sum conj(u_i) v_i`; returns the final state -/
def approxEigVecG (conj : K → K) (sqrt : K → K) (lt : K → K → Bool) (isz : K → Bool)
    (A : List (List K)) (tol : K) (symmetric : Bool) (maxiter : Nat) (v0 : List K) :
    Option (List (List K) × List (List K) × Bool) :=
  let n := v0.length
  match toMat? n A, toVec? n v0 with
  | some A, some v0 =>
    let o := vecOps conj A A
    match approxEig o (fun v c => v.map (· / c)) sqrt lt isz tol symmetric n maxiter v0 with
    | none => none
    | some s => some (s.vs.map (·.toList), s.cols, s.brk)
  | _, _ => none
end

/-- pairs over `F` -/
def approxEigCx {F : Type} [Add F] [Sub F] [Mul F] [Div F] [Neg F] [OfNat F 0] [OfNat F 1]
    (sqrt : F → F) (lt : F → F → Bool) (isz : F → Bool) :
    List (List (Cx F)) → Cx F → Bool → Nat → List (Cx F) → Option (List (List (Cx F)) × List (List (Cx F)) × Bool) :=
  approxEigVecG Cx.conj (Cx.sqrtC sqrt) (Cx.ltC lt) (Cx.iszC isz)

/-- binary64 pairs: the instance the driver runs (op `ext_c19t_arnoldi`) -/
def approxEigCFloat := approxEigCx Float.sqrt (fun a b => a < b) (fun a => a == 0)

/-! ### the restart loop of `approximate_spectral_radius` -/
section
variable {K V : Type} [Add K] [Sub K] [Mul K] [Div K] [OfNat K 0] [OfNat K 1]

/-- `sum_{i < k} f i`, summed in order -/
def sumN (f : Nat → K) : Nat → K
  | 0 => 0
  | k+1 => sumN f k + f k

/-- row `i` of `H_m y`: `sum_{j < m} H_ij y_j` -/
def hRow (cols : List (List K)) (m : Nat) (y : List K) (i : Nat) : K :=
  sumN (fun j => hEntry cols i j * y.getD j 0) m

/-- `|H_m y - theta y|^2 = sum_i conj(d_i) d_i` -/
def eigResSq (conj : K → K) (cols : List (List K)) (m : Nat) (θ : K) (y : List K) : K :=
  sumN (fun i => let d := hRow cols m y i - θ * y.getD i 0; conj d * d) m

/-- `|y|^2` -/
def vecSq (conj : K → K) (m : Nat) (y : List K) : K := sumN (fun i => conj (y.getD i 0) * y.getD i 0) m

/-- a recorded eigenpair is accepted: `|H y - theta y|^2 <= vtolSq |y|^2`, `|y|^2 > 0`, `y` has `m` entries -/
def eigOk (conj : K → K) (lt : K → K → Bool) (vtolSq : K) (cols : List (List K)) (m : Nat) (θ : K) (y : List K) : Bool :=
  y.length == m && !lt (vtolSq * vecSq conj m y) (eigResSq conj cols m θ y) && lt 0 (vecSq conj m y)

/-- every recorded pair is accepted -/
def eigAllOk (conj : K → K) (lt : K → K → Bool) (vtolSq : K) (cols : List (List K)) (m : Nat) :
    List K → List (List K) → Bool
  | θ :: ev, y :: ys => eigOk conj lt vtolSq cols m θ y && eigAllOk conj lt vtolSq cols m ev ys
  | [], [] => true
  | _, _ => false

/-- `np.argmax`: index of the first maximum -/
def argmaxGo (lt : K → K → Bool) : List K → Nat → Nat → K → Nat
  | [], _, best, _ => best
  | x :: xs, i, best, bv => if lt bv x then argmaxGo lt xs (i + 1) i x else argmaxGo lt xs (i + 1) best bv
def argmaxO (lt : K → K → Bool) : List K → Nat
  | [] => 0
  | x :: xs => argmaxGo lt xs 1 0 x

/-- `np.argmin` (used by `condest`: `min(norm(x) for x in ev)`) -/
def minO (lt : K → K → Bool) : List K → K
  | [] => 0
  | x :: xs => xs.foldl (fun b z => if lt z b then z else b) x
def maxO (lt : K → K → Bool) : List K → K
  | [] => 0
  | x :: xs => xs.foldl (fun b z => if lt b z then z else b) x

/-- `np.dot(np.hstack(vs), y)`: `sum_j y_j vs_j` -/
def rvO (o : Ops K V) : List K → List V → Option V
  | y :: ys, v :: vs => some (combO o (o.smul y v) ys vs)
  | _, _ => none

/-- what one pass of the `for j in range(restart+1)` loop computes -/
structure Cyc (K V : Type) where
  st : AeSt K V      -- the Krylov process of this cycle
  idx : Nat          -- `max_index`
  theta : K          -- `ev[max_index]`
  y : List K         -- `evect[:, max_index]`
  err : K            -- `error`
  next : V           -- the new `v0`
  conv : Bool        -- `abs(error)/abs(ev[max_index]) < tol`

/-- `max_index`: `np.abs(ev).argmax()`.  NumPy's vectorised `abs` of the two members of a complex-conjugate pair can
differ in the last bit, so which member of a tie `argmax` returns is not determined by the values: the oracle may carry
the index the run used (`hint`), which is accepted iff it is a maximiser up to `tieTol`
(`|ev[h]| + tieTol >= max |ev|`); without a hint the first maximiser is taken -/
def pickIdx (lt : K → K → Bool) (absf : K → K) (tieTol : K) (ev : List K) : Option Nat → Option Nat
  | none => some (argmaxO lt (ev.map absf))
  | some h =>
    if h < ev.length && !lt (absf (ev.getD h 0) + tieTol) (absf (ev.getD (argmaxO lt (ev.map absf)) 0)) then some h
    else none

/-- one pass: Krylov process from `v0`, the oracle eigenpairs `(ev, evect)` of `H[:m, :m]` are verified, then the
dominant pair, the `error` estimate and the restart vector -/
def asrCycle (o : Ops K V) (vdiv : V → K → V) (sqrt : K → K) (lt : K → K → Bool) (isz : K → Bool)
    (conj absf : K → K) (brkTol tol vtolSq tieTol : K) (n maxiter : Nat) (v0 : V) (ev : List K) (evect : List (List K))
    (hint : Option Nat) : Except String (Cyc K V) :=
  match approxEig o vdiv sqrt lt isz brkTol false n maxiter v0 with
  | none => .error "maxiter"
  | some s =>
    let m := s.cols.length
    if ev.length ≠ m then .error "oracle-shape" else
    if !eigAllOk conj lt vtolSq s.cols m ev evect then .error "oracle-residual" else
    match pickIdx lt absf tieTol ev hint with
    | none => .error "oracle-index"
    | some idx =>
      let θ := ev.getD idx 0
      let y := evect.getD idx []
      let err := hEntry s.cols m (m - 1) * y.getD (m - 1) 0
      match rvO o y s.vs.dropLast with
      | none => .error "empty"
      | some nx => .ok ⟨s, idx, θ, y, err, nx, lt (absf err / absf θ) tol⟩

/-- the loop: `fuel = restart + 1` passes at most; left after the pass that converged or broke down -/
def asrLoop (o : Ops K V) (vdiv : V → K → V) (sqrt : K → K) (lt : K → K → Bool) (isz : K → Bool)
    (conj absf : K → K) (brkTol tol vtolSq tieTol : K) (n maxiter : Nat) :
    Nat → V → List (List K × List (List K) × Option Nat) → List (Cyc K V) → Except String (List (Cyc K V))
  | 0, _, _, acc => .ok acc
  | _+1, _, [], _ => .error "oracle-exhausted"
  | f+1, v0, (ev, evect, hint) :: rest, acc =>
    match asrCycle o vdiv sqrt lt isz conj absf brkTol tol vtolSq tieTol n maxiter v0 ev evect hint with
    | .error e => .error e
    | .ok c =>
      if c.conv || c.st.brk then .ok (acc ++ [c])
      else asrLoop o vdiv sqrt lt isz conj absf brkTol tol vtolSq tieTol n maxiter f c.next rest (acc ++ [c])

/-- `approximate_spectral_radius(A, tol, maxiter, restart, initial_guess = v0)`: the passes made; the value returned
is `absf` of the `theta` of the last one, the vector returned with `return_vector=True` is its `next` -/
def asr (o : Ops K V) (vdiv : V → K → V) (sqrt : K → K) (lt : K → K → Bool) (isz : K → Bool)
    (conj absf : K → K) (brkTol tol vtolSq tieTol : K) (n maxiter restart : Nat) (v0 : V)
    (oracle : List (List K × List (List K) × Option Nat)) : Except String (List (Cyc K V)) :=
  asrLoop o vdiv sqrt lt isz conj absf brkTol tol vtolSq tieTol n maxiter (restart + 1) v0 oracle []

/-- the returned estimate -/
def asrRho (absf : K → K) (cs : List (Cyc K V)) : Option K := cs.getLast?.map (fun c => absf c.theta)

/-! ### `condest` -/

/-- the operator `v -> B.rmatvec(B.matvec(v))` -/
def normalOps (o : Ops K V) : Ops K V := { o with A := fun v => o.AH (o.A v) }

/-- `condest(A, maxiter, symmetric)` from the start vector `v0` that `_approximate_eigenvalues` draws: the Krylov
process on `A^H A` (general branch) or on `A` (`symmetric`: Lanczos branch), the oracle eigenvalues verified with their
eigenvectors, `(max |ev| / min |ev|) ** power` with `x ** 0.5 = sqrt x`.  Returns `(estimate, max |ev|, min |ev|, state)`. -/
def condestO (o : Ops K V) (vdiv : V → K → V) (sqrt : K → K) (lt : K → K → Bool) (isz : K → Bool)
    (conj absf : K → K) (brkTol vtolSq : K) (symmetric : Bool) (n maxiter : Nat) (v0 : V)
    (ev : List K) (evect : List (List K)) : Except String (K × K × K × AeSt K V) :=
  let op := if symmetric then o else normalOps o
  match approxEig op vdiv sqrt lt isz brkTol symmetric n maxiter v0 with
  | none => .error "maxiter"
  | some s =>
    let m := s.cols.length
    if ev.length ≠ m then .error "oracle-shape" else
    if !eigAllOk conj lt vtolSq s.cols m ev evect then .error "oracle-residual" else
    let mx := maxO lt (ev.map absf)
    let mn := minO lt (ev.map absf)
    let q := mx / mn
    .ok (if symmetric then q else sqrt q, mx, mn, s)

/-! ### `cond`: verified singular triples -/

/-- `sum_i conj(u_i) v_i` over the first `n` entries of two lists -/
def ldot (conj : K → K) (n : Nat) (u v : List K) : K := sumN (fun i => conj (u.getD i 0) * v.getD i 0) n
/-- `|a|^2` -/
def sqAbs (conj : K → K) (a : K) : K := conj a * a
/-- `A x` for `A` by rows -/
def lmv (n : Nat) (A : List (List K)) (x : List K) : List K :=
  (List.range n).map (fun i => sumN (fun j => (A.getD i []).getD j 0 * x.getD j 0) n)

/-- total squared defect of the certificate `A v_i = sigma_i u_i`, `U^H U = I`, `V^H V = I`, `V V^H = I`,
`sigma_i = conj sigma_i` (`us`, `vs`: the columns of `U` and of `V = Vh^H`) -/
def svdDefect (conj : K → K) (n : Nat) (A us vs : List (List K)) (sig : List K) : K :=
  let kron := fun (i j : Nat) => if i = j then (1 : K) else 0
  let dAv := sumN (fun i => sumN (fun r =>
    sqAbs conj ((lmv n A (vs.getD i [])).getD r 0 - sig.getD i 0 * (us.getD i []).getD r 0)) n) n
  let dU := sumN (fun i => sumN (fun j => sqAbs conj (ldot conj n (us.getD i []) (us.getD j []) - kron i j)) n) n
  let dV := sumN (fun i => sumN (fun j => sqAbs conj (ldot conj n (vs.getD i []) (vs.getD j []) - kron i j)) n) n
  let dW := sumN (fun r => sumN (fun s =>
    sqAbs conj (sumN (fun i => (vs.getD i []).getD r 0 * conj ((vs.getD i []).getD s 0)) n - kron r s)) n) n
  let dS := sumN (fun i => sqAbs conj (sig.getD i 0 - conj (sig.getD i 0))) n
  dAv + dU + dV + dW + dS

/-- the certificate is accepted: shapes fit and the defect is at most `tolSq` -/
def svdCert (conj : K → K) (lt : K → K → Bool) (tolSq : K) (n : Nat) (A us vs : List (List K)) (sig : List K) : Bool :=
  sig.length == n && !lt tolSq (svdDefect conj n A us vs sig)

/-- `cond(A) = max(Sigma) / min(Sigma)` for verified singular triples -/
def condCert (conj : K → K) (lt : K → K → Bool) (tolSq : K) (n : Nat) (A us vs : List (List K)) (sig : List K) :
    Except String K :=
  if n = 0 then .error "empty" else
  if !svdCert conj lt tolSq n A us vs sig then .error "certificate" else
  .ok (maxO lt sig / minO lt sig)
end

/-! ### the `Vector` / list instances -/
section
variable {K : Type} [Add K] [Sub K] [Mul K] [Div K] [OfNat K 0] [OfNat K 1]

/-- one pass as lists: `(flag, V, H columns, max_index, theta, error, new v0, converged)` -/
structure CycL (K : Type) where
  brk : Bool
  vs : List (List K)
  cols : List (List K)
  idx : Nat
  theta : K
  err : K
  next : List K
  conv : Bool

/-- `approximate_spectral_radius(A, tol, maxiter, restart, initial_guess)` on lists, with the argument checks of the
function: `maxiter < 1`, `restart < 0`, a guess whose length is not `n` are rejected; `cast` is the conversion of the guess
to the dtype of `A` (`np.array(v0, dtype=A.dtype)`: the real part for a real matrix) -/
def asrVec (conj : K → K) (sqrt : K → K) (lt : K → K → Bool) (isz : K → Bool) (absf cast : K → K)
    (A : List (List K)) (brkTol tol vtolSq tieTol : K) (maxiter restart : Int) (guess : List K)
    (oracle : List (List K × List (List K) × Option Nat)) : Except String (List (CycL K)) :=
  let n := A.length
  if maxiter < 1 then .error "expected maxiter > 0" else
  if restart < 0 then .error "expected restart >= 0" else
  if A.any (·.length ≠ n) then .error "expected square A" else
  if guess.length ≠ n then .error "initial_guess and A must have same shape" else
  match toMat? n A, toVec? n (guess.map cast) with
  | some A, some v0 =>
    match asr (vecOps conj A A) (fun v c => v.map (· / c)) sqrt lt isz conj absf brkTol tol vtolSq tieTol n
        maxiter.toNat restart.toNat v0 oracle with
    | .error e => .error e
    | .ok cs => .ok (cs.map fun c => ⟨c.st.brk, c.st.vs.map (·.toList), c.st.cols, c.idx, c.theta, c.err, c.next.toList, c.conv⟩)
  | _, _ => .error "bad-size"

/-- `condest` on lists: `(estimate, max |ev|, min |ev|, flag, V, H columns)` -/
def condestVec (conj : K → K) (sqrt : K → K) (lt : K → K → Bool) (isz : K → Bool) (absf : K → K)
    (A : List (List K)) (brkTol vtolSq : K) (symmetric : Bool) (maxiter : Nat) (v0 : List K)
    (ev : List K) (evect : List (List K)) : Except String (K × K × K × Bool × List (List K) × List (List K)) :=
  let n := v0.length
  match toMat? n A, toVec? n v0 with
  | some A, some v0 =>
    match condestO (vecOps conj A A) (fun v c => v.map (· / c)) sqrt lt isz conj absf brkTol vtolSq symmetric n maxiter v0
        ev evect with
    | .error e => .error e
    | .ok (c, mx, mn, s) => .ok (c, mx, mn, s.brk, s.vs.map (·.toList), s.cols)
  | _, _ => .error "bad-size"
end

section
variable {F : Type} [Add F] [Sub F] [Mul F] [Div F] [Neg F] [OfNat F 0] [OfNat F 1]

/-- `np.array(v0, dtype=A.dtype)` for a real `A`: the imaginary part is discarded -/
def castRe (realA : Bool) (z : Cx F) : Cx F := if realA then ⟨z.re, 0⟩ else z

def asrCx (sqrt : F → F) (lt : F → F → Bool) (isz : F → Bool) (realA : Bool) :=
  asrVec (K := Cx F) Cx.conj (Cx.sqrtC sqrt) (Cx.ltC lt) (Cx.iszC isz) (Cx.absC sqrt) (castRe realA)
def condestCx (sqrt : F → F) (lt : F → F → Bool) (isz : F → Bool) :=
  condestVec (K := Cx F) Cx.conj (Cx.sqrtC sqrt) (Cx.ltC lt) (Cx.iszC isz) (Cx.absC sqrt)
def condCertCx (lt : F → F → Bool) :=
  condCert (K := Cx F) Cx.conj (Cx.ltC lt)
end

/-- the binary64 instances the driver runs -/
def asrCFloat := asrCx Float.sqrt (fun a b => a < b) (fun a => a == 0)
def condestCFloat := condestCx Float.sqrt (fun a b => a < b) (fun a => a == 0)
def condCertCFloat := condCertCx (F := Float) (fun a b => a < b)

/-- square root of a rational number, exact on squares (for the examples) -/
def approxEigCxRat := approxEigCx sqrtQ (fun a b => decide (a < b)) (fun a => decide (a = 0))
def asrCxRat := asrCx sqrtQ (fun a b => decide (a < b)) (fun a => decide (a = 0))
def condestCxRat := condestCx sqrtQ (fun a b => decide (a < b)) (fun a => decide (a = 0))
def condCertCxRat := condCertCx (F := Rat) (fun a b => decide (a < b))

/-! ### summaries (for the examples of `Props/C19.lean`) -/
/-- `(theta, error, converged, breakdown_flag)` of every pass -/
def asrSummary {K : Type} (r : Except String (List (CycL K))) : Option (List (K × K × Bool × Bool)) :=
  match r with
  | .ok cs => some (cs.map fun c => (c.theta, c.err, c.conv, c.brk))
  | .error _ => none
/-- the error message of a refused call -/
def asrError {K : Type} (r : Except String (List (CycL K))) : Option String :=
  match r with
  | .ok _ => none
  | .error e => some e
/-- `(estimate, max |ev|, min |ev|)` -/
def condestSummary {K : Type} (r : Except String (K × K × K × Bool × List (List K) × List (List K))) : Option (K × K × K) :=
  match r with
  | .ok (c, mx, mn, _) => some (c, mx, mn)
  | .error _ => none
def exceptVal {K : Type} (r : Except String K) : Option K :=
  match r with
  | .ok c => some c
  | .error _ => none

end PyamgV.C19T
