import PyamgV.Model.ExtC17R4Graph

/-! PyamgV (C17, extension E32, round 4): checked-execution (`Ck`) model of `cljp_naive_splitting` (ruge_stuben.h),
written loop by loop after the C++.

* the private vectors `edgemark(nnz,1)` (`nnz = Sp[n]`), `coloring(n)`, `weight(n)`, `D(n,0)`, `Dlist(n,0)` and the array
  `c_dep_cache = new int[n]` are arrays accessed through `rd`/`wr`;
* `colorflag == 1`: the weights come from the checked model of `vertex_coloring_mis` and
  `*std::max_element(coloring.begin(), coloring.end())` (the kernel returns at once for `n = 0`);
  otherwise `weight[i] = double(rand())/RAND_MAX` after `srand(2448422)`: the sequence is a parameter `rnd` of the model
  (not memory of the caller: read with `getD`), the check replays the C library generator;
* `while(unassigned > 0)` runs on fuel; `none` = fuel exhausted.

The weights are abstract (`CjOps`).  Core Lean only. -/
namespace PyamgV.C17R4
open PyamgV.Ck PyamgV.C17

/-- the operations on `double weight`: `double(c)/double(ncolors)`, `w++`, `w--`, `a > b`, `w < 1` -/
structure CjOps (α : Type) where
  ofColor : Int → Int → α
  inc : α → α
  dec : α → α
  gt : α → α → Bool
  ltOne : α → Bool

variable {α : Type} [Inhabited α]

/-- the state of the selection loop -/
structure CJ (α : Type) where
  spl : Array Int
  wt : Array α
  em : Array Int
  D : Array Int
  Dl : Array Int
  cache : Array Int
  un : Int

instance : Inhabited (CJ α) := ⟨⟨#[], #[], #[], #[], #[], #[], 0⟩⟩

/-- `weight[i] = double(coloring[i])/double(ncolors)` with `ncolors = max(coloring) + 1` -/
def cjColorWeights (o : CjOps α) (n : Nat) (sp sj : Array Int) (wt : Array α) : Ck (Array α) := do
  let c ← vertexColoringMis n sp sj (Array.replicate n (0 : Int))
  let mx ← maxElem n c.1
  forRange 0 (n : Int) wt (fun i (wt : Array α) => do
    let ci ← rd c.1 i
    wr wt i (o.ofColor ci (mx + 1)))

/-- `weight[i] = double(rand())/RAND_MAX` -/
def cjRandWeights (n : Nat) (rnd : Array α) (wt : Array α) : Ck (Array α) :=
  forRange 0 (n : Int) wt (fun i (wt : Array α) => wr wt i (rnd.getD i.toNat default))

/-- `if(i != j) weight[j]++` over all stored entries -/
def cjCount (o : CjOps α) (n : Nat) (sp sj : Array Int) (wt : Array α) : Ck (Array α) :=
  forRange 0 (n : Int) wt (fun i (wt : Array α) => do
    let s ← rd sp i
    let e ← rd sp (i+1)
    forRange s e wt (fun jj (wt : Array α) => do
      let j ← rd sj jj
      if i ≠ j then do
        let wj ← rd wt j
        wr wt j (o.inc wj)
      else pure wt))

/-- one of the two scans of the selection: `if(splitting[j]==U_NODE && weight[j]>weight[i]){ D[i] = 0; break; }`;
state `(D, broke)` -/
def cjScan (o : CjOps α) (gj : Array Int) (spl : Array Int) (wt : Array α) (i : Int) (s e : Int) (D : Array Int) :
    Ck (Array Int × Bool) :=
  forRange s e (D, false) (fun jj (st : Array Int × Bool) =>
    if st.2 then pure st
    else do
      let j ← rd gj jj
      let sj ← rd spl j
      if sj = 2 then do
        let wj ← rd wt j
        let wi ← rd wt i
        if o.gt wj wi then do
          let D ← wr st.1 i 0
          pure (D, true)
        else pure st
      else pure st)

/-- SELECT INDEPENDENT SET: state `(D, Dlist, unassigned, nD)` -/
def cjSelect (o : CjOps α) (n : Nat) (sp sj tp tj : Array Int) (spl : Array Int) (wt : Array α)
    (st : Array Int × Array Int × Int × Int) : Ck (Array Int × Array Int × Int × Int) :=
  forRange 0 (n : Int) st (fun i (st : Array Int × Array Int × Int × Int) => do
    let si ← rd spl i
    if si = 2 then do
      let D ← wr st.1 i 1
      let s ← rd sp i
      let e ← rd sp (i+1)
      let r ← cjScan o sj spl wt i s e D
      let di ← rd r.1 i
      let D ← (if di = 1 then do
          let s2 ← rd tp i
          let e2 ← rd tp (i+1)
          let r2 ← cjScan o tj spl wt i s2 e2 r.1
          pure r2.1
        else pure r.1)
      let di ← rd D i
      if di = 1 then do
        let Dl ← wr st.2.1 st.2.2.2 i
        pure (D, Dl, st.2.2.1 - 1, st.2.2.2 + 1)
      else pure (D, st.2.1, st.2.2.1, st.2.2.2)
    else do
      let D ← wr st.1 i 0
      pure (D, st.2.1, st.2.2.1, st.2.2.2))

/-- `weight[j]--; if(weight[j]<1){ splitting[j] = F_NODE; unassigned--; }`; state `(splitting, weight, unassigned)` -/
def cjDrop (o : CjOps α) (j : Int) (st : Array Int × Array α × Int) : Ck (Array Int × Array α × Int) := do
  let wj ← rd st.2.1 j
  let wt ← wr st.2.1 j (o.dec wj)
  let wj ← rd wt j
  if o.ltOne wj then do
    let spl ← wr st.1 j 0
    pure (spl, wt, st.2.2 - 1)
  else pure (st.1, wt, st.2.2)

/-- P5: state `(splitting, weight, edgemark, unassigned)` -/
def cjP5 (o : CjOps α) (sp sj : Array Int) (Dl : Array Int) (nD : Int)
    (st : Array Int × Array α × Array Int × Int) : Ck (Array Int × Array α × Array Int × Int) :=
  forRange 0 nD st (fun iD (st : Array Int × Array α × Array Int × Int) => do
    let c ← rd Dl iD
    let s ← rd sp c
    let e ← rd sp (c+1)
    forRange s e st (fun jj (st : Array Int × Array α × Array Int × Int) => do
      let j ← rd sj jj
      let sv ← rd st.1 j
      if sv = 2 then do
        let m ← rd st.2.2.1 jj
        if m ≠ 0 then do
          let em ← wr st.2.2.1 jj 0
          let r ← cjDrop o j (st.1, st.2.1, st.2.2.2)
          pure (r.1, r.2.1, em, r.2.2)
        else pure st
      else pure st))

/-- P6: state `(splitting, weight, edgemark, c_dep_cache, unassigned)` -/
def cjP6 (o : CjOps α) (sp sj tp tj : Array Int) (Dl : Array Int) (nD : Int)
    (st : Array Int × Array α × Array Int × Array Int × Int) : Ck (Array Int × Array α × Array Int × Array Int × Int) :=
  forRange 0 nD st (fun iD (st : Array Int × Array α × Array Int × Array Int × Int) => do
    let c ← rd Dl iD
    let s ← rd tp c
    let e ← rd tp (c+1)
    let cache ← forRange s e st.2.2.2.1 (fun jj (cache : Array Int) => do
      let j ← rd tj jj
      let sv ← rd st.1 j
      if sv = 2 then wr cache j c else pure cache)
    forRange s e ((st.1, st.2.1, st.2.2.1, cache, st.2.2.2.2) : Array Int × Array α × Array Int × Array Int × Int)
      (fun jj (st : Array Int × Array α × Array Int × Array Int × Int) => do
        let j ← rd tj jj
        let s2 ← rd sp j
        let e2 ← rd sp (j+1)
        forRange s2 e2 st (fun kk (st : Array Int × Array α × Array Int × Array Int × Int) => do
          let k ← rd sj kk
          let sv ← rd st.1 k
          if sv = 2 then do
            let m ← rd st.2.2.1 kk
            if m ≠ 0 then do
              let ck ← rd st.2.2.2.1 k
              if ck = c then do
                let em ← wr st.2.2.1 kk 0
                let r ← cjDrop o k (st.1, st.2.1, st.2.2.2.2)
                pure (r.1, r.2.1, em, st.2.2.2.1, r.2.2)
              else pure st
            else pure st
          else pure st)))

/-- one pass of `while(unassigned > 0)` -/
def cjPass (o : CjOps α) (n : Nat) (sp sj tp tj : Array Int) (st : CJ α) : Ck (CJ α) := do
  let sel ← cjSelect o n sp sj tp tj st.spl st.wt (st.D, st.Dl, st.un, 0)
  let spl ← forRange 0 sel.2.2.2 st.spl (fun i (spl : Array Int) => do
    let c ← rd sel.2.1 i
    wr spl c 1)
  let p5 ← cjP5 o sp sj sel.2.1 sel.2.2.2 (spl, st.wt, st.em, sel.2.2.1)
  let p6 ← cjP6 o sp sj tp tj sel.2.1 sel.2.2.2 (p5.1, p5.2.1, p5.2.2.1, st.cache, p5.2.2.2)
  pure ⟨p6.1, p6.2.1, p6.2.2.1, sel.1, sel.2.1, p6.2.2.2.1, p6.2.2.2.2⟩

/-- `while(unassigned > 0)` with fuel; `none` = fuel exhausted -/
def cjWhile (o : CjOps α) (n : Nat) (sp sj tp tj : Array Int) : Nat → Ck (CJ α) → Option (Ck (CJ α))
  | 0, st => if st.val.un > 0 then none else some st
  | f+1, st => if st.val.un > 0 then cjWhile o n sp sj tp tj f (st >>= cjPass o n sp sj tp tj) else some st

/-- `cljp_naive_splitting(n, Sp, Sj, Tp, Tj, splitting, colorflag)`; returns `splitting`; `z` is the value the vector
`weight(n)` is initialised with -/
def cljp (o : CjOps α) (z : α) (n : Nat) (sp sj tp tj : Array Int) (spl : Array Int) (colorflag : Int) (rnd : Array α)
    (fuel : Nat) : Option (Ck (Array Int)) :=
  -- `if(n == 0) return;`
  if n = 0 then some (pure spl) else
  let init : Ck (CJ α) := do
    let nnz ← rd sp (n : Int)
    let spl ← fillN n 2 spl
    let wt ← (if colorflag = 1 then cjColorWeights o n sp sj (Array.replicate n z)
      else cjRandWeights n rnd (Array.replicate n z))
    let wt ← cjCount o n sp sj wt
    pure ⟨spl, wt, Array.replicate nnz.toNat 1, Array.replicate n 0, Array.replicate n 0, Array.replicate n (-1), (n : Int)⟩
  (cjWhile o n sp sj tp tj fuel init).map (fun r => do
    let st ← r
    let nnz ← rd sp (n : Int)
    -- `for(i < Sp[n]) if(edgemark[i] == 0) edgemark[i] = -1;`
    let _ ← forRange 0 nnz st.em (fun i (em : Array Int) => do
      let m ← rd em i
      if m = 0 then wr em i (-1) else pure em)
    forRange 0 (n : Int) st.spl (fun i (spl : Array Int) => do
      let s ← rd spl i
      if s = 2 then wr spl i 0 else pure spl))

end PyamgV.C17R4
