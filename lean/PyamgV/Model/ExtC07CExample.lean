import PyamgV.Model.C07Krylov
/-! PyamgV (C07, extension E37): a concrete complex 2 × 2 Hermitian positive definite instance on which the executable
recurrence model over the Gaussian rationals is evaluated by the kernel (non-vacuity of the hypotheses of the complex
C07 theorems, see `Props/C07.lean`). Core Lean only. -/
namespace PyamgV.C07.ExC
open PyamgV

/-- `[[2, i], [−i, 3]]` -/
def A₁ : Vector (Vector CRat 2) 2 := #v[#v[⟨2, 0⟩, ⟨0, 1⟩], #v[⟨0, -1⟩, ⟨3, 0⟩]]
def M₁ : Vector (Vector CRat 2) 2 := #v[#v[⟨1, 0⟩, ⟨0, 0⟩], #v[⟨0, 0⟩, ⟨1/2, 0⟩]]
def b₁ : Vector CRat 2 := #v[⟨1, 0⟩, ⟨0, 0⟩]
def z₁ : Vector CRat 2 := #v[⟨0, 0⟩, ⟨0, 0⟩]
/-- the exact solution `(3/5, i/5)` -/
def s₁ : Vector CRat 2 := #v[⟨3/5, 0⟩, ⟨0, 1/5⟩]

/-- what op `c07_iter cg c` returns for two steps -/
def cgOut : List (Vector CRat 2) :=
  iterates (cgStep (vecOps CRat.conj A₁ M₁) b₁) (cgDen (vecOps CRat.conj A₁ M₁)) (·.x) 2
    (cgInit (vecOps CRat.conj A₁ M₁) b₁ z₁)
def crOut : List (Vector CRat 2) :=
  iterates (crStep (vecOps CRat.conj A₁ M₁) b₁) (crDen (vecOps CRat.conj A₁ M₁)) (·.x) 2
    (crInit (vecOps CRat.conj A₁ M₁) b₁ z₁)

/-- no breakdown in the first two steps, two distinct iterates, the second is the exact solution -/
theorem cg_two_steps : cgOut.length = 2 ∧ cgOut[0]? ≠ cgOut[1]? ∧ cgOut[1]? = some s₁ ∧ vmv A₁ s₁ = b₁ := by
  decide +kernel

/-- the diagonal preconditioner does not commute with `A₁`: CR with it takes two steps without reaching the solution
(the known finding `cr-noncommuting-preconditioner`) -/
theorem cr_two_steps_noncommuting : crOut.length = 2 ∧ crOut[1]? ≠ some s₁ := by
  decide +kernel

end PyamgV.C07.ExC
