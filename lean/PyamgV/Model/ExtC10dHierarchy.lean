import PyamgV.Model.ExtC10dEnergy
/-! PyamgV (extension E53, property C10): executable model of the level loop of
`smoothed_aggregation_solver` / `rootnode_solver` (`_extend_hierarchy`) as far as property C10 is concerned:
given, per level, the aggregation `AggOp` (in the CSC form `fit_candidates` hands to the kernel), the strength
matrix and (root-node solver) the root dofs, the model computes

    T, B_c = fit_candidates(AggOp, B)            (`C10M.fitCandidates`, `denseT`)
    [root]  T = scale_T(T, P_I, I_F); B_c = P_I^T B
    P = smoother(A, T, C, B_c, ...)              (parameter `smo`; `smoEnergy` = `energyFullCG` / `energyFullGmres`)
    A <- P^H A P,  B <- B_c                      (symmetry = 'hermitian' / 'symmetric')

level after level.  Strength and aggregation are inputs (properties C01-C04, C12 are about them).  Core Lean
only; the theorems are in `Proofs/ExtC10dHierarchy.lean`. -/
namespace PyamgV.C10dM
open PyamgV.C10M (Mat Pat FitOps FitState rdN)
open PyamgV.C19 (RowOf Rows)

section generic
variable {α : Type} [Add α] [Sub α] [Mul α] [Div α] [OfNat α 0] [OfNat α 1] [DecidableEq α]

/-- `B.ravel()` of an `n x k` matrix -/
def ravel (n k : Nat) (B : Mat α) : Array α := (Array.range (n * k)).map fun t => B.get (t / k) (t % k)

/-- the tentative prolongator assembled from the kernel's `Ax` (`Q = bsr((Qx, AggOp_csc.indices,
AggOp_csc.indptr)).T`): row `i` of column `(a, c)` is stored in the block of node `i / K1` if aggregate `a`
lists that node, and is zero otherwise -/
def denseT (st : FitState α) (nFine nCol K1 K2 : Nat) (cp ci : Array Nat) : Mat α :=
  Mat.ofFn (nFine * K1) (nCol * K2) fun i j =>
    match (List.range' (rdN cp (j / K2)) (rdN cp (j / K2 + 1) - rdN cp (j / K2))).find?
        (fun ii => rdN ci ii == i / K1) with
    | some ii => st.ax.getD (K1 * K2 * ii + (i % K1) * K2 + j % K2) 0
    | none => 0

/-- stored block columns of `T` (block row = node): the aggregates that list the node -/
def tpatOf (nFine nCol : Nat) (cp ci : Array Nat) : Pat :=
  (Array.range nFine).map fun i => ((List.range nCol).filter fun a =>
    (List.range' (rdN cp a) (rdN cp (a + 1) - rdN cp a)).any fun ii => rdN ci ii == i).toArray

/-- the arrays describe an aggregation: pointers ascending and inside `ci`, nodes in range, each node listed
at most once (`C10R.ValidAgg`, decided) -/
def validAggB (nFine nCol : Nat) (cp ci : Array Nat) : Bool :=
  ((List.range nCol).all fun j => decide (rdN cp j ≤ rdN cp (j + 1))) && decide (rdN cp nCol ≤ ci.size) &&
  ((List.range (rdN cp nCol)).all fun ii => decide (rdN ci ii < nFine)) &&
  ((List.range (rdN cp nCol)).all fun ii => (List.range (rdN cp nCol)).all fun ii' =>
    decide (rdN ci ii = rdN ci ii' → ii = ii'))

/-- the inputs of one level that the model does not compute itself -/
structure LvlIn (α : Type) where
  /-- nodes and aggregates -/
  nFine : Nat
  nCol : Nat
  /-- `AggOp.tocsc()` -/
  cp : Array Nat
  ci : Array Nat
  /-- the strength matrix (node level) -/
  atilde : Rows α
  /-- root dofs in coarse order (`rootnode_solver`; empty for `smoothed_aggregation_solver`) -/
  cpts : Array Nat
  /-- Jacobi / Richardson smoothers: the weight `omega / rho` the real run used on this level (`omega` for `'local'`
  weighting); `approximate_spectral_radius` is not modelled -/
  w : α

/-- one level of the hierarchy: its own `A`, `B`, block size, and what was computed from them -/
structure LvlOut (α δ : Type) where
  K1 : Nat
  A : Mat α
  B : Mat α
  /-- the kernel's state (`Ax`, `R`, exactness of the square roots) -/
  st : FitState α
  /-- the tentative prolongator handed to the smoother -/
  T : Mat α
  Bc : Mat α
  P : Mat α
  diag : δ
  /-- the next level's operator `P^H A P` and block size -/
  Anext : Mat α
  K1next : Nat

/-- `B[:, 0:k]` -/
def firstCols (k : Nat) (B : Mat α) : Mat α := Mat.ofFn B.rows k fun i j => B.get i j

/-- `P_I^T B`: the rows of the root dofs -/
def rootRows (cpts : Array Nat) (nd : Nat) (B : Mat α) : Mat α := Mat.ofFn cpts.size nd fun k c => B.get (cpts.getD k 0) c

/-- one pass of `_extend_hierarchy` (`root`: `rootnode.py`, else `aggregation.py`) from the fit on; `smo` is the
prolongation smoother (`Except.error`: it failed), `rnd` an entrywise rounding of the Galerkin product (`id` =
exact) -/
def levelStep {δ : Type} (o : FitOps α α) (conj : α → α) (rnd : α → α) (root : Bool) (tol : α)
    (smo : LvlIn α → (K1 K2 : Nat) → (A T Bc Bf : Mat α) → Except String (Mat α × δ))
    (L : LvlIn α) (K1 : Nat) (A B : Mat α) : Except String (LvlOut α δ) :=
  let n := L.nFine * K1
  let nd := B.cols
  if !(decide (0 < n) && decide (0 < nd) && decide (A.rows = n) && decide (A.cols = n) && decide (B.rows = n)) then
    .error "shape"
  else if !(validAggB L.nFine L.nCol L.cp L.ci) then .error "aggop"
  else if !root then
    -- T, B = fit_candidates(AggOp, B)
    let st := PyamgV.C10M.fitCandidates o L.nCol K1 nd L.cp L.ci (ravel n nd B) tol
    let T := denseT st L.nFine L.nCol K1 nd L.cp L.ci
    let Bc := Mat.unflat (L.nCol * nd) nd st.r
    match smo L K1 nd A T Bc B with
    | .error e => .error e
    | .ok (P, d) =>
      let An := Mat.ofFn (L.nCol * nd) (L.nCol * nd) fun i j =>
        rnd ((Mat.mul (Mat.ctranspose conj P) (Mat.mul A P)).get i j)
      .ok { K1 := K1, A := A, B := B, st := st, T := T, Bc := Bc, P := P, diag := d, Anext := An, K1next := nd }
  else
    -- T, dummy = fit_candidates(AggOp, B[:, 0:blocksize]); T = scale_T(T, P_I, I_F); B = P_I^T B
    if nd < K1 then .error "candidates" else
    if L.cpts.size ≠ L.nCol * K1 then .error "cpts" else
    let st := PyamgV.C10M.fitCandidates o L.nCol K1 K1 L.cp L.ci (ravel n K1 (firstCols K1 B)) tol
    let T0 := denseT st L.nFine L.nCol K1 K1 L.cp L.ci
    match PyamgV.C10M.scaleT K1 L.cpts T0 with
    | none => .error "singular"
    | some T =>
      let Bc := rootRows L.cpts nd B
      match smo L K1 K1 A T Bc B with
      | .error e => .error e
      | .ok (P, d) =>
        let An := Mat.ofFn (L.nCol * K1) (L.nCol * K1) fun i j =>
          rnd ((Mat.mul (Mat.ctranspose conj P) (Mat.mul A P)).get i j)
        .ok { K1 := K1, A := A, B := B, st := st, T := T, Bc := Bc, P := P, diag := d, Anext := An, K1next := K1 }

/-- the level loop -/
def hierarchy {δ : Type} (o : FitOps α α) (conj : α → α) (rnd : α → α) (root : Bool) (tol : α)
    (smo : LvlIn α → (K1 K2 : Nat) → (A T Bc Bf : Mat α) → Except String (Mat α × δ)) :
    List (LvlIn α) → Nat → Mat α → Mat α → Except String (List (LvlOut α δ))
  | [], _, _, _ => .ok []
  | L :: rest, K1, A, B =>
    match levelStep o conj rnd root tol smo L K1 A B with
    | .error e => .error e
    | .ok out =>
      match hierarchy o conj rnd root tol smo rest out.K1next out.Anext out.Bc with
      | .error e => .error e
      | .ok tail => .ok (out :: tail)

/-! ### the smoothers -/

/-- `smooth = None` -/
def smoNone : LvlIn α → (K1 K2 : Nat) → (A T Bc Bf : Mat α) → Except String (Mat α × Unit) :=
  fun _ _ _ _ T _ _ => .ok (T, ())

/-- `smooth = ('jacobi', {omega, degree, weighting})` without `filter_entries`, and `('richardson', {omega, degree})`
(`wt = 2`): `P <- P - M P`, `degree` times, `M` = the scaled matrix of `C10M.scaledMatrix` (weighting codes `0` diagonal,
`1` local, `2` Richardson, `3` block with the level's block size; `'block'` on 1x1 blocks is `'diagonal'`) -/
def smoJacobi (absf : α → α) (wt degree : Nat) :
    LvlIn α → (K1 K2 : Nat) → (A T Bc Bf : Mat α) → Except String (Mat α × Unit) :=
  fun L K1 _ A T _ _ =>
    let absRow := (Array.range A.rows).map fun i => PyamgV.C10M.sumL ((List.range A.cols).map fun j => absf (A.get i j))
    match PyamgV.C10M.scaledMatrix (effWt wt K1) K1 L.w A absRow with
    | none => .error "singular"
    | some M => .ok (PyamgV.C10M.smoothLoop M degree T, ())

/-- the vectors `mkPrecond` needs: row sums of `|A|` (`weighting = 'local'`), column sums of `|a|^2` (cgnr) -/
def auxOf (absf : α → α) (conj : α → α) (wt : Nat) (A : Mat α) : Array α :=
  if wt = 4 then (Array.range A.cols).map fun j => PyamgV.C10M.sumL ((List.range A.rows).map fun i => conj (A.get i j) * A.get i j)
  else (Array.range A.rows).map fun i => PyamgV.C10M.sumL ((List.range A.cols).map fun j => absf (A.get i j))

/-- `smooth = ('energy', {krylov: cg | cgnr, ...})` -/
def smoEnergyCG (nsq : α → Rat) (absf conj : α → α) (lt : α → α → Bool) (cgnr : Bool) (wt : Nat) (o : Opts) (tol tol2 : α) :
    LvlIn α → (K1 K2 : Nat) → (A T Bc Bf : Mat α) → Except String (Mat α × Out α (PyamgV.C10M.EnergyOut α)) :=
  fun L K1 K2 A T Bc Bf =>
    let wt' := if cgnr then 4 else wt
    match energyFullCG nsq conj lt cgnr wt' K1 (auxOf absf conj wt' A) o (L.nFine * K1) (L.nCol * K2) Bc.cols K1 K2 L.atilde
        (tpatOf L.nFine L.nCol L.cp L.ci) A T Bc Bf L.cpts tol tol2 with
    | .error e => .error e
    | .ok out => .ok (out.P, out)

/-- `smooth = ('energy', {krylov: gmres, ...})` -/
def smoEnergyGmres (nsq : α → Rat) (absf : α → α) (sc : PyamgV.C10bM.SOps α) (wt : Nat) (o : Opts) (tol tol2 : α) :
    LvlIn α → (K1 K2 : Nat) → (A T Bc Bf : Mat α) →
      Except String (Mat α × Out α (Option (PyamgV.C10bM.EnergyGmresOut α))) :=
  fun L K1 K2 A T Bc Bf =>
    match energyFullGmres nsq sc wt K1 (auxOf absf sc.conj wt A) o (L.nFine * K1) (L.nCol * K2) Bc.cols K1 K2 L.atilde
        (tpatOf L.nFine L.nCol L.cp L.ci) A T Bc Bf L.cpts tol tol2 with
    | .error e => .error e
    | .ok out => .ok (out.P, out)

end generic

/-- `Rat` with square roots of 64 significant bits (`C10bM.sqrtQ`), everything else exact -/
def ratOpsQ : FitOps Rat Rat := { PyamgV.C10M.ratOps with sqrt := PyamgV.C10bM.sqrtQ, sqrtOk := fun _ => true }

/-- reciprocal rounded down to 64 significant bits (a dyadic rational) -/
def invQ (s : Rat) : Rat :=
  if s = 0 then 0 else
  if s < 0 then 0 - (
    let t := 0 - s
    let k : Int := 64 + (t.num.toNat.log2 : Int) - (t.den.log2 : Int)
    let p : Rat := if k ≥ 0 then ((2 ^ k.toNat : Nat) : Rat) else 1 / ((2 ^ (-k).toNat : Nat) : Rat)
    ((p / t).floor : Rat) / p)
  else
    let k : Int := 64 + (s.num.toNat.log2 : Int) - (s.den.log2 : Int)
    let p : Rat := if k ≥ 0 then ((2 ^ k.toNat : Nat) : Rat) else 1 / ((2 ^ (-k).toNat : Nat) : Rat)
    ((p / s).floor : Rat) / p

/-- the scalars of the driver's hierarchy runs: `Rat` where the two operations of the kernel that leave the dyadic
rationals -- `sqrt` and `scale = 1.0 / norm` -- are rounded to 64 significant bits (binary64 rounds them to 53);
every other operation is exact, and all entries of `T` and `B_c` stay dyadic -/
def ratOpsD : FitOps Rat Rat :=
  { PyamgV.C10M.ratOps with sqrt := PyamgV.C10bM.sqrtQ, sqrtOk := fun _ => true, inv := invQ }

end PyamgV.C10dM
