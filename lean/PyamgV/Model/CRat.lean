/-! PyamgV: Gaussian rationals `CRat` (exact complex scalars for the kernel models). Import-free. -/
namespace PyamgV

structure CRat where
  re : Rat
  im : Rat
deriving DecidableEq, Repr, Inhabited

namespace CRat
instance : Add CRat := ⟨fun a b => ⟨a.re + b.re, a.im + b.im⟩⟩
instance : Sub CRat := ⟨fun a b => ⟨a.re - b.re, a.im - b.im⟩⟩
instance : Neg CRat := ⟨fun a => ⟨-a.re, -a.im⟩⟩
instance : Mul CRat := ⟨fun a b => ⟨a.re * b.re - a.im * b.im, a.re * b.im + a.im * b.re⟩⟩
def conj (a : CRat) : CRat := ⟨a.re, -a.im⟩
def normSq (a : CRat) : Rat := a.re * a.re + a.im * a.im
/-- division as the C++ `std::complex` operator does in exact arithmetic: `a * conj b / |b|²`
(division by zero is never reached by the models: they test the pivot first) -/
instance : Div CRat := ⟨fun a b => let d := normSq b; ⟨(a.re * b.re + a.im * b.im) / d, (a.im * b.re - a.re * b.im) / d⟩⟩
instance : OfNat CRat 0 := ⟨⟨0, 0⟩⟩
instance : OfNat CRat 1 := ⟨⟨1, 0⟩⟩
def ofRat (q : Rat) : CRat := ⟨q, 0⟩
end CRat
end PyamgV
