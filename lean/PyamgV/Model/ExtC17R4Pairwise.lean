import PyamgV.Model.ExtC17R4Graph

/-! PyamgV (C17, extension E32, round 4): checked-execution (`Ck`) model of `pairwise_aggregation`
(smoothed_aggregation.h), written loop by loop after the C++.

* `x`, `y`, the vector `m(n_row, 0)` and the vector `mmap_iterators(n_row)` are arrays accessed through `rd`/`wr`
  (`operator[]` of a `std::vector` is unchecked); an iterator is represented by the node it belongs to, so the array
  `its` only carries the bounds of `mmap_iterators[..]`;
* the `std::multimap<I,I>` is a key-ordered list of `(key, node)` pairs; `insert` places a new pair behind every pair
  with a key `≤` the new one (C++11: at the upper bound of the equal range);
* using an iterator whose element has been erased (`old_it->first`, `mmap.erase(it)`) is undefined behaviour: the model
  faults when the node is not in the list;
* `while (!mmap.empty())` runs on fuel `n` inside `orFault`, so `ok = true` includes its termination.

The weights are abstract (`PwOps`: `a >= b` and `numeric_limits<T>::lowest()`).  Core Lean only. -/
namespace PyamgV.C17R4
open PyamgV.Ck PyamgV.C17

structure PwOps (α : Type) where
  ge : α → α → Bool
  lowest : α

variable {α : Type} [Inhabited α]

/-- the multimap: `(key, node)` pairs sorted by key, insertion-stable among equal keys -/
abbrev MMap := List (Int × Int)

/-- `mmap.insert({k, v})` -/
def mmInsert (k v : Int) : MMap → MMap
  | [] => [(k, v)]
  | e :: l => if e.1 ≤ k then e :: mmInsert k v l else (k, v) :: e :: l

/-- remove the pair of node `v` -/
def mmErase (v : Int) (l : MMap) : MMap := l.filter (fun e => e.2 != v)

/-- `mmap_iterators[v]->first` (`none`: the element has been erased) -/
def mmKey (v : Int) : MMap → Option Int
  | [] => none
  | e :: l => if e.2 = v then some e.1 else mmKey v l

/-- `auto new_it = mmap.insert({old_it->first-1, v}); mmap.erase(old_it); mmap_iterators[v] = new_it;` -/
def mmDecCk (v : Int) (l : MMap) : Ck MMap :=
  match mmKey v l with
  | none => ⟨l, false⟩
  | some k => pure (mmInsert (k - 1) v (mmErase v l))

/-- `mmap.erase(mmap_iterators[v])` -/
def mmEraseCk (v : Int) (l : MMap) : Ck MMap :=
  match mmKey v l with
  | none => ⟨l, false⟩
  | some _ => pure (mmErase v l)

/-- the vector `m`: `if (Sj[jj] != i) m[Sj[jj]]++` -/
def pwCount (n : Nat) (ap aj : Array Int) : Ck (Array Int) :=
  forRange 0 (n : Int) (Array.replicate n (0 : Int)) (fun i (m : Array Int) => do
    let s ← rd ap i
    let e ← rd ap (i+1)
    forRange s e m (fun jj (m : Array Int) => do
      let c ← rd aj jj
      if c ≠ i then do
        let mc ← rd m c
        wr m c (mc + 1)
      else pure m))

/-- `it = mmap.insert({m[i], i}); mmap_iterators[i] = it;` for every node; returns `(mmap, mmap_iterators)` -/
def pwInit (n : Nat) (m : Array Int) : Ck (MMap × Array Int) :=
  forRange 0 (n : Int) (([] : MMap), Array.replicate n (0 : Int)) (fun i (st : MMap × Array Int) => do
    let mi ← rd m i
    let its ← wr st.2 i i
    pure (mmInsert mi i st.1, its))

/-- the search for the strongest unaggregated neighbour; state `(j, found, max_val)` -/
def pwSearch (o : PwOps α) (aj : Array Int) (ax : Array α) (s e : Int) (x : Array Int) : Ck (Int × Bool × α) :=
  forRange s e ((0 : Int), false, o.lowest) (fun jj (st : Int × Bool × α) => do
    let c ← rd aj jj
    let xc ← rd x c
    if xc = 0 then do
      let a ← rd ax jj
      if o.ge a st.2.2 then pure (c, true, a) else pure st
    else pure st)

/-- the re-keying loop over a row: every neighbour with `x == 0` moves to `key - 1` -/
def pwDecRow (aj : Array Int) (s e : Int) (x its : Array Int) (mm : MMap) : Ck MMap :=
  forRange s e mm (fun jj (mm : MMap) => do
    let c ← rd aj jj
    let xc ← rd x c
    if xc = 0 then do
      let _ ← rd its c
      mmDecCk c mm
    else pure mm)

structure PW where
  x : Array Int
  y : Array Int
  its : Array Int
  mm : MMap
  next : Int
  deriving Inhabited

/-- one pass of the `while` body; `i = mmap.begin()->second` -/
def pwIter (o : PwOps α) (ap aj : Array Int) (ax : Array α) (i : Int) (st : PW) : Ck PW := do
  let s ← rd ap i
  let e ← rd ap (i+1)
  let x ← wr st.x i st.next
  let r ← pwSearch o aj ax s e x
  let x ← (if r.2.1 then wr x r.1 st.next else pure x)
  let y ← wr st.y (st.next - 1) i
  let mm ← pwDecRow aj s e x st.its st.mm
  let _ ← rd st.its i
  let mm ← mmEraseCk i mm
  let xm ← (if r.2.1 then do
      let x ← wr x r.1 st.next
      let s2 ← rd ap r.1
      let e2 ← rd ap (r.1 + 1)
      let mm ← pwDecRow aj s2 e2 x st.its mm
      let _ ← rd st.its r.1
      let mm ← mmEraseCk r.1 mm
      pure (x, mm)
    else pure (x, mm))
  pure ⟨xm.1, y, st.its, xm.2, st.next + 1⟩

/-- `while (!mmap.empty())` with fuel; `none` = fuel exhausted -/
def pwWhile (o : PwOps α) (ap aj : Array Int) (ax : Array α) : Nat → Ck PW → Option (Ck PW)
  | 0, st => match st.val.mm with
    | [] => some st
    | _ :: _ => none
  | f+1, st => match st.val.mm with
    | [] => some st
    | e :: _ => pwWhile o ap aj ax f (st >>= pwIter o ap aj ax e.2)

/-- `pairwise_aggregation(n_row, Sp, Sj, Sx, x, y)`; returns `(x, y, next_aggregate - 1)` -/
def pairwiseAgg (o : PwOps α) (n : Nat) (ap aj : Array Int) (ax : Array α) (x y : Array Int) :
    Ck (Array Int × Array Int × Int) := do
  let x ← fillN n 0 x
  let m ← pwCount n ap aj
  let mi ← pwInit n m
  let r ← orFault (pwWhile o ap aj ax n (pure ⟨x, y, mi.2, mi.1, 1⟩))
  pure (r.x, r.y, r.next - 1)

end PyamgV.C17R4
