import PyamgV.Model.CRat
/-! PyamgV (C10): executable models of the kernels behind the aggregation-based prolongators
(`smoothed_aggregation.h`: `fit_candidates_common`, `satisfy_constraints_helper`, `calc_BtB`,
`incomplete_mat_mult_bsr`; `linalg.h`: `gemm`) and of the Python functions around them
(`tentative.fit_candidates`, `smooth.satisfy_constraints`, `smooth.jacobi_prolongation_smoother`
(unfiltered and filtered), `smooth.richardson_prolongation_smoother`, `utils.scale_T`,
`utils.filter_operator`, `utils.compute_BtBinv`).  Import-free (core Lean only).  Loops and
branches mirror the source one by one; flat arrays are indexed as the C code indexes them. -/
namespace PyamgV.C10M

@[inline] def rdN (a : Array Nat) (i : Nat) : Nat := a.getD i 0

/-- positions visited by `p = lo; while (p < hi) { ...; p += step; }` (`step ≥ 1`) -/
def strided (lo hi step : Nat) : List Nat :=
  if step = 0 then [] else (List.range ((hi - lo + step - 1) / step)).map (fun t => lo + step * t)

/-! ### `fit_candidates_common` -/

/-- scalar operations of the kernel (`T` = entries, `S` = norms); `sqrtOk` tells whether the square
root taken was exact (always `true` for floating point, perfect squares only for `Rat`) -/
structure FitOps (T S : Type) where
  zeroT : T
  zeroS : S
  subT : T → T → T
  addT : T → T → T
  mulT : T → T → T
  /-- `dot(a, b)`: `b * a` (real), `conj(b) * a` (complex) -/
  dot : T → T → T
  norm : T → S
  addS : S → S → S
  mulS : S → S → S
  sqrt : S → S
  sqrtOk : S → Bool
  gt : S → S → Bool
  /-- `scale = 1.0 / norm_j` as an entry -/
  inv : S → T
  ofS : S → T

structure FitState (T : Type) where
  ax : Array T
  r : Array T
  ok : Bool

variable {T S : Type}

/-- `norm_j = sqrt(sum norm(Ax[p]))` over the strided positions -/
def colNorm (o : FitOps T S) (ax : Array T) (ps : List Nat) : S × Bool :=
  let s := ps.foldl (fun acc p => o.addS acc (o.norm (ax.getD p o.zeroT))) o.zeroS
  (o.sqrt s, o.sqrtOk s)

/-- the kernel; `ap`, `ai` are the CSC arrays of `AggOp`, `b` is `B.ravel()`;
returns `Ax` (= `Qx.ravel()`), `R.ravel()` and the exactness flag -/
def fitCandidates (o : FitOps T S) (nCol K1 K2 : Nat) (ap ai : Array Nat) (b : Array T) (tol : S) :
    FitState T :=
  let BS := K1 * K2
  let r0 : Array T := Array.replicate (nCol * K2 * K2) o.zeroT
  -- copy blocks into Ax
  let ax0 : Array T := Array.replicate (BS * ai.size) o.zeroT
  let ax1 := (List.range nCol).foldl (fun (ax : Array T) j =>
    (List.range' (rdN ap j) (rdN ap (j+1) - rdN ap j)).foldl (fun (ax : Array T) ii =>
      (List.range BS).foldl (fun (ax : Array T) t =>
        ax.setIfInBounds (BS * ii + t) (b.getD (BS * rdN ai ii + t) o.zeroT)) ax) ax) ax0
  -- orthonormalise the columns of every aggregate
  (List.range nCol).foldl (fun (st : FitState T) j =>
    let lo := BS * rdN ap j
    let hi := BS * rdN ap (j+1)
    let rs := j * K2 * K2
    (List.range K2).foldl (fun (st : FitState T) bj =>
      let pj := strided (lo + bj) hi K2
      let (n0, ok0) := colNorm o st.ax pj
      let thr := o.mulS tol n0
      -- orthogonalise bj against the previous columns
      let st := (List.range bj).foldl (fun (st : FitState T) bi =>
        let pi := strided (lo + bi) hi K2
        let pij := pi.zip pj
        let d := pij.foldl (fun acc (p : Nat × Nat) =>
          o.addT acc (o.dot (st.ax.getD p.2 o.zeroT) (st.ax.getD p.1 o.zeroT))) o.zeroT
        let ax := pij.foldl (fun (ax : Array T) (p : Nat × Nat) =>
          ax.setIfInBounds p.2 (o.subT (ax.getD p.2 o.zeroT) (o.mulT d (ax.getD p.1 o.zeroT)))) st.ax
        { st with ax := ax, r := st.r.setIfInBounds (rs + K2 * bi + bj) d }) st
      let (n1, ok1) := colNorm o st.ax pj
      let keep := o.gt n1 thr
      let scale := if keep then o.inv n1 else o.zeroT
      let r := st.r.setIfInBounds (rs + K2 * bj + bj) (if keep then o.ofS n1 else o.zeroT)
      let ax := pj.foldl (fun (ax : Array T) p => ax.setIfInBounds p (o.mulT (ax.getD p o.zeroT) scale)) st.ax
      { ax := ax, r := r, ok := st.ok && ok0 && ok1 }) st) ⟨ax1, r0, true⟩

/-- CSC arrays of a CSR pattern with `nRow` rows and `nCol` columns (SciPy `tocsc`: rows ascending
inside each column) -/
def cscOfCsr (nRow nCol : Nat) (ap aj : Array Nat) : Array Nat × Array Nat :=
  (List.range nCol).foldl (fun (acc : Array Nat × Array Nat) j =>
    let rows := (List.range nRow).foldl (fun (rows : Array Nat) i =>
      (List.range' (rdN ap i) (rdN ap (i+1) - rdN ap i)).foldl (fun (rows : Array Nat) jj =>
        if rdN aj jj = j then rows.push i else rows) rows) acc.2
    (acc.1.push rows.size, rows)) (#[0], #[])

/-- `tentative.fit_candidates(AggOp, B)`: dense `T` (row major, `(nFine*K1) x (nCoarse*K2)`), the
coarse candidates `R` (`(nCoarse*K2) x K2`), and the exactness flag -/
def fitPy (o : FitOps T S) (nFine nCoarse K1 K2 : Nat) (ap aj : Array Nat) (b : Array T) (tol : S) :
    Array T × Array T × Bool :=
  let (cp, ci) := cscOfCsr nFine nCoarse ap aj
  let st := fitCandidates o nCoarse K1 K2 cp ci b tol
  let ncol := nCoarse * K2
  let dense0 : Array T := Array.replicate (nFine * K1 * ncol) o.zeroT
  let dense := (List.range nCoarse).foldl (fun (d : Array T) j =>
    (List.range' (rdN cp j) (rdN cp (j+1) - rdN cp j)).foldl (fun (d : Array T) ii =>
      let i := rdN ci ii
      (List.range K1).foldl (fun (d : Array T) k1 =>
        (List.range K2).foldl (fun (d : Array T) k2 =>
          d.setIfInBounds ((i * K1 + k1) * ncol + (j * K2 + k2)) (st.ax.getD (K1 * K2 * ii + k1 * K2 + k2) o.zeroT)) d) d) d) dense0
  (dense, st.r, st.ok)

/-! #### scalar instances -/

def floatOps : FitOps Float Float where
  zeroT := 0.0
  zeroS := 0.0
  subT := (· - ·)
  addT := (· + ·)
  mulT := (· * ·)
  dot := fun a b => b * a
  norm := fun a => a * a
  addS := (· + ·)
  mulS := (· * ·)
  sqrt := Float.sqrt
  sqrtOk := fun _ => true
  gt := fun a b => a > b
  inv := fun s => 1.0 / s
  ofS := id

structure CFloat where
  re : Float
  im : Float
deriving Inhabited

/-- `std::complex<double>` arithmetic as g++ evaluates it on finite values -/
def CFloat.mul (x y : CFloat) : CFloat := ⟨x.re * y.re - x.im * y.im, x.re * y.im + x.im * y.re⟩

def cfloatOps : FitOps CFloat Float where
  zeroT := ⟨0.0, 0.0⟩
  zeroS := 0.0
  subT := fun a b => ⟨a.re - b.re, a.im - b.im⟩
  addT := fun a b => ⟨a.re + b.re, a.im + b.im⟩
  mulT := CFloat.mul
  dot := fun a b => CFloat.mul ⟨b.re, -b.im⟩ a
  norm := fun a => a.re * a.re + a.im * a.im
  addS := (· + ·)
  mulS := (· * ·)
  sqrt := Float.sqrt
  sqrtOk := fun _ => true
  gt := fun a b => a > b
  inv := fun s => ⟨1.0 / s, 0.0⟩
  ofS := fun s => ⟨s, 0.0⟩

def natSqrtGo (n : Nat) : Nat → Nat → Nat
  | 0, x => x
  | fuel + 1, x =>
    let y := (x + n / x) / 2
    if y < x then natSqrtGo n fuel y else x

/-- integer square root (floor) by Newton's iteration; callers re-check `a * a = n` -/
def natSqrt (n : Nat) : Nat := if n < 2 then n else natSqrtGo n (n.log2 + 8) n

/-- exact rational square root when the argument is the square of a rational, else `0` -/
def ratSqrt (q : Rat) : Rat :=
  if q.num < 0 then 0 else
    let a := natSqrt q.num.toNat
    let b := natSqrt q.den
    if a * a = q.num.toNat ∧ b * b = q.den then (a : Rat) / (b : Rat) else 0

def ratSqrtOk (q : Rat) : Bool :=
  if q.num < 0 then false else
    let a := natSqrt q.num.toNat
    let b := natSqrt q.den
    a * a = q.num.toNat ∧ b * b = q.den

def ratOps : FitOps Rat Rat where
  zeroT := 0
  zeroS := 0
  subT := (· - ·)
  addT := (· + ·)
  mulT := (· * ·)
  dot := fun a b => b * a
  norm := fun a => a * a
  addS := (· + ·)
  mulS := (· * ·)
  sqrt := ratSqrt
  sqrtOk := ratSqrtOk
  gt := fun a b => decide (a > b)
  inv := fun s => 1 / s
  ofS := id

def cratOps : FitOps CRat Rat where
  zeroT := 0
  zeroS := 0
  subT := (· - ·)
  addT := (· + ·)
  mulT := (· * ·)
  dot := fun a b => CRat.conj b * a
  norm := CRat.normSq
  addS := (· + ·)
  mulS := (· * ·)
  sqrt := ratSqrt
  sqrtOk := ratSqrtOk
  gt := fun a b => decide (a > b)
  inv := fun s => ⟨1 / s, 0⟩
  ofS := fun s => ⟨s, 0⟩

/-! ### `gemm`, `satisfy_constraints_helper`, `calc_BtB`, `incomplete_mat_mult_bsr` -/

section ring
variable {α : Type} [Add α] [Sub α] [Mul α] [OfNat α 0]

@[inline] def rd (a : Array α) (i : Nat) : α := a.getD i 0

/-- `gemm(Ax+aoff, Arows, Acols, _, Bx+boff, Brows, Bcols, Btrans, Sx+soff, Srows, Scols, Strans,
overwrite)` of linalg.h; the three supported layout combinations, counters as in the source.
Any other combination leaves `S` as it is (the source prints a warning). -/
def gemm (A : Array α) (aoff Arows Acols : Nat) (B : Array α) (boff Brows Bcols : Nat) (Btrans : Bool)
    (Sx : Array α) (soff Srows Scols : Nat) (Strans overwrite : Bool) : Array α :=
  let Sx := if overwrite then
      (List.range (Srows * Scols)).foldl (fun (s : Array α) k => s.setIfInBounds (soff + k) 0) Sx
    else Sx
  if Strans && !Btrans then
    (List.range Arows).foldl (fun (s : Array α) i =>
      (List.range Bcols).foldl (fun (s : Array α) j =>
        (List.range Brows).foldl (fun (s : Array α) k =>
          let sc := soff + i + j * Srows
          s.setIfInBounds sc (rd s sc + rd A (aoff + i * Acols + k) * rd B (boff + j * Brows + k))) s) s) Sx
  else if !Strans && !Btrans then
    (List.range Arows).foldl (fun (s : Array α) i =>
      (List.range Bcols).foldl (fun (s : Array α) j =>
        (List.range Brows).foldl (fun (s : Array α) k =>
          let sc := soff + i * Bcols + j
          s.setIfInBounds sc (rd s sc + rd A (aoff + i * Acols + k) * rd B (boff + j * Brows + k))) s) s) Sx
  else if !Strans && Btrans then
    (List.range Arows).foldl (fun (s : Array α) i =>
      (List.range Acols).foldl (fun (s : Array α) j =>
        (List.range Bcols).foldl (fun (s : Array α) k =>
          let sc := soff + i * Scols + k
          s.setIfInBounds sc (rd s sc + rd A (aoff + i * Acols + j) * rd B (boff + j * Bcols + k))) s) s) Sx
  else Sx

/-- `satisfy_constraints_helper`: `Sx[j] -= UB[i] * (BtBinv[i] * Bt[Sj[j]]^T)` for every stored
block `j` of block row `i` -/
def satisfyHelper (rpb cpb nbr nd : Nat) (Bt UB BtBinv : Array α) (sp sj : Array Nat) (sx : Array α) :
    Array α :=
  let BS := rpb * cpb
  let ndCols := nd * cpb
  let ndRows := nd * rpb
  (List.range nbr).foldl (fun (sx : Array α) i =>
    (List.range' (rdN sp i) (rdN sp (i+1) - rdN sp i)).foldl (fun (sx : Array α) j =>
      let C := gemm BtBinv (i * nd * nd) nd nd Bt (rdN sj j * ndCols) nd cpb false
        (Array.replicate ndCols (0 : α)) 0 nd cpb true true
      let U := gemm UB (i * ndRows) rpb nd C 0 nd cpb false
        (Array.replicate BS (0 : α)) 0 rpb cpb false true
      (List.range BS).foldl (fun (sx : Array α) k =>
        sx.setIfInBounds (j * BS + k) (rd sx (j * BS + k) - rd U k)) sx) sx) sx

/-- `calc_BtB` (`conj` = identity for real data); `x` is returned (column major per node) -/
def calcBtB (conj : α → α) (nd nNodes cpb : Nat) (bsq : Array α) (bsqCols : Nat) (sp sj : Array Nat) :
    Array α :=
  let ndSq := nd * nd
  (List.range nNodes).foldl (fun (x : Array α) i =>
    let loc := (List.range' (rdN sp i) (rdN sp (i+1) - rdN sp i)).foldl (fun (loc : Array α) j =>
      (List.range' (rdN sj j * cpb) cpb).foldl (fun (loc : Array α) k =>
        -- diagonal
        let (loc, _) := (List.range nd).foldl (fun (st : Array α × Nat) m =>
          (st.1.setIfInBounds (m * (nd + 1)) (rd st.1 (m * (nd + 1)) + rd bsq st.2), st.2 + (nd - m)))
          (loc, k * bsqCols)
        -- off-diagonals
        let (loc, _) := (List.range nd).foldl (fun (st : Array α × Nat) m =>
          let loc := (List.range' (m + 1) (nd - (m + 1))).foldl (fun (loc : Array α) n =>
            let e := rd bsq (st.2 + (n - m))
            let loc := loc.setIfInBounds (m * nd + n) (rd loc (m * nd + n) + conj e)
            loc.setIfInBounds (n * nd + m) (rd loc (n * nd + m) + e)) st.1
          (loc, st.2 + (nd - m))) (loc, k * bsqCols)
        loc) loc) (Array.replicate ndSq (0 : α))
    (List.range ndSq).foldl (fun (x : Array α) k => x.setIfInBounds (i * ndSq + k) (rd loc k)) x)
    (Array.replicate (nNodes * ndSq) (0 : α))

/-- `incomplete_mat_mult_bsr`: `S += A * B` on the stored blocks of `S` only -/
def incompleteMatMultBsr (ap aj : Array Nat) (ax : Array α) (bp bj : Array Nat) (bx : Array α)
    (sp sj : Array Nat) (sx : Array α) (nBrow nBcol browA bcolA bcolB : Nat) : Array α :=
  let aBS := browA * bcolA
  let bBS := bcolA * bcolB
  let sBS := browA * bcolB
  let one := aBS == bBS && bBS == sBS && aBS == 1
  let (sx, _) := (List.range nBrow).foldl (fun (st : Array α × Array (Option Nat)) i =>
    let sjs := List.range' (rdN sp i) (rdN sp (i+1) - rdN sp i)
    let S := sjs.foldl (fun (S : Array (Option Nat)) jj => S.setIfInBounds (rdN sj jj) (some (jj * sBS))) st.2
    let sx := (List.range' (rdN ap i) (rdN ap (i+1) - rdN ap i)).foldl (fun (sx : Array α) jj =>
      let j := rdN aj jj
      (List.range' (rdN bp j) (rdN bp (j+1) - rdN bp j)).foldl (fun (sx : Array α) kk =>
        let k := rdN bj kk
        match S.getD k none with
        | none => sx
        | some off =>
          if one then sx.setIfInBounds off (rd sx off + rd ax jj * rd bx kk)
          else gemm ax (jj * aBS) browA bcolA bx (kk * bBS) bcolA bcolB true sx off browA bcolB false false) sx) st.1
    let S := sjs.foldl (fun (S : Array (Option Nat)) jj => S.setIfInBounds (rdN sj jj) none) S
    (sx, S)) (sx, Array.replicate nBcol none)
  sx

end ring

/-! ### dense helpers for the Python-level models (`Array (Array α)`, row major) -/

section field
variable {α : Type} [Add α] [Sub α] [Mul α] [Div α] [OfNat α 0] [OfNat α 1] [DecidableEq α]

abbrev Mat (α : Type) := Array (Array α)

def Mat.get (M : Mat α) (i j : Nat) : α := (M.getD i #[]).getD j 0
def Mat.ofFn (r c : Nat) (f : Nat → Nat → α) : Mat α :=
  (Array.range r).map (fun i => (Array.range c).map (fun j => f i j))
def Mat.rows (M : Mat α) : Nat := M.size
def Mat.cols (M : Mat α) : Nat := (M.getD 0 #[]).size
def sumL (l : List α) : α := l.foldl (· + ·) 0
def Mat.mul (A B : Mat α) : Mat α :=
  Mat.ofFn A.rows B.cols (fun i j => sumL ((List.range A.cols).map (fun k => A.get i k * B.get k j)))
def Mat.sub (A B : Mat α) : Mat α := Mat.ofFn A.rows A.cols (fun i j => A.get i j - B.get i j)
def Mat.flat (M : Mat α) : Array α := M.foldl (· ++ ·) #[]
def Mat.unflat (r c : Nat) (a : Array α) : Mat α := Mat.ofFn r c (fun i j => a.getD (i * c + j) 0)

/-- Gauss-Jordan inverse with the first non-zero pivot in each column; `none` when singular -/
def Mat.inv (M : Mat α) : Option (Mat α) :=
  let n := M.rows
  let aug0 : Mat α := Mat.ofFn n (2 * n) (fun i j => if j < n then M.get i j else if j - n = i then 1 else 0)
  let res := (List.range n).foldl (fun (st : Option (Mat α)) c =>
    match st with
    | none => none
    | some A =>
      match (List.range' c (n - c)).find? (fun r => A.get r c ≠ 0) with
      | none => none
      | some p =>
        let rowp := A.getD p #[]
        let rowc := A.getD c #[]
        let A : Mat α := (A.setIfInBounds p rowc).setIfInBounds c rowp
        let piv := A.get c c
        let rc := (A.getD c #[]).map (fun v => v / piv)
        let A : Mat α := A.setIfInBounds c rc
        some ((Array.range n).map (fun r =>
          if r = c then rc else
            let f := A.get r c
            (Array.range (2 * n)).map (fun j => A.get r j - f * rc.getD j 0)))) (some aug0)
  res.map (fun A => Mat.ofFn n n (fun i j => A.get i (n + j)))

/-- block-row pattern: `pat i` = sorted block columns allowed in block row `i` -/
abbrev Pat := Array (Array Nat)

/-- local `B_J^H B_J` for the block columns `J` (`conj` = identity for real data) -/
def localBtB (conj : α → α) (cpb nd : Nat) (B : Mat α) (J : Array Nat) : Mat α :=
  Mat.ofFn nd nd (fun a b => sumL (J.toList.flatMap (fun jb =>
    (List.range cpb).map (fun t => conj (B.get (jb * cpb + t) a) * B.get (jb * cpb + t) b))))

/-- one projection: `A_i -= Y_i * Z_i * B_J^H` on the stored blocks of every block row
(`Y` = `U B` for `satisfy_constraints`, `A B - Bf` for `filter_operator`); `Z i` = `inv(B_J^H B_J)`;
`none` when some local Gram matrix is singular (the code then uses a pseudo-inverse) -/
def projectDense (conj : α → α) (rpb cpb nd : Nat) (pat : Pat) (A Y B : Mat α) : Option (Mat α) :=
  (List.range pat.size).foldl (fun (st : Option (Mat α)) ib =>
    match st with
    | none => none
    | some M =>
      let J := pat.getD ib #[]
      if J.isEmpty then some M else
      match (localBtB conj cpb nd B J).inv with
      | none => none
      | some Z =>
        some ((List.range rpb).foldl (fun (M : Mat α) t =>
          let i := ib * rpb + t
          let yz : Array α := (Array.range nd).map (fun b => sumL ((List.range nd).map (fun a => Y.get i a * Z.get a b)))
          let row := (M.getD i #[])
          let row := J.foldl (fun (row : Array α) jb =>
            (List.range cpb).foldl (fun (row : Array α) s =>
              let c := jb * cpb + s
              row.setIfInBounds c (row.getD c 0 - sumL ((List.range nd).map (fun b => yz.getD b 0 * conj (B.get c b))))) row) row
          M.setIfInBounds i row) M)) (some A)

/-- entries of `A` outside the block pattern set to zero -/
def maskDense (rpb cpb : Nat) (pat : Pat) (A : Mat α) : Mat α :=
  Mat.ofFn A.rows A.cols (fun i j => if (pat.getD (i / rpb) #[]).contains (j / cpb) then A.get i j else 0)

/-- `utils.filter_operator(A, C, B, Bf)`: restrict `A` to the pattern of `C`, then correct every
row so that `A B = Bf` -/
def filterOperator (conj : α → α) (rpb cpb nd : Nat) (pat : Pat) (A B Bf : Mat α) : Option (Mat α) :=
  let A := maskDense rpb cpb pat A
  projectDense conj rpb cpb nd pat A (Mat.sub (Mat.mul A B) Bf) B

/-- `smooth.satisfy_constraints(U, B, BtBinv)` with `BtBinv = compute_BtBinv(B, U)` -/
def satisfyDense (conj : α → α) (rpb cpb nd : Nat) (pat : Pat) (U B : Mat α) : Option (Mat α) :=
  projectDense conj rpb cpb nd pat U (Mat.mul U B) B

/-- `utils.scale_T(T, P_I, I_F)` for a tentative prolongator whose root node `k` lies in aggregate
`k`: `T <- T D`, `D = blockdiag(inv(T[root_k, k]))`; root rows replaced by the identity.
`cpts` = root dofs in coarse order (`bs` consecutive dofs per root node) -/
def scaleT (bs : Nat) (cpts : Array Nat) (T : Mat α) : Option (Mat α) :=
  let nc := cpts.size
  let nb := nc / bs
  let invs := (List.range nb).foldl (fun (st : Option (Array (Mat α))) k =>
    match st with
    | none => none
    | some acc =>
      -- D = P_I^T T keeps the stored blocks of the root rows; block (k, k) is inverted
      match (Mat.ofFn bs bs (fun a b => T.get (cpts.getD (k * bs + a) 0) (k * bs + b))).inv with
      | none => none
      | some Z => some (acc.push Z)) (some #[])
  invs.map (fun Zs =>
    Mat.ofFn T.rows nc (fun i j =>
      match (List.range nc).find? (fun k => cpts.getD k 0 = i) with
      | some k => if k = j then 1 else 0
      | none =>
        let kb := j / bs
        sumL ((List.range bs).map (fun a => T.get i (kb * bs + a) * (Zs.getD kb #[]).get a (j % bs)))))

/-- the scaled matrix `M` of the Jacobi/Richardson prolongation smoothers:
`weighting = 0` diagonal (`D^-1 S`, zero diagonal -> zero row), `1` local (`1/sum|S_ij|`: `absS` holds the
row sums), `2` Richardson (`S` itself), `3` block of size `bs` (`inv` of the diagonal blocks);
`w` = `omega / rho` (diagonal, block, Richardson) or `omega` (local) -/
def scaledMatrix (weighting bs : Nat) (w : α) (S : Mat α) (absRow : Array α) : Option (Mat α) :=
  let n := S.rows
  if weighting = 0 then
    some (Mat.ofFn n n (fun i j => let d := S.get i i; if d = 0 then 0 else w * ((1 / d) * S.get i j)))
  else if weighting = 1 then
    some (Mat.ofFn n n (fun i j => let d := absRow.getD i 0; if d = 0 then 0 else w * ((1 / d) * S.get i j)))
  else if weighting = 2 then
    some (Mat.ofFn n n (fun i j => w * S.get i j))
  else
    let nb := n / bs
    let invs := (List.range nb).foldl (fun (st : Option (Array (Mat α))) k =>
      match st with
      | none => none
      | some acc =>
        match (Mat.ofFn bs bs (fun a b => S.get (k * bs + a) (k * bs + b))).inv with
        | none => none
        | some Z => some (acc.push Z)) (some #[])
    invs.map (fun Zs => Mat.ofFn n n (fun i j =>
      w * sumL ((List.range bs).map (fun a => (Zs.getD (i / bs) #[]).get (i % bs) a * S.get ((i / bs) * bs + a) j))))

/-- unfiltered smoother loop: `P <- P - M P`, `degree` times -/
def smoothLoop (M : Mat α) : Nat → Mat α → Mat α
  | 0, P => P
  | d + 1, P => smoothLoop M d (Mat.sub P (Mat.mul M P))

/-- the stated polynomial `(I - M)^degree T`, evaluated as a matrix power -/
def polyApply (M : Mat α) (degree : Nat) (T : Mat α) : Mat α :=
  let n := M.rows
  let IM : Mat α := Mat.ofFn n n (fun i j => (if i = j then 1 else 0) - M.get i j)
  let pw := (List.range degree).foldl (fun (Q : Mat α) _ => Mat.mul Q IM) (Mat.ofFn n n (fun i j => if i = j then 1 else 0))
  Mat.mul pw T

/-- filtered Jacobi loop: `U = mask(M P)` on the block pattern of `M P` (given per step as the
product pattern), `satisfy_constraints(U, B, compute_BtBinv(B, U))`, `P <- P - U` -/
def filteredLoop (conj : α → α) (rpb cpb nd : Nat) (M : Mat α) (B : Mat α) (pats : List Pat) (P : Mat α) :
    Option (Mat α × List (Mat α)) :=
  pats.foldl (fun (st : Option (Mat α × List (Mat α))) pat =>
    match st with
    | none => none
    | some (P, us) =>
      let U := maskDense rpb cpb pat (Mat.mul M P)
      (satisfyDense conj rpb cpb nd pat U B).map (fun U' => (Mat.sub P U', us ++ [U']))) (some (P, []))

/-! ### energy minimisation: `cg_prolongation_smoothing` / `cgnr_prolongation_smoothing` -/

def Mat.add (A B : Mat α) : Mat α := Mat.ofFn A.rows A.cols (fun i j => A.get i j + B.get i j)
def Mat.smul (c : α) (A : Mat α) : Mat α := Mat.ofFn A.rows A.cols (fun i j => c * A.get i j)
def Mat.neg (A : Mat α) : Mat α := Mat.ofFn A.rows A.cols (fun i j => 0 - A.get i j)
def Mat.ctranspose (conj : α → α) (A : Mat α) : Mat α := Mat.ofFn A.cols A.rows (fun i j => conj (A.get j i))
/-- Frobenius product `sum(conj(X) .* Y)` -/
def Mat.frob (conj : α → α) (X Y : Mat α) : α :=
  sumL ((List.range X.rows).flatMap (fun i => (List.range X.cols).map (fun j => conj (X.get i j) * Y.get i j)))

/-- the preconditioner of the loops: a row scaling (`diagonal`, `local`, and the column-norm
scaling of cgnr) or the block-diagonal inverse (`block`) -/
inductive Precond (α : Type) where
  | rows (d : Array α)
  | blocks (bs : Nat) (zs : Array (Mat α))

def Precond.apply (p : Precond α) (R : Mat α) : Mat α :=
  match p with
  | .rows d => Mat.ofFn R.rows R.cols (fun i j => d.getD i 0 * R.get i j)
  | .blocks bs zs => Mat.ofFn R.rows R.cols (fun i j =>
      sumL ((List.range bs).map (fun a => (zs.getD (i / bs) #[]).get (i % bs) a * R.get ((i / bs) * bs + a) j)))

/-- `Dinv` of `cg_prolongation_smoothing` (`weighting` 0 diagonal, 1 local with the given row sums of
`|A|`, 3 block) and of `cgnr_prolongation_smoothing` (`weighting` 4: `1 / sum_i |a_ij|^2`, given) -/
def mkPrecond (weighting bs : Nat) (A : Mat α) (aux : Array α) : Option (Precond α) :=
  let n := A.rows
  if weighting = 0 then
    some (.rows ((Array.range n).map (fun i => let d := A.get i i; if d = 0 then 0 else 1 / d)))
  else if weighting = 1 ∨ weighting = 4 then
    some (.rows ((Array.range n).map (fun i => let d := aux.getD i 0; if d = 0 then 0 else 1 / d)))
  else
    let nb := n / bs
    let invs := (List.range nb).foldl (fun (st : Option (Array (Mat α))) k =>
      match st with
      | none => none
      | some acc =>
        match (Mat.ofFn bs bs (fun a b => A.get (k * bs + a) (k * bs + b))).inv with
        | none => none
        | some Z => some (acc.push Z)) (some #[])
    invs.map (fun zs => .blocks bs zs)

/-- `T <- I_F T + P_I`: rows of the root dofs `cpts` (coarse order) become identity rows -/
def resetRoots (cpts : Array Nat) (T : Mat α) : Mat α :=
  if cpts.isEmpty then T else
    Mat.ofFn T.rows T.cols (fun i j =>
      match (List.range cpts.size).find? (fun k => cpts.getD k 0 = i) with
      | some k => if k = j then 1 else 0
      | none => T.get i j)

structure EnergyOut (α : Type) where
  T : Mat α
  /-- the updates `(alpha, P)` in the order they were applied -/
  ups : List (α × Mat α)
  /-- the values `newsum` compared with `tol` -/
  sums : List α
  /-- `false`: a local Gram matrix was singular (the code then uses a pseudo-inverse) -/
  ok : Bool
  /-- `true`: a step divided by `(P, AP) = 0` -/
  breakdown : Bool

/-- `cg_prolongation_smoothing` (`cgnr = false`) and `cgnr_prolongation_smoothing` (`cgnr = true`);
`lt` is `<` on the scalars (real data) -/
def energyCG (conj : α → α) (lt : α → α → Bool) (cgnr : Bool) (rpb cpb nd : Nat) (pat : Pat) (A : Mat α)
    (pre : Precond α) (T B : Mat α) (maxiter : Nat) (tol : α) (cpts : Array Nat) : EnergyOut α :=
  let Ah := Mat.ctranspose conj A
  let op : Mat α → Mat α := fun X =>
    if cgnr then maskDense rpb cpb pat (Mat.mul Ah (Mat.mul A X)) else maskDense rpb cpb pat (Mat.mul A X)
  let nnz := (pat.foldl (fun acc J => acc + J.size) 0) * rpb * cpb
  if nnz = 0 then ⟨T, [], [], true, false⟩ else
  match satisfyDense conj rpb cpb nd pat (op (Mat.neg T)) B with
  | none => ⟨T, [], [], false, false⟩
  | some R0 =>
    let rec loop (fuel : Nat) (i : Nat) (T R P : Mat α) (oldsum : α) (ups : List (α × Mat α)) (sums : List α) :
        EnergyOut α :=
      match fuel with
      | 0 => ⟨T, ups.reverse, sums.reverse, true, false⟩
      | fuel + 1 =>
        let Z := pre.apply R
        let newsum := Mat.frob conj R Z
        if lt newsum tol then ⟨T, ups.reverse, (newsum :: sums).reverse, true, false⟩ else
        let P := if i = 0 then Z else Mat.add Z (Mat.smul (newsum / oldsum) P)
        match satisfyDense conj rpb cpb nd pat (op P) B with
        | none => ⟨T, ups.reverse, (newsum :: sums).reverse, false, false⟩
        | some AP =>
          let den := Mat.frob conj P AP
          if den = 0 then ⟨T, ups.reverse, (newsum :: sums).reverse, true, true⟩ else
          let alpha := newsum / den
          let T := resetRoots cpts (Mat.add T (Mat.smul alpha P))
          loop fuel (i + 1) T (Mat.sub R (Mat.smul alpha AP)) P newsum ((alpha, P) :: ups) (newsum :: sums)
    loop maxiter 0 T R0 R0 0 [] []

end field
end PyamgV.C10M
