/-! # C15 model: the state a built solver carries from one `solve` call to the next

Import-free (core Lean only), executable, total.  Mirrors `pyamg/multilevel.py`:

* `kindOf`   = the name dispatch of `coarse_grid_solver(solver)` (which `solve` closure is built),
* `gcall`    = `GenericSolver.__call__` followed by the selected closure: the `A.nnz == 0` shortcut,
               "factor on first use, keep as attribute `P` / `LU` / `L`" for the direct solvers,
               a plain function of `(A, b)` for every other solver,
* `grun`     = a history of calls on one coarse-solver object,
* `LvlS`, `memoGet`, `memoSmoother`, `memoLevel` = levels whose smoothers keep state between calls
               ("compute on first use, keep as attribute": `lvl.Acsr`, Schwarz parameters of
               `strength_based_schwarz`),
* `cycS`     = `MultilevelSolver.__solve(lvl, x, b, cycle, cycles_per_level)` (V, W, F, AMLI) with the
               coarse-solver object and the smoothers as *state machines* threaded through the recursion,
* `stepS`    = one pass of the `while True` loop of `solve` (one-level hierarchy: coarse solver on `(A, b)`),
* `Prog`     = what one `solve` call does with the hierarchy: a program that may run `stepS` any number
               of times on vectors it computes from earlier answers (`loopProg` = the un-accelerated
               loop; an accelerated call applies `aspreconditioner(cycle).matvec`, i.e. one pass from the
               zero vector, wherever the Krylov method asks for it; `accelCall`: the caller's
               `cycles_per_level` does not reach the preconditioner),
* `runCalls` = a history of `solve` calls on one `MultilevelSolver` object.

Everything numerical (smoothers, residuals, transfer operators, the factorisation itself) is a
*parameter*: the model fixes only who is called with what and which state survives a call, which is
what property C15 is about.  The level operators are values that no function of the model writes. -/
namespace PyamgV.C15

/-- which closure `coarse_grid_solver` builds for a solver name -/
inductive Kind
  | direct      -- 'pinv', 'pinv2', 'lu', 'cholesky', 'splu': factorise on first use, keep the factors
  | stateless   -- Krylov / relaxation names, `None`, callables: a function of `(A, b)`
  deriving DecidableEq, Repr

def directNames : List String := ["pinv", "pinv2", "lu", "cholesky", "splu"]
def krylovNames : List String := ["bicg", "bicgstab", "cg", "cgs", "gmres", "qmr", "minres"]
def relaxNames : List String :=
  ["gauss_seidel", "jacobi", "block_gauss_seidel", "schwarz", "block_jacobi", "richardson", "sor",
   "chebyshev", "jacobi_ne", "gauss_seidel_ne", "gauss_seidel_nr"]

/-- the `if solver in [...] / elif ...` chain; `"None"` and `"<callable>"` stand for `None` and a
callable; every other string ends in `raise ValueError('unknown solver')` (= `none`) -/
def kindOf (name : String) : Option Kind :=
  if directNames.contains name then some .direct
  else if krylovNames.contains name then some .stateless
  else if relaxNames.contains name then some .stateless
  else if name = "None" then some .stateless
  else if name = "<callable>" then some .stateless
  else none

/-- the numerical ingredients of a coarse solver, as parameters -/
structure Ops (Mat Vec Fact : Type) where
  nnz : Mat → Nat
  factor : Mat → Fact            -- `pinv(A.toarray())`, `lu_factor`, `cho_factor`, `splu` (with `LU_Map`)
  apply : Fact → Vec → Vec        -- `np.dot(P, b)`, `lu_solve`, `cho_solve`, `LU_Map @ LU.solve(LU_Map.T @ b)`
  direct : Mat → Vec → Vec        -- the stateless closures: `fn(A, b, **kwargs)[0]`, relaxation from zero, `0 * b`
  zero : Vec → Vec                -- `np.zeros(b.shape)`

variable {Mat Vec Fact : Type}

/-- `GenericSolver.__call__(A, b)`: state = the cached factors (`hasattr(self, 'LU')` etc.) -/
def gcall (o : Ops Mat Vec Fact) (k : Kind) (c : Option Fact) (A : Mat) (b : Vec) : Option Fact × Vec :=
  if o.nnz A = 0 then (c, o.zero b)
  else match k with
    | .direct => match c with
      | none => let f := o.factor A; (some f, o.apply f b)
      | some f => (some f, o.apply f b)
    | .stateless => (c, o.direct A b)

/-- a history of calls on one object: final state and all results -/
def grun (o : Ops Mat Vec Fact) (k : Kind) : Option Fact → List (Mat × Vec) → Option Fact × List Vec
  | c, [] => (c, [])
  | c, (A, b) :: rest =>
    let r := gcall o k c A b
    let rs := grun o k r.1 rest
    (rs.1, r.2 :: rs.2)

/-- does this call factorise (`lu_factor`, `splu`, `pinv`, `cho_factor` is entered)? -/
def gfactors (o : Ops Mat Vec Fact) (k : Kind) (c : Option Fact) (A : Mat) : Bool :=
  o.nnz A != 0 && k == .direct && c.isNone

/-- number of factorisations performed by a history -/
def gcount (o : Ops Mat Vec Fact) (k : Kind) : Option Fact → List (Mat × Vec) → Nat
  | _, [] => 0
  | c, (A, b) :: rest => (if gfactors o k c A then 1 else 0) + gcount o k (gcall o k c A b).1 rest

/-- the coarse-solver object inside a larger solver state (first component = its cached factors) -/
def gcallFst {T : Type} (o : Ops Mat Vec Fact) (k : Kind) (A : Mat) (s : Option Fact × T) (b : Vec) :
    (Option Fact × T) × Vec :=
  (((gcall o k s.1 A b).1, s.2), (gcall o k s.1 A b).2)

/-- what a coarse solver created for this call alone returns -/
def fresh (o : Ops Mat Vec Fact) (k : Kind) (A : Mat) (b : Vec) : Vec := (gcall o k none A b).2

/-! ## the cycle with a stateful coarse solver -/

inductive Cyc | V | W | F | AMLI
  deriving DecidableEq, Repr

/-- `str(cycle).upper()` followed by the `elif` chain of `__solve`; anything else: `TypeError` -/
def cycOf (s : String) : Option Cyc :=
  match s.toUpper with
  | "V" => some .V
  | "W" => some .W
  | "F" => some .F
  | "AMLI" => some .AMLI
  | _ => none

/-- a non-coarsest level as the functions `__solve` applies on it.  `Acc` = the local variables of the
AMLI branch (`coarse_x`, `coarse_b`, `p`, `beta`). -/
structure Lvl (Vec Acc : Type) where
  pre : Vec → Vec → Vec            -- `x` after `presmoother(A, x, b)`
  post : Vec → Vec → Vec           -- `x` after `postsmoother(A, x, b)`
  coarseRhs : Vec → Vec → Vec      -- `R @ (b - A @ x)` from `(x, b)`
  zeros : Vec → Vec                -- `np.zeros_like(coarse_b)`
  prolong : Vec → Vec → Vec        -- `x + P @ coarse_x` from `(x, coarse_x)`
  amliStart : Vec → Acc            -- from `coarse_b`
  amliGuess : Nat → Acc → Vec × Vec   -- `(p[k, :] = 1, coarse_b)` handed to the recursive call
  amliUpdate : Nat → Acc → Vec → Acc  -- orthogonalise, step, update `coarse_x`, `coarse_b`
  amliOut : Acc → Vec              -- `coarse_x`

/-- a level whose smoothers may keep state between calls (lazily converted formats `lvl.Acsr`, lazily
computed Schwarz parameters, ...): `preS` / `postS` thread the solver's state; the inherited `pre` /
`post` are what the smoothers compute as functions of `(x, b)` -/
structure LvlS (S Vec Acc : Type) extends Lvl Vec Acc where
  preS : S → Vec → Vec → S × Vec
  postS : S → Vec → Vec → S × Vec

/-- a level with state-free smoothers (every `setup_*` closure that captures only values) -/
def LvlS.ofPure {S Vec Acc : Type} (L : Lvl Vec Acc) : LvlS S Vec Acc :=
  { L with preS := fun s x b => (s, L.pre x b), postS := fun s x b => (s, L.post x b) }

/-- "compute on first use, keep as attribute": `if not hasattr(obj, name): obj.name = compute(key)`;
`return obj.name` -/
def memoGet {K V : Type} (compute : K → V) (k : K) (c : Option V) : Option V × V :=
  match c with
  | none => (some (compute k), compute k)
  | some v => (some v, v)

/-- a smoother that fetches its parameters through a memo cell at every call
(`strength_based_schwarz`: `setup_schwarz(lvl, ...)` inside the closure -> `matrix_asformat` /
`schwarz_parameters` cached on the level) -/
def memoSmoother {K P Vec : Type} (compute : K → P) (k : K) (relax : P → Vec → Vec → Vec)
    (c : Option P) (x b : Vec) : Option P × Vec :=
  ((memoGet compute k c).1, relax (memoGet compute k c).2 x b)

/-- a level whose pre- and post-smoother fetch their parameters through one memo cell (second
component of the state) -/
def memoLevel {K P Acc : Type} (M : Lvl Vec Acc) (compute : K → P) (key : K) (relax : P → Vec → Vec → Vec) :
    LvlS (Option Fact × Option P) Vec Acc :=
  { M with
    pre := relax (compute key), post := relax (compute key),
    preS := fun s x b => ((s.1, (memoSmoother compute key relax s.2 x b).1), (memoSmoother compute key relax s.2 x b).2),
    postS := fun s x b => ((s.1, (memoSmoother compute key relax s.2 x b).1), (memoSmoother compute key relax s.2 x b).2) }

variable {S Acc Res : Type}

/-- thread state and iterate through `k` applications -/
def iterS (f : S → Vec → S × Vec) : Nat → S × Vec → S × Vec
  | 0, r => r
  | k + 1, r => iterS f k (f r.1 r.2)

/-- `__solve(lvl, x, b, cycle, cycles_per_level)` on `Ls = levels[lvl:-1]` (non-empty when called);
`coarse` = one call of the coarse-solver object with `levels[-1].A`; the smoothers and the coarse
solver share the solver's state `S` -/
def cycS (coarse : S → Vec → S × Vec) : Cyc → Nat → List (LvlS S Vec Acc) → S → Vec → Vec → S × Vec
  | _, _, [], s, x, _ => (s, x)
  | c, cpl, L :: rest, s, x, b =>
    let p := L.preS s x b
    let x1 := p.2
    let cb := L.coarseRhs x1 b
    let cx0 := L.zeros cb
    let r : S × Vec := match rest with
      | [] => coarse p.1 cb
      | _ :: _ => match c with
        | .V => cycS coarse .V 1 rest p.1 cx0 cb
        | .W =>
          let r1 := cycS coarse .W 1 rest p.1 cx0 cb
          cycS coarse .W 1 rest r1.1 r1.2 cb
        | .F => iterS (fun s v => cycS coarse .V 1 rest s v cb) cpl (cycS coarse .F cpl rest p.1 cx0 cb)
        | .AMLI =>
          let a0 := L.amliStart cb
          let g0 := L.amliGuess 0 a0
          let r0 := cycS coarse .AMLI 1 rest p.1 g0.1 g0.2
          let a1 := L.amliUpdate 0 a0 r0.2
          let g1 := L.amliGuess 1 a1
          let r1 := cycS coarse .AMLI 1 rest r0.1 g1.1 g1.2
          (r1.1, L.amliOut (L.amliUpdate 1 a1 r1.2))
    L.postS r.1 (L.prolong x1 r.2) b

def iterP (f : Vec → Vec) : Nat → Vec → Vec
  | 0, v => v
  | k + 1, v => iterP f k (f v)

/-- the same recursion with a coarse solver that is a plain function (no state) -/
def cycP (f : Vec → Vec) : Cyc → Nat → List (Lvl Vec Acc) → Vec → Vec → Vec
  | _, _, [], x, _ => x
  | c, cpl, L :: rest, x, b =>
    let x1 := L.pre x b
    let cb := L.coarseRhs x1 b
    let cx0 := L.zeros cb
    let cx : Vec := match rest with
      | [] => f cb
      | _ :: _ => match c with
        | .V => cycP f .V 1 rest cx0 cb
        | .W => cycP f .W 1 rest (cycP f .W 1 rest cx0 cb) cb
        | .F => iterP (fun v => cycP f .V 1 rest v cb) cpl (cycP f .F cpl rest cx0 cb)
        | .AMLI =>
          let a0 := L.amliStart cb
          let g0 := L.amliGuess 0 a0
          let a1 := L.amliUpdate 0 a0 (cycP f .AMLI 1 rest g0.1 g0.2)
          let g1 := L.amliGuess 1 a1
          L.amliOut (L.amliUpdate 1 a1 (cycP f .AMLI 1 rest g1.1 g1.2))
    L.post (L.prolong x1 cx) b

/-- one pass of the `while True` loop of `solve`: a one-level hierarchy calls the coarse solver on
`(A, b)` and ignores `x`; otherwise `__solve(0, x, b, cycle, cycles_per_level)` -/
def stepS (coarse : S → Vec → S × Vec) (c : Cyc) (cpl : Nat) (Ls : List (LvlS S Vec Acc)) (s : S) (x b : Vec) :
    S × Vec :=
  match Ls with
  | [] => coarse s b
  | _ :: _ => cycS coarse c cpl Ls s x b

def stepP (f : Vec → Vec) (c : Cyc) (cpl : Nat) (Ls : List (Lvl Vec Acc)) (x b : Vec) : Vec :=
  match Ls with
  | [] => f b
  | _ :: _ => cycP f c cpl Ls x b

/-! ## one `solve` call = a program over passes through the hierarchy -/

/-- `pass x b k`: run one pass (`stepS`) with iterate `x` and right-hand side `b`, continue with `k`
applied to its result; `ret r`: the call returns `r` -/
inductive Prog (Vec Res : Type)
  | ret (r : Res)
  | pass (x b : Vec) (k : Vec → Prog Vec Res)

/-- run a program against the stateful pass -/
def Prog.exec (step : S → Vec → Vec → S × Vec) : Prog Vec Res → S → S × Res
  | .ret r, s => (s, r)
  | .pass x b k, s => let r := step s x b; (k r.2).exec step r.1

/-- run a program against a pure pass -/
def Prog.eval (step : Vec → Vec → Vec) : Prog Vec Res → Res
  | .ret r => r
  | .pass x b k => (k (step x b)).eval step

/-- the un-accelerated loop: `while True: pass; it += 1; if normr < tol * normb: return x;
if it == maxiter: return x` (`stop x` = the residual test; `maxiter ≥ 1`); `fin` = packaging of the
result (`x`, `(x, info)`, the residual list) -/
def loopProg (stop : Vec → Bool) (fin : Vec → Nat → Res) (b : Vec) : Nat → Nat → Vec → Prog Vec Res
  | 0, it, x => .ret (fin x it)
  | k + 1, it, x => .pass x b (fun x' =>
      if stop x' then .ret (fin x' (it + 1)) else if k = 0 then .ret (fin x' (it + 1))
      else loopProg stop fin b k (it + 1) x')

/-- one `solve` call: the cycle arguments and what the call does with the passes -/
structure Call (Vec Res : Type) where
  cyc : Cyc
  cpl : Nat
  prog : Prog Vec Res

/-- an un-accelerated call: the loop of `solve` with the caller's `cycle` and `cycles_per_level` -/
def plainCall (cyc : Cyc) (cpl : Nat) (prog : Prog Vec Res) : Call Vec Res := ⟨cyc, cpl, prog⟩

/-- an accelerated call: every pass is `aspreconditioner(cycle).matvec`, i.e.
`solve(b, maxiter=1, cycle=cycle, tol=1e-12)` -- the caller's `cycles_per_level` is not forwarded -/
def accelCall (cyc : Cyc) (_cpl : Nat) (prog : Prog Vec Res) : Call Vec Res := ⟨cyc, 1, prog⟩

/-- a history of `solve` calls on one `MultilevelSolver` object -/
def runCalls (coarse : S → Vec → S × Vec) (Ls : List (LvlS S Vec Acc)) : S → List (Call Vec Res) → S × List Res
  | s, [] => (s, [])
  | s, c :: rest =>
    let r := c.prog.exec (fun s x b => stepS coarse c.cyc c.cpl Ls s x b) s
    let rs := runCalls coarse Ls r.1 rest
    (rs.1, r.2 :: rs.2)

/-- the same call on a solver whose coarse solver is the plain function `f` -/
def evalCall (f : Vec → Vec) (Ls : List (Lvl Vec Acc)) (c : Call Vec Res) : Res :=
  c.prog.eval (fun x b => stepP f c.cyc c.cpl Ls x b)

/-- the functions the levels compute, forgetting how the smoothers keep their parameters -/
def pureLevels (Ls : List (LvlS S Vec Acc)) : List (Lvl Vec Acc) := Ls.map (·.toLvl)

end PyamgV.C15
