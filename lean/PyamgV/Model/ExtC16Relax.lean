import PyamgV.Model.C16Coarse
import PyamgV.Model.ExtC09Block

/-! # C16 model, extension E29: the relaxation-type coarse solvers other than gauss_seidel / sor

`coarse_grid_solver(name)` for `name` in jacobi (with the spectral-radius estimate), block_jacobi,
block_gauss_seidel, richardson, chebyshev, jacobi_ne, gauss_seidel_ne, gauss_seidel_nr:

    lvl.A = A;  relax = smoothing.setup_<name>(lvl, **kwargs);  x = zeros_like(b);  relax(A, x, b)

Executable, scalar-polymorphic (`Rat`, Gaussian rationals with `conj`).  Everything the setup functions
compute inside the modelled arithmetic is computed here (the weights `1/diag(A Aᴴ)`, `1/diag(Aᴴ A)`, the
CSC arrays of `A`, `omega/rho`, `omega/rho²`, `-coefficients[:-1]`, the residuals, the sweeps).  What they
obtain from routines outside the model is a *recorded input* `Rec`:

* `rho`   the value returned by the spectral-radius estimate the setup calls (`rho_D_inv_A`,
          `rho_block_D_inv_A`, `approximate_spectral_radius`: Arnoldi from a random start vector);
* `dinv`  `get_block_diag(A, blocksize, inv_flag=True).ravel()`: the inverses of the diagonal blocks
          (LAPACK-style pseudo-inverse routine), exactly as handed to the block kernels;
* `cheb`  `chebyshev_polynomial_coefficients(rho·lower, rho·upper, degree)` (cosines);
* `bs`    the block size of the stored matrix (`A.blocksize[0]`, 1 for CSR) and its BSR arrays;
* `sj sp tx tp`  (extension E51, `schwarz`) the tuple `relaxation.schwarz_parameters(lvl.Acsr, ...)` returns to
          `setup_schwarz`: `subdomain`, `subdomain_ptr`, `inv_subblock` (LAPACK `gelss` pseudo-inverses of the
          subdomain blocks, row major), `inv_subblock_ptr`.

The kernels `jacobi`, `jacobi_ne`, `gauss_seidel_ne`, `gauss_seidel_nr` are the C09 kernel models of
`Model/KRelax.lean`; `block_jacobi`, `block_gauss_seidel` (relaxation.h) and `relaxation.polynomial`
are modelled here, loop by loop. -/
namespace PyamgV.C16R
open PyamgV.K hiding vadd vsub spmv smul vmap2
open PyamgV.C02 PyamgV.C16

variable {α : Type} [Add α] [Sub α] [Mul α] [Div α] [OfNat α 0] [OfNat α 1] [DecidableEq α]

/-! ## vectors -/

/-- `c * v` -/
def vscale (c : α) (v : Array α) : Array α := (Array.range v.size).map (fun i => c * rd v i)
/-- `u * v` (entrywise), shape of `u` -/
def vmul (u v : Array α) : Array α := (Array.range u.size).map (fun i => rd u i * rd v i)

/-! ## `relaxation.polynomial` (richardson, chebyshev) -/

/-- one iteration of `polynomial(A, x, b, coefficients)`:
`residual = b if norm(x) == 0 else b - A@x;  h = c₀·residual;  for c in rest: h = c·residual + A@h;  x += h`.
The caller guarantees `coeffs ≠ []` (`coefficients[0]`). -/
def polyStep (A : Csr α) (b : Array α) (coeffs : List α) (x : Array α) : Array α :=
  let r := if x.all (fun v => decide (v = 0)) then b else vsub b (spmv A x)
  match coeffs with
  | [] => x
  | c0 :: cs => vadd x (cs.foldl (fun h c => vadd (vscale c r) (spmv A h)) (vscale c0 r))

def pyPolynomial (A : Csr α) (b : Array α) (coeffs : List α) (iters : Nat) (x : Array α) : Array α :=
  iter (polyStep A b coeffs) iters x

/-! ## the normal-equation relaxations -/

/-- `get_diagonal(A, norm_eq=2, inv=True)`: `1 / Σ_j |a_ij|²` per stored row, `0` where that sum is `0`.
Applied to the CSC arrays it is `get_diagonal(A, norm_eq=1, inv=True)` (canonical storage: no duplicate
entries, as `sort_indices()`/`multiply` see it). -/
def dinvRows (conj : α → α) (A : Csr α) : Array α :=
  (Array.range A.n).map (fun i =>
    let d := (A.jjs i).foldl (fun s jj => s + rd A.ax jj * conj (rd A.ax jj)) (0 : α)
    if d = 0 then (0 : α) else (1 : α) / d)

/-- `relaxation.jacobi_ne(A, x, b, iterations, omega)` -/
def pyJacobiNE (conj : α → α) (ω : α) (A : Csr α) (b : Array α) (iters : Nat) (x : Array α) : Array α :=
  let Dinv := dinvRows conj A
  iter (fun x => jacobiNE conj ω A (vmul (vsub b (spmv A x)) Dinv) (List.range A.n) x) iters x

/-- one directional pass of `gauss_seidel_ne` (`row_start, row_stop, row_step = 0, len(x), 1` resp. reversed) -/
def nePass (conj : α → α) (ω : α) (A : Csr α) (b Dinv : Array α) (backward : Bool) (x : Array α) : Array α :=
  gaussSeidelNE conj ω A b Dinv (dirRows x.size backward) x

/-- `relaxation.gauss_seidel_ne(A, x, b, iterations, sweep, omega)`: `Dinv` computed once, `symmetric` = per
iteration a forward then a backward pass -/
def pyGaussSeidelNE (conj : α → α) (ω : α) (A : Csr α) (b : Array α) (iters : Nat) (sw : Sweep) (x : Array α) :
    Array α :=
  let Dinv := dinvRows conj A
  match sw with
  | .forward => iter (nePass conj ω A b Dinv false) iters x
  | .backward => iter (nePass conj ω A b Dinv true) iters x
  | .symmetric => iter (fun x => nePass conj ω A b Dinv true (nePass conj ω A b Dinv false x)) iters x

/-- `A @ x` for a matrix stored by columns (`C.jjs i` = the entries of column `i`, `C.aj` = row indices) -/
def cscMv (C : Csr α) (x : Array α) : Array α :=
  (List.range C.n).foldl (fun y i =>
    (C.jjs i).foldl (fun y jj => wr y (rdN C.aj jj) (rd y (rdN C.aj jj) + rd C.ax jj * rd x i)) y)
    (Array.replicate C.n (0 : α))

/-- a non-symmetric call of `gauss_seidel_nr`: `r = b - A@x` once, then `iterations` kernel sweeps on `(x, r)` -/
def nrRun (conj : α → α) (ω : α) (C : Csr α) (b Dinv : Array α) (backward : Bool) (iters : Nat) (x : Array α) :
    Array α × Array α :=
  iter (fun xr => gaussSeidelNR conj ω C Dinv (dirRows x.size backward) xr.1 xr.2) iters (x, vsub b (cscMv C x))

/-- `relaxation.gauss_seidel_nr(A, x, b, iterations, sweep, omega)` on the CSC arrays `C`; the symmetric sweep
recurses with `iterations=1` (the residual is recomputed by every recursive call) -/
def pyGaussSeidelNR (conj : α → α) (ω : α) (C : Csr α) (b : Array α) (iters : Nat) (sw : Sweep) (x : Array α) :
    Array α :=
  let Dinv := dinvRows conj C
  match sw with
  | .forward => (nrRun conj ω C b Dinv false iters x).1
  | .backward => (nrRun conj ω C b Dinv true iters x).1
  | .symmetric => iter (fun x => (nrRun conj ω C b Dinv true 1 (nrRun conj ω C b Dinv false 1 x).1).1) iters x

/-! ### `A.tocsc()`: the columns of a CSR matrix -/

/-- the stored entries of column `j` as (row, value), rows ascending, storage order within a row -/
def colList (A : Csr α) (j : Nat) : List (Nat × α) :=
  (List.range A.n).flatMap (fun i =>
    ((A.jjs i).filter (fun jj => rdN A.aj jj = j)).map (fun jj => (i, rd A.ax jj)))

/-- compressed arrays of `n` index/value lists -/
def ofRowLists (n : Nat) (rows : Nat → List (Nat × α)) : Csr α :=
  let ls := (List.range n).map rows
  ⟨n, ((List.range (n + 1)).map (fun i => (ls.take i).flatten.length)).toArray,
   (ls.flatten.map Prod.fst).toArray, (ls.flatten.map Prod.snd).toArray⟩

/-- the CSC arrays of `A` (square, `A.n` columns) -/
def cscOf (A : Csr α) : Csr α := ofRowLists A.n (colList A)

/-! ## the block kernels of relaxation.h (BSR arrays: `B.n` block rows, `B.ax` = the blocks, row-major) -/

/-- `gemm(M, bs, bs, 'F', v, bs, 1, 'F', y, bs, 1, 'F', 'T')`: `y_k = Σ_l M[k,l] v_l` for the block at `off` -/
def blockMv (ax : Array α) (off bs : Nat) (v : Nat → α) : Array α :=
  (Array.range bs).map (fun k => (List.range bs).foldl (fun s l => s + rd ax (off + k * bs + l) * v l) (0 : α))

/-- `rsum`: the off-diagonal blocks of block row `i` applied to `src` -/
def blockRsum (B : Csr α) (bs i : Nat) (src : Array α) : Array α :=
  (B.jjs i).foldl (fun rs jj =>
    let j := rdN B.aj jj
    if i = j then rs
    else
      let v := blockMv B.ax (jj * (bs * bs)) bs (fun l => rd src (j * bs + l))
      (Array.range bs).map (fun k => rd rs k + rd v k)) (Array.replicate bs (0 : α))

/-- `block_jacobi` (temp copied on the swept block rows only; `temp0` is the caller's buffer) -/
def blockJacobi (ω : α) (B : Csr α) (b dinv : Array α) (bs : Nat) (rows : List Nat) (temp0 x : Array α) : Array α :=
  let temp := rows.foldl (fun t i => (List.range bs).foldl (fun t k => wr t (i * bs + k) (rd x (i * bs + k))) t) temp0
  rows.foldl (fun x i =>
    let rs := blockRsum B bs i temp
    let v := blockMv dinv (i * (bs * bs)) bs (fun k => rd b (i * bs + k) - rd rs k)
    (List.range bs).foldl (fun x k => wr x (i * bs + k) ((1 - ω) * rd temp (i * bs + k) + ω * rd v k)) x) x

/-- `block_gauss_seidel` -/
def blockGaussSeidel (B : Csr α) (b dinv : Array α) (bs : Nat) (rows : List Nat) (x : Array α) : Array α :=
  rows.foldl (fun x i =>
    let rs := blockRsum B bs i x
    let v := blockMv dinv (i * (bs * bs)) bs (fun k => rd b (i * bs + k) - rd rs k)
    (List.range bs).foldl (fun x k => wr x (i * bs + k) (rd v k)) x) x

/-- `relaxation.block_jacobi(A, x, b, Dinv, blocksize, iterations, omega)`: all block rows, fresh `temp` -/
def pyBlockJacobi (ω : α) (B : Csr α) (b dinv : Array α) (bs iters : Nat) (x : Array α) : Array α :=
  iter (fun x => blockJacobi ω B b dinv bs (List.range B.n) (Array.replicate x.size 0) x) iters x

/-- one directional pass of `block_gauss_seidel` (`int(len(x)/blocksize)` block rows) -/
def bgsPass (B : Csr α) (b dinv : Array α) (bs : Nat) (backward : Bool) (x : Array α) : Array α :=
  blockGaussSeidel B b dinv bs (dirRows (x.size / bs) backward) x

/-- `relaxation.block_gauss_seidel(A, x, b, iterations, sweep, blocksize, Dinv)` -/
def pyBlockGaussSeidel (B : Csr α) (b dinv : Array α) (bs iters : Nat) (sw : Sweep) (x : Array α) : Array α :=
  match sw with
  | .forward => iter (bgsPass B b dinv bs false) iters x
  | .backward => iter (bgsPass B b dinv bs true) iters x
  | .symmetric => iter (fun x => bgsPass B b dinv bs true (bgsPass B b dinv bs false x)) iters x

/-! ## recorded inputs and the relaxation branch -/

/-- what the setup functions obtain from outside the model (see the header) -/
structure Rec (α : Type) where
  rho : Option α := none
  bs : Nat := 1
  bsr : Csr α := ⟨0, #[], #[], #[]⟩
  dinv : Array α := #[]
  cheb : Array α := #[]
  sj : Array Nat := #[]
  sp : Array Nat := #[]
  tx : Array α := #[]
  tp : Array Nat := #[]

/-- `-chebyshev_polynomial_coefficients(a, b, degree)[:-1]` -/
def chebCoeffs (cheb : Array α) : List α := (cheb.toList.dropLast).map (fun c => (0 : α) - c)

/-- the damping the setup hands to the kernel: `omega / f(rho)` when `withrho` (default `True`), else `omega`
(default `1.0`); `none` = the spectral-radius estimate was not recorded -/
def effOmega (o : Opts α) (rho : Option α) (f : α → α) : Option α :=
  if o.withrho.getD true then rho.map (fun ρ => o.omega.getD (1 : α) / f ρ) else some (o.omega.getD (1 : α))

/-- the recorded Schwarz parameters are what the kernel `overlapping_schwarz_csr` may be run on: at least the
leading pointer, one block pointer per subdomain pointer, every subdomain `d` is a slice of `sj` with indices `< n`
and its `m_d × m_d` block lies inside `tx` (anything else reads out of bounds in the C++ loop) -/
def schwarzRecOK (n : Nat) (ri : Rec α) : Bool :=
  decide (ri.sp.size ≠ 0) && decide (ri.tp.size = ri.sp.size) &&
  (List.range (ri.sp.size - 1)).all (fun d =>
    decide (rdN ri.sp d ≤ rdN ri.sp (d + 1)) && decide (rdN ri.sp (d + 1) ≤ ri.sj.size) &&
    decide (rdN ri.tp d + (rdN ri.sp (d + 1) - rdN ri.sp d) * (rdN ri.sp (d + 1) - rdN ri.sp d) ≤ ri.tx.size)) &&
  ri.sj.all (fun j => decide (j < n))

/-- `x = np.zeros_like(b); relax(A, x, b); return x` with `relax = setup_<name>(lvl, **kwargs)`,
`kwargs['iterations']` defaulting to 10 — every relaxation name (`schwarz`: with the default subdomains / blocks
computed by the setup, i.e. the options `iterations`, `sweep`).
Keyword arguments a setup function does not accept raise `TypeError`. -/
def relaxSolveR (conj : α → α) (name : String) (o : Opts α) (ri : Rec α) (A : Csr α) (b : Array α) :
    Except String (Array α) :=
  let iters := o.iterations.getD 10
  let x0 : Array α := Array.replicate b.size (0 : α)
  if b.size ≠ A.n then .error "shape"
  else if name = "gauss_seidel" ∨ name = "sor" then relaxSolve name o A b
  else if name = "jacobi" ∨ (name = "block_jacobi" ∧ ri.bs = 1) then
    if o.sweep.isSome then .error "TypeError"
    else match effOmega o ri.rho id with                         -- omega / rho_D_inv_A(lvl.A)
      | some ω => .ok (pyJacobi ω A b iters x0)
      | none => .error "no-rho"
  else if name = "block_jacobi" then
    if o.sweep.isSome then .error "TypeError"
    else if ri.dinv.size ≠ ri.bsr.n * (ri.bs * ri.bs) ∨ ri.bs = 0 then .error "bad-record"
    else match effOmega o ri.rho id with                         -- omega / rho_block_D_inv_A(lvl.A, Dinv)
      | some ω => .ok (pyBlockJacobi ω ri.bsr b ri.dinv ri.bs iters x0)
      | none => .error "no-rho"
  else if name = "block_gauss_seidel" then
    if o.omega.isSome || o.withrho.isSome then .error "TypeError"
    else if ri.bs = 1 then .ok (pyGaussSeidel (1 : α) A b iters (o.sweep.getD .forward) x0)
    else if ri.dinv.size ≠ ri.bsr.n * (ri.bs * ri.bs) ∨ ri.bs = 0 then .error "bad-record"
    else .ok (pyBlockGaussSeidel ri.bsr b ri.dinv ri.bs iters (o.sweep.getD .forward) x0)
  else if name = "richardson" then
    if o.sweep.isSome || o.withrho.isSome then .error "TypeError"
    else match ri.rho with                                       -- omega / approximate_spectral_radius(lvl.A)
      | some ρ => .ok (pyPolynomial A b [o.omega.getD (1 : α) / ρ] iters x0)
      | none => .error "no-rho"
  else if name = "chebyshev" then
    if o.sweep.isSome || o.withrho.isSome || o.omega.isSome then .error "TypeError"
    else if (chebCoeffs ri.cheb).isEmpty then .error "IndexError"
    else .ok (pyPolynomial A b (chebCoeffs ri.cheb) iters x0)
  else if name = "jacobi_ne" then
    if o.sweep.isSome then .error "TypeError"
    else match effOmega o ri.rho (fun ρ => ρ * ρ) with           -- omega / rho_D_inv_A(lvl.Acsr)**2
      | some ω => .ok (pyJacobiNE conj ω A b iters x0)
      | none => .error "no-rho"
  else if name = "gauss_seidel_ne" then
    if o.withrho.isSome then .error "TypeError"
    else .ok (pyGaussSeidelNE conj (o.omega.getD (1 : α)) A b iters (o.sweep.getD .forward) x0)
  else if name = "gauss_seidel_nr" then
    if o.withrho.isSome then .error "TypeError"
    else .ok (pyGaussSeidelNR conj (o.omega.getD (1 : α)) (cscOf A) b iters (o.sweep.getD .forward) x0)
  else if name = "schwarz" then
    -- relaxation.schwarz(lvl.Acsr, x, b, iterations, subdomain, subdomain_ptr, inv_subblock, inv_subblock_ptr, sweep)
    if o.omega.isSome || o.withrho.isSome then .error "TypeError"
    else if !schwarzRecOK A.n ri then .error "bad-record"
    else .ok (K.pySchwarz A b ri.tx ri.tp ri.sj ri.sp iters (o.sweep.getD .forward) x0)
  else .error "unmodelled"

/-- `GenericSolver.__call__(A, b)` of a relaxation-based coarse solver: the `A.nnz == 0` shortcut, the
relaxation from zeros, the reshape to `b.shape` (`C16.call` with this `solve`) -/
def relaxCallR (conj : α → α) (name : String) (o : Opts α) (ri : Rec α) (A : Csr α) (b : Arr α) :
    Except String (Arr α) :=
  if nnz A = 0 then .ok ⟨Array.replicate b.data.size (0 : α), b.shape⟩
  else ((relaxSolveR conj name o ri A b.data).map (fun x => (⟨x, b.shape⟩ : Arr α))).bind (fun x => reshape x b)

end PyamgV.C16R
