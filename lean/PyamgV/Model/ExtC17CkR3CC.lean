import PyamgV.Model.ExtC17Ck

/-! PyamgV (C17, extension E19, round 3): checked-execution (`Ck`) model of `connected_components`
(graph.h), written loop by loop after the C++.  The `std::stack<I> DFS` is an array used as a stack
(`push`, `back`, `pop`; not a checked access: it is a container, not a buffer of the caller).  The loop
`while(!DFS.empty())` runs on fuel `2n + 1` and is embedded with `orFault` (fuel exhausted = fault), so
`ok = true` also says that every depth-first search terminated.  Core Lean only. -/
namespace PyamgV.C17
open PyamgV.Ck

/-- state of the search: `components`, `DFS` -/
abbrev CCSt := Array Int × Array Int

/-- the neighbours of `top`: `if(components[j] == -1){ DFS.push(j); components[j] = component; }` -/
def ccVisit (ap aj : Array Int) (comp top : Int) (st : CCSt) : Ck CCSt := do
  let s ← rd ap top
  let e ← rd ap (top+1)
  forRange s e st (fun jj (st : CCSt) => do
    let j ← rd aj jj
    let cj ← rd st.1 j
    if cj = -1 then do
      let c ← wr st.1 j comp
      pure (c, st.2.push j)
    else pure st)

/-- one pass of the `while` body: `top = DFS.top(); DFS.pop();` then the neighbours of `top` -/
def ccPass (ap aj : Array Int) (comp : Int) (s : CCSt) : Ck CCSt :=
  ccVisit ap aj comp (s.2.getD (s.2.size - 1) 0) (s.1, s.2.pop)

/-- `while(!DFS.empty()){ .. }` with fuel; `none` = fuel exhausted -/
def ccWhile (ap aj : Array Int) (comp : Int) : Nat → Ck CCSt → Option (Ck CCSt)
  | 0, st => if st.val.2.size = 0 then some st else none
  | f+1, st =>
    if st.val.2.size = 0 then some st
    else ccWhile ap aj comp f (st >>= ccPass ap aj comp)

/-- `connected_components(num_nodes, Ap, Aj, components)`; returns `(components, component)` -/
def connectedComponents (n : Nat) (ap aj comps : Array Int) : Ck (Array Int × Int) := do
  -- `std::fill(components, components + num_nodes, -1)`
  let c ← forRange 0 (n : Int) comps (fun i (c : Array Int) => wr c i (-1))
  forRange 0 (n : Int) (c, (0 : Int)) (fun i (st : Array Int × Int) => do
    let ci ← rd st.1 i
    if ci = -1 then do
      let c ← wr st.1 i st.2
      let r ← orFault (ccWhile ap aj st.2 (2 * n + 1) (pure (c, #[i])))
      pure (r.1, st.2 + 1)
    else pure st)

end PyamgV.C17
