import PyamgV.Model.C07Gmres
/-! PyamgV (C19, extension E39): executable model of `_approximate_eigenvalues` (`pyamg/util/linalg.py:154-257`),
the Krylov process behind `approximate_spectral_radius` and `condest`.

* `arnStep`  -- the `else:` branch of the loop body (general matrices): `w = A V[-1]`, modified Gram-Schmidt against
  every stored vector in order (`H[i, j] = <v_i, w>; w = w - H[i, j] v_i` -- this is `C07.orthO`),
  `H[j+1, j] = norm(w)`, the breakdown test `H[j+1, j] < breakdown` (the vector is still appended, divided by the
  norm unless that norm is exactly zero, and the loop is left), otherwise `w / H[j+1, j]` is appended;
* `lanStep`  -- the `if symmetric:` branch: three-term recurrence on the last two vectors (`V = V[-2:]`),
  `alpha = <w, v_j>`, `beta = norm(w)`, breakdown leaves the loop *before* normalising;
* `approxEig` -- `maxiter = min(n, maxiter)`, `v0 /= norm(v0)`, the loop; `none` when `min(n, maxiter) = 0`
  (the code then fails with an unbound `j`).

Everything is written over the abstract vector operations `C07.Ops K V`, a vector-by-scalar division
(`w / beta` is an elementwise division in the code, not a multiplication with the reciprocal) and a square-root
function.  The driver runs it on `Vector Float n` with `Float.sqrt` (op `ext_c19_arnoldi`), the theorems of
`Proofs/ExtC19SArnoldi*.lean` are about the same definitions over a module over an ordered field with an exact
square root.  The restart loop of `approximate_spectral_radius` calls this function once per cycle with the
start vector `V W[:, argmax]`; the eigen-decomposition of the small Hessenberg matrix is LAPACK's and is not
modelled: the harness feeds the start vector of every cycle of the real run to the model.  Core Lean only. -/
namespace PyamgV.C19S
open PyamgV.C07

section
variable {K V : Type} [Add K] [Sub K] [Mul K] [Div K] [OfNat K 0] [OfNat K 1]

/-- loop state of `_approximate_eigenvalues` -/
structure AeSt (K V : Type) where
  vs : List V            -- the Python list `V`
  cols : List (List K)   -- the columns of `H` written so far; column `j` holds `H[0 .. j+1, j]`
  beta : K               -- `beta` (symmetric branch only)
  brk : Bool             -- `breakdown_flag`; once set the loop has been left

/-- `norm(w)`: `sqrt(inner(conj w, w).real)` -/
def nrmO (o : Ops K V) (sqrt : K → K) (w : V) : K := sqrt (o.dot w w)

/-- loop body, `symmetric` false (Arnoldi with modified Gram-Schmidt) -/
def arnStep (o : Ops K V) (vdiv : V → K → V) (sqrt : K → K) (lt : K → K → Bool) (isz : K → Bool) (tol : K)
    (s : AeSt K V) : AeSt K V :=
  if s.brk then s else
  match s.vs.getLast? with
  | none => s
  | some vk =>
    let r := orthO o s.vs (o.A vk)        -- `for i, v in enumerate(V): H[i, j] = <v, w>; w = w - H[i, j] v`
    let h := nrmO o sqrt r.1              -- `H[j+1, j] = norm(w)`
    let col := r.2 ++ [h]
    if lt h tol then                      -- `if H[j+1, j] < breakdown:`
      ⟨s.vs ++ [if isz h then r.1 else vdiv r.1 h], s.cols ++ [col], s.beta, true⟩
    else
      ⟨s.vs ++ [vdiv r.1 h], s.cols ++ [col], s.beta, false⟩

/-- loop body, `symmetric` true (Lanczos three-term recurrence, only the last two vectors are kept) -/
def lanStep (o : Ops K V) (vdiv : V → K → V) (sqrt : K → K) (lt : K → K → Bool) (tol : K)
    (s : AeSt K V) : AeSt K V :=
  if s.brk then s else
  match s.vs.reverse with
  | [] => s
  | vk :: rest =>
    let j := s.cols.length
    let w0 := o.A vk
    -- `if j >= 1: H[j-1, j] = beta; w -= beta * V[-2]`  (`V` has two entries exactly when `j >= 1`)
    let w1 := match rest with
      | vp :: _ => if j ≥ 1 then o.sub w0 (o.smul s.beta vp) else w0
      | [] => w0
    let alpha := o.dot w1 vk               -- `np.dot(np.conjugate(w), V[-1])`
    let w2 := o.sub w1 (o.smul alpha vk)
    let beta := nrmO o sqrt w2
    let col := (if j ≥ 1 then List.replicate (j - 1) 0 ++ [s.beta] else []) ++ [alpha, beta]
    if lt beta tol then ⟨s.vs, s.cols ++ [col], beta, true⟩
    else ⟨[vk, vdiv w2 beta], s.cols ++ [col], beta, false⟩

/-- `v0 /= norm(v0); V = [v0]; beta = 0.0` -/
def aeInit (o : Ops K V) (vdiv : V → K → V) (sqrt : K → K) (v0 : V) : AeSt K V :=
  ⟨[vdiv v0 (nrmO o sqrt v0)], [], 0, false⟩

/-- the state when the loop of `_approximate_eigenvalues` is left after `k` passes -/
def aeRun (o : Ops K V) (vdiv : V → K → V) (sqrt : K → K) (lt : K → K → Bool) (isz : K → Bool) (tol : K)
    (symmetric : Bool) (v0 : V) (k : Nat) : AeSt K V :=
  iter (if symmetric then lanStep o vdiv sqrt lt tol else arnStep o vdiv sqrt lt isz tol) k (aeInit o vdiv sqrt v0)

/-- `_approximate_eigenvalues(A, maxiter, symmetric, initial_guess = v0)` for an `n x n` operator: the final state.
The Ritz values are the eigenvalues of the leading square block of order `cols.length` of `H`. -/
def approxEig (o : Ops K V) (vdiv : V → K → V) (sqrt : K → K) (lt : K → K → Bool) (isz : K → Bool) (tol : K)
    (symmetric : Bool) (n maxiter : Nat) (v0 : V) : Option (AeSt K V) :=
  let m := min n maxiter
  if m = 0 then none else some (aeRun o vdiv sqrt lt isz tol symmetric v0 m)

/-- entry `(i, j)` of the Hessenberg matrix the columns stand for -/
def hEntry (cols : List (List K)) (i j : Nat) : K := (cols.getD j []).getD i 0
end

/-- the instance on `Vector K n` (`C07.vecOps`, elementwise division): `A` by rows, start vector `v0`; returns
`(V, columns of H, breakdown_flag)`; `none` when the shapes do not fit or `min(n, maxiter) = 0` -/
def approxEigVec {K : Type} [Add K] [Sub K] [Mul K] [Div K] [OfNat K 0] [OfNat K 1]
    (sqrt : K → K) (lt : K → K → Bool) (isz : K → Bool)
    (A : List (List K)) (tol : K) (symmetric : Bool) (maxiter : Nat) (v0 : List K) :
    Option (List (List K) × List (List K) × Bool) :=
  let n := v0.length
  match toMat? n A, toVec? n v0 with
  | some A, some v0 =>
    let o := vecOps (fun a => a) A A
    match approxEig o (fun v c => v.map (· / c)) sqrt lt isz tol symmetric n maxiter v0 with
    | none => none
    | some s => some (s.vs.map (·.toList), s.cols, s.brk)
  | _, _ => none

/-- the `Float` instance the driver runs; `tol` is the breakdown tolerance as the code computes it (`1e6 * eps`) -/
def approxEigFloat : List (List Float) → Float → Bool → Nat → List Float →
    Option (List (List Float) × List (List Float) × Bool) :=
  approxEigVec Float.sqrt (fun a b => a < b) (fun a => a == 0)

/-- square root of a rational number, exact on squares of rationals (for the examples) -/
def sqrtQ (q : Rat) : Rat := (Nat.sqrt q.num.toNat : Rat) / (Nat.sqrt q.den : Rat)

/-- the exact instance on rational data (meaningful when every norm that occurs is rational) -/
def approxEigRat : List (List Rat) → Rat → Bool → Nat → List Rat →
    Option (List (List Rat) × List (List Rat) × Bool) :=
  approxEigVec sqrtQ (fun a b => decide (a < b)) (fun a => decide (a = 0))

end PyamgV.C19S
