import PyamgV.Model.ExtC12Lloyd
import PyamgV.Model.C14
/-! PyamgV (C12, extension E56), executable, core only: the `measure` argument of `lloyd_aggregation` on COMPLEX strength
values and on stored zeros under `measure='inv'` (both were outside the model `ExtLloyd.applyMeasure`).

What `pyamg/aggregation/aggregate.py: lloyd_aggregation` does (after the repair 30b9508), entry by entry, for `C.data = z`:

    measure   None     'abs'    'inv'        'unit'   'min'
    data      z        |z|      1.0 / |z|    1.0      z - min(z)      (NumPy: complex `min` is lexicographic (re, im))
    complex dtype: data = real(data)   ->   re z   |z|   1/|z|   1   re z - min re z
    `data.min() < 0` -> ValueError('Lloyd aggregation requires a positive measure.')

`1.0 / 0` is `+inf` (a RuntimeWarning, no error).  An edge of length `+inf` is never relaxed by the `bellman_ford`
kernel (`d[i] + inf < d[j]` is false for every `d[j]`), neither in `lloyd_cluster` nor in the pass nested in
`most_interior_nodes`, but it IS an entry of the sparsity pattern for the boundary test of `most_interior_nodes`
(`m[i] != m[Aj[jj]]`).  The model therefore carries weights in `Option Rat` (`none = +inf`) and runs Lloyd on two
matrices: the pattern `P` (boundary test) and `G = P` without its `+inf` entries (both Bellman–Ford passes):
`lloydClusterX P G`.  `lloydClusterX A A` is `ExtLloyd.lloydCluster A` (by definition: `Proofs/ExtC12ZMeas.lean`).

`|z|` is `sq (re² + im²)` for a parameter `sq : Rat → Option Rat` (`none` = refuse); the driver passes the exact
rational square root `C14.sqrtQ?` (irrational moduli are refused: the check generates Gaussian rationals with
rational modulus).  Real input is the special case `im = 0`. -/
namespace PyamgV.C12ZM
open PyamgV PyamgV.N PyamgV.ExtLloyd

/-- a weight: `none = +inf` -/
abbrev W := Option Rat

def minRe (x : Array CRat) : Rat :=
  x.toList.foldl (fun a z => if z.re < a then z.re else a) ((x.getD 0 ⟨0, 0⟩).re)

/-- one entry of `data` after the measure and `np.real`; outer `none` = `sq` refuses the modulus -/
def measureEntry (sq : Rat → Option Rat) (measure : String) (mn : Rat) (z : CRat) : Option W :=
  match measure with
  | "None" => some (some z.re)
  | "abs" => (sq (CRat.normSq z)).map some
  | "inv" => (sq (CRat.normSq z)).map fun r => if r = 0 then none else some (1 / r)
  | "unit" => some (some 1)
  | "min" => some (some (z.re - mn))
  | _ => none

def knownMeasure (measure : String) : Bool :=
  measure == "None" || measure == "abs" || measure == "inv" || measure == "unit" || measure == "min"

/-- `data` of `lloyd_aggregation` for complex (or real: `im = 0`) stored values; `none` = not modelled -/
def applyMeasureC (sq : Rat → Option Rat) (measure : String) (x : Array CRat) : Option (Array W) :=
  if knownMeasure measure then (x.toList.mapM (measureEntry sq measure (minRe x))).map List.toArray else none

/-- the stored entries with a finite weight, row by row (order kept) -/
def dropInf (n : Nat) (ap aj : Array Nat) (w : Array W) : Csr :=
  let rows := (List.range n).map fun i =>
    (List.range' (rdN ap i) (rdN ap (i+1) - rdN ap i)).filterMap fun jj =>
      match w.getD jj none with
      | some v => some (rdN aj jj, v)
      | none => none
  let r := rows.foldl (fun (s : Array Nat × Array Nat × Array Rat) row =>
      let sj := row.foldl (fun a e => a.push e.1) s.2.1
      let sx := row.foldl (fun a e => a.push e.2) s.2.2
      (s.1.push sj.size, sj, sx)) (#[0], #[], #[])
  ⟨n, r.1, r.2.1, r.2.2⟩

/-! ### Lloyd on a pattern `P` (boundary test) and a weighted graph `G` (Bellman–Ford) -/

def mostInteriorX (P G : Csr) (c : Array Nat) (m p : Array Int) : Option (Array Nat × DMP × Bool) :=
  let r := bellmanFord G (boundary P m) m p
  if r.2.2.2 then
    let cc := newCentres G.n c r.1 r.2.1
    some (cc.1, (r.1, r.2.1, r.2.2.1), cc.2)
  else none

def iterX (P G : Csr) (c : Array Nat) : Option (Array Nat × Array Int × Bool) :=
  let s := initState G.n c
  let r := bellmanFord G s.1 s.2.1 s.2.2
  if r.2.2.2 then
    match mostInteriorX P G c r.2.1 r.2.2.1 with
    | none => none
    | some (c', s', ch) => some (c', s'.2.1, ch)
  else none

def lloydLoopX (P G : Csr) : Nat → Array Nat → Array Int → Option (Array Int × Array Nat)
  | 0, c, m => some (m, c)
  | k+1, c, _ =>
    match iterX P G c with
    | none => none
    | some (c', m', ch) => if ch then lloydLoopX P G k c' m' else some (m', c')

def lloydClusterX (P G : Csr) (c : Array Int) (maxiter : Nat) : Except String (Option (Array Int × Array Nat)) :=
  if accepts G c then
    let cn := c.map Int.toNat
    .ok (lloydLoopX P G maxiter cn (initState G.n cn).2.1)
  else .error "ValueError"

/-- `v < 0` for a weight (`+inf < 0` is false) -/
def negW (v : W) : Bool := match v with | some q => decide (q < 0) | none => false

/-- `lloyd_aggregation(C, ratio, measure, maxiter)` for complex / real `C` (CSR arrays `n, ap, aj, x`), `perm` the
replayed permutation; `.error "unmodelled"` = unknown measure or a modulus `sq` refuses -/
def lloydAggregationC (sq : Rat → Option Rat) (n : Nat) (ap aj : Array Nat) (x : Array CRat) (measure : String)
    (ratio : Rat) (perm : Array Int) (maxiter : Nat) :
    Except String (Option ((Array Nat × Array Nat × Array Int) × Array Nat)) :=
  if ratio ≤ 0 ∨ 1 < ratio then .error "ValueError" else
  match applyMeasureC sq measure x with
  | none => .error "unmodelled"
  | some w =>
    if w.toList.any negW then .error "ValueError" else
    let P : Csr := ⟨n, ap, aj, w.map (fun v => v.getD 0)⟩
    let G : Csr := if w.toList.all (fun v => v.isSome) then P else dropInf n ap aj w
    match lloydClusterX P G (perm.extract 0 (naggs ratio n)) maxiter with
    | .error e => .error e
    | .ok none => .ok none
    | .ok (some (cl, ce)) => .ok (some (aggOp cl, ce))

/-- the exact instance the driver runs -/
def lloydAggregationQ := lloydAggregationC C14.sqrtQ?

end PyamgV.C12ZM
